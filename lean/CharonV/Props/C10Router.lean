/-
C10 (and the totality clause of C14) at the HTTP door of the validator API:
`core/validatorapi/router.go` in front of `validatorapi.Component`.

C10: "A partial signature is admitted into a node, whether submitted by its validator client or
received from a peer, only if it verifies for the submitted object's own signing root, domain and
epoch under the public key share recorded in the cluster lock for that validator and share index.
Anything else … is rejected before it reaches storage, other peers or aggregation; this holds for
every duty type."
C14 (clause): "Arbitrary, truncated, type-confused or structurally incomplete data arriving … is either
rejected with an error or decoded into a value the node can handle safely; in no case does
receiving, verifying, storing or re-encoding it crash the process."

Property theorems only (helper lemmas: `CharonV.Proofs.Router`, `CharonV.Proofs.Admit`). All
theorems quantify over an arbitrary body type and an arbitrary decoder `decode`, an arbitrary
symbolic `verify`, every lock, every `pubKeyByAttestation` table, every request (endpoint, method,
content-type header, version header, body), every share index of the node, any number of
subscribers, every Go map iteration order and every subscriber-failure position.
-/
import CharonV.Proofs.Router

namespace CharonV.Router

open CharonV.Admit

variable {β : Type} (decode : Decoder β) (verify : VerifyFn) (L : Lock) (env : AttEnv)

/-- **Everything that reaches a subscriber through the router is a valid partial signature.** Every
partial in every set handed to a subscriber by a request that came in through any of the fourteen
POST endpoints verifies under exactly the lock's key share for the validator it is filed under and
this node's share index, for the object's own domain, epoch and signing root, and is not the zero
signature; the duty is the one of the Component method behind the endpoint; and the payload is one
of the decoded elements of the body (converted as `toItem` says), filed under the validator that
element resolves to and under its own slot. -/
theorem router_admitted_valid (idx : ShareIdx) (nsub : Nat) (ord : List GKey → List GKey)
    (failAt : Option Nat) (rq : Request β) (c : Call)
    (hc : c ∈ (serve decode verify L env idx nsub ord failAt rq).2) :
    ∃ ep elems, rq.route.handling = .handler ep ∧ route decode rq = .call ep elems ∧
      c.dutyTy = ep.dutyTy ∧
      ∀ e ∈ c.set, Valid verify L e.1 e.2 ∧ e.2.idx = idx ∧
        ∃ el ∈ elems, ∃ it, toItem env el = some it ∧ it.obj = e.2.obj ∧ it.val = some e.1 ∧
          it.slot = c.slot := by
  unfold serve at hc
  split at hc
  · cases hc
  · rename_i ep elems hr
    obtain ⟨enc, v, hargs, _, _⟩ := route_call hr
    obtain ⟨_, _, _, hh, _⟩ := decodeArgs_ok hargs
    obtain ⟨_, hc'⟩ := component_calls hc
    obtain ⟨hd, hall⟩ := admitVC_valid hc'
    refine ⟨ep, elems, hh, hr, hd, ?_⟩
    intro e he
    obtain ⟨hv, hi, it, hit, ho, hval, hs⟩ := hall e he
    obtain ⟨el, hel, htoi⟩ := List.mem_filterMap.mp hit
    exact ⟨hv, hi, el, hel, it, htoi, ho, hval, hs⟩

/-- the same for `GET /eth/v3/validator/blocks/{slot}` (the randao reveal). -/
theorem propose_admitted_valid (idx : ShareIdx) (nsub : Nat) (paramsOk : Bool) (it : Item) (c : Call)
    (hc : c ∈ (servePropose verify L idx nsub paramsOk it).2) :
    paramsOk = true ∧ c.dutyTy = Endpoint.proposal.dutyTy ∧
    ∀ e ∈ c.set, Valid verify L e.1 e.2 ∧ e.2.idx = idx ∧ e.2.obj = it.obj ∧ it.val = some e.1 := by
  unfold servePropose at hc
  split at hc
  · cases hc
  · rename_i hp
    obtain ⟨hd, hall⟩ := admitVC_valid hc
    refine ⟨by simpa using hp, hd, ?_⟩
    intro e he
    obtain ⟨hv, hi, it', hit, ho, hval, _⟩ := hall e he
    have : it' = it := by simpa using hit
    subst this
    exact ⟨hv, hi, ho.symm, hval⟩

/-- **The body is passed on unchanged.** When the router calls the Component, the elements it hands
over are exactly the list the decoder returned for this body — the same list: same order, nothing
dropped, nothing duplicated — decoded with the encoding named by the Content-Type header and the
version named by the version header (`decodeArgs`). And for any encoder that the decoder inverts
(round trip), a request whose body is the encoding of `es` makes the router call the Component with
exactly `es`; the request as a whole is then answered as the Component answers `es`. -/
theorem router_passes_body_unchanged (rq : Request β) :
    (∀ ep elems, route decode rq = .call ep elems →
        ∃ enc v, decodeArgs rq = .ok (ep, enc, v) ∧ decode enc rq.route v rq.body = .ok elems) ∧
    (∀ (encode : Enc → Route → Option Version → List Elem → β),
        (∀ enc r v es, decode enc r v (encode enc r v es) = .ok es) →
        ∀ ep enc v es, decodeArgs rq = .ok (ep, enc, v) → rq.body = encode enc rq.route v es →
        (rq.route.nullIsDecodeError = true → es.contains .nil = false) →
        route decode rq = .call ep es ∧
        ∀ idx nsub ord failAt, serve decode verify L env idx nsub ord failAt rq =
          component verify L env idx nsub ord failAt rq.route ep es) := by
  constructor
  · intro ep elems h
    obtain ⟨enc, v, ha, hd, _⟩ := route_call h
    exact ⟨enc, v, ha, hd⟩
  · intro encode hrt ep enc v es hargs hbody hnil
    have hroute : route decode rq = .call ep es := by
      unfold route
      rw [hargs]
      simp only
      rw [hbody, hrt]
      unfold afterDecode
      cases hne : rq.route.nullIsDecodeError
      · simp
      · have hm : Elem.nil ∉ es := by simpa using hnil hne
        simp [hm]
    refine ⟨hroute, ?_⟩
    intro idx nsub ord failAt
    unfold serve
    rw [hroute]

/-- **Elements are independent of each other.** The element handed to the Component at position `k`
is the decoder's element `k` of this body, and what the Component sees of it (`toItem`) is a function
of that element alone: for two requests to the same endpoint with the same method, Content-Type and
version header, whose decoded bodies agree at position `k`, the Component is handed the same element
at position `k` — whatever the other elements of the two bodies are. (A router that lets the elements
of one request share sub-objects — the attestation data of the first element with the same slot and
block root, the aggregate of the first element of the same committee — is not of this form: there the
element at position `k` depends on element 0.) -/
theorem router_elements_independent (rq rq' : Request β)
    (hr : rq'.route = rq.route) (hm : rq'.method = rq.method) (hct : rq'.ct = rq.ct)
    (hv : rq'.version = rq.version) (ep ep' : Endpoint) (elems elems' : List Elem)
    (h : route decode rq = .call ep elems) (h' : route decode rq' = .call ep' elems') :
    ep' = ep ∧
    ∃ enc v, decodeArgs rq = .ok (ep, enc, v) ∧
      decode enc rq.route v rq.body = .ok elems ∧ decode enc rq.route v rq'.body = .ok elems' ∧
      ∀ k : Nat, (elems.map (toItem env))[k]? = (elems[k]?).map (toItem env) ∧
        (elems[k]? = elems'[k]? →
          (elems.map (toItem env))[k]? = (elems'.map (toItem env))[k]?) := by
  obtain ⟨enc, v, hargs, hd, _⟩ := route_call h
  obtain ⟨enc', v', hargs', hd', _⟩ := route_call h'
  have hsame : decodeArgs rq' = decodeArgs rq := by
    unfold decodeArgs
    rw [hr, hm, hct, hv]
  rw [hsame, hargs] at hargs'
  have hinj := Except.ok.inj hargs'
  have h1 : ep = ep' := (Prod.mk.inj hinj).1
  have h2 : enc = enc' := (Prod.mk.inj (Prod.mk.inj hinj).2).1
  have h3 : v = v' := (Prod.mk.inj (Prod.mk.inj hinj).2).2
  subst h1 h2 h3
  refine ⟨rfl, enc, v, hargs, hd, by rw [← hr]; exact hd', ?_⟩
  intro k
  refine ⟨by simp, ?_⟩
  intro hk
  simp [hk]

/-- when no element is a JSON `null`, the Component stage is `Admit.admitVC` on the converted
elements, in the order of the body: the router adds no decision of its own after decoding. -/
theorem router_composes_with_admit (idx : ShareIdx) (nsub : Nat) (ord : List GKey → List GKey)
    (failAt : Option Nat) (rq : Request β) (ep : Endpoint) (elems : List Elem)
    (h : route decode rq = .call ep elems) (hn : elems.contains .nil = false) :
    serve decode verify L env idx nsub ord failAt rq =
      (statusOf (admitVC verify L idx nsub ord failAt ep (elems.filterMap (toItem env))).1,
       (admitVC verify L idx nsub ord failAt ep (elems.filterMap (toItem env))).2) := by
  unfold serve
  rw [h]
  exact component_no_nil hn

/-
Full statement wanted by the property: "a malformed body, a wrong content type, a missing or unknown
version header where one is required ⇒ a 4xx answer and no Component call". The code as it is
answers 500 in several of these cases (`submitAttestations`, `submitProposal`, `submitBlindedBlock`
replace the 400 / 415 of `unmarshal` by `errors.New(…)`, and a missing / unknown / unsupported
version header is a plain error): see `malformed_is_not_always_4xx` below. What holds:
-/

/-- **Malformed requests are refused without a Component call** (as the code is). A request whose
Content-Type names neither JSON nor SSZ, or an encoding the endpoint does not accept, or — on an
endpoint that requires it — whose version header is missing, unknown or names a version the endpoint
has no case for, or whose body the decoder does not accept (for every encoding and version), is
answered by the router layer itself: no Component method is called, no subscriber sees anything, the
status is not 200 — except on the registration endpoint, which answers 200 without reading the body.
The status is 415 for the content-type cases and 500 for the version-header cases. -/
theorem router_rejects_malformed_partial (idx : ShareIdx) (nsub : Nat) (ord : List GKey → List GKey)
    (failAt : Option Nat) (rq : Request β)
    (hbad : contentType rq.ct = none ∨
      (∃ enc, contentType rq.ct = some enc ∧ rq.route.encodings.contains enc = false) ∨
      (rq.route.needsVersion = true ∧ (parseVersion rq.version = none ∨
          ∃ v, parseVersion rq.version = some v ∧ rq.route.supports v = false)) ∨
      (rq.route.handling ≠ .ignore ∧ ∀ enc v es, decode enc rq.route v rq.body ≠ .ok es)) :
    (∃ s, route decode rq = .respond s ∧ s ≠ .ok200 ∧
      serve decode verify L env idx nsub ord failAt rq = (s, []) ∧
      (rq.method = .post → contentType rq.ct = none → s = .media415) ∧
      (rq.method = .post → (∃ enc, contentType rq.ct = some enc ∧
          rq.route.encodings.contains enc = false) → s = .enc415)) := by
  have key : ∀ s, route decode rq = .respond s →
      serve decode verify L env idx nsub ord failAt rq = (s, []) := by
    intro s hs; unfold serve; rw [hs]
  cases hm : rq.method with
  | other =>
    have : decodeArgs rq = .error .proxied := by unfold decodeArgs; simp [hm]
    have hr := route_respond_of_args_error (decode := decode) this
    exact ⟨_, hr, by simp, key _ hr, by simp, by simp⟩
  | post =>
    cases hct : contentType rq.ct with
    | none =>
      have : decodeArgs rq = .error .media415 := by unfold decodeArgs; simp [hm, hct]
      have hr := route_respond_of_args_error (decode := decode) this
      exact ⟨_, hr, by simp, key _ hr, by simp, by simp⟩
    | some enc =>
      cases hin : rq.route.encodings.contains enc with
      | false =>
        have hin' : enc ∉ rq.route.encodings := by simpa using hin
        have : decodeArgs rq = .error .enc415 := by unfold decodeArgs; simp [hm, hct, hin']
        have hr := route_respond_of_args_error (decode := decode) this
        exact ⟨_, hr, by simp, key _ hr, by simp, by simp⟩
      | true =>
        have hin' : enc ∈ rq.route.encodings := by simpa using hin
        -- method and content type are fine: the version header or the body is bad
        have hbad' : (rq.route.needsVersion = true ∧ (parseVersion rq.version = none ∨
              ∃ v, parseVersion rq.version = some v ∧ rq.route.supports v = false)) ∨
            (rq.route.handling ≠ .ignore ∧ ∀ enc v es, decode enc rq.route v rq.body ≠ .ok es) := by
          rcases hbad with h | ⟨e, he, hf⟩ | h | h
          · simp [hct] at h
          · rw [hct] at he; cases he; rw [hin] at hf; cases hf
          · exact Or.inl h
          · exact Or.inr h
        cases hh : rq.route.handling with
        | notFound =>
          have : decodeArgs rq = .error .notFound404 := by unfold decodeArgs; simp [hm, hct, hin', hh]
          have hr := route_respond_of_args_error (decode := decode) this
          exact ⟨_, hr, by simp, key _ hr, by simp, by simp [hin']⟩
        | ignore =>
          -- the registration endpoint: not versioned, and excluded from the body clause
          rcases hbad' with ⟨hnv, _⟩ | ⟨hni, _⟩
          · have : rq.route = .registration := by
              cases hr : rq.route <;> simp [hr, Route.handling] at hh <;> rfl
            rw [this] at hnv; cases hnv
          · exact absurd hh hni
        | handler ep =>
          cases hnv : rq.route.needsVersion with
          | true =>
            cases hpv : parseVersion rq.version with
            | none =>
              have : decodeArgs rq = .error .ise500 := by
                unfold decodeArgs; simp [hm, hct, hin', hh, hnv, hpv]
              have hr := route_respond_of_args_error (decode := decode) this
              exact ⟨_, hr, by simp, key _ hr, by simp, by simp [hin']⟩
            | some v =>
              cases hs : rq.route.supports v with
              | false =>
                have : decodeArgs rq = .error .ise500 := by
                  unfold decodeArgs; simp [hm, hct, hin', hh, hnv, hpv, hs]
                have hr := route_respond_of_args_error (decode := decode) this
                exact ⟨_, hr, by simp, key _ hr, by simp, by simp [hin']⟩
              | true =>
                have hdec : ∀ es, decode enc rq.route (some v) rq.body ≠ .ok es := by
                  rcases hbad' with ⟨_, h | ⟨w, hw, hws⟩⟩ | ⟨_, h⟩
                  · rw [hpv] at h; cases h
                  · rw [hpv] at hw; cases hw; rw [hs] at hws; cases hws
                  · exact h enc (some v)
                have hargs : decodeArgs rq = .ok (ep, enc, some v) := by
                  unfold decodeArgs; simp [hm, hct, hin', hh, hnv, hpv, hs]
                have hr : route decode rq = .respond (if rq.route.keepsApiError then
                    unmarshalStatus enc (decode enc rq.route (some v) rq.body) else .ise500) := by
                  unfold route; rw [hargs]; exact afterDecode_not_ok hdec
                refine ⟨_, hr, ?_, key _ hr, by simp, by simp [hin']⟩
                cases rq.route.keepsApiError
                · simp
                · simp only [if_true]
                  cases hd : decode enc rq.route (some v) rq.body with
                  | ok es => exact absurd hd (hdec es)
                  | empty => simp [unmarshalStatus]
                  | fail => cases enc <;> simp [unmarshalStatus]
                  | noSsz => simp [unmarshalStatus]
          | false =>
            have hdec : ∀ es, decode enc rq.route none rq.body ≠ .ok es := by
              rcases hbad' with ⟨h, _⟩ | ⟨_, h⟩
              · rw [hnv] at h; cases h
              · exact h enc none
            have hargs : decodeArgs rq = .ok (ep, enc, none) := by
              unfold decodeArgs; simp [hm, hct, hin', hh, hnv]
            have hr : route decode rq = .respond (if rq.route.keepsApiError then
                unmarshalStatus enc (decode enc rq.route none rq.body) else .ise500) := by
              unfold route; rw [hargs]; exact afterDecode_not_ok hdec
            refine ⟨_, hr, ?_, key _ hr, by simp, by simp [hin']⟩
            cases rq.route.keepsApiError
            · simp
            · simp only [if_true]
              cases hd : decode enc rq.route none rq.body with
              | ok es => exact absurd hd (hdec es)
              | empty => simp [unmarshalStatus]
              | fail => cases enc <;> simp [unmarshalStatus]
              | noSsz => simp [unmarshalStatus]

/-- on the endpoints whose handlers keep the `apiError` of `unmarshal` (everything but
attestations, proposals and blinded blocks), a body that does not decode is answered with a 4xx:
400 for an empty or unparsable JSON body. -/
theorem router_undecodable_4xx (rq : Request β) (ep : Endpoint) (enc : Enc) (v : Option Version)
    (hargs : decodeArgs rq = .ok (ep, enc, v)) (hk : rq.route.keepsApiError = true)
    (hdec : ∀ es, decode enc rq.route v rq.body ≠ .ok es) :
    ∃ s, route decode rq = .respond s ∧ s.is4xx = true := by
  refine ⟨unmarshalStatus enc (decode enc rq.route v rq.body), ?_, ?_⟩
  · unfold route; rw [hargs]; simp only; rw [afterDecode_not_ok hdec, hk]; rfl
  · cases hd : decode enc rq.route v rq.body with
    | ok es => exact absurd hd (hdec es)
    | empty => rfl
    | fail => cases enc <;> rfl
    | noSsz => rfl

/-- **The fork version of the decoded object comes from the header, never from the body.** If the
router calls the Component, then on a versioned endpoint the version header parsed
(case-insensitively) to a version `v` the endpoint supports and the elements are the decoding of the
body under exactly that `v` (whatever fork the body was produced for: the decoder is never asked
about another version, and the outcome for two bodies that decode alike under `v` is the same); on
an unversioned endpoint the header is not looked at at all. In both cases the encoding is the one
the Content-Type header names. -/
theorem router_version_from_header (rq : Request β) :
    (∀ ep elems, route decode rq = .call ep elems →
      ∃ enc, contentType rq.ct = some enc ∧
        ((rq.route.needsVersion = true ∧ ∃ v, parseVersion rq.version = some v ∧
            rq.route.supports v = true ∧ decode enc rq.route (some v) rq.body = .ok elems) ∨
         (rq.route.needsVersion = false ∧ decode enc rq.route none rq.body = .ok elems))) ∧
    (rq.route.needsVersion = false →
      ∀ h', route decode { rq with version := h' } = route decode rq) ∧
    (∀ body' ep enc v, decodeArgs rq = .ok (ep, enc, v) →
        decode enc rq.route v body' = decode enc rq.route v rq.body →
        route decode { rq with body := body' } = route decode rq) := by
  refine ⟨?_, ?_, ?_⟩
  · intro ep elems h
    obtain ⟨enc, v, hargs, hd, _⟩ := route_call h
    obtain ⟨_, hct, _, _, hv⟩ := decodeArgs_ok hargs
    refine ⟨enc, hct, ?_⟩
    rcases hv with ⟨hnv, w, rfl, hw, hs⟩ | ⟨hnv, rfl⟩
    · exact Or.inl ⟨hnv, w, hw, hs, hd⟩
    · exact Or.inr ⟨hnv, hd⟩
  · intro hnv h'
    unfold route decodeArgs
    simp [hnv]
  · intro body' ep enc v hargs hd
    have hargs' : decodeArgs { rq with body := body' } = decodeArgs rq := rfl
    unfold route
    rw [hargs', hargs]
    simp only [hd]

/-- **No Component call on a router-level error, and no error status with deliveries** — unless a
subscriber itself failed. If the router layer answers (any 4xx, the 500s of the version header and
of undecodable bodies, 404, the proxy), no subscriber is called; if any subscriber is called, the
answer is 200, or it is 500 and the harness-injected subscriber failure is the cause. A panicking
request delivers nothing. -/
theorem router_no_call_on_error (idx : ShareIdx) (nsub : Nat) (ord : List GKey → List GKey)
    (failAt : Option Nat) (rq : Request β) :
    ((∃ s, route decode rq = .respond s) →
        (serve decode verify L env idx nsub ord failAt rq).2 = []) ∧
    ((serve decode verify L env idx nsub ord failAt rq).2 ≠ [] →
        (serve decode verify L env idx nsub ord failAt rq).1 = .ok200 ∨
        ((serve decode verify L env idx nsub ord failAt rq).1 = .ise500 ∧ failAt ≠ none)) := by
  constructor
  · rintro ⟨s, hs⟩
    unfold serve; rw [hs]
  · intro hne
    unfold serve at hne ⊢
    split
    · rename_i s hs; simp [hs] at hne
    · rename_i ep elems hr
      simp only [hr] at hne
      cases hn : elems.contains Elem.nil
      · rw [component_no_nil hn] at hne ⊢
        rcases admitVC_calls_status hne with h | ⟨h, hf⟩
        · left; simp [h, statusOf]
        · right; simp [h, statusOf, hf]
      · exact absurd (component_nil hn).1 hne

/-- **Batch atomicity through the router**: one element of the decoded body that is a JSON `null`,
or that fails any of the Component's checks (accessor error, validator lookup,
`propDataMatchesDuty` / inner selection proof, `verifyPartialSig`), means that no subscriber is
called for the whole request, wherever in the body the element stands, and the answer is not 200. -/
theorem router_batch_atomic (idx : ShareIdx) (nsub : Nat) (ord : List GKey → List GKey)
    (failAt : Option Nat) (rq : Request β) (ep : Endpoint) (elems : List Elem)
    (h : route decode rq = .call ep elems) (el : Elem) (hel : el ∈ elems)
    (hbad : el = .nil ∨ ∃ it, toItem env el = some it ∧ checkItem verify L idx ep it ≠ .ok) :
    (serve decode verify L env idx nsub ord failAt rq).2 = [] ∧
    (serve decode verify L env idx nsub ord failAt rq).1 ≠ .ok200 := by
  unfold serve
  rw [h]
  simp only
  cases hn : elems.contains Elem.nil
  · rw [component_no_nil hn]
    rcases hbad with rfl | ⟨it, hit, hne⟩
    · have : elems.contains Elem.nil = true := by simpa using hel
      rw [hn] at this; cases this
    · obtain ⟨h1, h2, _⟩ := admitVC_reject (verify := verify) (L := L) (idx := idx) (nsub := nsub)
        (ord := ord) (failAt := failAt) (ep := ep) (mem_filterMap_toItem_of_item hel hit) hne
      refine ⟨h1, ?_⟩
      intro hs
      apply h2
      cases hr : (admitVC verify L idx nsub ord failAt ep (elems.filterMap (toItem env))).1 <;>
        simp [hr, statusOf] at hs ⊢
  · exact component_nil hn

/-- **How a `SingleAttestation` is resolved** (`submitAttestations`, electra / fulu, followed by the
Component): the object handed on is the wire element's own data and signature, filed under the
element's slot; for a committee index below 64 the validator is looked up with exactly
(`data.slot`, `committee_index`, `attester_index`) of the wire element; a committee index of 64 or
more sets no committee bit and the element is refused. -/
theorem single_attestation_conversion (pre : Bool) (ci ai slot : Nat) (obj : Obj) :
    (convertSingle env pre ci ai slot obj).obj = obj ∧
    (convertSingle env pre ci ai slot obj).slot = slot ∧
    (ci < 64 → (convertSingle env pre ci ai slot obj).val = env slot ci ai ∧
      (convertSingle env pre ci ai slot obj).pre = pre) ∧
    (64 ≤ ci → (convertSingle env pre ci ai slot obj).pre = false ∧
      (convertSingle env pre ci ai slot obj).val = none) := by
  refine ⟨rfl, rfl, ?_, ?_⟩
  · intro h
    simp [convertSingle, committeeBits, committeeIndexOf, h]
  · intro h
    have : ¬ ci < 64 := by omega
    simp [convertSingle, committeeBits, committeeIndexOf, this]

/-
Totality (C14 clause), full statement: "no request makes the handler panic". The code as it is
violates it: a JSON `null` element in the list body of `submit_sync_committee_messages`,
`submit_contribution_and_proofs`, `aggregate_beacon_committee_selections` or
`aggregate_sync_committee_selections` is decoded into a nil pointer which the Component method
dereferences (witness: `null_element_panics`). net/http recovers the panic of the handler goroutine
and closes the connection; the process survives. What holds:
-/

/-- **Totality, as far as the code provides it**: the handler goroutine panics only if the body
decoded to a list that contains a JSON `null` element on one of the four endpoints whose Component
method dereferences its elements unchecked; in particular never when no element is `null`, and
never on the attestation, proposal, blinded-block, aggregate, exit and registration endpoints. -/
theorem router_total_partial (idx : ShareIdx) (nsub : Nat) (ord : List GKey → List GKey)
    (failAt : Option Nat) (rq : Request β)
    (hp : (serve decode verify L env idx nsub ord failAt rq).1 = .panic) :
    ∃ ep elems, route decode rq = .call ep elems ∧ elems.contains .nil = true ∧
      rq.route.nilPanics = true := by
  unfold serve at hp
  split at hp
  · rename_i s hs
    -- the router layer itself never answers `panic`
    exact absurd hp (route_respond_ne_panic hs)
  · rename_i ep elems hr
    refine ⟨ep, elems, hr, ?_⟩
    cases hn : elems.contains Elem.nil
    · rw [component_no_nil hn] at hp
      cases hr' : (admitVC verify L idx nsub ord failAt ep (elems.filterMap (toItem env))).1 <;>
        simp [hr', statusOf] at hp
    · refine ⟨rfl, ?_⟩
      unfold component at hp
      simp only [hn, Bool.not_true, Bool.false_eq_true, if_false] at hp
      split at hp
      · cases hp
      · cases hnp : rq.route.nilPanics
        · simp [hnp] at hp
        · rfl

/-! ### Non-vacuity and witnesses (concrete runs of the model) -/

/-- toy decoder: the body is its own decoding. -/
def exDecode : Decoder Decoded := fun _ _ _ b => b

def exLock : Lock := fun v =>
  if v = 1 ∨ v = 2 then some (fun i => if 1 ≤ i ∧ i ≤ 3 then some (10 * v + i.toNat) else none) else none

/-- toy crypto: signature `s` verifies under key `k` iff `s = 1000*k + 100*epoch + root`. -/
def exVerify : VerifyFn := fun k _ e r s => s == 1000 * k + 100 * e + r

def exEnv : AttEnv := fun slot ci ai => if slot = 5 ∧ ci = 3 ∧ ai = 101 then some 1 else none

def exObj (id : Nat) (ty : SigType) (e r s : Nat) : Obj := ⟨id, ty, some e, some r, s⟩

def jsonCt : CtHdr := ⟨false, true, false⟩
def sszCt : CtHdr := ⟨false, false, true⟩

def electraHdr : List Char := ['E', 'l', 'e', 'c', 't', 'r', 'a']

-- a valid electra SingleAttestation (committee 3, attester 101, slot 5) under the header "Electra":
-- resolved through (5, 3, 101) to validator 1 and delivered; 200
example :
    serve exDecode exVerify exLock exEnv 2 1 id none
      ⟨.attestationsV2, .post, jsonCt, electraHdr,
        .ok [.single true 3 101 5 (exObj 7 .attestation 3 7 12307)]⟩ =
    (.ok200, [⟨0, 2, 5, [(1, ⟨exObj 7 .attestation 3 7 12307, 2⟩)]⟩]) := by decide

-- the same element with the committee and attester index swapped, with committee index 64, signed by
-- another share: refused with 500, nothing delivered
example :
    serve exDecode exVerify exLock exEnv 2 1 id none
      ⟨.attestationsV2, .post, jsonCt, electraHdr,
        .ok [.single true 101 3 5 (exObj 7 .attestation 3 7 12307)]⟩ = (.ise500, []) ∧
    serve exDecode exVerify exLock exEnv 2 1 id none
      ⟨.attestationsV2, .post, jsonCt, electraHdr,
        .ok [.single true 64 101 5 (exObj 7 .attestation 3 7 12307)]⟩ = (.ise500, []) ∧
    serve exDecode exVerify exLock exEnv 2 1 id none
      ⟨.attestationsV2, .post, jsonCt, electraHdr,
        .ok [.single true 3 101 5 (exObj 7 .attestation 3 7 13307)]⟩ = (.ise500, []) := by decide

/-- **The "4xx" form of `router_rejects_malformed` is false for the code as it is**: an undecodable
JSON body, a missing version header and an unknown one on the attestation endpoint, and a phase0
header on the blinded-block endpoint, are all answered 500; the same undecodable body on the sync
message endpoint is answered 400. -/
theorem malformed_is_not_always_4xx :
    (serve exDecode exVerify exLock exEnv 2 1 id none
      ⟨.attestationsV2, .post, jsonCt, electraHdr, .fail⟩).1 = .ise500 ∧
    (serve exDecode exVerify exLock exEnv 2 1 id none
      ⟨.attestationsV2, .post, jsonCt, [], .ok []⟩).1 = .ise500 ∧
    (serve exDecode exVerify exLock exEnv 2 1 id none
      ⟨.attestationsV2, .post, jsonCt, ['g', 'l', 'o', 'a', 's'], .ok []⟩).1 = .ise500 ∧
    (serve exDecode exVerify exLock exEnv 2 1 id none
      ⟨.blindedV2, .post, sszCt, ['p', 'h', 'a', 's', 'e', '0'], .ok []⟩).1 = .ise500 ∧
    (serve exDecode exVerify exLock exEnv 2 1 id none
      ⟨.syncMessages, .post, jsonCt, [], .fail⟩) = (.json400, []) := by decide

-- content-type rules: text/plain, SSZ on a JSON-only endpoint, SSZ on a block endpoint, wrong method,
-- retired v1 endpoint, swallowed registration
example :
    (serve exDecode exVerify exLock exEnv 2 1 id none
      ⟨.syncMessages, .post, ⟨false, false, false⟩, [], .ok []⟩) = (.media415, []) ∧
    (serve exDecode exVerify exLock exEnv 2 1 id none
      ⟨.syncMessages, .post, sszCt, [], .ok []⟩) = (.enc415, []) ∧
    (serve exDecode exVerify exLock exEnv 2 1 id none
      ⟨.proposalV2, .post, sszCt, ['d', 'e', 'n', 'e', 'b'], .fail⟩) = (.ise500, []) ∧
    (serve exDecode exVerify exLock exEnv 2 1 id none
      ⟨.exit, .post, sszCt, [], .fail⟩) = (.enc415, []) ∧
    (serve exDecode exVerify exLock exEnv 2 1 id none
      ⟨.syncMessages, .other, jsonCt, [], .ok []⟩) = (.proxied, []) ∧
    (serve exDecode exVerify exLock exEnv 2 1 id none
      ⟨.attestationsV1, .post, jsonCt, [], .ok []⟩) = (.notFound404, []) ∧
    (serve exDecode exVerify exLock exEnv 2 1 id none
      ⟨.registration, .post, jsonCt, [], .fail⟩) = (.ok200, []) := by decide

/-- **Witness of the totality defect**: `[null]` (also behind a valid first element) on the sync
committee message endpoint makes the handler panic; on the aggregate endpoint it is an ordinary 500,
on the attestation endpoint a decode error; an invalid element before the `null` is reported
first. -/
theorem null_element_panics :
    serve exDecode exVerify exLock exEnv 2 1 id none
      ⟨.syncMessages, .post, jsonCt, [], .ok [.nil]⟩ = (.panic, []) ∧
    serve exDecode exVerify exLock exEnv 2 1 id none
      ⟨.syncMessages, .post, jsonCt, [],
        .ok [.item ⟨true, some 1, true, 5, 0, exObj 1 .syncMessage 3 7 12307⟩, .nil]⟩ = (.panic, []) ∧
    serve exDecode exVerify exLock exEnv 2 1 id none
      ⟨.syncMessages, .post, jsonCt, [],
        .ok [.item ⟨true, some 1, true, 5, 0, exObj 1 .syncMessage 3 7 13307⟩, .nil]⟩ = (.ise500, []) ∧
    serve exDecode exVerify exLock exEnv 2 1 id none
      ⟨.aggregatesV2, .post, jsonCt, electraHdr, .ok [.nil]⟩ = (.ise500, []) ∧
    serve exDecode exVerify exLock exEnv 2 1 id none
      ⟨.attestationsV2, .post, jsonCt, electraHdr, .ok [.nil]⟩ = (.ise500, []) := by decide

-- a batch of two valid sync committee messages is delivered in one set; with the second one signed by
-- another share nothing is delivered
example :
    serve exDecode exVerify exLock exEnv 2 1 id none
      ⟨.syncMessages, .post, jsonCt, [],
        .ok [.item ⟨true, some 1, true, 5, 0, exObj 1 .syncMessage 3 7 12307⟩,
             .item ⟨true, some 2, true, 5, 0, exObj 2 .syncMessage 3 8 22308⟩]⟩ =
      (.ok200, [⟨0, 10, 5, [(1, ⟨exObj 1 .syncMessage 3 7 12307, 2⟩),
                            (2, ⟨exObj 2 .syncMessage 3 8 22308, 2⟩)]⟩]) ∧
    serve exDecode exVerify exLock exEnv 2 1 id none
      ⟨.syncMessages, .post, jsonCt, [],
        .ok [.item ⟨true, some 1, true, 5, 0, exObj 1 .syncMessage 3 7 12307⟩,
             .item ⟨true, some 2, true, 5, 0, exObj 2 .syncMessage 3 8 23308⟩]⟩ = (.ise500, []) := by
  decide

-- the randao reveal of GET /eth/v3/validator/blocks/{slot}
example :
    servePropose exVerify exLock 2 1 true ⟨true, some 1, true, 5, 0, exObj 1 .randao 3 7 12307⟩ =
      (.ok200, [⟨0, 7, 5, [(1, ⟨exObj 1 .randao 3 7 12307, 2⟩)]⟩]) ∧
    servePropose exVerify exLock 2 1 false ⟨true, some 1, true, 5, 0, exObj 1 .randao 3 7 12307⟩ =
      (.param400, []) ∧
    servePropose exVerify exLock 2 1 true ⟨true, some 1, true, 5, 0, exObj 1 .randao 3 7 0⟩ =
      (.ise500, []) := by decide

end CharonV.Router
