/-
C12 — "deposit data and builder registrations verify for the lock's validator keys": what the
deposit message / deposit data / builder registration roots, domains, withdrawal credentials and
amount rules of `eth2util/deposit` and `eth2util/registration` (model: `CharonV.Model.DepositReg`)
guarantee, for ALL inputs.

As in `Props/C12.lean` and `Props/C10Signing.lean` everything is generic in the 2-to-1 compression
function `h` on 32-byte chunks (SHA-256 of the concatenation in the real hasher); collision
resistance is never assumed: the theorems conclude an explicit `Collision h` (two different pairs of
chunks with the same image) or `TruncCollision h` (the same on the 28 bytes of the fork data root
that `compute_domain` keeps). BLS verification is a parameter `verify`.

FULL STATEMENTS that the code as it is does NOT satisfy (kept visible, with kernel-checked witnesses):

    ∀ amounts c, verifyDepositAmounts amounts c = ok ↔
        amounts = [] ∨ ((∀ a ∈ amounts, 1 ETH ≤ a ≤ max c) ∧ 32 ETH ≤ amounts.sum)

fails because the sum is a wrapping `uint64` (`verify_amounts_sum_wrap_witness`: 9 007 200 amounts, each
within the limits, whose uint64 sum is 0); `verify_amounts_spec_partial` is the statement for lists of at
most 9 007 199 amounts, `verify_amounts_accepts_iff` the exact rule of the code, `verify_amounts_spec_fixed`
the full statement for the repaired loop of `fixes/C12-deposit-amounts-sum-wrap.diff`. And

    ∀ x ≥ 0, ethToGwei x = 10^9 · x

fails for x > 18 446 744 073 (`eths_to_gweis_wrap_witness`); `eths_to_gweis_exact_partial` has the range.
`DedupAmounts` returns the distinct amounts in ASCENDING order, not in first-occurrence order
(`dedup_amounts_sorted_not_first_occurrence`).

Property theorems only (helper lemmas: `CharonV.Proofs.DepositReg`).
-/
import CharonV.Proofs.DepositReg
import CharonV.Props.C10Signing

namespace CharonV.DepositReg

open CharonV.Ssz (Bytes Chunk mkChunk Tree Collision NoColl noColl_of_not_collision unhex unhexDigit)
open CharonV.Signing (computeDomain signingRoot zero32 TruncCollision DomainName Chain getDataRoot
  domain_separation signing_root_binds_fork getDataRoot_factor mkChunk_of_length32 Fork)

variable (h : Chunk → Chunk → Chunk)

/-! ## (1) the signing roots bind every field -/

/-- **The deposit signing root binds pubkey, withdrawal credentials, amount and fork version.** Two
deposit messages (48-byte pubkeys, uint64 amounts — both by Go type) under two 4-byte fork versions
with the same signing root are the same message under the same fork version, or an explicit SHA-256
collision exists (fully, or on the 28 bytes kept of the fork data root). -/
theorem deposit_signing_root_binds (v v' : Bytes) (m m' : DepositMessage) (r : Chunk)
    (hv : v.length = 4) (hv' : v'.length = 4) (hp : m.pubkey.length = 48) (hp' : m'.pubkey.length = 48)
    (ha : m.amount < 18446744073709551616) (ha' : m'.amount < 18446744073709551616)
    (hr : depositSigningRootV h v m = some r) (hr' : depositSigningRootV h v' m' = some r) :
    (m = m' ∧ v = v') ∨ Collision h ∨ TruncCollision h := by
  by_cases hc : Collision h
  · exact Or.inr (Or.inl hc)
  have nc := noColl_of_not_collision hc
  unfold depositSigningRootV at hr hr'
  cases ho : depositMessageRoot h m with
  | none => simp [ho] at hr
  | some o =>
    cases ho' : depositMessageRoot h m' with
    | none => simp [ho'] at hr'
    | some o' =>
      simp only [ho, ho', Option.map_some, Option.some.injEq] at hr hr'
      obtain ⟨e1, e2⟩ := nc _ _ _ _ (hr.trans hr'.symm)
      subst e1
      have hm : m = m' := depositMessageRoot_inj h nc m m' (by omega) ha ha' o ho ho'
      by_cases hvv : v = v'
      · exact Or.inl ⟨hm, hvv⟩
      · refine Or.inr (Or.inr ((signing_root_binds_fork h depositDomainType v v' zero32 zero32 rfl hv hv'
          (by simp [zero32]) (by simp [zero32]) ?_).1 e2))
        intro hx; simp only [Prod.mk.injEq] at hx; exact hvv hx.1

/-- **Same network ⇒ same message.** Two deposit messages for which
`deposit.GetMessageSigningRoot(msg, network)` returns the same root for the same network name (any
network table, built-in or test) are equal, or an explicit SHA-256 collision exists. -/
theorem deposit_signing_root_binds_network (tbl : List Network) (net : Bytes) (m m' : DepositMessage) (r : Chunk)
    (hp : m.pubkey.length = 48) (hp' : m'.pubkey.length = 48)
    (ha : m.amount < 18446744073709551616) (ha' : m'.amount < 18446744073709551616)
    (hr : depositSigningRoot h tbl m net = .ok r) (hr' : depositSigningRoot h tbl m' net = .ok r) :
    m = m' ∨ Collision h := by
  by_cases hc : Collision h
  · exact Or.inr hc
  have nc := noColl_of_not_collision hc
  unfold depositSigningRoot at hr hr'
  cases ho : depositMessageRoot h m with
  | none => simp [ho] at hr
  | some o =>
    cases ho' : depositMessageRoot h m' with
    | none => simp [ho'] at hr'
    | some o' =>
      simp only [ho, ho'] at hr hr'
      cases hn : networkToForkVersionBytes tbl net with
      | error e => cases e <;> simp [hn] at hr
      | ok fv =>
        simp only [hn, Except.ok.injEq] at hr hr'
        obtain ⟨e1, _⟩ := nc _ _ _ _ (hr.trans hr'.symm)
        subst e1
        exact Or.inl (depositMessageRoot_inj h nc m m' (by omega) ha ha' o ho ho')

/-- **The registration signing root binds fee recipient, gas limit, timestamp (its Unix seconds — the
only part of the `time.Time` that is encoded), pubkey and fork version.** -/
theorem registration_signing_root_binds (v v' : Bytes) (g g' : Registration) (r : Chunk)
    (hv : v.length = 4) (hv' : v'.length = 4)
    (hf : g.fee.length = 20) (hf' : g'.fee.length = 20) (hp : g.pubkey.length = 48) (hp' : g'.pubkey.length = 48)
    (hg : g.gasLimit < 18446744073709551616) (hg' : g'.gasLimit < 18446744073709551616)
    (ht1 : -9223372036854775808 ≤ g.timestamp) (ht2 : g.timestamp < 9223372036854775808)
    (ht1' : -9223372036854775808 ≤ g'.timestamp) (ht2' : g'.timestamp < 9223372036854775808)
    (hr : registrationSigningRoot h v g = some r) (hr' : registrationSigningRoot h v' g' = some r) :
    (g = g' ∧ v = v') ∨ Collision h ∨ TruncCollision h := by
  by_cases hc : Collision h
  · exact Or.inr (Or.inl hc)
  have nc := noColl_of_not_collision hc
  unfold registrationSigningRoot at hr hr'
  cases ho : registrationRoot h g with
  | none => simp [ho] at hr
  | some o =>
    cases ho' : registrationRoot h g' with
    | none => simp [ho'] at hr'
    | some o' =>
      simp only [ho, ho', Option.map_some, Option.some.injEq] at hr hr'
      obtain ⟨e1, e2⟩ := nc _ _ _ _ (hr.trans hr'.symm)
      subst e1
      have hm : g = g' := registrationRoot_inj h nc g g' (by omega) (by omega) hg hg' ht1 ht2 ht1' ht2' o ho ho'
      by_cases hvv : v = v'
      · exact Or.inl ⟨hm, hvv⟩
      · refine Or.inr (Or.inr ((signing_root_binds_fork h registrationDomainType v v' zero32 zero32 rfl hv hv'
          (by simp [zero32]) (by simp [zero32]) ?_).1 e2))
        intro hx; simp only [Prod.mk.injEq] at hx; exact hvv hx.1

/-! ## (2) domain separation -/

/-- **Deposit, registration and duty signing roots never coincide** (unless SHA-256 collides), whatever
the messages, fork versions, epochs and genesis roots:
(a) a deposit signing root is no registration signing root;
(b) for a beacon node whose spec assigns 4-byte domain types other than `DOMAIN_DEPOSIT`, no data root
    of `signing.GetDataRoot` (any domain name, epoch, object root — `CharonV.Model.Signing`) is a deposit
    signing root;
(c) if only `DOMAIN_APPLICATION_BUILDER` is assigned the builder type, no data root for another domain
    name is a registration signing root. -/
theorem signing_domains_separated :
    (∀ (v v' : Bytes) (m : DepositMessage) (g : Registration) (r : Chunk),
      depositSigningRootV h v m = some r → registrationSigningRoot h v' g = some r → Collision h) ∧
    (∀ (c : Chain) (name : DomainName) (e : Nat) (o v : Bytes) (m : DepositMessage) (r : Chunk),
      (∀ n ty, c.spec n = some ty → ty.length = 4 ∧ ty ≠ depositDomainType) →
      getDataRoot h c name e o = some r → depositSigningRootV h v m = some r → Collision h) ∧
    (∀ (c : Chain) (name : DomainName) (e : Nat) (o v : Bytes) (g : Registration) (r : Chunk),
      (∀ n ty, c.spec n = some ty → ty.length = 4 ∧ (ty = registrationDomainType → n = .applicationBuilder)) →
      name ≠ .applicationBuilder →
      getDataRoot h c name e o = some r → registrationSigningRoot h v g = some r → Collision h) := by
  refine ⟨?_, ?_, ?_⟩
  · intro v v' m g r hr hr'
    unfold depositSigningRootV at hr
    unfold registrationSigningRoot at hr'
    cases ho : depositMessageRoot h m with
    | none => simp [ho] at hr
    | some o =>
      cases ho' : registrationRoot h g with
      | none => simp [ho'] at hr'
      | some o' =>
        simp only [ho, ho', Option.map_some, Option.some.injEq] at hr hr'
        refine (domain_separation h).2 o o' _ _ ?_ (hr.trans hr'.symm)
        intro hx
        simp only [Prod.mk.injEq] at hx
        exact (domain_separation h).1 depositDomainType registrationDomainType v v' zero32 zero32 rfl rfl
          (by decide) hx.2
  · intro c name e o v m r hspec hd hr
    obtain ⟨ty, ty', v2, g2, _, hfac, hcase⟩ := getDataRoot_factor h c name e o r hd
    have hty' : ty'.length = 4 ∧ ty' ≠ depositDomainType := by
      rcases hcase with ⟨_, e1, _⟩ | ⟨_, _, _, e1, _⟩ | ⟨_, e1, _⟩
      · subst e1; exact hspec _ _ ‹_›
      · exact hspec _ _ e1
      · subst e1; exact hspec _ _ ‹_›
    unfold depositSigningRootV at hr
    cases ho : depositMessageRoot h m with
    | none => simp [ho] at hr
    | some o' =>
      simp only [ho, Option.map_some, Option.some.injEq] at hr
      refine (domain_separation h).2 _ _ _ _ ?_ (hfac.symm.trans hr.symm)
      intro hx
      simp only [Prod.mk.injEq] at hx
      exact (domain_separation h).1 ty' depositDomainType v2 v g2 zero32 hty'.1 rfl hty'.2 hx.2
  · intro c name e o v g r hspec hname hd hr
    obtain ⟨ty, ty', v2, g2, hs, hfac, hcase⟩ := getDataRoot_factor h c name e o r hd
    have hty' : ty'.length = 4 ∧ ty' ≠ registrationDomainType := by
      rcases hcase with ⟨e0, _⟩ | ⟨_, _, _, e1, _⟩ | ⟨_, e1, _⟩
      · exact absurd e0 hname
      · exact ⟨(hspec _ _ e1).1, fun hx => by have := (hspec _ _ e1).2 hx; cases this⟩
      · subst e1; exact ⟨(hspec _ _ hs).1, fun hx => hname ((hspec _ _ hs).2 hx)⟩
    unfold registrationSigningRoot at hr
    cases ho : registrationRoot h g with
    | none => simp [ho] at hr
    | some o' =>
      simp only [ho, Option.map_some, Option.some.injEq] at hr
      refine (domain_separation h).2 _ _ _ _ ?_ (hfac.symm.trans hr.symm)
      intro hx
      simp only [Prod.mk.injEq] at hx
      exact (domain_separation h).1 ty' registrationDomainType v2 v g2 zero32 hty'.1 rfl hty'.2 hx.2

/-- **Different fork versions give different domains**: equal deposit (or registration) domains for
two different 4-byte fork versions are an explicit collision on the 28 bytes kept of the fork data
root; and the first four bytes of either domain are its domain type. -/
theorem domains_bind_fork_version (v v' : Bytes) (hv : v.length = 4) (hv' : v'.length = 4) (hne : v ≠ v') :
    (getDepositDomain h v = getDepositDomain h v' → TruncCollision h) ∧
    (getRegistrationDomain h v = getRegistrationDomain h v' → TruncCollision h) ∧
    (getDepositDomain h v).bytes.take 4 = [3, 0, 0, 0] ∧
    (getRegistrationDomain h v).bytes.take 4 = [0, 0, 0, 1] := by
  have hp : (v, zero32) ≠ (v', zero32) := by
    intro hx; simp only [Prod.mk.injEq] at hx; exact hne hx.1
  exact ⟨(signing_root_binds_fork h depositDomainType v v' zero32 zero32 rfl hv hv' (by simp [zero32]) (by simp [zero32]) hp).1,
    (signing_root_binds_fork h registrationDomainType v v' zero32 zero32 rfl hv hv' (by simp [zero32]) (by simp [zero32]) hp).1,
    CharonV.Signing.compute_domain_type_prefix h depositDomainType v zero32 rfl,
    CharonV.Signing.compute_domain_type_prefix h registrationDomainType v zero32 rfl⟩

/-- **The built-in networks have pairwise different names and pairwise different 4-byte fork
versions** (so, by `domains_bind_fork_version`, pairwise different deposit domains up to a truncated
collision): the table of `eth2util/network.go` as the model holds it (compared with the real table by
the `cfg` op of the correspondence). -/
theorem builtin_networks_distinct :
    (builtinNetworks.map (·.name)).Nodup ∧
    (builtinNetworks.map fun n => okOf (networkToForkVersionBytes builtinNetworks n.name)) =
      [some [0, 0, 0, 0], some [0, 0, 16, 32], some [0, 0, 0, 100], some [0, 0, 0, 111], some [144, 0, 0, 105], some [16, 0, 9, 16]] := by
  constructor <;> decide

/-- **A pre-generated registration is signed over exactly what the running cluster verifies.** For a
beacon node whose spec carries the builder domain type and whose fork schedule starts with the
cluster's genesis fork version, `signing.GetDataRoot(DomainApplicationBuilder, any epoch, registration
root)` of `CharonV.Model.Signing` IS `registration.GetMessageSigningRoot`. -/
theorem registration_root_is_builder_data_root (c : Chain) (f : Fork) (e : Nat) (g : Registration) (o : Chunk)
    (hs : c.spec .applicationBuilder = some registrationDomainType) (hh : c.schedule.head? = some f)
    (ho : registrationRoot h g = some o) :
    getDataRoot h c .applicationBuilder e o.bytes = registrationSigningRoot h (f.versionAt 0) g := by
  have hm : mkChunk o.bytes = o := CharonV.Ssz.Chunk.ext' (mkChunk_of_length32 o.bytes o.len)
  unfold getDataRoot CharonV.Signing.getDomain CharonV.Signing.genesisDomain registrationSigningRoot getRegistrationDomain
  simp [hs, hh, ho, hm, CharonV.Signing.gvrFor, registrationDomainType]

/-! ## (3) withdrawal credentials -/

/-- **Which addresses are accepted.** `withdrawalCredsFromAddr` / `executionAddressFromStr` /
`deposit.NewMessage` / `registration.NewMessage` accept an address string iff it is "0x" followed by
exactly 40 hex digits, upper and lower case in any mix: NO EIP-55 checksum is compared (the string
`ChecksumAddress` returns is dropped), and an address without "0x" is rejected. -/
theorem address_accepted_iff (addr : Bytes) (c : Bool) :
    ((∃ w, withdrawalCredsFromAddr addr c = .ok w) ↔
      ∃ r, addr = 48 :: 120 :: r ∧ r.length = 40 ∧ ∀ x ∈ r, (unhexDigit x).isSome = true) ∧
    ((∃ a, executionAddressFromStr addr = .ok a) ↔ ∃ w, withdrawalCredsFromAddr addr c = .ok w) := by
  have key : (∃ a, checksumAddress addr = some a) ↔
      ∃ r, addr = 48 :: 120 :: r ∧ r.length = 40 ∧ ∀ x ∈ r, (unhexDigit x).isSome = true := by
    constructor
    · rintro ⟨a, ha⟩
      obtain ⟨r, h1, h2, h3⟩ := (checksumAddress_iff addr a).mp ha
      exact ⟨r, h1, h2, ((unhex_isSome_iff r).mp (by simp [h3])).2⟩
    · rintro ⟨r, h1, h2, h3⟩
      have : (unhex r).isSome = true := (unhex_isSome_iff r).mpr ⟨by omega, h3⟩
      cases hu : unhex r with
      | none => simp [hu] at this
      | some a => exact ⟨a, (checksumAddress_iff addr a).mpr ⟨r, h1, h2, hu⟩⟩
  have wk : (∃ w, withdrawalCredsFromAddr addr c = .ok w) ↔ ∃ a, checksumAddress addr = some a := by
    constructor
    · rintro ⟨w, hw⟩
      obtain ⟨a, ha, _⟩ := (withdrawalCreds_ok_iff addr c w).mp hw
      exact ⟨a, ha⟩
    · rintro ⟨a, ha⟩
      exact ⟨_, (withdrawalCreds_ok_iff addr c _).mpr ⟨a, ha, rfl⟩⟩
  refine ⟨wk.trans key, ?_⟩
  rw [wk]
  constructor
  · rintro ⟨a, ha⟩; exact ⟨a, (executionAddress_ok_iff addr a).mp ha⟩
  · rintro ⟨a, ha⟩; exact ⟨a, (executionAddress_ok_iff addr a).mpr ha⟩

/-- **Layout of the withdrawal credentials**: byte 0 is `0x02` with compounding and `0x01` without,
bytes 1–11 are zero, bytes 12–31 are the 20 bytes the hex digits after "0x" decode to; 32 bytes in all;
the fee recipient of a registration is the same decoding of its address. -/
theorem withdrawal_creds_layout (addr : Bytes) (c : Bool) (w : Bytes) (hw : withdrawalCredsFromAddr addr c = .ok w) :
    ∃ a, unhex (addr.drop 2) = some a ∧ a.length = 20 ∧ w.length = 32 ∧
      w = (if c then 2 else 1) :: (List.replicate 11 0 ++ a) ∧
      w.head? = some (if c then 2 else 1) ∧ (w.drop 1).take 11 = List.replicate 11 0 ∧ w.drop 12 = a ∧
      executionAddressFromStr addr = .ok a := by
  obtain ⟨a, ha, hw2⟩ := (withdrawalCreds_ok_iff addr c w).mp hw
  obtain ⟨r, h1, h2, h3, h4⟩ := checksumAddress_some ha
  subst h1; subst hw2
  refine ⟨a, by simpa using h3, h4, by simp [h4], rfl, by simp, ?_, ?_, (executionAddress_ok_iff _ a).mpr ha⟩
  · simp
  · simp

/-- **The credentials determine the address bytes and the compounding flag**: equal credentials ⇒
equal decoded addresses and equal flags (so different 20-byte addresses, or a compounding and a
non-compounding request, never share credentials). The address STRING is determined only up to the case
of its hex digits (`address_case_insensitive`). -/
theorem withdrawal_creds_injective (addr addr' : Bytes) (c c' : Bool) (w : Bytes)
    (hw : withdrawalCredsFromAddr addr c = .ok w) (hw' : withdrawalCredsFromAddr addr' c' = .ok w) :
    c = c' ∧ unhex (addr.drop 2) = unhex (addr'.drop 2) ∧ executionAddressFromStr addr = executionAddressFromStr addr' := by
  obtain ⟨a, h3, _, _, e, _, _, _, hx⟩ := withdrawal_creds_layout addr c w hw
  obtain ⟨a', h3', _, _, e', _, _, _, hx'⟩ := withdrawal_creds_layout addr' c' w hw'
  rw [e] at e'
  injection e' with e1 e2
  have ea : a = a' := List.append_cancel_left e2
  subst ea
  refine ⟨?_, by rw [h3, h3'], by rw [hx, hx']⟩
  cases c <;> cases c' <;> simp at e1 <;> rfl

/-- two address strings that differ only in the case of a hex digit give the same credentials. -/
theorem address_case_insensitive :
    withdrawalCredsFromAddr (48 :: 120 :: 97 :: List.replicate 39 48) false =
      withdrawalCredsFromAddr (48 :: 120 :: 65 :: List.replicate 39 48) false ∧
    withdrawalCredsFromAddr (48 :: 120 :: 97 :: List.replicate 39 48) false =
      .ok (1 :: (List.replicate 11 0 ++ (160 :: List.replicate 19 0))) := by
  constructor <;> rfl

/-- **`deposit.NewMessage`** succeeds iff the address is accepted and `1 ETH ≤ amount ≤
MaxDepositAmount(compounding)` (32 ETH, 2048 ETH with compounding); the message then carries the given
pubkey and amount and the credentials of `withdrawal_creds_layout`. Errors in the order address,
minimum, maximum. -/
theorem new_message_spec (pk addr : Bytes) (amount : Nat) (c : Bool) :
    (∀ m, newMessage pk addr amount c = .ok m ↔
      ∃ w, withdrawalCredsFromAddr addr c = .ok w ∧ 1000000000 ≤ amount ∧
        amount ≤ (if c then 2048000000000 else 32000000000) ∧ m = ⟨pk, w, amount⟩) ∧
    (newMessage pk addr amount c = .error .addr ↔ ∀ w, withdrawalCredsFromAddr addr c ≠ .ok w) := by
  have hmax : maxDepositAmount c = if c then 2048000000000 else 32000000000 := by
    cases c <;> rfl
  unfold newMessage
  cases hw : withdrawalCredsFromAddr addr c with
  | error e =>
    obtain ⟨he, _⟩ := withdrawalCreds_error addr c e hw
    subst he
    simp
  | ok w =>
    simp only [minDepositAmount, hmax]
    constructor
    · intro m
      by_cases h1 : amount < 1000000000
      · simp [h1]; intro _ _ h2; omega
      · by_cases h2 : amount > (if c then 2048000000000 else 32000000000)
        · simp [h1, h2]; intro _ _ h3; omega
        · simp only [h1, h2, if_false]
          constructor
          · intro hm; injection hm with hm; exact ⟨w, rfl, by omega, by omega, hm.symm⟩
          · rintro ⟨w', hw', _, _, hm⟩; injection hw' with hw'; subst hw'; rw [hm]
    · by_cases h1 : amount < 1000000000
      · simp [h1]
      · by_cases h2 : amount > (if c then 2048000000000 else 32000000000)
        · simp [h1, h2]
        · simp [h1, h2]

/-! ## (4) amounts -/

/-- **`VerifyDepositAmounts`, exactly.** It accepts the empty list, and a non-empty list iff every
amount lies in `[1 ETH, MaxDepositAmount(compounding)]` and the sum REDUCED MODULO 2^64 (the code adds
into a `uint64`) is at least 32 ETH. -/
theorem verify_amounts_accepts_iff (amounts : List Nat) (c : Bool) :
    verifyDepositAmounts amounts c = .ok ↔
      amounts = [] ∨ ((∀ a ∈ amounts, 1000000000 ≤ a ∧ a ≤ maxDepositAmount c) ∧
        32000000000 ≤ amounts.sum % 18446744073709551616) := by
  unfold verifyDepositAmounts
  cases amounts with
  | nil => simp
  | cons a r =>
    simp only [List.length_cons, Nat.succ_ne_zero, if_false]
    have key := verifyLoop_ok_iff (maxDepositAmount c) (a :: r) 0 (by unfold u64Mod; omega)
    simp only [minDepositAmount, defaultDepositAmount, u64Mod, Nat.zero_add] at key
    rw [key]
    constructor
    · intro hx; exact Or.inr hx
    · rintro (hx | hx)
      · cases hx
      · exact hx

/-- **`VerifyDepositAmounts` is the rule of the partial-deposit specification — for lists of at most
9 007 199 amounts** (then the uint64 sum cannot wrap): accepted iff empty, or every amount within
`[1 ETH, max]` and the sum at least 32 ETH. Partial: see `verify_amounts_sum_wrap_witness`. -/
theorem verify_amounts_spec_partial (amounts : List Nat) (c : Bool) (hlen : amounts.length ≤ 9007199) :
    verifyDepositAmounts amounts c = .ok ↔
      amounts = [] ∨ ((∀ a ∈ amounts, 1000000000 ≤ a ∧ a ≤ maxDepositAmount c) ∧ 32000000000 ≤ amounts.sum) := by
  rw [verify_amounts_accepts_iff]
  have key : (∀ a ∈ amounts, 1000000000 ≤ a ∧ a ≤ maxDepositAmount c) →
      amounts.sum % 18446744073709551616 = amounts.sum := by
    intro hall
    apply Nat.mod_eq_of_lt
    have h1 := sum_le_length_mul 2048000000000 amounts
      (fun a ha => Nat.le_trans (hall a ha).2 (maxDepositAmount_le c))
    have h2 : amounts.length * 2048000000000 ≤ 9007199 * 2048000000000 := Nat.mul_le_mul_right _ hlen
    omega
  constructor
  · rintro (h0 | ⟨hall, hs⟩)
    · exact Or.inl h0
    · exact Or.inr ⟨hall, by rw [key hall] at hs; exact hs⟩
  · rintro (h0 | ⟨hall, hs⟩)
    · exact Or.inl h0
    · exact Or.inr ⟨hall, by rw [key hall]; exact hs⟩

/-- **Witness (negation of the unrestricted rule): the sum wraps.** 9 007 199 amounts of 2048 ETH and one
of 521.709551616 ETH — every one within the compounding limits, 2^64 gwei in total — are REJECTED with
"sum of partial deposit amounts must be at least 32ETH": the `uint64` sum is 0. -/
theorem verify_amounts_sum_wrap_witness :
    let l := List.replicate 9007199 2048000000000 ++ [521709551616]
    verifyDepositAmounts l true = .errSum ∧
    (∀ a ∈ l, 1000000000 ≤ a ∧ a ≤ maxDepositAmount true) ∧ 32000000000 ≤ l.sum ∧ l.length = 9007200 := by
  obtain ⟨h1, h2, h3, h4⟩ := wrap_general 9007199 521709551616 (by omega) (by omega)
  refine ⟨?_, h2, ?_, h4⟩
  · rw [h1]; decide
  · rw [h3]; decide

/-- **The repaired loop satisfies the unrestricted rule** (`fixes/C12-deposit-amounts-sum-wrap.diff`:
add an amount only while the sum is below 32 ETH): for ALL lists, accepted iff empty, or every amount
within `[1 ETH, max]` and the (unbounded) sum at least 32 ETH; and it rejects nothing that /repo's
function accepts. -/
theorem verify_amounts_spec_fixed (amounts : List Nat) (c : Bool) :
    (verifyDepositAmountsFixed amounts c = .ok ↔
      amounts = [] ∨ ((∀ a ∈ amounts, 1000000000 ≤ a ∧ a ≤ maxDepositAmount c) ∧ 32000000000 ≤ amounts.sum)) ∧
    (verifyDepositAmounts amounts c = .ok → verifyDepositAmountsFixed amounts c = .ok) := by
  have hfix : verifyDepositAmountsFixed amounts c = .ok ↔
      amounts = [] ∨ ((∀ a ∈ amounts, 1000000000 ≤ a ∧ a ≤ maxDepositAmount c) ∧ 32000000000 ≤ amounts.sum) := by
    unfold verifyDepositAmountsFixed
    cases amounts with
    | nil => simp
    | cons a r =>
      simp only [List.length_cons, Nat.succ_ne_zero, if_false]
      have key := verifyLoopFixed_ok_iff (maxDepositAmount c) (maxDepositAmount_le c) (a :: r) 0 (by omega)
      simp only [minDepositAmount, defaultDepositAmount, Nat.zero_add] at key
      rw [key]
      constructor
      · intro hx; exact Or.inr hx
      · rintro (hx | hx)
        · cases hx
        · exact hx
  refine ⟨hfix, ?_⟩
  intro hok
  rw [hfix]
  rcases (verify_amounts_accepts_iff amounts c).mp hok with h0 | ⟨hall, hs⟩
  · exact Or.inl h0
  · exact Or.inr ⟨hall, Nat.le_trans hs (Nat.mod_le _ _)⟩

/-- **`DedupAmounts` returns the distinct amounts in strictly ascending order** — every amount of the
argument exactly once, nothing else; it is the only such list, hence idempotent, and the identity on
a strictly ascending list. (The model is a pure function: that the Go function leaves its argument
slice untouched is checked on the real code by the stream's monitor `deposit:dedup_mutated_argument`.) -/
theorem dedup_amounts_spec (l : List Nat) :
    (dedupAmounts l).Pairwise (· < ·) ∧ (∀ x, x ∈ dedupAmounts l ↔ x ∈ l) ∧
    (∀ l', l'.Pairwise (· < ·) → (∀ x, x ∈ l' ↔ x ∈ l) → l' = dedupAmounts l) ∧
    dedupAmounts (dedupAmounts l) = dedupAmounts l ∧
    (l.Pairwise (· < ·) → dedupAmounts l = l) := by
  obtain ⟨h1, h2⟩ := dedupAmounts_spec l
  refine ⟨h1, h2, ?_, ?_, ?_⟩
  · intro l' hs hm
    exact sorted_ext l' _ hs h1 (fun x => by rw [hm, h2])
  · obtain ⟨h1', h2'⟩ := dedupAmounts_spec (dedupAmounts l)
    exact sorted_ext _ _ h1' h1 (fun x => by rw [h2'])
  · intro hs
    exact sorted_ext _ _ h1 hs h2

/-- the order is ascending, NOT first occurrence: `[32 ETH, 1 ETH, 32 ETH]` ↦ `[1 ETH, 32 ETH]`. -/
theorem dedup_amounts_sorted_not_first_occurrence :
    dedupAmounts [32000000000, 1000000000, 32000000000] = [1000000000, 32000000000] := by decide

/-- **`EthsToGweis` multiplies by 10^9 — for 0 ≤ eth ≤ 18 446 744 073** (partial: the product is a
64-bit `int` reinterpreted as `uint64`), element by element, keeping length and order. -/
theorem eths_to_gweis_exact_partial (eths : List Int) (hr : ∀ x ∈ eths, 0 ≤ x ∧ x ≤ 18446744073) :
    ethsToGweis eths = eths.map (fun x => 1000000000 * x.toNat) ∧ (ethsToGweis eths).length = eths.length := by
  refine ⟨?_, by simp [ethsToGweis]⟩
  unfold ethsToGweis
  apply List.map_congr_left
  intro x hx
  obtain ⟨h0, h1⟩ := hr x hx
  unfold ethToGwei
  have h2 : (1000000000 * x) % 18446744073709551616 = 1000000000 * x := Int.emod_eq_of_lt (by omega) (by omega)
  rw [h2]
  omega

/-- **Witness: the product wraps.** `--deposit-amounts 36028797018964000` (2^55 + 32 ETH) becomes 32 ETH,
and `-1` becomes 2^64 − 10^9 gwei. -/
theorem eths_to_gweis_wrap_witness :
    ethsToGweis [36028797018964000, -1, 18446744074] = [32000000000, 18446744072709551616, 290448384] := by
  decide

/-- **The default amounts are valid, distinct and ascending** for both values of the compounding flag. -/
theorem default_amounts_valid (c : Bool) :
    verifyDepositAmounts (defaultDepositAmounts c) c = .ok ∧
    dedupAmounts (defaultDepositAmounts c) = defaultDepositAmounts c ∧
    (∀ a ∈ defaultDepositAmounts c, 1000000000 ≤ a ∧ a ≤ maxDepositAmount c) := by
  cases c <;> decide

/-- **`MergeDepositDataSets`.** If one argument has no set at all the other is returned AS IT IS (not
regrouped). Otherwise, for every iteration order `ord` of the amount-keyed Go map (distinct, exactly
the amounts that occur): the result is one group per amount in that order, each group is exactly the
deposit datas of that amount in the order a's sets then b's sets list them (so non-empty and of one
amount), two groups never share an amount, and every deposit data occurs as often as in the arguments. -/
theorem merge_deposit_data_sets_spec (ord : List Nat) (a b : List (List DepositData)) :
    (a.length = 0 → mergeDepositDataSets ord a b = b) ∧
    (a.length ≠ 0 → b.length = 0 → mergeDepositDataSets ord a b = a) ∧
    (a.length ≠ 0 → b.length ≠ 0 → ord.Nodup →
      (∀ v, v ∈ ord ↔ ∃ d ∈ a.flatten ++ b.flatten, d.amount = v) →
      let all := a.flatten ++ b.flatten
      let out := mergeDepositDataSets ord a b
      out = ord.map (fun v => all.filter (fun d => d.amount == v)) ∧
      (∀ g ∈ out, g ≠ [] ∧ ∃ v, ∀ d ∈ g, d.amount = v) ∧
      out.Pairwise (fun g g' => ∀ d ∈ g, ∀ d' ∈ g', d.amount ≠ d'.amount) ∧
      (∀ d, out.flatten.count d = all.count d)) := by
  refine ⟨fun h0 => by simp [mergeDepositDataSets, h0], fun h0 h1 => by simp [mergeDepositDataSets, h0, h1], ?_⟩
  intro ha hb hnd hord
  have hgen := merge_general ord a b ha hb (fun v hv => (hord v).mp hv)
  simp only
  rw [hgen]
  generalize a.flatten ++ b.flatten = all at hord
  have hmem : ∀ (x : DepositData) (v : Nat), x ∈ amountClass all v ↔ x ∈ all ∧ x.amount = v := by
    intro x v; simp [amountClass, List.mem_filter]
  refine ⟨rfl, ?_, ?_, ?_⟩
  · intro g hg
    obtain ⟨v, hv, rfl⟩ := List.mem_map.mp hg
    obtain ⟨d, hd, hdv⟩ := (hord v).mp hv
    refine ⟨?_, v, ?_⟩
    · intro he
      have : d ∈ amountClass all v := (hmem d v).mpr ⟨hd, hdv⟩
      rw [he] at this; cases this
    · intro x hx
      exact ((hmem x v).mp hx).2
  · rw [List.pairwise_map]
    refine List.Pairwise.imp ?_ hnd
    intro v w hvw d hd d' hd'
    rw [((hmem d v).mp hd).2, ((hmem d' w).mp hd').2]; exact hvw
  · intro d
    rw [count_flatten_classes _ d ord hnd]
    by_cases hm : d.amount ∈ ord
    · simp [hm]
    · simp only [hm, if_false]
      symm
      apply List.count_eq_zero_of_not_mem
      intro hd
      exact hm ((hord d.amount).mpr ⟨d, hd, rfl⟩)

/-! ## (5) the deposit data root commits to the signature as well -/

/-- **The deposit data root binds pubkey, credentials, amount AND signature**: two deposit datas
(48-byte pubkeys, 96-byte signatures, uint64 amounts — by Go type) with the same `deposit_data_root`
are equal, or an explicit SHA-256 collision exists. -/
theorem deposit_data_root_binds (d d' : DepositData) (r : Chunk)
    (hp : d.pubkey.length = 48) (hp' : d'.pubkey.length = 48) (hs : d.sig.length = 96) (hs' : d'.sig.length = 96)
    (ha : d.amount < 18446744073709551616) (ha' : d'.amount < 18446744073709551616)
    (hr : depositDataRoot h d = some r) (hr' : depositDataRoot h d' = some r) : d = d' ∨ Collision h := by
  by_cases hc : Collision h
  · exact Or.inr hc
  exact Or.inl (depositDataRoot_inj h (noColl_of_not_collision hc) d d' (by omega) (by omega) ha ha' r hr hr')

/-! ## C12's clause with a symbolic signature scheme -/

/-- a signature verifies under a public key for at most one signing root (for BLS: two roots with
the same signature under one key hash to the same curve point). A hypothesis, never an axiom. -/
def SigBindsRoot (verify : Bytes → Chunk → Bytes → Bool) : Prop :=
  ∀ pk r r' s, verify pk r s = true → verify pk r' s = true → r = r'

/-- **A deposit data file is written only if every signature verifies** for the signing root of its own
pubkey, credentials and amount under the file's network. -/
theorem marshal_only_verified (verify : Bytes → Chunk → Bytes → Bool) (tbl : List Network) (dds : List DepositData)
    (net : Bytes) (js : List DepositJSON) (hm : marshalDepositData h verify tbl dds net = .ok js) :
    ∀ d ∈ dds, ∃ sr, depositSigningRoot h tbl d.msg net = .ok sr ∧ verify d.pubkey sr d.sig = true := by
  unfold marshalDepositData at hm
  cases hn : networkFromName tbl net with
  | none => simp [hn] at hm
  | some n =>
    simp only [hn] at hm
    cases hl : marshalLoop h verify tbl net n.forkHex dds with
    | error e => simp [hl] at hm
    | ok js' =>
      clear hm
      induction dds generalizing js' with
      | nil => intro d hd; cases hd
      | cons d0 r ih =>
        unfold marshalLoop at hl
        cases he : marshalEntry h verify tbl net n.forkHex d0 with
        | error e => simp [he] at hl
        | ok j =>
          simp only [he] at hl
          cases hr : marshalLoop h verify tbl net n.forkHex r with
          | error e => simp [hr] at hl
          | ok js'' =>
            intro d hd
            rcases List.mem_cons.mp hd with rfl | hd
            · unfold marshalEntry at he
              cases h1 : depositMessageRoot h d.msg with
              | none => simp [h1] at he
              | some mr =>
                simp only [h1] at he
                cases h2 : depositSigningRoot h tbl d.msg net with
                | error e => simp [h2] at he
                | ok sr =>
                  simp only [h2] at he
                  by_cases hv : verify d.pubkey sr d.sig = true
                  · exact ⟨sr, rfl, hv⟩
                  · simp [hv] at he
            · exact ih js'' hr d hd

/-- **An altered deposit data does not pass with the original signature.** If a deposit data passes
the check of `MarshalDepositData` and a second one with the same pubkey and signature but other
credentials or another amount passes too (same network), an explicit SHA-256 collision exists. -/
theorem tampered_deposit_rejected (verify : Bytes → Chunk → Bytes → Bool) (hb : SigBindsRoot verify)
    (tbl : List Network) (net fvs : Bytes) (d d' : DepositData) (j j' : DepositJSON)
    (hpk : d'.pubkey = d.pubkey) (hsig : d'.sig = d.sig) (hne : d'.msg ≠ d.msg)
    (hp : d.pubkey.length = 48) (ha : d.amount < 18446744073709551616) (ha' : d'.amount < 18446744073709551616)
    (hok : marshalEntry h verify tbl net fvs d = .ok j) (hok' : marshalEntry h verify tbl net fvs d' = .ok j') :
    Collision h := by
  have ext : ∀ (x : DepositData) (y : DepositJSON), marshalEntry h verify tbl net fvs x = .ok y →
      ∃ sr, depositSigningRoot h tbl x.msg net = .ok sr ∧ verify x.pubkey sr x.sig = true := by
    intro x y he
    unfold marshalEntry at he
    cases h1 : depositMessageRoot h x.msg with
    | none => simp [h1] at he
    | some mr =>
      simp only [h1] at he
      cases h2 : depositSigningRoot h tbl x.msg net with
      | error e => simp [h2] at he
      | ok sr =>
        simp only [h2] at he
        by_cases hv : verify x.pubkey sr x.sig = true
        · exact ⟨sr, rfl, hv⟩
        · simp [hv] at he
  obtain ⟨sr, h1, v1⟩ := ext d j hok
  obtain ⟨sr', h1', v1'⟩ := ext d' j' hok'
  rw [hpk, hsig] at v1'
  have hsr : sr = sr' := hb _ _ _ _ v1 v1'
  subst hsr
  rcases deposit_signing_root_binds_network h tbl net d.msg d'.msg sr (by simpa [DepositData.msg] using hp)
    (by simpa [DepositData.msg, hpk] using hp) ha ha' h1 h1' with he | hc
  · exact absurd he.symm hne
  · exact hc

/-- **An altered stored registration does not pass with the original signature.** For a lock version
with builder registrations: if `Lock.verifyBuilderRegistrations` accepts a validator's stored
registration and also accepts a second one with the same signature for the same validator key and
fork version, then both carry the same fee recipient bytes, the same gas limit and the same timestamp
(Unix seconds) — or an explicit SHA-256 collision exists. Moreover an accepted stored message always
equals the message rebuilt from the validator key and the definition's fee recipient address. -/
theorem tampered_registration_rejected (verify : Bytes → Chunk → Bytes → Bool) (hb : SigBindsRoot verify)
    (version fv valPk addr addr' : Bytes) (s s' : StoredRegistration)
    (hver : versionsWithoutRegistration.contains version = false) (hsig : s'.sig = s.sig)
    (hg1 : -9223372036854775808 ≤ s.gasLimit) (hg2 : s.gasLimit < 9223372036854775808)
    (hg1' : -9223372036854775808 ≤ s'.gasLimit) (hg2' : s'.gasLimit < 9223372036854775808)
    (ht1 : -9223372036854775808 ≤ s.timestamp) (ht2 : s.timestamp < 9223372036854775808)
    (ht1' : -9223372036854775808 ≤ s'.timestamp) (ht2' : s'.timestamp < 9223372036854775808)
    (hok : verifyBuilderRegistration h verify version fv valPk addr s = .ok ())
    (hok' : verifyBuilderRegistration h verify version fv valPk addr' s' = .ok ()) :
    (s.fee = s'.fee ∧ s.gasLimit = s'.gasLimit ∧ s.timestamp = s'.timestamp ∧ s.pubkey = valPk ∧ s'.pubkey = valPk ∧
      executionAddressFromStr addr = .ok s.fee ∧ executionAddressFromStr addr' = .ok s'.fee) ∨ Collision h := by
  have ext : ∀ (ad : Bytes) (x : StoredRegistration), verifyBuilderRegistration h verify version fv valPk ad x = .ok () →
      executionAddressFromStr ad = .ok x.fee ∧ x.pubkey = valPk ∧
      ∃ sr, registrationSigningRoot h fv ⟨x.fee, toU64 x.gasLimit, x.timestamp, valPk⟩ = some sr ∧
        verify valPk sr x.sig = true := by
    intro ad x he
    unfold verifyBuilderRegistration at he
    simp only [hver, Bool.false_eq_true, if_false] at he
    split at he
    · cases he
    · unfold newRegistration at he
      cases hx : executionAddressFromStr ad with
      | error e => simp [hx] at he
      | ok a =>
        simp only [hx] at he
        split at he
        · cases he
        · rename_i hmis
          have hfee : a = x.fee := by
            apply Classical.byContradiction; intro hn; exact hmis (Or.inl hn)
          have hpk' : valPk = x.pubkey := by
            apply Classical.byContradiction; intro hn; exact hmis (Or.inr hn)
          rw [hfee] at he
          cases hsr : registrationSigningRoot h fv ⟨x.fee, toU64 x.gasLimit, x.timestamp, valPk⟩ with
          | none => rw [hsr] at he; cases he
          | some sr =>
            rw [hsr] at he
            simp only at he
            split at he
            · cases he
            · by_cases hv : verify valPk sr x.sig = true
              · exact ⟨by rw [hfee], hpk'.symm, sr, rfl, hv⟩
              · simp [hv] at he
  obtain ⟨a1, p1, sr, r1, v1⟩ := ext addr s hok
  obtain ⟨a1', p1', sr', r1', v1'⟩ := ext addr' s' hok'
  rw [hsig] at v1'
  have hsr : sr = sr' := hb _ _ _ _ v1 v1'
  subst hsr
  have hfl : ∀ (ad : Bytes) (x : Bytes), executionAddressFromStr ad = .ok x → x.length = 20 := by
    intro ad x hx
    obtain ⟨_, _, _, _, h4⟩ := checksumAddress_some ((executionAddress_ok_iff ad x).mp hx)
    exact h4
  by_cases hc : Collision h
  · exact Or.inr hc
  have nc := noColl_of_not_collision hc
  unfold registrationSigningRoot at r1 r1'
  cases ho : registrationRoot h ⟨s.fee, toU64 s.gasLimit, s.timestamp, valPk⟩ with
  | none => simp [ho] at r1
  | some o =>
    cases ho' : registrationRoot h ⟨s'.fee, toU64 s'.gasLimit, s'.timestamp, valPk⟩ with
    | none => simp [ho'] at r1'
    | some o' =>
      simp only [ho, ho', Option.map_some, Option.some.injEq] at r1 r1'
      obtain ⟨e1, _⟩ := nc _ _ _ _ (r1.trans r1'.symm)
      subst e1
      have := registrationRoot_inj h nc ⟨s.fee, toU64 s.gasLimit, s.timestamp, valPk⟩
        ⟨s'.fee, toU64 s'.gasLimit, s'.timestamp, valPk⟩ (by simp [hfl addr s.fee a1, hfl addr' s'.fee a1']) rfl
        (toU64_lt _) (toU64_lt _) ht1 ht2 ht1' ht2' o ho ho'
      injection this with e1 e2 e3 _
      exact Or.inl ⟨e1, toU64_inj hg1 hg2 hg1' hg2' e2, e3, p1, p1', a1, a1'⟩

/-! ## Non-vacuity -/

/-- a toy compression function, to instantiate the generic statements. -/
def toyH : Chunk → Chunk → Chunk := fun a _ => a

/-- a well-formed deposit message has a signing root under every fork version (hypotheses of
`deposit_signing_root_binds` are satisfiable), for every compression function. -/
example (v pk wc : Bytes) (amt : Nat) (hw : wc.length = 32) :
    (depositSigningRootV h v ⟨pk, wc, amt⟩).isSome = true := by
  have := depositMessageRoot_isSome h ⟨pk, wc, amt⟩ hw
  unfold depositSigningRootV
  cases hx : depositMessageRoot h ⟨pk, wc, amt⟩ with
  | none => simp [hx] at this
  | some o => simp

/-- `deposit_signing_root_binds` / `_network` really conclude a collision for a colliding `h`: under
`toyH` a message with another amount has the same signing root on mainnet. -/
example :
    depositSigningRoot toyH builtinNetworks ⟨List.replicate 48 1, List.replicate 32 2, 32000000000⟩ [109,97,105,110,110,101,116] =
    depositSigningRoot toyH builtinNetworks ⟨List.replicate 48 1, List.replicate 32 2, 1000000000⟩ [109,97,105,110,110,101,116] ∧
    (depositSigningRoot toyH builtinNetworks ⟨List.replicate 48 1, List.replicate 32 2, 32000000000⟩ [109,97,105,110,110,101,116]).toOption.isSome = true ∧
    Collision toyH := by
  refine ⟨by rfl, by rfl, ?_⟩
  exact ⟨CharonV.Ssz.zeroChunk, CharonV.Ssz.zeroChunk, CharonV.Ssz.zeroChunk, CharonV.Ssz.u64Chunk 1, by decide, rfl⟩

/-- registrations have a signing root (never fails). -/
example (v : Bytes) (g : Registration) : (registrationSigningRoot h v g).isSome = true := by
  unfold registrationSigningRoot registrationRoot
  simp [Registration.tree, Tree.root, Tree.chunks, Tree.chunksL, okOf]

/-- `signing_domains_separated` (b)/(c): a chain whose spec satisfies the hypotheses. -/
example : (∀ n ty, CharonV.Signing.exChain.spec n = some ty → ty.length = 4 ∧ ty ≠ depositDomainType) ∧
    (∀ n ty, CharonV.Signing.exChain.spec n = some ty → ty.length = 4 ∧ (ty = registrationDomainType → n = .applicationBuilder)) := by
  constructor <;> intro n ty hs <;> cases n <;> simp [CharonV.Signing.exChain] at hs <;> subst hs <;> decide

/-- `registration_root_is_builder_data_root`: its hypotheses hold for the example chain of C10Signing. -/
example : CharonV.Signing.exChain.spec .applicationBuilder = some registrationDomainType ∧
    CharonV.Signing.exChain.schedule.head? = some ⟨[0x10,0,9,0x10], [0x10,0,9,0x10], 0⟩ := by
  constructor <;> rfl

/-- accepted and rejected address shapes (`address_accepted_iff`, `withdrawal_creds_layout`). -/
example :
    withdrawalCredsFromAddr (48 :: 120 :: List.replicate 40 102) true = .ok (2 :: (List.replicate 11 0 ++ List.replicate 20 255)) ∧
    withdrawalCredsFromAddr (List.replicate 40 102) true = .error .addr ∧               -- no "0x"
    withdrawalCredsFromAddr (48 :: 88 :: List.replicate 40 102) true = .error .addr ∧   -- "0X"
    withdrawalCredsFromAddr (48 :: 120 :: List.replicate 39 102) true = .error .addr ∧  -- too short
    withdrawalCredsFromAddr (48 :: 120 :: 103 :: List.replicate 39 102) true = .error .addr ∧ -- 'g'
    executionAddressFromStr (48 :: 120 :: List.replicate 40 70) = .ok (List.replicate 20 255) := by
  refine ⟨?_, ?_, ?_, ?_, ?_, ?_⟩ <;> rfl

/-- `new_message_spec`: boundary amounts. -/
example :
    (newMessage [] (48 :: 120 :: List.replicate 40 48) 32000000000 false).toOption.isSome = true ∧
    newMessage [] (48 :: 120 :: List.replicate 40 48) 32000000001 false = .error .max ∧
    (newMessage [] (48 :: 120 :: List.replicate 40 48) 2048000000000 true).toOption.isSome = true ∧
    newMessage [] (48 :: 120 :: List.replicate 40 48) 999999999 true = .error .min := by
  refine ⟨?_, ?_, ?_, ?_⟩ <;> rfl

/-- the repaired loop accepts the wrap witness that /repo's loop rejects. -/
example : verifyLoopFixed 2048000000000 32000000000 [521709551616] = .ok ∧
    verifyLoop 2048000000000 ((0 + 9007199 * 2048000000000) % u64Mod) [521709551616] = .errSum := by
  constructor <;> decide

/-- `verify_amounts_*`: accepted and rejected lists. -/
example :
    verifyDepositAmounts [] false = .ok ∧
    verifyDepositAmounts [16000000000, 16000000000] false = .ok ∧
    verifyDepositAmounts [16000000000, 15999999999] false = .errSum ∧
    verifyDepositAmounts [33000000000] false = .errMax ∧
    verifyDepositAmounts [33000000000] true = .ok ∧
    verifyDepositAmounts [999999999, 33000000000] false = .errMin := by
  refine ⟨?_, ?_, ?_, ?_, ?_, ?_⟩ <;> decide

/-- `merge_deposit_data_sets_spec`: a general-case instance with an admissible order. -/
example :
    mergeDepositDataSets [32, 1] [[⟨[1], [], 1, []⟩, ⟨[2], [], 32, []⟩]] [[⟨[3], [], 32, []⟩]] =
      [[⟨[2], [], 32, []⟩, ⟨[3], [], 32, []⟩], [⟨[1], [], 1, []⟩]] ∧
    mergeDepositDataSets [] [] [[⟨[3], [], 32, []⟩, ⟨[4], [], 1, []⟩]] = [[⟨[3], [], 32, []⟩, ⟨[4], [], 1, []⟩]] := by
  constructor <;> decide

/-- `SigBindsRoot` is satisfiable (the symbolic scheme of the line driver: a signature is valid for the
one root it was made over), and `tampered_registration_rejected`'s acceptance hypothesis too. -/
example : SigBindsRoot (fun _ r s => s == r.bytes) := by
  intro pk r r' s h1 h2
  simp at h1 h2
  exact CharonV.Ssz.Chunk.ext' (h1.symm.trans h2)

end CharonV.DepositReg
