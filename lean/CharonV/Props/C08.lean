/-
C08 — threshold BLS algebra (`tbls/herumi.go`, `tbls/tbls.go`).

"For every secret key split t-of-n, every set of at least t shares recovers the same secret and the
same group public key, and partial signatures from any t or more distinct shares over one message
combine into the very signature the undivided key would produce, which verifies under the group
public key. A combination that includes a signature from a wrong share, a wrong index or a
different message does not verify."

Property theorems only; definitions in `CharonV.Spec.Tbls`, helper lemmas in `CharonV.Proofs.Tbls`.
Every theorem holds for an arbitrary field `F` of scalars, arbitrary `F`-modules `G1`, `G2`
(additively written groups of prime order are modules over `ZMod r`), every threshold `t`, every
polynomial `p` with `deg p < t` (the dealer's polynomial, `p 0` = the secret), and every finite set
`S` of share identifiers with `|S| ≥ t` whose identifiers are pairwise distinct as scalars. No bound
on `n`, `t`, `|S|`. Identifiers `1..n` of `tbls/herumi.go` satisfy the identifier hypotheses in any
field of characteristic `0` or `> n` (`ids_ok_below_char`).

Hypotheses carried by the negative theorems (each is needed, see the comments):
`IdsNonzero` (no identifier is the zero scalar — otherwise other shares get coefficient 0),
`Hm m ≠ 0`, `g1 ≠ 0`, and for the three substitutions `s' ≠ p j` / `p k ≠ p j` /
`p j ≠ 0 ∧ Hm m' ≠ Hm m`. "Verifies" is the idealised pairing equation `Verifies` (Spec).

`exec_split_spec` / `exec_recover_secret` connect the executable model `Model/Fr.lean` (the one the
correspondence driver compares bit-for-bit with herumi) to the abstract theorems in `ZMod r`; they
carry the hypothesis `Fact (Nat.Prime r)` (primality of the BLS12-381 group order is not proved).
-/
import CharonV.Proofs.Tbls
import CharonV.Proofs.TblsFr
import CharonV.Proofs.FrPrime

namespace CharonV.Tbls

open Polynomial Finset

variable {F : Type*} [Field F]
variable {G1 G2 Msg : Type*} [AddCommGroup G1] [Module F G1] [AddCommGroup G2] [Module F G2]

/-- `ThresholdSplit` hands out exactly the identifiers `1..n`, each with the value of the dealer's
polynomial at that identifier. -/
theorem split_spec (p : F[X]) (n id : ℕ) (y : F) :
    (id, y) ∈ split p n ↔ (1 ≤ id ∧ id ≤ n) ∧ y = share p id := by
  unfold split
  simp only [List.mem_map, List.mem_range, Prod.mk.injEq]
  constructor
  · rintro ⟨i, hi, rfl, rfl⟩
    exact ⟨⟨by omega, by omega⟩, rfl⟩
  · rintro ⟨⟨h1, h2⟩, rfl⟩
    exact ⟨id - 1, by omega, by omega, by rw [Nat.sub_add_cancel h1]⟩

/-- The identifiers `1..n` used by charon are pairwise distinct, non-zero scalars in every field
whose characteristic `q` exceeds `n` (BLS12-381: `q = r ≈ 2^255`, `n ≤ 2^16`). -/
theorem ids_ok_below_char (q : ℕ) [CharP F q] (S : Finset ℕ) (h : ∀ k ∈ S, 0 < k ∧ k < q) :
    IdsDistinct F S ∧ IdsNonzero F S :=
  ⟨idsDistinct_of_lt_char q S fun k hk => (h k hk).2, idsNonzero_of_lt_char q S h⟩

/-- **Secret recovery.** Any `≥ t` shares of a `t`-of-`n` split recover the secret `p 0`. -/
theorem recover_secret (t : ℕ) (p : F[X]) (hp : p.degree < t) (S : Finset ℕ) (hS : t ≤ S.card)
    (hinj : IdsDistinct F S) : recover S (share p) = p.eval 0 :=
  recover_share p S hinj (lt_of_lt_of_le hp (by exact_mod_cast hS))

/-- **Same secret from every qualified set.** -/
theorem recover_secret_independent (t : ℕ) (p : F[X]) (hp : p.degree < t) (S S' : Finset ℕ)
    (hS : t ≤ S.card) (hS' : t ≤ S'.card) (hinj : IdsDistinct F S) (hinj' : IdsDistinct F S') :
    recover S (share p) = recover S' (share p) := by
  rw [recover_secret t p hp S hS hinj, recover_secret t p hp S' hS' hinj']

/-- **Group public key.** Combining the public shares `p(j) • g1` of any `≥ t` identifiers gives
the public key of the undivided secret. -/
theorem recover_pubkey (t : ℕ) (p : F[X]) (hp : p.degree < t) (S : Finset ℕ) (hS : t ≤ S.card)
    (hinj : IdsDistinct F S) (g1 : G1) :
    recoverG F S (fun j => pk g1 (share p j)) = pk g1 (p.eval 0) := by
  unfold pk
  rw [recoverG_smul, recover_secret t p hp S hS hinj]

/-- **Threshold aggregation.** Partial signatures of any `≥ t` distinct shares over one message
combine into *the* signature of the undivided key, and it verifies under the group public key. -/
theorem threshold_aggregate (t : ℕ) (p : F[X]) (hp : p.degree < t) (S : Finset ℕ) (hS : t ≤ S.card)
    (hinj : IdsDistinct F S) (g1 : G1) (Hm : Msg → G2) (m : Msg) :
    recoverG F S (fun j => sign Hm (share p j) m) = sign Hm (p.eval 0) m ∧
    Verifies F g1 Hm (pk g1 (p.eval 0)) m (recoverG F S (fun j => sign Hm (share p j) m)) := by
  have h : recoverG F S (fun j => sign Hm (share p j) m) = sign Hm (p.eval 0) m := by
    unfold sign
    rw [recoverG_smul, recover_secret t p hp S hS hinj]
  exact ⟨h, p.eval 0, rfl, h⟩

/-- **Independence of the subset**: any two qualified sets give the same aggregate signature. -/
theorem aggregate_independent (t : ℕ) (p : F[X]) (hp : p.degree < t) (S S' : Finset ℕ)
    (hS : t ≤ S.card) (hS' : t ≤ S'.card) (hinj : IdsDistinct F S) (hinj' : IdsDistinct F S')
    (Hm : Msg → G2) (m : Msg) :
    recoverG F S (fun j => sign Hm (share p j) m) = recoverG F S' (fun j => sign Hm (share p j) m) := by
  unfold sign
  rw [recoverG_smul, recoverG_smul, recover_secret t p hp S hS hinj, recover_secret t p hp S' hS' hinj']

/-- Under a non-zero generator the idealised verification accepts exactly one signature per key and
message: the one the key produces. (This is what lets the theorems below speak about `Verifies`.) -/
theorem verifies_iff (g1 : G1) (hg : g1 ≠ 0) (Hm : Msg → G2) (s : F) (m : Msg) (σ : G2) :
    Verifies F g1 Hm (pk g1 s) m σ ↔ σ = sign Hm s m := by
  unfold Verifies pk sign
  constructor
  · rintro ⟨s', hk, hσ⟩
    have : (s - s') • g1 = 0 := by rw [sub_smul, hk, sub_self]
    rcases smul_eq_zero.mp this with h | h
    · rw [hσ, sub_eq_zero.mp h]
    · exact absurd h hg
  · intro h
    exact ⟨s, rfl, h⟩

/-- **An accepted signature is not a signature over another message.** If `σ` verifies under the
key of a non-zero secret for `m`, it does not verify under that key for any `m'` hashing to a
different point. -/
theorem verify_other_message_rejected (g1 : G1) (hg : g1 ≠ 0) (Hm : Msg → G2) (s : F) (hs : s ≠ 0)
    (m m' : Msg) (hmm : Hm m' ≠ Hm m) (σ : G2) (hacc : Verifies F g1 Hm (pk g1 s) m σ) :
    ¬ Verifies F g1 Hm (pk g1 s) m' σ := by
  intro h'
  have h1 := (verifies_iff g1 hg Hm s m σ).mp hacc
  have h2 := (verifies_iff g1 hg Hm s m' σ).mp h'
  unfold sign at h1 h2
  have h3 : s • (Hm m' - Hm m) = 0 := by rw [smul_sub, ← h1, ← h2, sub_self]
  rcases smul_eq_zero.mp h3 with h | h
  · exact hs h
  · exact hmm (sub_eq_zero.mp h)

/-- **An accepted signature does not verify under another key.** -/
theorem verify_other_key_rejected (g1 : G1) (hg : g1 ≠ 0) (Hm : Msg → G2) (s s' : F) (hss : s' ≠ s)
    (m : Msg) (hH : Hm m ≠ 0) (σ : G2) (hacc : Verifies F g1 Hm (pk g1 s) m σ) :
    ¬ Verifies F g1 Hm (pk g1 s') m σ := by
  intro h'
  have h1 := (verifies_iff g1 hg Hm s m σ).mp hacc
  have h2 := (verifies_iff g1 hg Hm s' m σ).mp h'
  unfold sign at h1 h2
  have h3 : (s' - s) • Hm m = 0 := by rw [sub_smul, ← h1, ← h2, sub_self]
  rcases smul_eq_zero.mp h3 with h | h
  · exact hss (sub_eq_zero.mp h)
  · exact hH h

/-- **Verification is stateless.** `Verifies` is a predicate of (key, message, signature) only. Any
implementation `impl history key m σ` that refines it — the obligation `tbls.Verify` must meet,
whatever it remembers of earlier calls — after accepting `σ` for `m` under the key of `s` in some
history, in *every* history still accepts exactly that triple, rejects `σ` for every message
hashing elsewhere and rejects it under every other key. (A memo of accepted (key, signature) pairs
that forgets the message does not refine `Verifies`.) -/
theorem verify_stateless {H : Type*} (impl : H → G1 → Msg → G2 → Prop) (g1 : G1) (hg : g1 ≠ 0)
    (Hm : Msg → G2) (hrefine : ∀ h K m σ, impl h K m σ ↔ Verifies F g1 Hm K m σ)
    (s : F) (hs : s ≠ 0) (m : Msg) (σ : G2) (h0 : H) (hacc : impl h0 (pk g1 s) m σ) (h1 : H) :
    impl h1 (pk g1 s) m σ ∧
    (∀ m', Hm m' ≠ Hm m → ¬ impl h1 (pk g1 s) m' σ) ∧
    (∀ s', s' ≠ s → Hm m ≠ 0 → ¬ impl h1 (pk g1 s') m σ) := by
  have hv := (hrefine h0 _ _ _).mp hacc
  refine ⟨(hrefine h1 _ _ _).mpr hv, fun m' hmm hi => ?_, fun s' hss hH hi => ?_⟩
  · exact verify_other_message_rejected g1 hg Hm s hs m m' hmm σ hv ((hrefine h1 _ _ _).mp hi)
  · exact verify_other_key_rejected g1 hg Hm s s' hss m hH σ hv ((hrefine h1 _ _ _).mp hi)

/-- **A signature made with a wrong share is rejected.** If in a qualified set the contribution of
identifier `j` is replaced by a signature (over the same message) under any scalar `s' ≠ p j`, the
combination is not the group signature and does not verify under the group key. -/
theorem wrong_share_rejected (t : ℕ) (p : F[X]) (hp : p.degree < t) (S : Finset ℕ) (hS : t ≤ S.card)
    (hinj : IdsDistinct F S) (hnz : IdsNonzero F S) (g1 : G1) (hg : g1 ≠ 0) (Hm : Msg → G2) (m : Msg)
    (hH : Hm m ≠ 0) (j : ℕ) (hj : j ∈ S) (s' : F) (hs' : s' ≠ share p j) :
    let σ := recoverG F S (Function.update (fun i => sign Hm (share p i) m) j (sign Hm s' m))
    σ ≠ sign Hm (p.eval 0) m ∧ ¬ Verifies F g1 Hm (pk g1 (p.eval 0)) m σ := by
  intro σ
  have hne : σ ≠ sign Hm (p.eval 0) m := by
    intro h
    have h1 := recoverG_update (F := F) S (fun i => sign Hm (share p i) m) j hj (sign Hm s' m)
    rw [(threshold_aggregate t p hp S hS hinj g1 Hm m).1] at h1
    have h2 : (lam S j : F) • (sign Hm s' m - sign Hm (share p j) m) = 0 := by
      have : σ = sign Hm (p.eval 0) m + (lam S j : F) • (sign Hm s' m - sign Hm (share p j) m) := h1
      rw [h] at this
      exact (left_eq_add.mp this)
    unfold sign at h2
    rw [← sub_smul, smul_smul] at h2
    rcases smul_eq_zero.mp h2 with h3 | h3
    · rcases mul_eq_zero.mp h3 with h4 | h4
      · exact lam_ne_zero S hinj hnz hj h4
      · exact hs' (sub_eq_zero.mp h4)
    · exact hH h3
  exact ⟨hne, fun hv => hne ((verifies_iff g1 hg Hm _ m σ).mp hv)⟩

/-- **A valid partial signature presented under a wrong index is rejected.** Share `k`'s signature
placed at identifier `j` (whether or not `k` itself also contributes) breaks the combination as
soon as the two shares differ, `p k ≠ p j`. -/
theorem wrong_index_rejected (t : ℕ) (p : F[X]) (hp : p.degree < t) (S : Finset ℕ) (hS : t ≤ S.card)
    (hinj : IdsDistinct F S) (hnz : IdsNonzero F S) (g1 : G1) (hg : g1 ≠ 0) (Hm : Msg → G2) (m : Msg)
    (hH : Hm m ≠ 0) (j : ℕ) (hj : j ∈ S) (k : ℕ) (hk : share p k ≠ share p j) :
    let σ := recoverG F S (Function.update (fun i => sign Hm (share p i) m) j (sign Hm (share p k) m))
    σ ≠ sign Hm (p.eval 0) m ∧ ¬ Verifies F g1 Hm (pk g1 (p.eval 0)) m σ :=
  wrong_share_rejected t p hp S hS hinj hnz g1 hg Hm m hH j hj (share p k) hk

/-- **A partial signature over a different message is rejected.** Share `j` signs `m'` instead of
`m`: if the two messages hash to different points and the share is not the zero scalar, the
combination is not the group signature over `m` and does not verify. -/
theorem wrong_message_rejected (t : ℕ) (p : F[X]) (hp : p.degree < t) (S : Finset ℕ) (hS : t ≤ S.card)
    (hinj : IdsDistinct F S) (hnz : IdsNonzero F S) (g1 : G1) (hg : g1 ≠ 0) (Hm : Msg → G2)
    (m m' : Msg) (hmm : Hm m' ≠ Hm m) (j : ℕ) (hj : j ∈ S) (hy : share p j ≠ 0) :
    let σ := recoverG F S (Function.update (fun i => sign Hm (share p i) m) j (sign Hm (share p j) m'))
    σ ≠ sign Hm (p.eval 0) m ∧ ¬ Verifies F g1 Hm (pk g1 (p.eval 0)) m σ := by
  intro σ
  have hne : σ ≠ sign Hm (p.eval 0) m := by
    intro h
    have h1 := recoverG_update (F := F) S (fun i => sign Hm (share p i) m) j hj (sign Hm (share p j) m')
    rw [(threshold_aggregate t p hp S hS hinj g1 Hm m).1] at h1
    have h2 : (lam S j : F) • (sign Hm (share p j) m' - sign Hm (share p j) m) = 0 := by
      have : σ = sign Hm (p.eval 0) m +
          (lam S j : F) • (sign Hm (share p j) m' - sign Hm (share p j) m) := h1
      rw [h] at this
      exact (left_eq_add.mp this)
    unfold sign at h2
    rw [← smul_sub, smul_smul] at h2
    rcases smul_eq_zero.mp h2 with h3 | h3
    · rcases mul_eq_zero.mp h3 with h4 | h4
      · exact lam_ne_zero S hinj hnz hj h4
      · exact hy h4
    · exact hmm (sub_eq_zero.mp h3)
  exact ⟨hne, fun hv => hne ((verifies_iff g1 hg Hm _ m σ).mp hv)⟩

/-! ### The executable scalar model (`Model/Fr.lean`, compared bit-for-bit with herumi by the
correspondence driver) satisfies the property — given that `r` is prime (hypothesis). -/

/-- `thresholdSplitInsecure` (model of `Herumi.ThresholdSplitInsecure`) hands out, for identifiers
`1..n`, the Horner evaluations of one coefficient list of length `t` whose constant term is the
secret. -/
theorem exec_split_spec (secret n t : ℕ) (chunks : List ℕ) (sh : List (ℕ × ℕ))
    (h : TblsExec.thresholdSplitInsecure secret n t chunks = .ok sh) :
    ∃ cs : List ℕ, cs.length = t ∧ cs.head? = some secret ∧ secret < Fr.r ∧ 2 ≤ t ∧
      sh = (List.range n).map fun i => (i + 1, Fr.evalPoly cs (i + 1)) := by
  unfold TblsExec.thresholdSplitInsecure at h
  by_cases ht : t ≤ 1
  · simp [ht] at h
  · by_cases hs : secret ≥ Fr.r
    · simp [ht, hs] at h
    · simp only [ht, hs, if_false] at h
      cases hg : TblsExec.genCoeffs (t - 1) chunks with
      | none => simp [hg] at h
      | some cs =>
        simp only [hg, TblsExec.SplitRes.ok.injEq] at h
        have hl := TblsExec.genCoeffs_length _ _ _ hg
        exact ⟨secret :: cs, by simp [hl]; omega, rfl, by omega, by omega, h.symm⟩

/-- **Executable recovery is correct**: Lagrange recovery as computed by `Fr.lagrangeAt0` (the
function whose output is compared bit-for-bit with `tbls.RecoverSecret`) over any `≥ t` distinct
identifiers below `r` returns the constant term of the coefficient list — for every coefficient
list, every identifier list. Hypothesis: `r` is prime. -/
theorem exec_recover_secret [Fact (Nat.Prime Fr.r)] (c : ℕ) (cs : List ℕ) (ids : List ℕ)
    (hnd : ids.Nodup) (hlt : ∀ i ∈ ids, i < Fr.r) (hlen : (c :: cs).length ≤ ids.length) :
    Fr.lagrangeAt0 (ids.map fun i => (i, Fr.evalPoly (c :: cs) i)) = c % Fr.r := by
  have hcast : ((Fr.lagrangeAt0 (ids.map fun i => (i, Fr.evalPoly (c :: cs) i)) : ℕ) : ZMod Fr.r)
      = ((c : ℕ) : ZMod Fr.r) := by
    rw [Fr.cast_lagrangeAt0 ids hnd]
    have hfun : recover ids.toFinset (fun i => ((Fr.evalPoly (c :: cs) i : ℕ) : ZMod Fr.r)) =
        recover ids.toFinset (share (Fr.polyOf (c :: cs))) := by
      unfold recover share idF
      exact Finset.sum_congr rfl fun j _ => by beta_reduce; rw [Fr.cast_evalPoly]
    rw [hfun, recover_secret (c :: cs).length (Fr.polyOf (c :: cs)) (Fr.polyOf_degree_lt _)
      ids.toFinset (by rw [List.toFinset_card_of_nodup hnd]; exact hlen)
      (idsDistinct_of_lt_char Fr.r _ fun k hk => hlt k (List.mem_toFinset.mp hk)),
      Fr.polyOf_eval_zero]
  have h1 := (ZMod.natCast_eq_natCast_iff' _ _ _).mp hcast
  rwa [Nat.mod_eq_of_lt (Fr.lagrangeAt0_lt _)] at h1

/-! ### Non-vacuity: the hypotheses are satisfiable and the objects compute (over `ℚ`, `G1 = G2 = ℚ`). -/

section Examples

example : split pEx 3 = [(1, 5), (2, 7), (3, 9)] := by
  simp [split, share, pEx, List.range_succ]; norm_num

example : recover ({1, 3} : Finset ℕ) (share pEx) = 3 := by
  rw [recover_secret 2 pEx pEx_deg _ (by decide) (idsDistinct_of_charZero _)]; simp [pEx]

example : recover ({1, 2, 3} : Finset ℕ) (share pEx) = recover ({2, 3} : Finset ℕ) (share pEx) :=
  recover_secret_independent 2 pEx pEx_deg _ _ (by decide) (by decide)
    (idsDistinct_of_charZero _) (idsDistinct_of_charZero _)

/-- the explicit coefficient: in `{1,2}` identifier 1 has `λ = 2/(2-1) = 2`. -/
example : (lam ({1, 2} : Finset ℕ) 1 : ℚ) = 2 := by
  rw [lam_eq_prod, show ({1, 2} : Finset ℕ).erase 1 = {2} by decide]; norm_num

example : recoverG ℚ ({2, 3} : Finset ℕ) (fun j => pk (1 : ℚ) (share pEx j)) = pk (1 : ℚ) (3 : ℚ) := by
  rw [recover_pubkey 2 pEx pEx_deg _ (by decide) (idsDistinct_of_charZero _)]; simp [pEx]

example (m : ℕ) :
    Verifies ℚ (1 : ℚ) (fun k : ℕ => (k + 1 : ℚ)) (pk (1 : ℚ) (pEx.eval 0)) m
      (recoverG ℚ ({1, 2} : Finset ℕ) (fun j => sign (fun k : ℕ => (k + 1 : ℚ)) (share pEx j) m)) :=
  (threshold_aggregate 2 pEx pEx_deg _ (by decide) (idsDistinct_of_charZero _) 1 _ m).2

/-- wrong share (scalar 4 instead of share 5 at identifier 1) is rejected. -/
example :
    ¬ Verifies ℚ (1 : ℚ) (fun k : ℕ => (k + 1 : ℚ)) (pk (1 : ℚ) (pEx.eval 0)) 0
      (recoverG ℚ ({1, 2} : Finset ℕ) (Function.update
        (fun i => sign (fun k : ℕ => (k + 1 : ℚ)) (share pEx i) 0) 1
        (sign (fun k : ℕ => (k + 1 : ℚ)) (4 : ℚ) 0))) := by
  have h := sEx_ok ({1, 2} : Finset ℕ) (by decide)
  refine (wrong_share_rejected 2 pEx pEx_deg _ (by decide) h.1 h.2 (1 : ℚ) one_ne_zero _ 0
    (by norm_num) 1 (by decide) 4 ?_).2
  simp [share, pEx]; norm_num

/-- share 2's signature presented as identifier 1 is rejected. -/
example :
    ¬ Verifies ℚ (1 : ℚ) (fun k : ℕ => (k + 1 : ℚ)) (pk (1 : ℚ) (pEx.eval 0)) 0
      (recoverG ℚ ({1, 3} : Finset ℕ) (Function.update
        (fun i => sign (fun k : ℕ => (k + 1 : ℚ)) (share pEx i) 0) 1
        (sign (fun k : ℕ => (k + 1 : ℚ)) (share pEx 2) 0))) := by
  have h := sEx_ok ({1, 3} : Finset ℕ) (by decide)
  refine (wrong_index_rejected 2 pEx pEx_deg _ (by decide) h.1 h.2 (1 : ℚ) one_ne_zero _ 0
    (by norm_num) 1 (by decide) 2 ?_).2
  simp [share, pEx]

/-- identifier 1 signing message 5 instead of message 0 is rejected. -/
example :
    ¬ Verifies ℚ (1 : ℚ) (fun k : ℕ => (k + 1 : ℚ)) (pk (1 : ℚ) (pEx.eval 0)) 0
      (recoverG ℚ ({1, 2} : Finset ℕ) (Function.update
        (fun i => sign (fun k : ℕ => (k + 1 : ℚ)) (share pEx i) 0) 1
        (sign (fun k : ℕ => (k + 1 : ℚ)) (share pEx 1) 5))) := by
  have h := sEx_ok ({1, 2} : Finset ℕ) (by decide)
  refine (wrong_message_rejected 2 pEx pEx_deg _ (by decide) h.1 h.2 (1 : ℚ) one_ne_zero _ 0 5
    (by norm_num) 1 (by decide) ?_).2
  simp [share, pEx]; norm_num

/-- the group signature over message 0 (accepted) is rejected for message 5, in whatever "history". -/
example :
    ¬ Verifies ℚ (1 : ℚ) (fun k : ℕ => (k + 1 : ℚ)) (pk (1 : ℚ) (3 : ℚ)) 5
      (sign (fun k : ℕ => (k + 1 : ℚ)) (3 : ℚ) 0) :=
  verify_other_message_rejected (1 : ℚ) one_ne_zero _ 3 (by norm_num) 0 5 (by norm_num) _
    ⟨3, rfl, rfl⟩

/-- The side conditions are needed: with identifier `0` in the set (zero scalar), the other
contribution has coefficient 0 and a wrong share there goes unnoticed. -/
example : (lam ({0, 1} : Finset ℕ) 1 : ℚ) = 0 := by
  rw [lam_eq_prod, show ({0, 1} : Finset ℕ).erase 1 = {0} by decide]; norm_num

/-- the executable model computes: 2-of-3 split of 3 with coefficient 2 gives shares 5, 7, 9 and
identifiers {1,3} recover 3 (kernel evaluation of `Model/Fr.lean`, 255-bit modular arithmetic). -/
example : TblsExec.thresholdSplitInsecure 3 3 2 [2] = .ok [(1, 5), (2, 7), (3, 9)] := by decide +kernel

example : Fr.lagrangeAt0 [(1, 5), (3, 9)] = 3 := by decide +kernel

end Examples

end CharonV.Tbls

/-! ### Unconditional form: `Fr.r` is proved prime (`Proofs/FrPrime.lean`, Lucas certificate) -/

namespace CharonV.Tbls

/-- **Executable recovery is correct, no hypothesis on `r`**: `exec_recover_secret` with the
primality of the BLS12-381 scalar-field order discharged by `Fr.r_prime` (kernel-checked Lucas /
Pratt certificate, witness 7). -/
theorem exec_recover_secret_unconditional (c : ℕ) (cs : List ℕ) (ids : List ℕ)
    (hnd : ids.Nodup) (hlt : ∀ i ∈ ids, i < Fr.r) (hlen : (c :: cs).length ≤ ids.length) :
    Fr.lagrangeAt0 (ids.map fun i => (i, Fr.evalPoly (c :: cs) i)) = c % Fr.r :=
  @exec_recover_secret ⟨Fr.r_prime⟩ c cs ids hnd hlt hlen

end CharonV.Tbls
