/-
C14 — duty data encoding is lossless, deterministic and total.   PARTIAL for this technique.

PROVED here (kernel-checked, all inputs, abstract inner codec):
 (a) charon's own SSZ wrappers (`core/ssz.go`): round trip, rejection of short input / unknown
     version / bad offset, exact characterisation of what is accepted, injectivity of `marshal`;
     `VersionedAttestation` dispatch incl. its backwards-compatibility fallback; `AttestationData`
     and `attesterDutySSZ`. Layouts are tied to the Go source by `source_layout` / `source_text`
     over `CharonV.Generated.SszWrap` (translator T-sszwrap, regenerated on every run) and
     byte-exactly by the correspondence stream `codec`.
 (b) `marshal` / `unmarshal` of `core/proto.go`: round trip for both encodings and the exact
     condition under which JSON is attempted.
 (c) set encoders as loops over a Go map with an explicit iteration order: decode ∘ encode = id,
     result independent of the iteration order.
 (d) `hashProto` is independent of the iteration order given deterministic marshalling.

NOT proved (a theorem cannot exhibit a Go panic): panic-freedom of the Go code and of the
go-eth2-client decoders on malformed input. That clause is EXPLORED by the harness
(`harness/cmd/drive-codec`, evidence keys `explored_*`), see `vlib/props_C14.py`.

History (defect ids of this property: D-13 peer JSON-null panic, D-14 decided-proposal null panic,
D-15 attestation slot 20):
 D-15 — before repo commit 2a43df9 the statement
   ∀ inner codec with `dec (enc x) = ok x`, ∀ v : VersionedAttestation, unmarshalAtt (marshalAtt v) = ok v
 was FALSE for a value WITHOUT validator index whose inner bytes 4..8 read 20 (an attestation for a
 slot ≡ 20 mod 2^32): the compatibility fallback was taken only on `ssz.ErrOffset`. The pre-fix
 decoder is kept in the model as `unmarshalAttPrefix`; `prefix_attestation_roundtrip_noindex_fails`
 (negation on a witness) and `prefix_attestation_roundtrip_noindex_partial` remain proved about it.
 For the code as it is now (fallback on any failure) `attestation_roundtrip_noindex` is proved for
 every slot; its one hypothesis concerns the inner codec only and is intrinsic to the wire format,
 whose two forms overlap (`attestation_marshal_ambiguous`, unchanged by the fix). The harness monitor
 `codec:att_noidx_slot20_undecodable` and the regression ops in corpus/C14 keep watching it.
 D-13 / D-14 — fixed by repo commit d1a44e9 (structural validation inside the recover scopes of
 ParSignedDataFromProto / UnsignedDataSetFromProto); panic-freedom remains EXPLORED, not proved.
-/
import CharonV.Proofs.SszWrap

namespace CharonV.Props.C14
open CharonV.SszWrap
open CharonV.Generated.SszWrap (versionedBlindedOffset versionedOffset versionedValIdxOffset
  dataVersionValues acceptedVersions)

/-! ## tie to the Go source (T-sszwrap) -/

/-- The interpreted statement lists of the three wrappers in `core/ssz.go` are the ones the model
mirrors: header fields in this order with these sizes, the offset constant written equals the
header size, the same slice bounds are read back, short input is `ErrSize`, the offset check is a
range `[hdr, len]` for two wrappers and an equality for the validator-index one; the version
table and the versions accepted by every `sszValFromVersion` are the model's `Ver`. -/
theorem source_layout :
    versionedBlindedOffset = 8 + 1 + 4 ∧ versionedOffset = 8 + 4 ∧ versionedValIdxOffset = 8 + 8 + 4 ∧
    dataVersionValues = Ver.all.map (fun v => (v.name, v.toNat)) ∧
    (∀ n, Ver.ofNat? n = (Ver.all.find? (fun v => v.toNat == n))) ∧
    acceptedVersions = ["VersionedSignedProposal", "VersionedProposal", "VersionedAttestation",
        "VersionedSignedAggregateAndProof", "VersionedAggregatedAttestation"].map
      (fun t => (t, Ver.all.map Ver.name ++ ["default:error"])) ∧
    CharonV.Generated.SszWrap.marshalSSZVersionedBlindedTo =
      [("u64:version", 8, 0), ("bool:blinded", 1, 0), ("u32:offset", blindedOff, 0), ("valFunc", 0, 0), ("inner", 0, 0), ("return", 0, 0)] ∧
    CharonV.Generated.SszWrap.marshalSSZVersionedValidatorIdxTo =
      [("u64:version", 8, 0), ("u64:valIdx", 8, 0), ("u32:offset", valIdxOff, 0), ("valFunc", 0, 0), ("inner", 0, 0), ("return", 0, 0)] ∧
    CharonV.Generated.SszWrap.marshalSSZVersionedTo =
      [("u64:version", 8, 0), ("u32:offset", versionedOff, 0), ("valFunc", 0, 0), ("inner", 0, 0), ("return", 0, 0)] ∧
    CharonV.Generated.SszWrap.unmarshalSSZVersionedBlinded =
      [("minLen:ErrSize", blindedOff, 0), ("u64:version", 0, 8), ("versionErr", 0, 0), ("bool:blinded", 8, 9),
       ("u32:offset", 9, 13), ("checkRange:ErrOffset", blindedOff, 0), ("valFunc", 0, 0), ("inner:buf[o1:]", 0, 0),
       ("return:version,blinded", 0, 0)] ∧
    CharonV.Generated.SszWrap.unmarshalSSZVersionedValidatorIdx =
      [("minLen:ErrSize", valIdxOff, 0), ("u64:version", 0, 8), ("versionErr", 0, 0), ("u64:valIdx", 8, 16),
       ("u32:offset", 16, 20), ("checkExact:ErrOffset", valIdxOff, 0), ("valFunc", 0, 0), ("inner:buf[o1:]", 0, 0),
       ("return:version,valIdx", 0, 0)] ∧
    CharonV.Generated.SszWrap.unmarshalSSZVersioned =
      [("minLen:ErrSize", versionedOff, 0), ("u64:version", 0, 8), ("versionErr", 0, 0), ("u32:offset", 8, 12),
       ("checkRange:ErrOffset", versionedOff, 0), ("valFunc", 0, 0), ("inner:buf[o1:]", 0, 0), ("return:version", 0, 0)] := by
  refine ⟨by decide, by decide, by decide, by decide, ?_, by decide, by decide, by decide, by decide,
    by decide, by decide, by decide⟩
  intro n
  match n with
  | 0 | 1 | 2 | 3 | 4 | 5 | 6 => rfl
  | n + 7 =>
    have : ∀ v : Ver, (v.toNat == n + 7) = false := by
      intro v; cases v <;> simp [Ver.toNat] <;> omega
    simp [Ver.ofNat?, Ver.all, this]

/-- Normalised statement text of the functions that the model mirrors by hand and that
T-sszwrap does not interpret: the per-type dispatch (which wrapper a type uses, the
`VersionedAttestation` fallback to the index-less form on any failure), `AttestationData`,
`attesterDutySSZ`, `marshal` / `unmarshal` and the four set encoders. The text is modulo
α-renaming: T-sszwrap renames the receiver `r0`, the parameters `p0, p1, …` by position, named results
`o0, …` and the locals `v0, v1, …` in order of declaration before printing, so the names chosen in the
Go source do not occur; any other edit of these functions (a statement added, removed, reordered or
changed) makes this theorem fail (the obligation is then reported as no longer shown). -/
theorem source_text :
    CharonV.Generated.SszWrap.VersionedSignedProposal_MarshalSSZTo =
      ["v0, v1 := eth2util.DataVersionFromETH2(r0.Version)",
       "if v1 != nil { return nil, errors.Wrap(v1, \"invalid version\") }",
       "return marshalSSZVersionedBlindedTo(p0, v0, r0.Blinded, r0.sszValFromVersion)"] ∧
    CharonV.Generated.SszWrap.VersionedSignedProposal_UnmarshalSSZ =
      ["v0, v1, v2 := unmarshalSSZVersionedBlinded(p0, r0.sszValFromVersion)",
       "if v2 != nil { return errors.Wrap(v2, \"unmarshal VersionedSignedProposal\") }", "r0.Version = v0.ToETH2()",
       "r0.Blinded = v1", "return nil"] ∧
    CharonV.Generated.SszWrap.VersionedProposal_MarshalSSZTo =
      ["v0, v1 := eth2util.DataVersionFromETH2(r0.Version)",
       "if v1 != nil { return nil, errors.Wrap(v1, \"invalid version\") }",
       "return marshalSSZVersionedBlindedTo(p0, v0, r0.Blinded, r0.sszValFromVersion)"] ∧
    CharonV.Generated.SszWrap.VersionedProposal_UnmarshalSSZ =
      ["v0, v1, v2 := unmarshalSSZVersionedBlinded(p0, r0.sszValFromVersion)",
       "if v2 != nil { return errors.Wrap(v2, \"unmarshal VersionedProposal\") }", "r0.Version = v0.ToETH2()",
       "r0.Blinded = v1", "return nil"] ∧
    CharonV.Generated.SszWrap.VersionedAttestation_MarshalSSZTo =
      ["v0, v1 := eth2util.DataVersionFromETH2(r0.Version)",
       "if v1 != nil { return nil, errors.Wrap(v1, \"invalid version\") }",
       "if r0.ValidatorIndex == nil { return marshalSSZVersionedTo(p0, v0, r0.sszValFromVersion) }",
       "v2 := *r0.ValidatorIndex", "return marshalSSZVersionedValidatorIdxTo(p0, v0, v2, r0.sszValFromVersion)"] ∧
    CharonV.Generated.SszWrap.VersionedAttestation_UnmarshalSSZ =
      ["v0, v1, v2 := unmarshalSSZVersionedValidatorIdx(p0, r0.sszValFromVersion)",
       "if v2 != nil { var v3 error v0, v3 = unmarshalSSZVersioned(p0, r0.sszValFromVersion) if v3 != nil { if !errors.Is(v2, ssz.ErrOffset) { return errors.Wrap(v2, \"unmarshal VersionedAttestation\") } return errors.Wrap(v3, \"unmarshal VersionedAttestation without validator index\") } v1 = nil }",
       "r0.Version = v0.ToETH2()", "r0.ValidatorIndex = v1", "return nil"] ∧
    CharonV.Generated.SszWrap.VersionedSignedAggregateAndProof_MarshalSSZTo =
      ["v0, v1 := eth2util.DataVersionFromETH2(r0.Version)",
       "if v1 != nil { return nil, errors.Wrap(v1, \"invalid version\") }",
       "return marshalSSZVersionedTo(p0, v0, r0.sszValFromVersion)"] ∧
    CharonV.Generated.SszWrap.VersionedSignedAggregateAndProof_UnmarshalSSZ =
      ["v0, v1 := unmarshalSSZVersioned(p0, r0.sszValFromVersion)",
       "if v1 != nil { return errors.Wrap(v1, \"unmarshal VersionedSignedAggregateAndProof\") }",
       "r0.Version = v0.ToETH2()", "return nil"] ∧
    CharonV.Generated.SszWrap.VersionedAggregatedAttestation_MarshalSSZTo =
      ["v0, v1 := eth2util.DataVersionFromETH2(r0.Version)",
       "if v1 != nil { return nil, errors.Wrap(v1, \"invalid version\") }",
       "return marshalSSZVersionedTo(p0, v0, r0.sszValFromVersion)"] ∧
    CharonV.Generated.SszWrap.VersionedAggregatedAttestation_UnmarshalSSZ =
      ["v0, v1 := unmarshalSSZVersioned(p0, r0.sszValFromVersion)",
       "if v1 != nil { return errors.Wrap(v1, \"unmarshal VersionedAggregatedAttestation\") }",
       "r0.Version = v0.ToETH2()", "return nil"] ∧
    CharonV.Generated.SszWrap.AttestationData_MarshalSSZTo =
      ["v0 := 4 + 4", "p0 = ssz.WriteOffset(p0, v0)", "v0 += r0.Data.SizeSSZ()", "p0 = ssz.WriteOffset(p0, v0)",
       "p0, v1 := r0.Data.MarshalSSZTo(p0)",
       "if v1 != nil { return nil, errors.Wrap(v1, \"marshal attestation data\") }",
       "p0, v1 = attesterDutySSZ(r0.Duty).MarshalSSZTo(p0)",
       "if v1 != nil { return nil, errors.Wrap(v1, \"marshal attester duty\") }", "return p0, nil"] ∧
    CharonV.Generated.SszWrap.AttestationData_UnmarshalSSZ =
      ["v0 := uint64(4 + 4)", "v1 := uint64(len(p0))",
       "if v1 < v0 { return errors.Wrap(ssz.ErrSize, \"attestation data too short\") }",
       "v2 := ssz.ReadOffset(p0[0:4])",
       "if v1 < v2 || v0 > v2 { return errors.Wrap(ssz.ErrOffset, \"attestation data offset\") }",
       "v3 := ssz.ReadOffset(p0[4:8])",
       "if v1 < v3 || v2 > v3 { return errors.Wrap(ssz.ErrOffset, \"attester duty offset\") }",
       "if v4 := r0.Data.UnmarshalSSZ(p0[v2:v3]); v4 != nil { return errors.Wrap(v4, \"unmarshal attestation data\") }",
       "if v5 := (*attesterDutySSZ)(&r0.Duty).UnmarshalSSZ(p0[v3:]); v5 != nil { return errors.Wrap(v5, \"unmarshal attester duty\") }",
       "return nil"] ∧
    CharonV.Generated.SszWrap.attesterDutySSZ_MarshalSSZTo =
      ["p0 = append(p0, r0.PubKey[:]...)", "p0 = ssz.MarshalUint64(p0, uint64(r0.Slot))",
       "p0 = ssz.MarshalUint64(p0, uint64(r0.ValidatorIndex))",
       "p0 = ssz.MarshalUint64(p0, uint64(r0.CommitteeIndex))", "p0 = ssz.MarshalUint64(p0, r0.CommitteeLength)",
       "p0 = ssz.MarshalUint64(p0, r0.CommitteesAtSlot)", "p0 = ssz.MarshalUint64(p0, r0.ValidatorCommitteeIndex)",
       "return p0, nil"] ∧
    CharonV.Generated.SszWrap.attesterDutySSZ_SizeSSZ =
      ["return 48 + 6*8"] ∧
    CharonV.Generated.SszWrap.attesterDutySSZ_UnmarshalSSZ =
      ["if len(p0) < r0.SizeSSZ() { return errors.Wrap(ssz.ErrSize, \"attesterDuty unmarshal\") }", "v0 := 0",
       "v1 := 48", "copy(r0.PubKey[:], p0[v0:v1])", "v0, v1 = v1, v1+8",
       "r0.Slot = eth2p0.Slot(ssz.UnmarshallUint64(p0[v0:v1]))", "v0, v1 = v1, v1+8",
       "r0.ValidatorIndex = eth2p0.ValidatorIndex(ssz.UnmarshallUint64(p0[v0:v1]))", "v0, v1 = v1, v1+8",
       "r0.CommitteeIndex = eth2p0.CommitteeIndex(ssz.UnmarshallUint64(p0[v0:v1]))", "v0, v1 = v1, v1+8",
       "r0.CommitteeLength = ssz.UnmarshallUint64(p0[v0:v1])", "v0, v1 = v1, v1+8",
       "r0.CommitteesAtSlot = ssz.UnmarshallUint64(p0[v0:v1])", "v0, v1 = v1, v1+8",
       "r0.ValidatorCommitteeIndex = ssz.UnmarshallUint64(p0[v0:v1])", "return nil"] ∧
    CharonV.Generated.SszWrap.proto_marshal =
      ["if v0, v1 := p0.(ssz.Marshaler); v1 && sszMarshallingEnabled { v2, v3 := v0.MarshalSSZ() if v3 != nil { return nil, errors.Wrap(v3, \"marshal ssz\") } return v2, nil }",
       "v4, v5 := json.Marshal(p0)", "if v5 != nil { return nil, errors.Wrap(v5, \"marshal json\") }",
       "return v4, nil"] ∧
    CharonV.Generated.SszWrap.proto_unmarshal =
      ["if v0, v1 := p1.(ssz.Unmarshaler); v1 { if v2 := v0.UnmarshalSSZ(p0); v2 == nil { return nil } else if !bytes.HasPrefix(bytes.TrimSpace(p0), []byte(\"{\")) { return errors.Wrap(v2, \"unmarshal ssz\") } }",
       "if v3 := json.Unmarshal(p0, p1); v3 != nil { return errors.Wrap(v3, \"unmarshal json\") }", "return nil"] ∧
    CharonV.Generated.SszWrap.ParSignedDataSetToProto =
      ["v0 := make(map[string]*pbv1.ParSignedData)",
       "for v1, v2 := range p0 { v3, v4 := ParSignedDataToProto(v2) if v4 != nil { return nil, v4 } v0[string(v1)] = v3 }",
       "return &pbv1.ParSignedDataSet{ Set: v0, }, nil"] ∧
    CharonV.Generated.SszWrap.ParSignedDataSetFromProto =
      ["if p1 == nil || len(p1.GetSet()) == 0 { return nil, errors.New(\"invalid partial signed data set proto fields\", z.Any(\"set\", p1)) }",
       "var ( v0 = make(ParSignedDataSet) v1 error )",
       "for v2, v3 := range p1.GetSet() { v0[PubKey(v2)], v1 = ParSignedDataFromProto(p0, v3) if v1 != nil { return nil, v1 } }",
       "return v0, nil"] ∧
    CharonV.Generated.SszWrap.UnsignedDataSetToProto =
      ["v0 := make(map[string][]byte)",
       "for v1, v2 := range p0 { var v3 error v0[string(v1)], v3 = marshal(v2) if v3 != nil { return nil, v3 } }",
       "return &pbv1.UnsignedDataSet{ Set: v0, }, nil"] ∧
    CharonV.Generated.SszWrap.UnsignedDataSetFromProto =
      ["defer func() { if v0 := recover(); v0 != nil { o1 = recoverPanicErr(v0) } }()",
       "if p1 == nil || len(p1.GetSet()) == 0 { return nil, errors.New(\"invalid unsigned data set fields\", z.Any(\"set\", p1)) }",
       "v1 := make(UnsignedDataSet)",
       "for v2, v3 := range p1.GetSet() { var v4 error v1[PubKey(v2)], v4 = unmarshalUnsignedData(p0, v3) if v4 != nil { return nil, v4 } if _, v4 = v1[PubKey(v2)].Clone(); v4 != nil { return nil, errors.Wrap(v4, \"incomplete unsigned data\") } }",
       "return v1, nil"] := by
  refine ⟨rfl, rfl, rfl, rfl, rfl, rfl, rfl, rfl, rfl, rfl, rfl, rfl, rfl, rfl, rfl, rfl, rfl, rfl, rfl, rfl, rfl⟩

/-! ## (a) versioned-blinded wrapper (VersionedSignedProposal, VersionedProposal) -/

theorem blinded_roundtrip (c : CodecB α) (h : ∀ v b x, c.dec v b (c.enc v b x) = .ok x) (x : VB α) :
    unmarshalBlinded c (marshalBlinded c x) = .ok x :=
  unmarshalBlinded_marshal c h x

theorem blinded_rejects_short (c : CodecB α) (buf : Bytes) (h : buf.length < 13) :
    unmarshalBlinded c buf = .error .size :=
  unmarshalBlinded_short c h

theorem blinded_rejects_unknown_version (c : CodecB α) (buf : Bytes) (h : 13 ≤ buf.length)
    (hv : 7 ≤ leVal (slice buf 0 8)) : unmarshalBlinded c buf = .error .version :=
  unmarshalBlinded_unknown_version c h hv

theorem blinded_rejects_bad_offset (c : CodecB α) (buf : Bytes) (h : 13 ≤ buf.length)
    (hv : leVal (slice buf 0 8) < 7)
    (ho : leVal (slice buf 9 13) < 13 ∨ buf.length < leVal (slice buf 9 13)) :
    unmarshalBlinded c buf = .error .offset :=
  unmarshalBlinded_bad_offset c h hv ho

/-- Whatever is accepted has a complete header, a known version, an offset inside the buffer, and
was accepted by the inner decoder on exactly `buf[o1:]` — the decoded value is built from nothing
else. -/
theorem blinded_accepts_only_wellformed (c : CodecB α) (buf : Bytes) (x : VB α)
    (h : unmarshalBlinded c buf = .ok x) :
    13 ≤ buf.length ∧ x.ver.toNat = leVal (slice buf 0 8) ∧ x.blinded = (slice buf 8 9 == [1]) ∧
    13 ≤ leVal (slice buf 9 13) ∧ leVal (slice buf 9 13) ≤ buf.length ∧
    c.dec x.ver x.blinded (buf.drop (leVal (slice buf 9 13))) = .ok x.val :=
  unmarshalBlinded_ok c h

theorem blinded_marshal_injective (c : CodecB α) (hinj : ∀ v b x y, c.enc v b x = c.enc v b y → x = y)
    (x y : VB α) (h : marshalBlinded c x = marshalBlinded c y) : x = y :=
  marshalBlinded_injective c hinj h

/-- Decoding is not injective: the range check lets an encoder leave a gap between header and
inner object, so two byte strings decode to the same value (equal values still yield equal bytes,
`blinded_marshal_injective` is about `marshal`). -/
theorem blinded_decode_not_injective :
    unmarshalBlinded slackCodec (le 8 0 ++ [0] ++ le 4 13) = .ok ⟨.phase0, false, ()⟩ ∧
    unmarshalBlinded slackCodec (le 8 0 ++ [0] ++ le 4 14 ++ [0xFF]) = .ok ⟨.phase0, false, ()⟩ :=
  unmarshalBlinded_offset_slack

/-! ## (a) versioned wrapper (VersionedSignedAggregateAndProof, VersionedAggregatedAttestation) -/

theorem versioned_roundtrip (c : Codec α) (h : ∀ v x, c.dec v (c.enc v x) = .ok x) (x : VV α) :
    unmarshalVersioned c (marshalVersioned c x) = .ok x :=
  unmarshalVersioned_marshal c h x

theorem versioned_rejects_short (c : Codec α) (buf : Bytes) (h : buf.length < 12) :
    unmarshalVersioned c buf = .error .size :=
  unmarshalVersioned_short c h

theorem versioned_rejects_unknown_version (c : Codec α) (buf : Bytes) (h : 12 ≤ buf.length)
    (hv : 7 ≤ leVal (slice buf 0 8)) : unmarshalVersioned c buf = .error .version :=
  unmarshalVersioned_unknown_version c h hv

theorem versioned_rejects_bad_offset (c : Codec α) (buf : Bytes) (h : 12 ≤ buf.length)
    (hv : leVal (slice buf 0 8) < 7)
    (ho : leVal (slice buf 8 12) < 12 ∨ buf.length < leVal (slice buf 8 12)) :
    unmarshalVersioned c buf = .error .offset :=
  unmarshalVersioned_bad_offset c h hv ho

theorem versioned_accepts_only_wellformed (c : Codec α) (buf : Bytes) (x : VV α)
    (h : unmarshalVersioned c buf = .ok x) :
    12 ≤ buf.length ∧ x.ver.toNat = leVal (slice buf 0 8) ∧
    12 ≤ leVal (slice buf 8 12) ∧ leVal (slice buf 8 12) ≤ buf.length ∧
    c.dec x.ver (buf.drop (leVal (slice buf 8 12))) = .ok x.val :=
  unmarshalVersioned_ok c h

theorem versioned_marshal_injective (c : Codec α) (hinj : ∀ v x y, c.enc v x = c.enc v y → x = y)
    (x y : VV α) (h : marshalVersioned c x = marshalVersioned c y) : x = y :=
  marshalVersioned_injective c hinj h

/-! ## (a) validator-index wrapper and the VersionedAttestation dispatch -/

theorem validx_roundtrip (c : Codec α) (h : ∀ v x, c.dec v (c.enc v x) = .ok x) (x : VI α)
    (hi : x.idx < 2 ^ 64) : unmarshalValIdx c (marshalValIdx c x) = .ok x :=
  unmarshalValIdx_marshal c h x hi

theorem validx_rejects_short (c : Codec α) (buf : Bytes) (h : buf.length < 20) :
    unmarshalValIdx c buf = .error .size :=
  unmarshalValIdx_short c h

theorem validx_rejects_unknown_version (c : Codec α) (buf : Bytes) (h : 20 ≤ buf.length)
    (hv : 7 ≤ leVal (slice buf 0 8)) : unmarshalValIdx c buf = .error .version :=
  unmarshalValIdx_unknown_version c h hv

/-- here the offset must be exactly 20 -/
theorem validx_rejects_bad_offset (c : Codec α) (buf : Bytes) (h : 20 ≤ buf.length)
    (hv : leVal (slice buf 0 8) < 7) (ho : leVal (slice buf 16 20) ≠ 20) :
    unmarshalValIdx c buf = .error .offset :=
  unmarshalValIdx_bad_offset c h hv ho

theorem validx_accepts_only_wellformed (c : Codec α) (buf : Bytes) (x : VI α)
    (h : unmarshalValIdx c buf = .ok x) :
    20 ≤ buf.length ∧ x.ver.toNat = leVal (slice buf 0 8) ∧ x.idx = leVal (slice buf 8 16) ∧
    leVal (slice buf 16 20) = 20 ∧ c.dec x.ver (buf.drop 20) = .ok x.val :=
  unmarshalValIdx_ok c h

theorem validx_marshal_injective (c : Codec α) (hinj : ∀ v x y, c.enc v x = c.enc v y → x = y)
    (x y : VI α) (hx : x.idx < 2 ^ 64) (hy : y.idx < 2 ^ 64)
    (h : marshalValIdx c x = marshalValIdx c y) : x = y :=
  marshalValIdx_injective c hinj hx hy h

theorem attestation_roundtrip_with_index (c : Codec α) (h : ∀ v x, c.dec v (c.enc v x) = .ok x)
    (ver : Ver) (i : Nat) (val : α) (hi : i < 2 ^ 64) :
    unmarshalAtt c (marshalAtt c ⟨ver, some i, val⟩) = .ok ⟨ver, some i, val⟩ :=
  unmarshalAtt_marshal_idx c h ver i val hi false

/-- The full statement for the code as it is now (D-15 fixed): every index-less attestation,
whatever its slot. `hshift` is about the inner codec only (see `unmarshalAtt_marshal_noidx`): when
inner bytes 4..8 read 20 the inner decoder does not accept the object shifted by 8 bytes. -/
theorem attestation_roundtrip_noindex (c : Codec α) (h : ∀ v x, c.dec v (c.enc v x) = .ok x)
    (ver : Ver) (val : α)
    (hshift : leVal (slice (c.enc ver val) 4 8) = 20 → ∃ e, c.dec ver ((c.enc ver val).drop 8) = .error e) :
    unmarshalAtt c (marshalAtt c ⟨ver, none, val⟩) = .ok ⟨ver, none, val⟩ :=
  unmarshalAtt_marshal_noidx c h ver val hshift

/-- in particular no hypothesis at all is needed when bytes 4..8 do not read 20 -/
theorem attestation_roundtrip_noindex_other_slots (c : Codec α) (h : ∀ v x, c.dec v (c.enc v x) = .ok x)
    (ver : Ver) (val : α) (hne : leVal (slice (c.enc ver val) 4 8) ≠ 20) :
    unmarshalAtt c (marshalAtt c ⟨ver, none, val⟩) = .ok ⟨ver, none, val⟩ :=
  unmarshalAtt_marshal_noidx c h ver val (fun h20 => absurd h20 hne)

/-- PRE-FIX decoder (before 2a43df9): round trip only under `hne`. -/
theorem prefix_attestation_roundtrip_noindex_partial (c : Codec α) (h : ∀ v x, c.dec v (c.enc v x) = .ok x)
    (ver : Ver) (val : α) (h8 : 8 ≤ (c.enc ver val).length)
    (hne : leVal (slice (c.enc ver val) 4 8) ≠ 20) :
    unmarshalAttPrefix c (marshalAtt c ⟨ver, none, val⟩) = .ok ⟨ver, none, val⟩ :=
  unmarshalAtt_marshal_noidx_partial c h ver val h8 hne true

/-- PRE-FIX decoder: negation of the full statement on a witness (perfectly invertible inner
codec, rejected) — and the same witness is decoded by the code as it is now. -/
theorem prefix_attestation_roundtrip_noindex_fails :
    (∀ v x, slot20Codec.dec v (slot20Codec.enc v x) = .ok x) ∧
    unmarshalAttPrefix slot20Codec (marshalAtt slot20Codec ⟨.deneb, none, ()⟩) ≠ .ok ⟨.deneb, none, ()⟩ ∧
    unmarshalAtt slot20Codec (marshalAtt slot20Codec ⟨.deneb, none, ()⟩) = .ok ⟨.deneb, none, ()⟩ := by
  refine ⟨slot20Codec_roundtrip, ?_, unmarshalAtt_marshal_noidx_witness⟩
  rw [unmarshalAttPrefix_marshal_noidx_fails]
  intro h
  cases h

theorem attestation_marshal_injective_partial (c : Codec α) (hinj : ∀ v x y, c.enc v x = c.enc v y → x = y)
    (x y : VA α) (hx : ∀ i, x.idx = some i → i < 2 ^ 64) (hy : ∀ i, y.idx = some i → i < 2 ^ 64)
    (sx : NoIdxSafe c x) (sy : NoIdxSafe c y) (h : marshalAtt c x = marshalAtt c y) : x = y :=
  marshalAtt_injective_partial c hinj hx hy sx sy h

/-- without `NoIdxSafe`: two different values, one byte string (injective, invertible inner codec) -/
theorem attestation_marshal_ambiguous :
    marshalAtt idCodec ⟨.deneb, none, [0xE4, 0, 0, 0, 20, 0, 0, 0, 1, 2, 3]⟩ =
    marshalAtt idCodec ⟨.deneb, some (12 + 2 ^ 32 * 0xE4), [1, 2, 3]⟩ :=
  marshalAtt_ambiguous

/-! ## (a) AttestationData and attesterDutySSZ -/

theorem attester_duty_roundtrip (d : Duty) (wf : d.WF) (extra : Bytes) :
    unmarshalDuty (marshalDuty d ++ extra) = some d :=
  unmarshalDuty_marshal d wf extra

theorem attester_duty_rejects_short (buf : Bytes) (h : buf.length < 96) : unmarshalDuty buf = none :=
  unmarshalDuty_short h

theorem attdata_roundtrip (c : CodecD α) (h : ∀ x, c.dec (c.enc x) = .ok x) (x : AttData α)
    (wf : x.duty.WF) (hsz : 8 + (c.enc x.data).length < 2 ^ 32) :
    unmarshalAttData c (marshalAttData c x) = .ok x :=
  unmarshalAttData_marshal c h x wf hsz

theorem attdata_rejects_short (c : CodecD α) (buf : Bytes) (h : buf.length < 8) :
    unmarshalAttData c buf = .error .size :=
  unmarshalAttData_short c h

theorem attdata_rejects_bad_offsets (c : CodecD α) (buf : Bytes) (h : 8 ≤ buf.length) :
    ((buf.length < leVal (slice buf 0 4) ∨ leVal (slice buf 0 4) < 8) →
      unmarshalAttData c buf = .error .offset0) ∧
    (¬ (buf.length < leVal (slice buf 0 4) ∨ leVal (slice buf 0 4) < 8) →
      (buf.length < leVal (slice buf 4 8) ∨ leVal (slice buf 4 8) < leVal (slice buf 0 4)) →
      unmarshalAttData c buf = .error .offset1) :=
  ⟨unmarshalAttData_bad_offset0 c h, unmarshalAttData_bad_offset1 c h⟩

/-! ## (b) marshal / unmarshal: SSZ first, JSON only behind `{` -/

theorem fallback_roundtrip_ssz (e : Enc α) (x : α) (hs : e.isSSZ = true)
    (h : e.sszDec (e.sszEnc x) = some x) : unmarshal e (marshal e true x) = .sszOk x :=
  unmarshal_marshal_ssz' e x hs h

/-- JSON encoding (type without SSZ support, or SSZ switched off as a pre-v0.17 peer does): round
trip, for an SSZ-capable type under the two hypotheses the code relies on — the SSZ decoder rejects
the JSON text and the text starts (after white space) with `{`. -/
theorem fallback_roundtrip_json (e : Enc α) (x : α) (h : e.jsonDec (e.jsonEnc x) = some x) :
    (e.isSSZ = false → ∀ enabled, unmarshal e (marshal e enabled x) = .jsonOk x) ∧
    (e.isSSZ = true → e.sszDec (e.jsonEnc x) = none → hasJsonPrefix (e.jsonEnc x) = true →
      unmarshal e (marshal e false x) = .jsonOk x) :=
  ⟨fun hs en => unmarshal_marshal_json_nonssz e x en hs h,
   fun hs hrej hp => unmarshal_marshal_json_ssz e x hs h hrej hp⟩

/-- exactly when JSON decoding is attempted: the type has no SSZ decoder, or its SSZ decoder
failed AND the first byte after leading Unicode white space is `{`. -/
theorem json_attempted_iff (e : Enc α) (data : Bytes) :
    jsonAttempted e data = (!e.isSSZ || ((e.sszDec data).isNone && hasJsonPrefix data)) :=
  jsonAttempted_iff' e data

theorem ssz_success_is_final (e : Enc α) (data : Bytes) (x : α) (hs : e.isSSZ = true)
    (h : e.sszDec data = some x) : unmarshal e data = .sszOk x :=
  unmarshal_ssz_ok e hs h

theorem ssz_failure_without_brace_is_final (e : Enc α) (data : Bytes) (hs : e.isSSZ = true)
    (h : e.sszDec data = none) (hp : hasJsonPrefix data = false) : unmarshal e data = .sszErr :=
  unmarshal_ssz_final e hs h hp

/-- `hasJsonPrefix` on the first byte: `{` yes; any other byte that does not start a white-space
rune no; the empty input no. -/
theorem json_prefix_first_byte :
    hasJsonPrefix [] = false ∧ (∀ r, hasJsonPrefix (0x7B :: r) = true) ∧
    (∀ b r, spaceLen (b :: r) = 0 → b ≠ 0x7B → hasJsonPrefix (b :: r) = false) :=
  ⟨hasJsonPrefix_nil, hasJsonPrefix_brace, fun _ _ hs hb => hasJsonPrefix_nonspace hs hb⟩

/-! ## (c) set encoders -/

section
variable {κ β γ : Type} [DecidableEq κ]

/-- `FromProto ∘ ToProto = id` on the content of the set, whatever order the Go runtime iterates
the two maps in (`it₁`, `it₂` are arbitrary permutations). Needs a non-empty set: -/
theorem set_decode_encode_id (enc : β → Option γ) (dec : γ → Option β) (entries : List (κ × β))
    (nd : (keys entries).Nodup) (hne : entries ≠ [])
    (hrt : ∀ e ∈ entries, ∃ y, enc e.2 = some y ∧ dec y = some e.2)
    (it₁ : List (κ × β)) (p₁ : it₁.Perm entries) :
    ∃ E, encodeSet enc it₁ = some E ∧
      ∀ it₂ : List (κ × γ), it₂.Perm E →
        ∃ D, decodeSet dec it₂ = some D ∧ ∀ k, get D k = get entries k :=
  decode_encode_set enc dec entries nd hne hrt it₁ p₁

/-- … because the decoders reject an empty set (so the empty set does not round trip). -/
theorem set_decode_rejects_empty (dec : γ → Option β) : decodeSet (κ := κ) dec [] = none :=
  decodeSet_empty dec

theorem set_encode_order_independent (f : β → Option γ) (it₁ it₂ : List (κ × β)) (p : it₁.Perm it₂)
    (nd : (keys it₁).Nodup) :
    (encodeSet f it₁ = none ∧ encodeSet f it₂ = none) ∨
    (∃ r₁ r₂, encodeSet f it₁ = some r₁ ∧ encodeSet f it₂ = some r₂ ∧ ∀ k, get r₁ k = get r₂ k) :=
  encodeSet_perm f p nd

/-! ## (d) hashProto -/

/-- ASSUMPTION `hser` (stated, not proved): `proto.MarshalOptions{Deterministic: true}` yields
bytes that depend only on the content of the message's map field. Then the consensus hash of an
encoded set does not depend on the iteration order of the Go map it was built from. -/
theorem hashProto_order_independent (enc : β → Option γ) (ser : AMap κ γ → Bytes) (h : Bytes → Bytes)
    (hser : ∀ m₁ m₂ : AMap κ γ, (∀ k, get m₁ k = get m₂ k) → ser m₁ = ser m₂)
    (it₁ it₂ : List (κ × β)) (p : it₁.Perm it₂) (nd : (keys it₁).Nodup) :
    (encodeSet enc it₁).map (hashProto ser h) = (encodeSet enc it₂).map (hashProto ser h) :=
  hashProto_perm enc ser h hser p nd

end

/-! ## non-vacuity -/

def idB : CodecB Bytes := ⟨fun _ _ b => b, fun _ _ b => .ok b⟩

example : unmarshalBlinded idB (marshalBlinded idB ⟨.fulu, true, [1, 2, 3]⟩) = .ok ⟨.fulu, true, [1, 2, 3]⟩ :=
  blinded_roundtrip idB (fun _ _ _ => rfl) _
example : marshalBlinded idB ⟨.fulu, true, [7]⟩ = [6, 0, 0, 0, 0, 0, 0, 0, 1, 13, 0, 0, 0, 7] := by decide
example : unmarshalBlinded idB [6, 0, 0, 0, 0, 0, 0, 0, 1, 13] = .error .size := blinded_rejects_short _ _ (by decide)
example : unmarshalBlinded idB [7, 0, 0, 0, 0, 0, 0, 0, 1, 13, 0, 0, 0] = .error .version :=
  blinded_rejects_unknown_version _ _ (by decide) (by decide)
example : unmarshalBlinded idB [6, 0, 0, 0, 0, 0, 0, 0, 1, 12, 0, 0, 0] = .error .offset :=
  blinded_rejects_bad_offset _ _ (by decide) (by decide) (by decide)
example : unmarshalVersioned idCodec (marshalVersioned idCodec ⟨.electra, [9]⟩) = .ok ⟨.electra, [9]⟩ :=
  versioned_roundtrip idCodec (fun _ _ => rfl) _
example : marshalVersioned idCodec ⟨.electra, [9]⟩ = [5, 0, 0, 0, 0, 0, 0, 0, 12, 0, 0, 0, 9] := by decide
example : unmarshalValIdx idCodec (marshalValIdx idCodec ⟨.electra, 77, [9]⟩) = .ok ⟨.electra, 77, [9]⟩ :=
  validx_roundtrip idCodec (fun _ _ => rfl) _ (by decide)
example : unmarshalValIdx idCodec ([5, 0, 0, 0, 0, 0, 0, 0] ++ le 8 1 ++ [21, 0, 0, 0, 9]) = .error .offset :=
  validx_rejects_bad_offset _ _ (by decide) (by decide) (by decide)
example : unmarshalAtt idCodec (marshalAtt idCodec ⟨.deneb, none, [0xE4, 0, 0, 0, 19, 0, 0, 0]⟩)
    = .ok ⟨.deneb, none, [0xE4, 0, 0, 0, 19, 0, 0, 0]⟩ :=
  attestation_roundtrip_noindex_other_slots idCodec (fun _ _ => rfl) _ _ (by decide)
example : unmarshalAtt slot20Codec (marshalAtt slot20Codec ⟨.deneb, none, ()⟩) = .ok ⟨.deneb, none, ()⟩ :=
  attestation_roundtrip_noindex slot20Codec slot20Codec_roundtrip _ _ (fun _ => ⟨.other, rfl⟩)

def idD : CodecD Bytes := ⟨fun b => b, fun b => .ok b⟩
def duty0 : Duty := ⟨List.replicate 48 7, 1, 2, 3, 4, 5, 6⟩
example : unmarshalAttData idD (marshalAttData idD ⟨[1, 2, 3], duty0⟩) = .ok ⟨[1, 2, 3], duty0⟩ :=
  attdata_roundtrip idD (fun _ => rfl) _
    ⟨by decide, by decide, by decide, by decide, by decide, by decide, by decide⟩ (by decide)
example : unmarshalAttData idD [8, 0, 0, 0, 7, 0, 0, 0] = .error .offset1 :=
  (attdata_rejects_bad_offsets idD _ (by decide)).2 (by decide) (by decide)

/-- an SSZ-capable "type" whose SSZ decoder accepts exactly one byte string -/
def encX : Enc Nat :=
  ⟨true, fun _ => [0xAA], fun b => if b = [0xAA] then some 1 else none,
   fun _ => [0x20, 0x7B, 0x7D], fun b => if b = [0x20, 0x7B, 0x7D] then some 1 else none⟩
example : unmarshal encX (marshal encX true 1) = .sszOk 1 := fallback_roundtrip_ssz encX 1 rfl rfl
example : unmarshal encX (marshal encX false 1) = .jsonOk 1 :=
  (fallback_roundtrip_json encX 1 rfl).2 rfl rfl (by decide)
example : unmarshal encX [0x01, 0x7B] = .sszErr := ssz_failure_without_brace_is_final encX _ rfl rfl (by decide)
example : jsonAttempted encX [0xE2, 0x80, 0x83, 0x0A, 0x7B] = true := by decide
example : jsonAttempted encX [0xE2, 0x80, 0x8B, 0x7B] = false := by decide   -- U+200B is not a space

example : ∃ E, encodeSet (κ := Nat) (fun n : Nat => some (n + 1)) [(2, 20), (1, 10)] = some E ∧
    ∀ it₂ : List (Nat × Nat), it₂.Perm E → ∃ D, decodeSet (fun n : Nat => some (n - 1)) it₂ = some D ∧
      ∀ k, get D k = get [(1, 10), (2, 20)] k :=
  set_decode_encode_id _ _ [(1, 10), (2, 20)] (by decide) (by decide)
    (by intro e he; exact ⟨e.2 + 1, rfl, by simp⟩) _ (List.Perm.swap _ _ _)

end CharonV.Props.C14
