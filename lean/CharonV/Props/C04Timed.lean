/-
C04 — the timed composition: good round + round-timer arithmetic ⇒ decision within a rotation of
wall-clock rounds.

C04: "If at most f members crash (at any point, even halfway through a broadcast), start late or
stay silent, the other members keep running the duty's consensus instance with their proposals
available, and messages between running members arrive well within a round's timeout, then every
running member decides, within at most one full leader rotation after the last such fault."

`Props/C04Live.lean` proves the untimed core for executions in which the phases of a round do not
overlap; `Props/C04Timer.lean` proves the arithmetic of the three production round timers. Here the
two are composed on a **timed cluster semantics** (`Model/QbftTimed.lean`): a global clock (ns), the
members' `qbft.Run` loops (`Qbft.step`, unchanged), a network that delivers every message sent at `τ`
to every running member at an adversary-chosen instant in `(τ + lo, τ + hi]` (`hi` = δ, `lo` = a lower
bound of the latency, `0` allowed), round timers that fire *exactly* at their deadline (`arm` = the
timer object; a PRE-PREPARE re-arms it, a decision stops it), crashed members that do nothing.

The theorems hold for **every execution** of that semantics (`texec P s acts = some s'`, `acts`
arbitrary): every interleaving of the members, every delivery instant within the bound, every oracle
(Go map iteration order) at every delivery. Phases may overlap — a COMMIT may overtake a PREPARE, a
member may reach the PREPARE quorum before the PRE-PREPARE reaches it, a ROUND-CHANGE arriving late at
a decided member makes it answer with a DECIDED (examples A, B, C below) — so the untimed hypothesis
"each phase's messages are delivered before the next phase starts" of `good_round_r` is *not* needed
any more: with bounded delay the thresholds are reached anyway (`Proofs/QbftTimed.lean`, `live`).

Hypotheses, all explicit in the statements:
* cluster: `P.R` duplicate-free, at least a quorum; `1 ≤ nodes`; FIFO limit `B + 4 ≤ fifo` where `B`
  bounds the ROUND-CHANGEs of earlier rounds per source (production: `fifo = 100`);
* **synchronised start after the last fault**, in one of two forms:
  `Poised1` — the running members have just been called (`start`, with their proposals) at instants
  in `[E, E + σ]`, the PRE-PREPARE of the round-1 leader (if it runs) is in flight, nothing has been
  delivered (`timed_good_round_1`, `timed_decides_from_start`);
  `Poised` (round `ρ ≥ 2`) — the running members sit in round `ρ - 1`, undecided, never prepared, with
  their round timers due at instants in `[E, E + σ]`; nothing is in flight; what was delivered so far
  are null ROUND-CHANGEs of earlier rounds, the same multiset at everybody (what was sent before the
  last fault may have been lost). A silent round re-establishes `Poised` for the next round
  (`timed_silent_round`). Re-synchronisation from an arbitrary skew is not proved;
* **skew below the minimal latency**: `σ ≤ lo` (with `lo = 0`: the timers are due at the same
  instant — what the slot-aligned eager timer gives from the second round on). It keeps a message of
  round `ρ` from reaching a member that has not entered `ρ` yet (resp. has not been called yet); the
  `F+1` rule that handles this case in the code is not composed here;
* the leader of the good round runs and has its proposal; `compare` succeeds (default config);
* `σ + 4·hi < timeout ρ`: ROUND-CHANGE exchange, PRE-PREPARE, PREPARE, COMMIT (`c = 4`; round 1 needs
  only three, `C04Timer.three_delays_fit`, the uniform bound is not tightened for it); for a silent
  round `σ + hi < timeout ρ` suffices;
* no clock drift, exact timers.

Not covered: re-synchronisation from arbitrary skew (`F+1` rule, `σ > lo`), earlier rounds that made
partial progress (members prepared in a failed round), Byzantine members, `compare` failures, members
without a proposal.
-/
import CharonV.Proofs.QbftTimed
import CharonV.Props.C04Timer
import CharonV.Props.C04Live

namespace CharonV.Qbft

/-- **A round whose leader runs decides within `σ + 4·δ`, before any round timer fires.**
Relative round timer (`Timer(r)` fires `timeout r` after the call: the `increasing` and `linear`
production timers). The running members (at least a quorum) are poised for round `G.ρ ≥ 2` with entry
instants in `[E, E + σ]`, `σ ≤ lo`; the leader `G.l` of the round runs and has its proposal
`G.v ≠ 0`; `σ + 4·hi < timeout G.ρ`. Then in every execution, at every running member: no fault
(`bug` / `unjust`), `Run` has not returned, the member has not left round `G.ρ` (its round-`G.ρ`
timer has not fired), a member that has decided has decided `G.v` in round `G.ρ` exactly once
(`GoodOutcome`) — and once the clock has passed `E + σ + 4·hi` every running member has decided. -/
theorem timed_good_round (P : TParams) (timeout : Nat → Nat) (harm : P.arm = relTimer timeout)
    (G : Rd) (E σ B : Nat) (hR : P.R.Nodup) (hn : 1 ≤ P.d.nodes) (hq : P.d.quorum ≤ P.R.length)
    (hρ : 2 ≤ G.ρ) (hlead : P.d.leader G.ρ = G.l) (hl : G.l ∈ P.R) (hinp : P.inp G.l = G.v)
    (hv : G.v ≠ 0) (hσ : σ ≤ P.lo) (hfifo : B + 4 ≤ P.d.fifo) (hfit : σ + 4 * P.hi < timeout G.ρ)
    (s : TState) (hp : Poised P G ⟨E, σ, E + timeout G.ρ, σ, B⟩ s)
    (acts : List TAct) (s' : TState) (hs : texec P s acts = some s') :
    (∀ p ∈ P.R, noFault (s'.node p).outs = true ∧ (s'.node p).st.dead = false ∧
      (s'.node p).st.round ≤ G.ρ ∧
      ((s'.node p).st.qCommit ≠ [] → GoodOutcome G.v G.ρ ((s'.node p).st, (s'.node p).outs))) ∧
    (E + σ + 4 * P.hi < s'.now →
      ∀ p ∈ P.R, GoodOutcome G.v G.ρ ((s'.node p).st, (s'.node p).outs)) := by
  have hy : Hyp P G ⟨E, σ, E + timeout G.ρ, σ, B⟩ :=
    hyp_rel harm E σ B hR hn (by omega) hlead (fun _ => ⟨hinp, hv⟩) hσ hfifo (by omega)
  have hwin : E + σ + 4 * P.hi < E + timeout G.ρ := by omega
  have hinv := good_exec hy hl hq hwin acts (poised_rinv hp) hs
  refine ⟨fun p hpR => ?_, fun hlate p hpR => ?_⟩
  · obtain ⟨h1, h2, h3, _⟩ := outcome_of_rinv hinv hpR
    refine ⟨h1, h2, ?_, h3⟩
    cases hinv.mem p hpR with
    | pend e a1 => rw [a1.mid.round]; omega
    | act dl fd a1 => rw [a1.mid.round]; exact Nat.le_refl _
    | dcd a1 => rw [a1.round]; exact Nat.le_refl _
  · exact (outcome_of_rinv hinv hpR).2.2.1 (live hy hl hq hinv hlate p hpR)

/-- **A good round 1** (the happy path). The running members (at least a quorum) have just been
called at instants in `[E, E + σ]`, `σ ≤ lo` (`Poised1`: the PRE-PREPARE the round-1 leader sent at
its call is in flight, nothing has been delivered); the leader runs and has its proposal;
`σ + 4·hi < timeout 1` (three delays are what round 1 needs — PRE-PREPARE, PREPARE, COMMIT; the
uniform bound of the proof is not tightened for round 1). Same conclusion as `timed_good_round`. -/
theorem timed_good_round_1 (P : TParams) (timeout : Nat → Nat) (harm : P.arm = relTimer timeout)
    (G : Rd) (hG : G.ρ = 1) (E σ B : Nat) (hR : P.R.Nodup) (hn : 1 ≤ P.d.nodes)
    (hq : P.d.quorum ≤ P.R.length) (hlead : P.d.leader G.ρ = G.l) (hl : G.l ∈ P.R)
    (hinp : P.inp G.l = G.v) (hv : G.v ≠ 0) (hσ : σ ≤ P.lo) (hfifo : B + 4 ≤ P.d.fifo)
    (hfit : σ + 4 * P.hi < timeout G.ρ)
    (s : TState) (hp : Poised1 P G ⟨E, σ, E + timeout G.ρ, σ, B⟩ s)
    (acts : List TAct) (s' : TState) (hs : texec P s acts = some s') :
    (∀ p ∈ P.R, noFault (s'.node p).outs = true ∧ (s'.node p).st.dead = false ∧
      (s'.node p).st.round ≤ G.ρ ∧
      ((s'.node p).st.qCommit ≠ [] → GoodOutcome G.v G.ρ ((s'.node p).st, (s'.node p).outs))) ∧
    (E + σ + 4 * P.hi < s'.now →
      ∀ p ∈ P.R, GoodOutcome G.v G.ρ ((s'.node p).st, (s'.node p).outs)) := by
  have hy : Hyp P G ⟨E, σ, E + timeout G.ρ, σ, B⟩ :=
    hyp_rel harm E σ B hR hn (by omega) hlead (fun _ => ⟨hinp, hv⟩) hσ hfifo (by omega)
  have hwin : E + σ + 4 * P.hi < E + timeout G.ρ := by omega
  have hinv := good_exec hy hl hq hwin acts (poised1_rinv hy hp) hs
  refine ⟨fun p hpR => ?_, fun hlate p hpR => ?_⟩
  · obtain ⟨h1, h2, h3, _⟩ := outcome_of_rinv hinv hpR
    refine ⟨h1, h2, ?_, h3⟩
    cases hinv.mem p hpR with
    | pend e a1 => rw [a1.mid.round]; omega
    | act dl fd a1 => rw [a1.mid.round]; exact Nat.le_refl _
    | dcd a1 => rw [a1.round]; exact Nat.le_refl _
  · exact (outcome_of_rinv hinv hpR).2.2.1 (live hy hl hq hinv hlate p hpR)

/-- **A round whose leader is down ends with the cluster poised for the next round, the skew
preserved.** Relative round timer. The running members are poised for round `G.ρ ≥ 2` with entry
instants in `[E, E + σ]`, `σ ≤ lo`; the leader of the round does not run; `σ + hi < timeout G.ρ`.
Then every execution that has reached an instant in `(E + σ + hi, E + timeout G.ρ)` is poised for
round `G.ρ + 1`: every running member sits in round `G.ρ`, undecided and unprepared, the
ROUND-CHANGEs of the round have been delivered to everybody and nothing is in flight, and the
round-`G.ρ` timers — the entries into round `G.ρ + 1` — are due at instants in
`[E + timeout G.ρ, E + timeout G.ρ + σ]` (`σ' = σ`; one more old message per source). -/
theorem timed_silent_round (P : TParams) (timeout : Nat → Nat) (harm : P.arm = relTimer timeout)
    (G : Rd) (E σ B : Nat) (hR : P.R.Nodup) (hn : 1 ≤ P.d.nodes) (hρ : 2 ≤ G.ρ)
    (hlead : P.d.leader G.ρ = G.l) (hl : G.l ∉ P.R) (hσ : σ ≤ P.lo) (hfifo : B + 4 ≤ P.d.fifo)
    (hfit : σ + P.hi < timeout G.ρ)
    (s : TState) (hp : Poised P G ⟨E, σ, E + timeout G.ρ, σ, B⟩ s)
    (acts : List TAct) (s' : TState) (hs : texec P s acts = some s')
    (h1 : E + σ + P.hi < s'.now) (h2 : s'.now < E + timeout G.ρ)
    (G' : Rd) (hG' : G'.ρ = G.ρ + 1) (T' : Tm) (hE : T'.E = E + timeout G.ρ) (hσ' : T'.σ = σ)
    (hB : T'.B = B + 1) : Poised P G' T' s' := by
  have hy : Hyp P G ⟨E, σ, E + timeout G.ρ, σ, B⟩ :=
    hyp_rel harm E σ B hR hn (by omega) hlead (fun h => absurd h hl) hσ hfifo (by omega)
  have hinv := early_exec hy acts (poised_rinv hp) hs h2
  exact poised_next hy hl hinv h1 (Nat.le_of_lt h2) hG' hE hσ' hB

/-- **Decision within one leader rotation, with the wall-clock bound.** Production leader function
(`leaderFn`, `rotDef`), `n` members of which `P.R` (at least a quorum, all with their proposals) run,
relative round timer, the cluster poised for round `ρ0 ≥ 2` with entry instants in `[E0, E0 + σ]`,
`σ ≤ lo`, and `σ + 4·hi < timeout ρ` for the `n` rounds `ρ0 … ρ0 + n - 1`. Then there is a first round
`ρ0 + m`, `m < n`, whose leader runs, and in every execution: nobody faults, whoever has decided has
decided that leader's proposal in round `ρ0 + m` exactly once, and once the clock has passed

  `E0 + (timeout ρ0 + … + timeout (ρ0 + m - 1)) + σ + 4·hi`

— the timeouts of the silent rounds plus four message delays — every running member has decided. -/
theorem timed_decides_within_rotation (slot ty n fifo : Nat) (P : TParams)
    (hd : P.d = rotDef slot ty n fifo) (timeout : Nat → Nat) (harm : P.arm = relTimer timeout)
    (hR : P.R.Nodup) (hRn : ∀ p ∈ P.R, p < n) (hn : 1 ≤ n) (hq : P.d.quorum ≤ P.R.length)
    (hinp : ∀ p ∈ P.R, P.inp p ≠ 0) (ρ0 : Nat) (hρ0 : 2 ≤ ρ0) (E0 σ B0 : Nat) (hσ : σ ≤ P.lo)
    (hfifo : B0 + n + 3 ≤ fifo)
    (hfit : ∀ ρ, ρ0 ≤ ρ → ρ < ρ0 + n → σ + 4 * P.hi < timeout ρ) :
    ∃ m, m < n ∧ leaderFn slot ty (ρ0 + m) n ∈ P.R ∧
      (∀ k, k < m → leaderFn slot ty (ρ0 + k) n ∉ P.R) ∧
      ∀ (s : TState), Poised P (rotG slot ty n P.inp ρ0 0) (rotT timeout ρ0 E0 σ B0 0) s →
      ∀ (acts : List TAct) (s' : TState), texec P s acts = some s' →
        (∀ p ∈ P.R, noFault (s'.node p).outs = true ∧ (s'.node p).st.dead = false) ∧
        (∀ p ∈ P.R, (s'.node p).st.qCommit ≠ [] →
          GoodOutcome (P.inp (leaderFn slot ty (ρ0 + m) n)) (ρ0 + m) ((s'.node p).st, (s'.node p).outs)) ∧
        (E0 + sumTimeouts timeout ρ0 m + σ + 4 * P.hi < s'.now →
          ∀ p ∈ P.R,
            GoodOutcome (P.inp (leaderFn slot ty (ρ0 + m) n)) (ρ0 + m) ((s'.node p).st, (s'.node p).outs)) := by
  have hq1 : 1 ≤ P.d.quorum := quorum_pos P.d (by rw [hd]; exact hn)
  have hne : P.R ≠ [] := by
    intro hc; rw [hc] at hq; simp at hq; omega
  obtain ⟨m, hm, hmR, hsil⟩ := first_running_leader slot ty n hn P.R hRn hne ρ0
  refine ⟨m, hm, hmR, hsil, ?_⟩
  intro s hp acts s' hs
  have hrot := rot_rel hd harm hR hn hq hinp (ρ0 := ρ0) (by omega) E0 σ B0 hσ (m := m) (by omega)
    (fun k hk => hfit (ρ0 + k) (by omega) (by omega)) hmR hsil
  exact rot_decides hrot hp acts hs

/-- **Decision within one leader rotation after the instance was started** (`ρ0 = 1`): as
`timed_decides_within_rotation`, from the cluster whose running members have just been called at
instants in `[E0, E0 + σ]` (`Poised1`). If the round-1 leader runs, everybody has decided by
`E0 + σ + 4·hi`; otherwise by `E0 + (timeout 1 + … + timeout m) + σ + 4·hi`, `1 + m` the first round
whose leader runs. -/
theorem timed_decides_from_start (slot ty n fifo : Nat) (P : TParams)
    (hd : P.d = rotDef slot ty n fifo) (timeout : Nat → Nat) (harm : P.arm = relTimer timeout)
    (hR : P.R.Nodup) (hRn : ∀ p ∈ P.R, p < n) (hn : 1 ≤ n) (hq : P.d.quorum ≤ P.R.length)
    (hinp : ∀ p ∈ P.R, P.inp p ≠ 0) (E0 σ B0 : Nat) (hσ : σ ≤ P.lo) (hfifo : B0 + n + 3 ≤ fifo)
    (hfit : ∀ ρ, 1 ≤ ρ → ρ < 1 + n → σ + 4 * P.hi < timeout ρ) :
    ∃ m, m < n ∧ leaderFn slot ty (1 + m) n ∈ P.R ∧
      (∀ k, k < m → leaderFn slot ty (1 + k) n ∉ P.R) ∧
      ∀ (s : TState), Poised1 P (rotG slot ty n P.inp 1 0) (rotT timeout 1 E0 σ B0 0) s →
      ∀ (acts : List TAct) (s' : TState), texec P s acts = some s' →
        (∀ p ∈ P.R, noFault (s'.node p).outs = true ∧ (s'.node p).st.dead = false) ∧
        (∀ p ∈ P.R, (s'.node p).st.qCommit ≠ [] →
          GoodOutcome (P.inp (leaderFn slot ty (1 + m) n)) (1 + m) ((s'.node p).st, (s'.node p).outs)) ∧
        (E0 + sumTimeouts timeout 1 m + σ + 4 * P.hi < s'.now →
          ∀ p ∈ P.R,
            GoodOutcome (P.inp (leaderFn slot ty (1 + m) n)) (1 + m) ((s'.node p).st, (s'.node p).outs)) := by
  have hq1 : 1 ≤ P.d.quorum := quorum_pos P.d (by rw [hd]; exact hn)
  have hne : P.R ≠ [] := by
    intro hc; rw [hc] at hq; simp at hq; omega
  obtain ⟨m, hm, hmR, hsil⟩ := first_running_leader slot ty n hn P.R hRn hne 1
  refine ⟨m, hm, hmR, hsil, ?_⟩
  intro s hp acts s' hs
  have hrot := rot_rel hd harm hR hn hq hinp (ρ0 := 1) (Nat.le_refl 1) E0 σ B0 hσ (m := m) (by omega)
    (fun k hk => hfit (1 + k) (by omega) (by omega)) hmR hsil
  exact rot_decides_inv hrot (poised1_rinv (hrot.hyp 0 (Nat.zero_le _)) hp) acts hs

/-! ### The production round timers -/

/-- **`c`-delays-fit for `c = 4` plus the skew** (cf. `three_delays_fit`): if `σ + 4·δ` is below the
shortest timeout of the timer type, it is below the timeout of every round. -/
theorem four_delays_fit (c : RoundTimer.Cfg) (pt : Bool) (σ δ : Nat)
    (h : σ + 4 * δ < RoundTimer.shortest c.kind c.dutyType pt) (r : Nat) (hr : 1 ≤ r) :
    σ + 4 * δ < RoundTimer.timeoutOf c pt r :=
  Nat.lt_of_lt_of_le h (RoundTimer.shortest_le c pt r hr)

/-- **The rotation theorem for the `increasing` and the `linear` production timer objects**
(`prodTimer c pt` = `RoundTimer.timerCall`, both stateless and relative): `σ + 4·δ` below the shortest
timeout of the type — 1 s resp. 1.25 s for `increasing`, 400 ms for `linear` (`C04Timer.shortest`) —
is all the timing hypothesis needed; the bound is the sum of the closed-form timeouts
(`inc_closed`, `linear_closed`) of the silent rounds plus `σ + 4·δ`. -/
theorem timed_rotation_production (slot ty n fifo : Nat) (P : TParams)
    (hd : P.d = rotDef slot ty n fifo) (c : RoundTimer.Cfg) (pt : Bool) (hk : c.kind ≠ .eager)
    (harm : P.arm = prodTimer c pt)
    (hR : P.R.Nodup) (hRn : ∀ p ∈ P.R, p < n) (hn : 1 ≤ n) (hq : P.d.quorum ≤ P.R.length)
    (hinp : ∀ p ∈ P.R, P.inp p ≠ 0) (ρ0 : Nat) (hρ0 : 2 ≤ ρ0) (E0 σ B0 : Nat) (hσ : σ ≤ P.lo)
    (hfifo : B0 + n + 3 ≤ fifo)
    (hfit : σ + 4 * P.hi < RoundTimer.shortest c.kind c.dutyType pt) :
    ∃ m, m < n ∧ leaderFn slot ty (ρ0 + m) n ∈ P.R ∧
      (∀ k, k < m → leaderFn slot ty (ρ0 + k) n ∉ P.R) ∧
      ∀ (s : TState), Poised P (rotG slot ty n P.inp ρ0 0)
          (rotT (RoundTimer.timeoutOf c pt) ρ0 E0 σ B0 0) s →
      ∀ (acts : List TAct) (s' : TState), texec P s acts = some s' →
        (∀ p ∈ P.R, noFault (s'.node p).outs = true ∧ (s'.node p).st.dead = false) ∧
        (∀ p ∈ P.R, (s'.node p).st.qCommit ≠ [] →
          GoodOutcome (P.inp (leaderFn slot ty (ρ0 + m) n)) (ρ0 + m) ((s'.node p).st, (s'.node p).outs)) ∧
        (E0 + sumTimeouts (RoundTimer.timeoutOf c pt) ρ0 m + σ + 4 * P.hi < s'.now →
          ∀ p ∈ P.R,
            GoodOutcome (P.inp (leaderFn slot ty (ρ0 + m) n)) (ρ0 + m) ((s'.node p).st, (s'.node p).outs)) :=
  timed_decides_within_rotation slot ty n fifo P hd (RoundTimer.timeoutOf c pt)
    (by rw [harm, prodTimer_rel c pt hk]) hR hRn hn hq hinp ρ0 hρ0 E0 σ B0 hσ hfifo
    (fun ρ h1 _ => four_delays_fit c pt σ P.hi hfit ρ (by omega))

/-- **The rotation theorem for the slot-aligned `eager_double_linear` timer** (the default production
timer; `prodTimer c pt` = `RoundTimer.timerCall` with genesis time and slot duration known). Its
deadlines are absolute: the first `Timer(r)` call of every member returns `dutyStart + timeout r`
(`eagerEnd`), whenever it is made, so from the second round on all running members enter a round at
the same instant (skew 0 — no hypothesis on the skew is needed beyond the first round), every silent
round lasts exactly 1 s (`C04Timer.eager_round_length`) and a PRE-PREPARE re-arms to
`first deadline + timeout r` (`eager_second_call`). Hypotheses on the timing: the cluster is poised
for round `ρ0` with entry instants in `[E0, E0 + σ0]`, `σ0 ≤ lo`, at least `σ0 + 4·δ` before the
aligned end of round `ρ0`, and `4·δ < 1 s`. Every running member has decided once the clock has passed
`E0 + σ0 + 4·δ` (if the leader of `ρ0` runs) resp. `dutyStart + timeout (ρ0 + m - 1) + 4·δ` (the
aligned end of the last silent round plus four message delays). -/
theorem timed_rotation_eager (slot ty n fifo : Nat) (P : TParams)
    (hd : P.d = rotDef slot ty n fifo) (c : RoundTimer.Cfg) (pt : Bool) (hk : c.kind = .eager)
    (g : Nat) (hg : c.genesis = some g) (hsd : 0 < c.slotDur) (harm : P.arm = prodTimer c pt)
    (hR : P.R.Nodup) (hRn : ∀ p ∈ P.R, p < n) (hn : 1 ≤ n) (hq : P.d.quorum ≤ P.R.length)
    (hinp : ∀ p ∈ P.R, P.inp p ≠ 0) (ρ0 : Nat) (hρ0 : 2 ≤ ρ0) (E0 σ0 B0 : Nat) (hσ : σ0 ≤ P.lo)
    (hfifo : B0 + n + 3 ≤ fifo)
    (hfit0 : E0 + σ0 + 4 * P.hi < eagerEnd c pt g ρ0) (hfit : 4 * P.hi < 1000000000) :
    ∃ m, m < n ∧ leaderFn slot ty (ρ0 + m) n ∈ P.R ∧
      (∀ k, k < m → leaderFn slot ty (ρ0 + k) n ∉ P.R) ∧
      ∀ (s : TState), Poised P (rotG slot ty n P.inp ρ0 0) (eagerT c pt g ρ0 E0 σ0 B0 0) s →
      ∀ (acts : List TAct) (s' : TState), texec P s acts = some s' →
        (∀ p ∈ P.R, noFault (s'.node p).outs = true ∧ (s'.node p).st.dead = false) ∧
        (∀ p ∈ P.R, (s'.node p).st.qCommit ≠ [] →
          GoodOutcome (P.inp (leaderFn slot ty (ρ0 + m) n)) (ρ0 + m) ((s'.node p).st, (s'.node p).outs)) ∧
        ((if m = 0 then E0 + σ0 else eagerEnd c pt g (ρ0 + m - 1)) + 4 * P.hi < s'.now →
          ∀ p ∈ P.R,
            GoodOutcome (P.inp (leaderFn slot ty (ρ0 + m) n)) (ρ0 + m) ((s'.node p).st, (s'.node p).outs)) := by
  have hq1 : 1 ≤ P.d.quorum := quorum_pos P.d (by rw [hd]; exact hn)
  have hne : P.R ≠ [] := by
    intro hc; rw [hc] at hq; simp at hq; omega
  obtain ⟨m, hm, hmR, hsil⟩ := first_running_leader slot ty n hn P.R hRn hne ρ0
  refine ⟨m, hm, hmR, hsil, ?_⟩
  intro s hp acts s' hs
  have hrot := rot_eager hd hk hg hsd harm hR hn hq hinp (ρ0 := ρ0) (by omega) E0 σ0 B0 hσ (m := m) (by omega)
    hfit0 hfit hmR hsil
  obtain ⟨h1, h2, h3⟩ := rot_decides hrot hp acts hs
  refine ⟨h1, h2, fun hlate => h3 ?_⟩
  unfold eagerT
  split
  · rename_i h0; rw [if_pos h0] at hlate; exact hlate
  · rename_i h0; rw [if_neg h0] at hlate; simpa using hlate

/-- **The same from the start of the instance** (`ρ0 = 1`) under the slot-aligned eager timer: the
running members are called at instants in `[E0, E0 + σ0]`, `σ0 ≤ lo`, at least `σ0 + 4·δ` before the
aligned end of round 1 (`Poised1`: their round-1 timers are all due at `eagerEnd 1`); from round 2 on
the entries are simultaneous. -/
theorem timed_from_start_eager (slot ty n fifo : Nat) (P : TParams)
    (hd : P.d = rotDef slot ty n fifo) (c : RoundTimer.Cfg) (pt : Bool) (hk : c.kind = .eager)
    (g : Nat) (hg : c.genesis = some g) (hsd : 0 < c.slotDur) (harm : P.arm = prodTimer c pt)
    (hR : P.R.Nodup) (hRn : ∀ p ∈ P.R, p < n) (hn : 1 ≤ n) (hq : P.d.quorum ≤ P.R.length)
    (hinp : ∀ p ∈ P.R, P.inp p ≠ 0) (E0 σ0 B0 : Nat) (hσ : σ0 ≤ P.lo) (hfifo : B0 + n + 3 ≤ fifo)
    (hfit0 : E0 + σ0 + 4 * P.hi < eagerEnd c pt g 1) (hfit : 4 * P.hi < 1000000000) :
    ∃ m, m < n ∧ leaderFn slot ty (1 + m) n ∈ P.R ∧
      (∀ k, k < m → leaderFn slot ty (1 + k) n ∉ P.R) ∧
      ∀ (s : TState), Poised1 P (rotG slot ty n P.inp 1 0) (eagerT c pt g 1 E0 σ0 B0 0) s →
      ∀ (acts : List TAct) (s' : TState), texec P s acts = some s' →
        (∀ p ∈ P.R, noFault (s'.node p).outs = true ∧ (s'.node p).st.dead = false) ∧
        (∀ p ∈ P.R, (s'.node p).st.qCommit ≠ [] →
          GoodOutcome (P.inp (leaderFn slot ty (1 + m) n)) (1 + m) ((s'.node p).st, (s'.node p).outs)) ∧
        ((if m = 0 then E0 + σ0 else eagerEnd c pt g (1 + m - 1)) + 4 * P.hi < s'.now →
          ∀ p ∈ P.R,
            GoodOutcome (P.inp (leaderFn slot ty (1 + m) n)) (1 + m) ((s'.node p).st, (s'.node p).outs)) := by
  have hq1 : 1 ≤ P.d.quorum := quorum_pos P.d (by rw [hd]; exact hn)
  have hne : P.R ≠ [] := by
    intro hc; rw [hc] at hq; simp at hq; omega
  obtain ⟨m, hm, hmR, hsil⟩ := first_running_leader slot ty n hn P.R hRn hne 1
  refine ⟨m, hm, hmR, hsil, ?_⟩
  intro s hp acts s' hs
  have hrot := rot_eager hd hk hg hsd harm hR hn hq hinp (ρ0 := 1) (Nat.le_refl 1) E0 σ0 B0 hσ (m := m)
    (by omega) hfit0 hfit hmR hsil
  obtain ⟨h1, h2, h3⟩ := rot_decides_inv hrot (poised1_rinv (hrot.hyp 0 (Nat.zero_le _)) hp) acts hs
  refine ⟨h1, h2, fun hlate => h3 ?_⟩
  unfold eagerT
  split
  · rename_i h0; rw [if_pos h0] at hlate; exact hlate
  · rename_i h0; rw [if_neg h0] at hlate; simpa using hlate

/-- **Any timer object** (`arm`): silent rounds followed by a round whose leader runs, with the entry
windows `[E_k, E_k + σ_k]` of the rounds given by the timer object (`Rot`: a timer armed for round `k`
at an instant of its entry window has its deadline in the entry window of round `k + 1`; re-arming
never yields an earlier deadline; `σ_k + hi` resp. `σ_m + 4·hi` fit before it). Every running member
has decided the proposal of the leader of round `Gs m` once the clock has passed
`E_m + σ_m + 4·hi`. (`timed_decides_within_rotation` is the instance for relative timers; the
slot-aligned `eager_double_linear` timer is the instance `E_k = dutyStart + timeout (ρ_k - 1)`,
`σ_k = 0`, cf. `C04Timer.eager_deadline_reach`.) -/
theorem timed_rotation_any_timer (P : TParams) (Gs : Nat → Rd) (Ts : Nat → Tm) (m : Nat)
    (hrot : Rot P Gs Ts m) (s : TState) (hp : Poised P (Gs 0) (Ts 0) s) (acts : List TAct)
    (s' : TState) (hs : texec P s acts = some s') :
    (∀ p ∈ P.R, noFault (s'.node p).outs = true ∧ (s'.node p).st.dead = false) ∧
    (∀ p ∈ P.R, (s'.node p).st.qCommit ≠ [] →
      GoodOutcome (Gs m).v (Gs m).ρ ((s'.node p).st, (s'.node p).outs)) ∧
    ((Ts m).E + (Ts m).σ + 4 * P.hi < s'.now →
      ∀ p ∈ P.R, GoodOutcome (Gs m).v (Gs m).ρ ((s'.node p).st, (s'.node p).outs)) :=
  rot_decides hrot hp acts hs

/-! ### Non-vacuity: 4 members under the production `increasing` timer

Attester duty (type 2) under the `increasing` timer: rounds 1, 2, 3 last 1 s, 1.25 s, 1.5 s
(`C04Timer.inc_closed`). δ = `hi` = 100 ms, `lo` = 0, `σ` = 0, proposals `7 + p`.
`finalOk R v r bound x`: `x` is a state (every action of the execution was enabled), its clock is at
most `bound` and every member of `R` has `GoodOutcome v r`. All evaluated by the kernel. -/

namespace C04TimedEx

def finalOk (R : List Nat) (v r bound : Nat) : Option TState → Bool
  | none => false
  | some s => decide (s.now ≤ bound) &&
      decide (∀ p ∈ R, GoodOutcome v r ((s.node p).st, (s.node p).outs))

/-- what was delivered to member `p`, as message types, in delivery order. -/
def rcvdTypes (p : Nat) : Option TState → List Nat
  | none => []
  | some s => (s.node p).rcvd.map (·.core.typ)

/-- the upon-rules member `p` has fired, in order. -/
def rulesOf (p : Nat) : Option TState → List Nat
  | none => []
  | some s => (s.node p).outs.filterMap (fun o => match o with | .rule r _ => some r | _ => none)

-- the timing hypothesis `σ + 4·δ < timeout ρ` holds for all rounds (shortest timeout 1 s) …
example : 0 + 4 * 100000000 < RoundTimer.shortest .inc 2 false := by decide
example : relTimer (RoundTimer.incTimeout 2 false) =
    prodTimer { kind := .inc, dutyType := 2, slot := 10, genesis := none, slotDur := 0 } false := by
  rw [prodTimer_rel _ _ (by decide)]; rfl
-- … and the arithmetic is tight: δ = 250 ms does not fit into round 1 (1 s)
example : ¬ (0 + 4 * 250000000 < RoundTimer.incTimeout 2 false 1) := by decide

/-! #### A. The round-1 leader is down (slot 11: leaders of rounds 1, 2 are members 0, 1)

From the cluster in which nobody has been called yet: `start` at members 1, 2, 3 at instant 0 (the
model's `start` action arms the round-1 timers: due at 1 s). Nothing at all is sent in round 1.
`timed_good_round` with `ρ = 2`, `E = 1 s`: everybody decides member 1's proposal 8 by
1 s + 0 + 4 · 100 ms = 1.4 s. -/

def P4a : TParams :=
  { d := rotDef 11 0 4 100, R := [1, 2, 3], lo := 0, hi := 100000000,
    arm := relTimer (RoundTimer.incTimeout 2 false), inp := fun p => 7 + p }

def sInit : TState := { now := 0, node := fun p => { st := { proc := p } } }

/-- the cluster after the three `start` actions. -/
def sA : TState := (texec P4a sInit [.start 1, .start 2, .start 3]).getD sInit

theorem sA_poised :
    Poised P4a ⟨2, 8, 1⟩ ⟨1000000000, 0, 1000000000 + RoundTimer.incTimeout 2 false 2, 0, 0⟩ sA := by
  have hnet : sA.net = [] := List.isEmpty_iff.mp (by decide)
  have hlog : sA.log = [] := List.isEmpty_iff.mp (by decide)
  refine ⟨hnet, by decide, ?_, (by rw [hlog]; intro m hm; cases hm), (by intro a; rw [hlog]; simp), ?_⟩
  · intro p hp
    have hp' : p = 1 ∨ p = 2 ∨ p = 3 := by simpa [P4a] using hp
    have : (sA.node p).rcvd = [] := by
      rcases hp' with rfl | rfl | rfl <;> exact List.isEmpty_iff.mp (by decide)
    rw [this, hlog]
  · intro p hp
    have hp' : p = 1 ∨ p = 2 ∨ p = 3 := by simpa [P4a] using hp
    have hrc : (sA.node p).rcvd = [] := by
      rcases hp' with rfl | rfl | rfl <;> exact List.isEmpty_iff.mp (by decide)
    have hbuf : (sA.node p).st.buffer = [] := by
      rcases hp' with rfl | rfl | rfl <;> exact List.isEmpty_iff.mp (by decide)
    refine ⟨1000000000, ?_, ?_, by decide, by decide, ?_, ?_⟩
    · refine ⟨(by decide), ?_, ?_, ?_, (by rw [hrc]; intro x hx; cases hx), ?_, ?_, ?_, ?_⟩
      · rcases hp' with rfl | rfl | rfl <;>
          exact ⟨by decide, by decide, by decide, List.isEmpty_iff.mp (by decide), by decide, by decide⟩
      · rcases hp' with rfl | rfl | rfl <;> decide
      · rw [hbuf, hrc]; exact bufIs_nil
      · rcases hp' with rfl | rfl | rfl <;> decide
      · rcases hp' with rfl | rfl | rfl <;> decide
      · rcases hp' with rfl | rfl | rfl <;> exact List.isEmpty_iff.mp (by decide)
      · rcases hp' with rfl | rfl | rfl <;> decide
    · rcases hp' with rfl | rfl | rfl <;> decide
    · intro r hr
      have hf : (sA.node p).firsts = [(1, 1000000000)] := by
        rcases hp' with rfl | rfl | rfl <;> decide
      have hr' : 2 ≤ r := hr
      rw [hf]
      simp only [RoundTimer.lookup]
      rw [if_neg (by omega)]
    · rcases hp' with rfl | rfl | rfl <;>
        exact ⟨by decide, List.isEmpty_iff.mp (by decide)⟩

-- the hypotheses of `timed_good_round` hold …
example : ∀ (acts : List TAct) (s' : TState), texec P4a sA acts = some s' →
    1000000000 + 0 + 4 * 100000000 < s'.now →
    ∀ p ∈ P4a.R, GoodOutcome 8 2 ((s'.node p).st, (s'.node p).outs) := fun acts s' hs =>
  (timed_good_round P4a (RoundTimer.incTimeout 2 false) rfl ⟨2, 8, 1⟩ 1000000000 0 0
    (by decide) (by decide) (by decide) (by decide) (by decide) (by decide) (by decide) (by decide)
    (by decide) (by decide) (by decide) sA sA_poised acts s' hs).2

/-- … and here is an execution (short, varying latencies and oracles; at member 2 two PREPAREs arrive
before the PRE-PREPARE and a COMMIT before the last PREPARE). -/
def schedA : List TAct :=
  [.tick 1000000000, .fire 1, .fire 2, .fire 3, .tick 1, .deliver 1 ⟨[0, 3], 3⟩,
    .deliver 5 ⟨[1, 1], 4⟩, .deliver 2 ⟨[2, 2], 3⟩, .tick 23000000, .tick 23000000,
    .deliver 1 ⟨[1, 0], 2⟩, .tick 23000000, .deliver 1 ⟨[3, 1], 1⟩, .deliver 0 ⟨[0, 1], 3⟩,
    .deliver 2 ⟨[1, 3], 2⟩, .deliver 0 ⟨[2, 0], 2⟩, .deliver 0 ⟨[3, 0], 0⟩, .tick 1,
    .deliver 2 ⟨[1, 2], 3⟩, .deliver 0 ⟨[2, 3], 2⟩, .tick 23000000, .deliver 5 ⟨[0, 3], 0⟩,
    .tick 23000000, .tick 23000000, .deliver 5 ⟨[3, 2], 2⟩, .deliver 4 ⟨[0, 2], 4⟩,
    .deliver 1 ⟨[1, 0], 1⟩, .tick 23000000, .deliver 1 ⟨[3, 1], 1⟩, .deliver 0 ⟨[0, 1], 3⟩,
    .deliver 0 ⟨[1, 3], 3⟩, .tick 1, .deliver 2 ⟨[3, 0], 2⟩, .deliver 0 ⟨[0, 0], 1⟩,
    .tick 23000000, .deliver 6 ⟨[2, 3], 3⟩, .deliver 1 ⟨[3, 3], 3⟩, .tick 23000000,
    .deliver 1 ⟨[1, 1], 1⟩, .tick 23000000, .tick 23000000, .deliver 0 ⟨[0, 2], 2⟩, .tick 8000000,
    .deliver 4 ⟨[2, 1], 0⟩, .deliver 4 ⟨[3, 1], 4⟩, .deliver 0 ⟨[0, 1], 3⟩, .deliver 0 ⟨[1, 3], 3⟩,
    .deliver 0 ⟨[2, 0], 1⟩, .deliver 0 ⟨[3, 0], 4⟩]

set_option maxRecDepth 100000 in
example : finalOk [1, 2, 3] 8 2 1400000000 (texec P4a sInit ([.start 1, .start 2, .start 3] ++ schedA)) = true := by
  decide
set_option maxRecDepth 100000 in
example : rcvdTypes 2 (texec P4a sA schedA) = [4, 4, 4, 2, 2, 1, 3, 2, 3, 3] := by decide

/-! #### A'. The happy path: the round-1 leader runs (slot 10: member 3 leads round 1)

After the three `start` actions the PRE-PREPARE of member 3 is in flight (`Poised1`);
`timed_good_round_1`: everybody decides member 3's proposal 10 in round 1 by 0 + 0 + 4 · 100 ms. -/

def P4 : TParams :=
  { d := rotDef 10 0 4 100, R := [1, 2, 3], lo := 0, hi := 100000000,
    arm := relTimer (RoundTimer.incTimeout 2 false), inp := fun p => 7 + p }

/-- the cluster after the three `start` actions (slot 10). -/
def sB : TState := (texec P4 sInit [.start 1, .start 2, .start 3]).getD sInit

theorem sB_poised1 :
    Poised1 P4 ⟨1, 10, 3⟩ ⟨0, 0, 0 + RoundTimer.incTimeout 2 false 1, 0, 0⟩ sB := by
  refine ⟨rfl, by decide, Or.inl ⟨by decide, 0, by decide, by decide, by decide, by decide, by decide⟩, ?_⟩
  intro p hp
  have hp' : p = 1 ∨ p = 2 ∨ p = 3 := by simpa [P4] using hp
  refine ⟨⟨?_, ?_, ?_, ?_, ?_, ?_, ?_, ?_⟩, ?_, ?_, 1000000000, 1000000000, ?_, by decide, by decide,
    by decide, ?_, by decide, ?_⟩
  · rcases hp' with rfl | rfl | rfl <;>
      exact ⟨by decide, by decide, by decide, List.isEmpty_iff.mp (by decide), by decide, by decide⟩
  · rcases hp' with rfl | rfl | rfl <;> decide
  · rcases hp' with rfl | rfl | rfl <;> exact List.isEmpty_iff.mp (by decide)
  · rcases hp' with rfl | rfl | rfl <;> decide
  · rcases hp' with rfl | rfl | rfl <;> decide
  · rcases hp' with rfl | rfl | rfl <;> decide
  · rcases hp' with rfl | rfl | rfl <;> exact List.isEmpty_iff.mp (by decide)
  · rcases hp' with rfl | rfl | rfl <;> decide
  · rcases hp' with rfl | rfl | rfl <;> exact List.isEmpty_iff.mp (by decide)
  · rcases hp' with rfl | rfl | rfl <;> exact ⟨by decide, List.isEmpty_iff.mp (by decide)⟩
  · rcases hp' with rfl | rfl | rfl <;> decide
  · rcases hp' with rfl | rfl | rfl <;> decide
  · intro r hr
    have hf : (sB.node p).firsts = [(1, 1000000000)] := by
      rcases hp' with rfl | rfl | rfl <;> decide
    rw [hf]
    simp only [RoundTimer.lookup]
    rw [if_neg (by omega)]

example : ∀ (acts : List TAct) (s' : TState), texec P4 sB acts = some s' →
    0 + 0 + 4 * 100000000 < s'.now →
    ∀ p ∈ P4.R, GoodOutcome 10 1 ((s'.node p).st, (s'.node p).outs) := fun acts s' hs =>
  (timed_good_round_1 P4 (RoundTimer.incTimeout 2 false) rfl ⟨1, 10, 3⟩ rfl 0 0 0
    (by decide) (by decide) (by decide) (by decide) (by decide) (by decide) (by decide)
    (by decide) (by decide) (by decide) sB sB_poised1 acts s' hs).2

def schedB : List TAct :=
  [.tick 1, .deliver 1 ⟨[3, 0], 3⟩, .deliver 0 ⟨[0, 0], 1⟩, .tick 23000000, .deliver 5 ⟨[2, 3], 1⟩,
    .deliver 5 ⟨[3, 3], 4⟩, .tick 23000000, .deliver 4 ⟨[1, 1], 4⟩, .deliver 2 ⟨[2, 2], 3⟩,
    .deliver 1 ⟨[3, 2], 2⟩, .tick 23000000, .tick 23000000, .deliver 0 ⟨[2, 1], 0⟩, .tick 8000000,
    .deliver 0 ⟨[0, 1], 1⟩, .tick 23000000, .deliver 2 ⟨[2, 0], 3⟩, .deliver 1 ⟨[3, 0], 3⟩,
    .tick 23000000, .tick 23000000, .tick 23000000, .deliver 2 ⟨[3, 3], 4⟩, .deliver 2 ⟨[0, 3], 1⟩,
    .deliver 0 ⟨[1, 1], 0⟩, .deliver 2 ⟨[2, 2], 2⟩, .tick 23000000, .tick 8000000,
    .deliver 5 ⟨[1, 0], 1⟩, .deliver 0 ⟨[2, 1], 0⟩, .deliver 3 ⟨[3, 1], 2⟩, .deliver 1 ⟨[0, 1], 2⟩,
    .deliver 1 ⟨[1, 3], 2⟩, .deliver 0 ⟨[2, 0], 4⟩]

set_option maxRecDepth 100000 in
example : finalOk [1, 2, 3] 10 1 400000000 (texec P4 sInit ([.start 1, .start 2, .start 3] ++ schedB)) = true := by
  decide

/-! #### B. One silent round, then a good round (slot 10: leaders of rounds 2, 3 are members 0, 1)

The members sit in round 1 (called at instant 0; what was sent in round 1 — member 3 leads it — is
lost, as in `good_round_r`), their round-1 timers are due at 1 s. Round 2 (leader 0, down) is
silent and lasts 1.25 s; round 3 decides member 1's proposal 8. Bound of
`timed_decides_within_rotation`: 1 s + 1.25 s + 0 + 4 · 100 ms = 2.65 s. -/

def nd0 (p : Nat) : TNode :=
  { st := freshNode P4.d p (7 + p) 1
    outs := (run P4.d {} { proc := p } (.start :: inputEvents (7 + p))).2
    timer := some 1000000000, firsts := [(1, 1000000000)] }

/-- all three running members in round 1, timers due at 1 s, nothing in flight. -/
def s0 : TState := { now := 0, node := nd0 }

example : leaderFn 10 0 2 4 = 0 ∧ leaderFn 10 0 3 4 = 1 ∧ P4.d.quorum = 3 ∧ P4.R.Nodup ∧
    (∀ p ∈ P4.R, p < 4) ∧ (∀ p ∈ P4.R, P4.inp p ≠ 0) := by decide

/-- the initial cluster is poised for round 2 (entry instants `[1 s, 1 s]`, no old messages). -/
theorem s0_poised :
    Poised P4 (rotG 10 0 4 P4.inp 2 0) (rotT (RoundTimer.incTimeout 2 false) 2 1000000000 0 0 0) s0 := by
  refine ⟨rfl, by decide, fun p _ => List.Perm.refl _, (by intro m hm; cases hm), (by intro a; simp [s0]), ?_⟩
  intro p hp
  have hp' : p = 1 ∨ p = 2 ∨ p = 3 := by simpa [P4] using hp
  refine ⟨1000000000, ?_, rfl, by decide, by decide, ?_, ?_⟩
  · have hbuf : ∀ q, q = 1 ∨ q = 2 ∨ q = 3 → (s0.node q).st.buffer = [] := by
      intro q hq; rcases hq with rfl | rfl | rfl <;> decide
    refine ⟨(by decide), ?_, ?_, ?_, (by intro x hx; cases hx), ?_, ?_, ?_, ?_⟩
    · rcases hp' with rfl | rfl | rfl <;> exact ⟨by decide, by decide, by decide, by decide, by decide, by decide⟩
    · rcases hp' with rfl | rfl | rfl <;> decide
    · rw [hbuf p hp']; exact bufIs_nil
    · rcases hp' with rfl | rfl | rfl <;> decide
    · rcases hp' with rfl | rfl | rfl <;> decide
    · rcases hp' with rfl | rfl | rfl <;> decide
    · rcases hp' with rfl | rfl | rfl <;> decide
  · intro r hr
    have hr' : 2 ≤ r := hr
    show RoundTimer.lookup r [(1, 1000000000)] = none
    simp only [RoundTimer.lookup]
    rw [if_neg (by omega)]
  · rcases hp' with rfl | rfl | rfl <;>
      exact ⟨by decide, List.isEmpty_iff.mp (by decide)⟩

/-- the rotation theorem applies: its existential is `m = 1` (round 3, member 1), value `8`. -/
example : ∀ (acts : List TAct) (s' : TState), texec P4 s0 acts = some s' →
    1000000000 + 1250000000 + 0 + 4 * 100000000 < s'.now →
    ∀ p ∈ P4.R, GoodOutcome 8 3 ((s'.node p).st, (s'.node p).outs) := by
  obtain ⟨m, hm, hmR, hsil, h⟩ := timed_decides_within_rotation 10 0 4 100 P4 rfl
    (RoundTimer.incTimeout 2 false) rfl (by decide) (by decide) (by decide) (by decide) (by decide)
    2 (by decide) 1000000000 0 0 (by decide) (by decide)
    (fun ρ h1 _ => by
      have := RoundTimer.inc_closed 2 false ρ
      simp at this
      rw [this]; simp [P4]; omega)
  have hm1 : m = 1 := by
    have h0 : ¬ (leaderFn 10 0 (2 + 0) 4 ∈ P4.R) := by decide
    have h1 : leaderFn 10 0 (2 + 1) 4 ∈ P4.R := by decide
    rcases Nat.lt_or_ge m 1 with hlt | hge
    · have : m = 0 := by omega
      subst this; exact absurd hmR h0
    · rcases Nat.lt_or_ge 1 m with hgt | hle
      · exact absurd h1 (hsil 1 hgt)
      · omega
  subst hm1
  intro acts s' hs hlate
  exact (h s0 s0_poised acts s' hs).2.2 (by simpa [sumTimeouts, RoundTimer.incTimeout, RoundTimer.increasingRoundTimeout,
    RoundTimer.incRoundStart, RoundTimer.incRoundIncrease, RoundTimer.ms, P4] using hlate)

/-- an execution in which every message takes the full 100 ms … -/
def schedLate : List TAct :=
  [.tick 1000000000, .fire 1, .fire 2, .fire 3, .tick 100000000, .deliver 4 ⟨[2, 0], 4⟩,
    .deliver 3 ⟨[3, 0], 4⟩, .deliver 2 ⟨[0, 0], 2⟩, .deliver 3 ⟨[1, 2], 0⟩, .deliver 1 ⟨[2, 3], 1⟩,
    .deliver 3 ⟨[3, 3], 2⟩, .deliver 2 ⟨[0, 3], 3⟩, .deliver 1 ⟨[1, 1], 1⟩, .deliver 0 ⟨[2, 2], 1⟩,
    .tick 1150000000, .fire 1, .fire 2, .fire 3, .tick 100000000, .deliver 2 ⟨[0, 1], 2⟩,
    .deliver 5 ⟨[1, 3], 4⟩, .deliver 3 ⟨[2, 0], 2⟩, .deliver 5 ⟨[3, 0], 0⟩, .deliver 2 ⟨[0, 0], 2⟩,
    .deliver 1 ⟨[1, 2], 1⟩, .deliver 0 ⟨[2, 3], 3⟩, .deliver 1 ⟨[3, 3], 0⟩, .deliver 0 ⟨[0, 3], 4⟩,
    .tick 100000000, .deliver 2 ⟨[2, 2], 1⟩, .deliver 1 ⟨[3, 2], 0⟩, .deliver 0 ⟨[0, 2], 2⟩,
    .tick 100000000, .deliver 8 ⟨[2, 1], 2⟩, .deliver 7 ⟨[3, 1], 0⟩, .deliver 3 ⟨[0, 1], 0⟩,
    .deliver 5 ⟨[1, 3], 0⟩, .deliver 2 ⟨[2, 0], 2⟩, .deliver 3 ⟨[3, 0], 4⟩, .deliver 1 ⟨[0, 0], 4⟩,
    .deliver 1 ⟨[1, 2], 0⟩, .deliver 0 ⟨[2, 3], 1⟩, .tick 100000000, .deliver 5 ⟨[0, 3], 4⟩,
    .deliver 5 ⟨[1, 1], 3⟩, .deliver 6 ⟨[2, 2], 4⟩, .deliver 3 ⟨[3, 2], 1⟩, .deliver 2 ⟨[0, 2], 2⟩,
    .deliver 1 ⟨[1, 0], 0⟩, .deliver 2 ⟨[2, 1], 4⟩, .deliver 1 ⟨[3, 1], 2⟩, .deliver 0 ⟨[0, 1], 2⟩]

/-- … and one with short, varying latencies, varying oracles and overlapping phases. -/
def schedEarly : List TAct :=
  [.tick 1000000000, .fire 1, .fire 2, .fire 3, .tick 1, .deliver 2 ⟨[2, 2], 3⟩,
    .deliver 3 ⟨[3, 2], 4⟩, .deliver 0 ⟨[0, 2], 2⟩, .tick 17000000, .deliver 2 ⟨[2, 1], 0⟩,
    .deliver 2 ⟨[3, 1], 2⟩, .tick 17000000, .deliver 1 ⟨[1, 3], 2⟩, .deliver 1 ⟨[2, 0], 2⟩,
    .deliver 1 ⟨[3, 0], 1⟩, .tick 17000000, .deliver 0 ⟨[1, 2], 0⟩, .tick 1198999999, .fire 1,
    .fire 2, .fire 3, .tick 1, .deliver 5 ⟨[3, 2], 0⟩, .tick 17000000, .deliver 1 ⟨[1, 0], 3⟩,
    .deliver 1 ⟨[2, 1], 0⟩, .deliver 5 ⟨[3, 1], 2⟩, .deliver 1 ⟨[0, 1], 1⟩, .tick 17000000,
    .deliver 2 ⟨[2, 0], 4⟩, .deliver 1 ⟨[3, 0], 0⟩, .deliver 0 ⟨[0, 0], 0⟩, .deliver 0 ⟨[1, 2], 3⟩,
    .tick 1, .deliver 2 ⟨[3, 3], 3⟩, .deliver 0 ⟨[0, 3], 1⟩, .tick 17000000,
    .deliver 5 ⟨[2, 2], 4⟩, .deliver 5 ⟨[3, 2], 2⟩, .tick 17000000, .deliver 4 ⟨[1, 0], 4⟩,
    .deliver 2 ⟨[2, 1], 2⟩, .tick 17000000, .deliver 2 ⟨[0, 1], 1⟩, .tick 17000000,
    .deliver 0 ⟨[2, 0], 2⟩, .deliver 0 ⟨[3, 0], 4⟩, .tick 1, .deliver 2 ⟨[1, 2], 1⟩,
    .deliver 0 ⟨[2, 3], 0⟩, .tick 17000000, .deliver 2 ⟨[0, 3], 3⟩, .tick 17000000,
    .deliver 2 ⟨[2, 2], 2⟩, .deliver 2 ⟨[3, 2], 2⟩, .tick 17000000, .tick 17000000,
    .deliver 2 ⟨[2, 1], 1⟩, .deliver 1 ⟨[3, 1], 3⟩, .deliver 0 ⟨[0, 1], 3⟩, .deliver 0 ⟨[1, 3], 2⟩,
    .tick 1, .deliver 1 ⟨[3, 0], 0⟩, .deliver 0 ⟨[0, 0], 2⟩, .deliver 0 ⟨[1, 2], 2⟩]

-- both are executions of the model, everybody decides member 1's proposal 8 in round 3, and the last
-- decision falls exactly on resp. before the bound 2.65 s
set_option maxRecDepth 100000 in
example : finalOk [1, 2, 3] 8 3 2650000000 (texec P4 s0 schedLate) = true := by decide
set_option maxRecDepth 100000 in
example : finalOk [1, 2, 3] 8 3 2650000000 (texec P4 s0 schedEarly) = true := by decide
-- in the second one the phases overlap at member 2: two PREPAREs (type 2) arrive before the
-- PRE-PREPARE (type 1), and COMMITs (type 3) before the last PREPARE
set_option maxRecDepth 100000 in
example : rcvdTypes 2 (texec P4 s0 schedEarly) = [4, 4, 4, 4, 4, 4, 2, 2, 1, 3, 3, 2, 3] := by decide

/-! #### C. A slow member decides on a DECIDED (all four members run, slot 10: member 0 leads round 2)

Everything to and from member 3 takes the full 100 ms, everything else 1 ns: members 0, 1, 2 decide
among themselves within 4 ns; member 3's ROUND-CHANGE reaches them 100 ms later, they answer with
DECIDED (type 5), and member 3 decides by rule 7 (`UponJustifiedDecided`) without ever having sent a
COMMIT — within the bound 1 s + 4 · 100 ms all the same. -/

def P5 : TParams :=
  { d := rotDef 10 0 4 100, R := [0, 1, 2, 3], lo := 0, hi := 100000000,
    arm := relTimer (RoundTimer.incTimeout 2 false), inp := fun p => 7 + p }

def s5 : TState :=
  { now := 0
    node := fun p =>
      { st := freshNode P5.d p (7 + p) 1
        outs := (run P5.d {} { proc := p } (.start :: inputEvents (7 + p))).2
        timer := some 1000000000, firsts := [(1, 1000000000)] } }

def schedDecided : List TAct :=
  [.tick 1000000000, .fire 0, .fire 1, .fire 2, .fire 3, .tick 1, .deliver 0 ⟨[], 0⟩,
    .deliver 0 ⟨[], 0⟩, .deliver 0 ⟨[], 0⟩, .deliver 1 ⟨[], 0⟩, .deliver 1 ⟨[], 0⟩,
    .deliver 1 ⟨[], 0⟩, .deliver 2 ⟨[], 0⟩, .deliver 2 ⟨[], 0⟩, .deliver 2 ⟨[], 0⟩, .tick 1,
    .deliver 7 ⟨[], 0⟩, .deliver 7 ⟨[], 0⟩, .deliver 7 ⟨[], 0⟩, .tick 1, .deliver 8 ⟨[], 0⟩,
    .deliver 8 ⟨[], 0⟩, .deliver 8 ⟨[], 0⟩, .deliver 9 ⟨[], 0⟩, .deliver 9 ⟨[], 0⟩,
    .deliver 9 ⟨[], 0⟩, .deliver 10 ⟨[], 0⟩, .deliver 10 ⟨[], 0⟩, .deliver 10 ⟨[], 0⟩, .tick 1,
    .deliver 11 ⟨[], 0⟩, .deliver 11 ⟨[], 0⟩, .deliver 11 ⟨[], 0⟩, .deliver 12 ⟨[], 0⟩,
    .deliver 12 ⟨[], 0⟩, .deliver 12 ⟨[], 0⟩, .deliver 13 ⟨[], 0⟩, .deliver 13 ⟨[], 0⟩,
    .deliver 13 ⟨[], 0⟩, .tick 99999996, .deliver 0 ⟨[], 0⟩, .deliver 0 ⟨[], 0⟩,
    .deliver 0 ⟨[], 0⟩, .deliver 0 ⟨[], 0⟩, .deliver 0 ⟨[], 0⟩, .deliver 0 ⟨[], 0⟩,
    .deliver 0 ⟨[], 0⟩, .tick 1, .deliver 0 ⟨[], 0⟩, .deliver 6 ⟨[], 0⟩, .deliver 6 ⟨[], 0⟩,
    .deliver 6 ⟨[], 0⟩, .deliver 6 ⟨[], 0⟩, .deliver 6 ⟨[], 0⟩, .deliver 6 ⟨[], 0⟩,
    .deliver 6 ⟨[], 0⟩, .deliver 6 ⟨[], 0⟩, .deliver 6 ⟨[], 0⟩, .deliver 6 ⟨[], 0⟩,
    .deliver 6 ⟨[], 0⟩, .deliver 6 ⟨[], 0⟩, .tick 1, .deliver 0 ⟨[], 0⟩, .deliver 0 ⟨[], 0⟩,
    .deliver 0 ⟨[], 0⟩, .tick 1, .deliver 0 ⟨[], 0⟩, .deliver 0 ⟨[], 0⟩, .deliver 0 ⟨[], 0⟩,
    .tick 99999998, .deliver 0 ⟨[], 0⟩, .deliver 0 ⟨[], 0⟩, .deliver 0 ⟨[], 0⟩, .deliver 0 ⟨[], 0⟩]

set_option maxRecDepth 100000 in
example : finalOk [0, 1, 2, 3] 7 2 1400000000 (texec P5 s5 schedDecided) = true := by decide
set_option maxRecDepth 100000 in
example : rulesOf 3 (texec P5 s5 schedDecided) = [1, 7] ∧
    rcvdTypes 3 (texec P5 s5 schedDecided) = [4, 4, 4, 4, 1, 5, 5, 5, 2, 2, 2, 3, 3, 3, 2] := by decide

/-! #### D. The slot-aligned eager timer (`C04Timer.exAtt`: attester duty of slot 10, 12 s slots)

`dutyStart` = 124.000001 s; the members armed round 1 at the duty start (aligned end 125.000001 s).
Round 2 (leader 0, down) ends at its aligned end 126.000001 s at all members at once, round 3
decides: bound `eagerEnd 2 + 4·δ` = 126.400001 s, attained when every message takes 100 ms. -/

def P4e : TParams :=
  { d := rotDef 10 0 4 100, R := [1, 2, 3], lo := 0, hi := 100000000,
    arm := prodTimer RoundTimer.exAtt false, inp := fun p => 7 + p }

def s0e : TState :=
  { now := 124000001000
    node := fun p =>
      { st := freshNode P4e.d p (7 + p) 1
        outs := (run P4e.d {} { proc := p } (.start :: inputEvents (7 + p))).2
        timer := some 125000001000, firsts := [(1, 125000001000)] } }

-- the timing hypotheses of `timed_rotation_eager` (ρ0 = 2, E0 = aligned end of round 1, σ0 = 0)
example : eagerEnd RoundTimer.exAtt false 1000 1 = 125000001000 ∧
    eagerEnd RoundTimer.exAtt false 1000 2 = 126000001000 ∧
    125000001000 + 0 + 4 * P4e.hi < eagerEnd RoundTimer.exAtt false 1000 2 ∧
    4 * P4e.hi < 1000000000 := by decide

def schedEager : List TAct :=
  [.tick 1000000000, .fire 1, .fire 2, .fire 3, .tick 100000000, .deliver 0 ⟨[], 0⟩,
    .deliver 0 ⟨[], 0⟩, .deliver 0 ⟨[], 0⟩, .deliver 0 ⟨[], 0⟩, .deliver 0 ⟨[], 0⟩,
    .deliver 0 ⟨[], 0⟩, .deliver 0 ⟨[], 0⟩, .deliver 0 ⟨[], 0⟩, .deliver 0 ⟨[], 0⟩,
    .tick 900000000, .fire 1, .fire 2, .fire 3, .tick 100000000, .deliver 0 ⟨[], 0⟩,
    .deliver 0 ⟨[], 0⟩, .deliver 0 ⟨[], 0⟩, .deliver 0 ⟨[], 0⟩, .deliver 0 ⟨[], 0⟩,
    .deliver 0 ⟨[], 0⟩, .deliver 0 ⟨[], 0⟩, .deliver 0 ⟨[], 0⟩, .deliver 0 ⟨[], 0⟩,
    .tick 100000000, .deliver 0 ⟨[], 0⟩, .deliver 0 ⟨[], 0⟩, .deliver 0 ⟨[], 0⟩, .tick 100000000,
    .deliver 0 ⟨[], 0⟩, .deliver 0 ⟨[], 0⟩, .deliver 0 ⟨[], 0⟩, .deliver 0 ⟨[], 0⟩,
    .deliver 0 ⟨[], 0⟩, .deliver 0 ⟨[], 0⟩, .deliver 0 ⟨[], 0⟩, .deliver 0 ⟨[], 0⟩,
    .deliver 0 ⟨[], 0⟩, .tick 100000000, .deliver 0 ⟨[], 0⟩, .deliver 0 ⟨[], 0⟩,
    .deliver 0 ⟨[], 0⟩, .deliver 0 ⟨[], 0⟩, .deliver 0 ⟨[], 0⟩, .deliver 0 ⟨[], 0⟩,
    .deliver 0 ⟨[], 0⟩, .deliver 0 ⟨[], 0⟩, .deliver 0 ⟨[], 0⟩]

set_option maxRecDepth 100000 in
example : finalOk [1, 2, 3] 8 3 126400001000 (texec P4e s0e schedEager) = true := by decide

end C04TimedEx

end CharonV.Qbft
