/-
C18 — values passed between workflow components are isolated copies.

"Mutating an object after handing it to a store or subscriber, or after receiving it from a store,
query or subscription, never changes what any other reader, subscriber or later query observes,
and two readers never receive the same mutable memory."

PARTIAL for this technique: a Lean model cannot see Go memory. What is PROVED here is isolation
*given the port table* (`CharonV.Heap.portTable`): for every op sequence (store, read,
subscribe-deliver, mutate any reachable cell, read again, in any order, any number of holders) through
ports classified `clone`. What is ESTABLISHED DYNAMICALLY is the table itself: `drive-alias` hands
real values of every flowing type through the real components, computes by reflection the reachable
mutable locations of every handed-out value, mutates them and re-reads, and is diffed per op with
this model.

The full statement for the tree AS IT IS would be

    theorem pipeline_isolated_asis (ops : List Op) (op : Op)
        (hw : every port of ops ++ [op] has a row in portTable implFixes) :
        Isolated (run (modeOf (portTable implFixes)) init ops) ∧ ∀ g, op.targets g = false → observe … g unchanged

and is FALSE: `dutyDB.AwaitAttestation`, `dutyDB.AwaitProposal`, `dutyDB.AwaitSyncContribution`
hand out the stored pointer (D-7) and the scheduler keeps the slices of the beacon client's answer.
It is proved as `pipeline_isolated_partial` for the `clone`-only sub-pipeline, refuted on concrete
witnesses for every `share` port (`asis_share_ports_leak`), and proved in full for the table with
all proposed fixes applied (`pipeline_isolated_fixed`).
-/
import CharonV.Proofs.Heap
import CharonV.Generated.Wire

namespace CharonV.Heap

/-- After `clone`: the reachable cell sets of original and copy are disjoint (indeed the copy is
disjoint from every value `u` that existed before), the copy reads equal to the original, nothing
that existed is disturbed, and a mutation through any cell reachable from the original (resp. the
copy, resp. any other existing value) leaves what is read through the other holders unchanged. -/
theorem clone_isolates (h : Heap) (n : Nat) (t : Tree) (hb : ∀ c : Nat, c ∈ t.cells → c < n) :
    (∀ c : Nat, c ∈ (clone h n t).tree.cells → c ∉ t.cells) ∧
    read (clone h n t).heap (clone h n t).tree = read h t ∧
    read (clone h n t).heap t = read h t ∧
    (∀ (c : Nat) (p : Nat), c ∈ t.cells →
        read (set (clone h n t).heap c p) (clone h n t).tree = read (clone h n t).heap (clone h n t).tree) ∧
    (∀ (c : Nat) (p : Nat), c ∈ (clone h n t).tree.cells →
        read (set (clone h n t).heap c p) t = read (clone h n t).heap t) ∧
    (∀ u : Tree, (∀ c : Nat, c ∈ u.cells → c < n) →
        (∀ c : Nat, c ∈ (clone h n t).tree.cells → c ∉ u.cells) ∧
        read (clone h n t).heap u = read h u ∧
        (∀ (c : Nat) (p : Nat), c ∈ u.cells →
          read (set (clone h n t).heap c p) (clone h n t).tree = read (clone h n t).heap (clone h n t).tree) ∧
        (∀ (c : Nat) (p : Nat), c ∈ (clone h n t).tree.cells →
          read (set (clone h n t).heap c p) u = read (clone h n t).heap u)) := by
  obtain ⟨_, c2, c3, c4⟩ := clone_spec t h n hb
  have old : ∀ u : Tree, (∀ c : Nat, c ∈ u.cells → c < n) →
      (∀ c : Nat, c ∈ (clone h n t).tree.cells → c ∉ u.cells) ∧
      read (clone h n t).heap u = read h u ∧
      (∀ (c : Nat) (p : Nat), c ∈ u.cells →
        read (set (clone h n t).heap c p) (clone h n t).tree = read (clone h n t).heap (clone h n t).tree) ∧
      (∀ (c : Nat) (p : Nat), c ∈ (clone h n t).tree.cells →
        read (set (clone h n t).heap c p) u = read (clone h n t).heap u) := by
    intro u hu
    have hd : ∀ c : Nat, c ∈ (clone h n t).tree.cells → c ∉ u.cells := by
      intro c hc hcu
      have := (c2 c hc).1
      have := hu c hcu
      omega
    refine ⟨hd, read_congr (fun c hc => c3 c (hu c hc)), ?_, ?_⟩
    · intro c p hc
      exact read_set_of_not_mem (fun hcc => hd c hcc hc)
    · intro c p hc
      exact read_set_of_not_mem (hd c hc)
  obtain ⟨o1, o2, o3, o4⟩ := old t hb
  exact ⟨o1, c4, o2, o3, o4, old⟩

/-- Non-vacuity of the distinction: with `share` a mutation of ANY reachable cell to a different
payload IS visible through the other holder of the root. -/
theorem share_aliases (h : Heap) (n : Nat) (t : Tree) (c : Nat) (p : Nat) (hc : c ∈ t.cells) (hp : p ≠ h c) :
    (share h n t).tree = t ∧
    read (set (share h n t).heap c p) (share h n t).tree ≠ read (share h n t).heap (share h n t).tree := by
  exact ⟨rfl, read_set_ne hp hc⟩

/-- Isolation of a pipeline, for ANY port table and ALL op sequences: if every port that is used is
`clone`, then after any run no two holders' reachable cell sets intersect, every reachable cell is
allocated, and a further op changes the observable value (the tree read through the heap) of no
holder except the one that (re)binds, mutates or drops its own value. -/
theorem pipeline_isolated (tbl : Port → Mode) (ops : List Op) (op : Op)
    (hall : ∀ o, o ∈ ops ++ [op] → ∀ p, o.port? = some p → tbl p = .clone) :
    Isolated (run tbl init ops) ∧ Isolated (run tbl init (ops ++ [op])) ∧
    ∀ g, op.targets g = false → observe (step tbl (run tbl init ops) op) g = observe (run tbl init ops) g := by
  have hi : Inv (run tbl init ops) :=
    inv_run tbl ops init inv_init (fun o ho => hall o (by simp [ho]))
  have hi' : Inv (run tbl init (ops ++ [op])) := inv_run tbl (ops ++ [op]) init inv_init hall
  exact ⟨hi.2, hi'.2, fun g hg => observe_step tbl op hi (hall op (by simp)) g hg⟩

/-- every port used by the ops is classified `clone` in the table. -/
def onlyClonePorts (tbl : List (String × String × Mode)) (ops : List Op) : Prop :=
  ∀ o, o ∈ ops → ∀ p, o.port? = some p → modeOf tbl p = .clone

/-- The implementation's table with any set of fixes, restricted to its `clone`-only sub-pipeline:
isolation for all op sequences that stay on ports classified `clone`. -/
theorem pipeline_isolated_partial (fx : Fixes) (ops : List Op) (op : Op)
    (hall : onlyClonePorts (portTable fx) (ops ++ [op])) :
    Isolated (run (modeOf (portTable fx)) init ops) ∧
    Isolated (run (modeOf (portTable fx)) init (ops ++ [op])) ∧
    ∀ g, op.targets g = false →
      observe (step (modeOf (portTable fx)) (run (modeOf (portTable fx)) init ops) op) g =
      observe (run (modeOf (portTable fx)) init ops) g :=
  pipeline_isolated (modeOf (portTable fx)) ops op hall

/-- every port of the ops has a row in the table. -/
def onlyTablePorts (tbl : List (String × String × Mode)) (ops : List Op) : Prop :=
  ∀ o, o ∈ ops → ∀ p, o.port? = some p → (tbl.any (fun r => portName r.1 r.2.1 == p)) = true

theorem allFixes_all_clone : (portTable allFixes).all (fun r => r.2.2 == .clone) = true := by decide

/-- With every proposed fix applied the whole table is `clone`: isolation for ALL op sequences over
the ports of the table. -/
theorem pipeline_isolated_fixed (ops : List Op) (op : Op)
    (hall : onlyTablePorts (portTable allFixes) (ops ++ [op])) :
    Isolated (run (modeOf (portTable allFixes)) init ops) ∧
    Isolated (run (modeOf (portTable allFixes)) init (ops ++ [op])) ∧
    ∀ g, op.targets g = false →
      observe (step (modeOf (portTable allFixes)) (run (modeOf (portTable allFixes)) init ops) op) g =
      observe (run (modeOf (portTable allFixes)) init ops) g :=
  pipeline_isolated (modeOf (portTable allFixes)) ops op
    (fun o ho p hp => modeOf_clone_of_all allFixes_all_clone (hall o ho p hp))

/-- the leak through a `share` port `port`: holder 0 stores a one-cell value (store input `dutyDB.Store`
is `clone`, kept copy = holder 1), readers 2 and 3 query through `port`; reader 2 mutates what it got. -/
def leakOps (port : Port) : List Op :=
  [.alloc 0 (.node 0 .nil .nil), .pass "dutyDB.Store" 0 1, .pass port 1 2, .pass port 1 3]

/-- does reader 2's mutation leak (readers share memory, and the other reader, the store's kept copy
and a later query all observe the mutation although none of them is targeted by it)? -/
def leaks (fx : Fixes) (port : Port) : Bool :=
  let tbl := modeOf (portTable fx)
  let s := run tbl init (leakOps port)
  let s' := step tbl s (.mutCell 2 0 7)
  let s'' := step tbl s' (.pass port 1 4)
  (match lookup 2 s.holders, lookup 3 s.holders with
   | some a, some b => sharesMem a b
   | _, _ => false) &&
  (observe s' 3 != observe s 3) && (observe s' 1 != observe s 1) && (observe s'' 4 != observe s 3)

/-- Witness (the negation of the full statement on the tree AS IT IS): every port classified `share`
leaks; the original holder 0 (behind the `clone` store input) is not affected. -/
theorem asis_share_ports_leak :
    leaks {} "dutyDB.AwaitAttestation" = true ∧
    leaks {} "dutyDB.AwaitProposal" = true ∧
    leaks {} "dutyDB.AwaitSyncContribution" = true ∧
    leaks {} "sched.resolveSyncCommDuties" = true ∧
    leaks {} "cache.fetchSyncDuties" = true ∧
    leaks {} "cache.SyncCommDutiesCache" = true ∧
    leaks {} "cache.AttesterDutiesCache" = true ∧
    leaks {} "cache.ProposerDutiesCache" = true ∧
    -- with the fixes applied the same run does not leak
    leaks allFixes "dutyDB.AwaitAttestation" = false ∧
    leaks allFixes "dutyDB.AwaitProposal" = false ∧
    leaks allFixes "dutyDB.AwaitSyncContribution" = false ∧
    leaks allFixes "sched.resolveSyncCommDuties" = false ∧
    leaks allFixes "cache.SyncCommDutiesCache" = false ∧
    -- and a clone port of the tree as it is does not leak
    leaks {} "dutyDB.AwaitAggAttestation" = false ∧
    leaks {} "aggSigDB.Await" = false := by decide

/-- the ports classified `share` in a table. -/
def sharePorts (tbl : List (String × String × Mode)) : List Port :=
  (tbl.filter (fun r => r.2.2 == .share)).map (fun r => portName r.1 r.2.1)

/-- exactly the eight known rows are `share` in the tree as it is (a new `share` row must be added here
and to the findings). -/
theorem asis_share_rows : sharePorts (portTable {}) =
    ["cache.fetchSyncDuties", "cache.SyncCommDutiesCache", "cache.AttesterDutiesCache", "cache.ProposerDutiesCache",
     "sched.resolveSyncCommDuties", "dutyDB.AwaitProposal", "dutyDB.AwaitAttestation", "dutyDB.AwaitSyncContribution"] := by
  decide

/-- T-wire tie: both ends of every edge of the wiring graph generated from `core.Wire` have a row in
the hand-written port table (a newly wired subscription without a classified port breaks this). -/
theorem ports_cover_wire (fx : Fixes) :
    CharonV.Generated.Wire.wireEdges.all (edgeCovered (portTable fx)) = true := by
  cases fx with
  | mk a b c d e => cases a <;> cases b <;> cases c <;> cases d <;> cases e <;> decide

/-- the generated graph is not empty and every component of `Wire` appears in the table. -/
theorem ports_cover_components (fx : Fixes) :
    CharonV.Generated.Wire.wireEdges.length ≥ 20 ∧
    CharonV.Generated.Wire.wireComponents.all (fun c => (portTable fx).any (fun r => r.1 == c)) = true := by
  cases fx with
  | mk a b c d e => cases a <;> cases b <;> cases c <;> cases d <;> cases e <;> decide

/-! ### non-vacuity -/

/-- `clone_isolates` has instances: a three-cell value, its clone is made of cells 3,4,5. -/
example : (clone (fun c => c + 10) 3 (.node 0 (.node 1 .nil .nil) (.node 2 .nil .nil))).tree.cells = [3, 4, 5] := by
  decide

example : read (clone (fun c => c + 10) 3 (.node 0 (.node 1 .nil .nil) (.node 2 .nil .nil))).heap
    (clone (fun c => c + 10) 3 (.node 0 (.node 1 .nil .nil) (.node 2 .nil .nil))).tree =
    .node 10 (.node 11 .nil .nil) (.node 12 .nil .nil) := by decide

/-- `pipeline_isolated`'s hypothesis is satisfiable by a run that stores, reads twice, delivers to two
subscribers, mutates and reads again — and the mutation is then visible to the mutating holder itself
(so "unchanged" is not trivially true of every observation). -/
example :
    let ops : List Op := [.alloc 0 (.node 0 (.node 0 .nil .nil) .nil), .pass "aggSigDB.Store" 0 1,
      .pass "aggSigDB.Await" 1 2, .pass "aggSigDB.Await" 1 3, .pass "sigAgg.Subscribe" 0 4,
      .pass "sigAgg.Subscribe" 0 5, .mutAll 2 9, .pass "aggSigDB.Await" 1 6]
    (∀ o, o ∈ ops → ∀ p, o.port? = some p → modeOf (portTable {}) p = .clone) ∧
    observe (run (modeOf (portTable {})) init ops) 2 = some (.node 9 (.node 9 .nil .nil) .nil) ∧
    observe (run (modeOf (portTable {})) init ops) 3 = some (.node 0 (.node 0 .nil .nil) .nil) ∧
    observe (run (modeOf (portTable {})) init ops) 6 = some (.node 0 (.node 0 .nil .nil) .nil) := by
  decide

end CharonV.Heap
