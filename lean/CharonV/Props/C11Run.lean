/-
C11, the ceremony glue — what a node HOLDS after a successful distributed key generation
(`dkg/dkg.go` after the key-generation rounds, `dkg/exchanger.go`, `dkg/disk.go`,
`dkg/share/share.go`; model `Model/DkgGlue.lean`).

`Props/C11.lean` proves that the outputs of the rounds are one consistent Shamir sharing per
validator. The theorems here carry that to the artifacts: the lock (validators' group keys and
public shares in share-index order, deposit data and builder registrations signed by the group
key) and the keystores.

Setting of the theorems (no bound on anything): `n` nodes with share indices `1..n`; the validators
of the ceremony `vals : List V` (any type `V`, any number); the ceremony's output as abstract
functions `gpk v` (group key), `sec i v` (secret share of index `i`), `psh i v` (public share);
node `j` holds `shares` with `NodeOutput n vals gpk sec psh j shares` — one share per validator in
ceremony order, the public-share map in ANY iteration order. Distinct validators have distinct
group keys (`(vals.map gpk).Nodup`; equal keys would need equal sharing polynomials).
What an exchange returned is `HonestExchange`: every validator (ANY map order) with one partial
of every share index (ANY arrival order). Cryptography enters through `Laws` (hypotheses:
a partial verifies under its public share, the `n` collected partials threshold-aggregate to the
group signature, which verifies under the group key, public share = public key of the secret
share); `threshold_bls_satisfies_laws` discharges them for the algebra of C08.
-/
import CharonV.Proofs.DkgGlue

namespace CharonV.DkgGlue

open Polynomial CharonV.Tbls

section Generic
variable {PK SK Sig M V : Type} [DecidableEq PK]

/-- **All nodes build the same lock content.** Any two nodes `j`, `j'`, each from its own output of
the key generation (own secret shares, public-share maps in their own iteration order) and from what
its own exchanges returned (own map orders, own arrival orders), obtain the same list of validators —
for every number of nodes, validators, amounts, every order. -/
theorem lock_same_on_all_nodes (C : Crypto PK SK Sig M) (n : Nat) (vals : List V) (gpk : V → PK)
    (sec : Nat → V → SK) (psh : Nat → V → PK) (gsig : V → M → Sig) (laws : Laws C n gpk sec psh gsig)
    (hnd : (vals.map gpk).Nodup) (wdOf feeOf : V → Nat) (gas : Nat) (amounts : List Nat) (hne : amounts ≠ [])
    (pregen : Bool)
    (j : Nat) (shares : List (Share PK SK)) (hout : NodeOutput n vals gpk sec psh j shares)
    (exchDep : List (List (PK × List (ParSig Sig)))) (exchReg : List (PK × List (ParSig Sig)))
    (hdep : List.Forall₂ (fun data a => HonestExchange C n vals gpk sec (fun v => C.depositRoot ⟨gpk v, wdOf v, a⟩) data) exchDep amounts)
    (hreg : HonestExchange C n vals gpk sec (fun v => C.regRoot ⟨gpk v, feeOf v, gas⟩) exchReg)
    (j' : Nat) (shares' : List (Share PK SK)) (hout' : NodeOutput n vals gpk sec psh j' shares')
    (exchDep' : List (List (PK × List (ParSig Sig)))) (exchReg' : List (PK × List (ParSig Sig)))
    (hdep' : List.Forall₂ (fun data a => HonestExchange C n vals gpk sec (fun v => C.depositRoot ⟨gpk v, wdOf v, a⟩) data) exchDep' amounts)
    (hreg' : HonestExchange C n vals gpk sec (fun v => C.regRoot ⟨gpk v, feeOf v, gas⟩) exchReg') :
    lockValidators C shares j (vals.map wdOf) (vals.map feeOf) gas amounts pregen exchDep exchReg =
      lockValidators C shares' j' (vals.map wdOf) (vals.map feeOf) gas amounts pregen exchDep' exchReg' ∧
    ∃ lock, lockValidators C shares j (vals.map wdOf) (vals.map feeOf) gas amounts pregen exchDep exchReg = .ok lock := by
  rw [lockValidators_spec C n vals gpk sec psh gsig laws j shares hout hnd wdOf feeOf gas amounts hne pregen exchDep exchReg hdep hreg,
    lockValidators_spec C n vals gpk sec psh gsig laws j' shares' hout' hnd wdOf feeOf gas amounts hne pregen exchDep' exchReg' hdep' hreg']
  exact ⟨rfl, _, rfl⟩

/-- **The lock lists the public shares in share-index order.** In the lock every node builds,
validator `k` is the ceremony's validator `k` and its `PubShares[i]` is the public key of the
secret share of share index `i+1` (node `i`), for every validator and every `i < n` — whatever
order the Go map of public shares was iterated in. -/
theorem lock_pubshares_in_share_order (C : Crypto PK SK Sig M) (n : Nat) (vals : List V) (gpk : V → PK)
    (sec : Nat → V → SK) (psh : Nat → V → PK) (gsig : V → M → Sig) (laws : Laws C n gpk sec psh gsig)
    (hnd : (vals.map gpk).Nodup) (wdOf feeOf : V → Nat) (gas : Nat) (amounts : List Nat) (hne : amounts ≠ [])
    (pregen : Bool)
    (j : Nat) (shares : List (Share PK SK)) (hout : NodeOutput n vals gpk sec psh j shares)
    (exchDep : List (List (PK × List (ParSig Sig)))) (exchReg : List (PK × List (ParSig Sig)))
    (hdep : List.Forall₂ (fun data a => HonestExchange C n vals gpk sec (fun v => C.depositRoot ⟨gpk v, wdOf v, a⟩) data) exchDep amounts)
    (hreg : HonestExchange C n vals gpk sec (fun v => C.regRoot ⟨gpk v, feeOf v, gas⟩) exchReg) :
    ∃ lock, lockValidators C shares j (vals.map wdOf) (vals.map feeOf) gas amounts pregen exchDep exchReg = .ok lock ∧
      lock.map (·.pubKey) = vals.map gpk ∧
      lock.map (·.pubShares) = vals.map (fun v => (List.range n).map fun i => C.pub (sec (i + 1) v)) := by
  refine ⟨_, lockValidators_spec C n vals gpk sec psh gsig laws j shares hout hnd wdOf feeOf gas amounts hne pregen exchDep exchReg hdep hreg, ?_, ?_⟩
  · rw [(clearRegs_map_pubShares pregen _).2.1]
    simp [List.map_map, Function.comp_def, specDV]
  · rw [(clearRegs_map_pubShares pregen _).1]
    simp only [List.map_map, Function.comp_def, specDV]
    apply List.map_congr_left
    intro v _
    rw [List.range'_eq_map_range]
    simp [List.map_map, Function.comp_def, laws.pub_share, Nat.add_comm]

/-- **The keystores match the lock.** Node `j` (share index, `1 ≤ j ≤ n`) writes one keystore per
validator in ceremony order (`writeKeysToDisk`), and the `k`-th keystore's secret has as public key
exactly `lock.Validators[k].PubShares[j-1]`, for every `k`. -/
theorem keystores_match_lock (C : Crypto PK SK Sig M) (n : Nat) (vals : List V) (gpk : V → PK)
    (sec : Nat → V → SK) (psh : Nat → V → PK) (gsig : V → M → Sig) (laws : Laws C n gpk sec psh gsig)
    (hnd : (vals.map gpk).Nodup) (wdOf feeOf : V → Nat) (gas : Nat) (amounts : List Nat) (hne : amounts ≠ [])
    (pregen : Bool)
    (j : Nat) (hj1 : 1 ≤ j) (hjn : j ≤ n) (shares : List (Share PK SK)) (hout : NodeOutput n vals gpk sec psh j shares)
    (exchDep : List (List (PK × List (ParSig Sig)))) (exchReg : List (PK × List (ParSig Sig)))
    (hdep : List.Forall₂ (fun data a => HonestExchange C n vals gpk sec (fun v => C.depositRoot ⟨gpk v, wdOf v, a⟩) data) exchDep amounts)
    (hreg : HonestExchange C n vals gpk sec (fun v => C.regRoot ⟨gpk v, feeOf v, gas⟩) exchReg) :
    ∃ lock, lockValidators C shares j (vals.map wdOf) (vals.map feeOf) gas amounts pregen exchDep exchReg = .ok lock ∧
      keystore shares = vals.map (sec j) ∧
      lock.map (fun dv => dv.pubShares[j - 1]?) = (keystore shares).map (fun sk => some (C.pub sk)) := by
  obtain ⟨lock, hlock, _, hps⟩ := lock_pubshares_in_share_order C n vals gpk sec psh gsig laws hnd wdOf feeOf gas amounts hne
    pregen j shares hout exchDep exchReg hdep hreg
  refine ⟨lock, hlock, hout.secrets, ?_⟩
  have h1 : lock.map (fun dv => dv.pubShares[j - 1]?) = (lock.map (·.pubShares)).map (fun l => l[j - 1]?) := by
    simp [List.map_map, Function.comp_def]
  rw [h1, hps]
  show _ = (List.map (·.secret) shares).map _
  rw [hout.secrets]
  simp only [List.map_map, Function.comp_def]
  apply List.map_congr_left
  intro v _
  have hlt : j - 1 < n := by omega
  simp [hlt, Nat.sub_add_cancel hj1]

/-- **Partial deposits: one group signature per (validator, amount).** In the lock, the deposit
data of validator `v` are, in the order of the configured amounts, for every amount `a` the entry
with `v`'s key, `v`'s withdrawal address, amount `a`, and the group signature over exactly the
signing root of that message — never another validator's, never another amount's. -/
theorem deposit_sigs_per_amount (C : Crypto PK SK Sig M) (n : Nat) (vals : List V) (gpk : V → PK)
    (sec : Nat → V → SK) (psh : Nat → V → PK) (gsig : V → M → Sig) (laws : Laws C n gpk sec psh gsig)
    (hnd : (vals.map gpk).Nodup) (wdOf feeOf : V → Nat) (gas : Nat) (amounts : List Nat) (hne : amounts ≠ [])
    (pregen : Bool)
    (j : Nat) (shares : List (Share PK SK)) (hout : NodeOutput n vals gpk sec psh j shares)
    (exchDep : List (List (PK × List (ParSig Sig)))) (exchReg : List (PK × List (ParSig Sig)))
    (hdep : List.Forall₂ (fun data a => HonestExchange C n vals gpk sec (fun v => C.depositRoot ⟨gpk v, wdOf v, a⟩) data) exchDep amounts)
    (hreg : HonestExchange C n vals gpk sec (fun v => C.regRoot ⟨gpk v, feeOf v, gas⟩) exchReg) :
    ∃ lock, lockValidators C shares j (vals.map wdOf) (vals.map feeOf) gas amounts pregen exchDep exchReg = .ok lock ∧
      lock.map (·.deposits) = vals.map (fun v => amounts.map fun a =>
        (⟨gpk v, wdOf v, a, gsig v (C.depositRoot ⟨gpk v, wdOf v, a⟩)⟩ : DepositData PK Sig)) ∧
      ∀ v a, C.verify (gpk v) (C.depositRoot ⟨gpk v, wdOf v, a⟩) (gsig v (C.depositRoot ⟨gpk v, wdOf v, a⟩)) = true := by
  refine ⟨_, lockValidators_spec C n vals gpk sec psh gsig laws j shares hout hnd wdOf feeOf gas amounts hne pregen exchDep exchReg hdep hreg, ?_,
    fun v a => laws.verify_group v _⟩
  rw [(clearRegs_map_pubShares pregen _).2.2]
  simp [List.map_map, Function.comp_def, specDV, specDeposit]

/-- **Nothing is aggregated without verification (deposit data).** If `aggDepositData` returns at
all — for ANY map of partial signatures, honest or not — then every partial of every validator in
the map verified under the public share of the share index it claims, over the signing root of that
validator's own message. Contrapositive: one partial that does not (wrong signer, wrong validator,
wrong message or amount, index of another node) makes the call fail. -/
theorem deposit_aggregation_only_of_verified_partials (C : Crypto PK SK Sig M)
    (data : List (PK × List (ParSig Sig))) (shares : List (Share PK SK)) (msgs : List (PK × DepositMsg PK))
    (r : List (DepositData PK Sig)) (h : aggDepositData C data shares msgs = .ok r) :
    ∀ e ∈ data, ∃ msg, get? msgs e.1 = some msg ∧
      ∀ s ∈ e.2, ∃ ps pub, get? (pubkeyToPubShares shares) e.1 = some ps ∧ get? ps s.shareIdx = some pub ∧
        C.verify pub (C.depositRoot msg) s.sig = true :=
  aggDepositData_ok C data shares msgs r h

/-- **Nothing is aggregated without verification (lock hash).** -/
theorem lock_aggregation_only_of_verified_partials (C : Crypto PK SK Sig M)
    (data : List (PK × List (ParSig Sig))) (shares : List (PK × Share PK SK)) (hash : M) (out : Sig × List PK)
    (h : aggLockHashSig C data shares hash = .ok out) :
    ∀ e ∈ data, ∀ s ∈ e.2, ∃ sh pub, get? shares e.1 = some sh ∧ get? sh.pubShares s.shareIdx = some pub ∧
      C.verify pub hash s.sig = true :=
  aggLockHashSig_ok C data shares hash out h

end Generic

section Exchanger
variable {PK Sig P : Type} [DecidableEq PK] [DecidableEq Sig] [DecidableEq P]

/-- **A partial filed under a share index that is not the sender's is refused** (`verifyPeerShareIdx`):
if any entry of a received set claims a share index other than the one assigned to the authenticated
sender (or the sender is no peer of the ceremony, or the index is 0), the whole message is refused
and the exchanger's state is unchanged — in every state, for every sigType. -/
theorem exchange_rejects_foreign_share_index (n : Nat) (peerMap : List (P × Nat)) (st : ExState PK Sig)
    (sender : P) (tau : Nat) (set : List (PK × ParSig Sig)) (e : PK × ParSig Sig) (he : e ∈ set)
    (hforeign : get? peerMap sender ≠ some e.2.shareIdx ∨ e.2.shareIdx = 0) :
    recv n peerMap st sender tau set = (st, false) :=
  recv_refuses_foreign_index n peerMap st sender tau set e he hforeign

/-- **What an exchange returns was sent by the holders of the share indices.** After ANY sequence of
own exchanges and deliveries — any senders, any contents, any order, duplicates, conflicting
re-sends — every partial signature in the map that `exchange` returns for a sigType was either put
there by the node's own exchange of that sigType or arrived in an accepted message of that sigType
from the peer whose assigned share index it is filed under. -/
theorem exchange_entries_from_index_holder (n : Nat) (peerMap : List (P × Nat)) (evs : List (Ev P PK Sig))
    (tau expected : Nat) (data : List (PK × List (ParSig Sig)))
    (hq : query (exRun n peerMap evs) tau expected = some data) :
    ∀ pk sigs, (pk, sigs) ∈ data → ∀ p ∈ sigs, Justified peerMap evs tau pk p := by
  have hinv := exRun_justified (PK := PK) (Sig := Sig) n peerMap evs
  unfold query at hq
  cases hg : get? (exRun n peerMap evs).store tau with
  | none =>
    simp only [hg, Option.getD_none] at hq
    split at hq
    · cases hq; intro _ _ h; cases h
    · cases hq
  | some m =>
    simp only [hg, Option.getD_some] at hq
    split at hq
    · have hm : m = data := Option.some.inj hq
      subst hm
      exact hinv.2 tau m (mem_of_get? _ _ _ hg)
    · cases hq

/-- **Among honest nodes an exchange returns an honest exchange.** Node and peers file, for this
sigType, only their genuine partial signatures (validator `v`'s message `rootOf v` signed with the
share `sec i v` of the share index `i` it is filed under) — everything else (other sigTypes, order,
duplicates, early or refused deliveries) is arbitrary. Then whatever `exchange` returns for the
`vals.length` validators satisfies `HonestExchange`, the hypothesis of the theorems on the lock. -/
theorem exchange_result_is_honest {SK M V : Type} (C : Crypto PK SK Sig M) (n : Nat) (hn : 1 ≤ n)
    (peerMap : List (P × Nat)) (evs : List (Ev P PK Sig)) (tau : Nat) (vals : List V) (gpk : V → PK)
    (hinj : Function.Injective gpk) (sec : Nat → V → SK) (rootOf : V → M)
    (hgen : ∀ pk p, Justified peerMap evs tau pk p →
      ∃ v ∈ vals, pk = gpk v ∧ p.shareIdx ∈ List.range' 1 n ∧ p.sig = C.sign (sec p.shareIdx v) (rootOf v))
    (data : List (PK × List (ParSig Sig)))
    (hq : query (exRun n peerMap evs) tau vals.length = some data) :
    HonestExchange C n vals gpk sec rootOf data :=
  query_honest n hn peerMap evs tau vals gpk hinj (fun i v => C.sign (sec i v) (rootOf v)) hgen data hq

/-- **The lock of an honest ceremony, end to end within the model.** Node `j` runs the glue on its
output of the key generation; what it feeds into the aggregations is what ITS exchanger returned
(`query` on the state after any event sequence, per amount and for the registrations) in a ceremony
where node and peers file only genuine partials under their own share index. Then the validators of
its lock are `vals.map specDV` — the same list for every node, with the public shares in share-index
order, one group-signed deposit per configured amount and the group-signed registration. -/
theorem lock_of_honest_ceremony {SK M V : Type} (C : Crypto PK SK Sig M) (n : Nat) (hn : 1 ≤ n) (vals : List V)
    (hvals : vals.Nodup) (gpk : V → PK) (hinj : Function.Injective gpk)
    (sec : Nat → V → SK) (psh : Nat → V → PK) (gsig : V → M → Sig) (laws : Laws C n gpk sec psh gsig)
    (wdOf feeOf : V → Nat) (gas : Nat) (amounts : List Nat) (hne : amounts ≠ []) (pregen : Bool)
    (j : Nat) (shares : List (Share PK SK)) (hout : NodeOutput n vals gpk sec psh j shares)
    (peerMap : List (P × Nat))
    (exchDep : List (List (PK × List (ParSig Sig)))) (exchReg : List (PK × List (ParSig Sig)))
    (hdep : List.Forall₂ (fun data a => ∃ (evs : List (Ev P PK Sig)) (tau : Nat),
        (∀ pk p, Justified peerMap evs tau pk p → ∃ v ∈ vals, pk = gpk v ∧ p.shareIdx ∈ List.range' 1 n ∧
          p.sig = C.sign (sec p.shareIdx v) (C.depositRoot ⟨gpk v, wdOf v, a⟩)) ∧
        query (exRun n peerMap evs) tau vals.length = some data) exchDep amounts)
    (hreg : ∃ (evs : List (Ev P PK Sig)) (tau : Nat),
        (∀ pk p, Justified peerMap evs tau pk p → ∃ v ∈ vals, pk = gpk v ∧ p.shareIdx ∈ List.range' 1 n ∧
          p.sig = C.sign (sec p.shareIdx v) (C.regRoot ⟨gpk v, feeOf v, gas⟩)) ∧
        query (exRun n peerMap evs) tau vals.length = some exchReg) :
    lockValidators C shares j (vals.map wdOf) (vals.map feeOf) gas amounts pregen exchDep exchReg =
      .ok (clearRegs pregen (vals.map (specDV n gpk psh (amounts.map fun a => specDeposit C gpk gsig wdOf a)
        (specReg C gpk gsig feeOf gas)))) := by
  apply lockValidators_spec C n vals gpk sec psh gsig laws j shares hout (hvals.map hinj) wdOf feeOf gas amounts hne pregen
  · exact List.Forall₂.imp (fun data a h => by
      obtain ⟨evs, tau, hgen, hq⟩ := h
      exact exchange_result_is_honest C n hn peerMap evs tau vals gpk hinj sec _ hgen data hq) hdep
  · obtain ⟨evs, tau, hgen, hq⟩ := hreg
    exact exchange_result_is_honest C n hn peerMap evs tau vals gpk hinj sec _ hgen exchReg hq

end Exchanger

section Algebra
variable {F : Type} [Field F] {G1 G2 : Type} [AddCommGroup G1] [Module F G1] [AddCommGroup G2] [Module F G2]
variable {M : Type}

/-- **The aggregate of the exchanged partials is the group key's signature.** Threshold BLS over any
scalar field `F` and modules `G1`, `G2`: the sharing polynomial `p` of a validator has degree
`< t ≤ n`; the map `l` handed to `ThresholdAggregate` holds, in any order, under every share index
`1..n` that share's partial signature over `m`. Then the aggregate is the signature of the group
secret `p(0)` over `m` and satisfies the verification equation under the group key `p(0) • g1`
(from C08 `recover_secret` in the exponent). -/
theorem aggregate_is_group_signature (g1 : G1) (Hm : M → G2) (droot : DepositMsg G1 → M) (rroot : RegMsg G1 → M)
    (t n : ℕ) (htn : t ≤ n) (p : F[X]) (hp : p.degree < t)
    (hinj : IdsDistinct F (List.range' 1 n).toFinset) (m : M)
    (l : List (ℕ × G2)) (hkeys : (l.map Prod.fst).Perm (List.range' 1 n))
    (hvals : ∀ e ∈ l, e.2 = sign Hm (share p e.1) m) :
    (algCrypto (F := F) g1 Hm droot rroot).thresholdAgg l = sign Hm (p.eval 0) m ∧
    Verifies F g1 Hm (pk g1 (p.eval 0)) m ((algCrypto (F := F) g1 Hm droot rroot).thresholdAgg l) := by
  have h := alg_threshold_agg (F := F) g1 Hm droot rroot t n htn p hp hinj m l hkeys hvals
  exact ⟨h, p.eval 0, rfl, h⟩

/-- **The hypotheses on the cryptography hold for threshold BLS.** For every family of sharing
polynomials of degree `< t ≤ n` (one per validator — what `Props/C11.lean` proves the key generation
produces) the record `algCrypto` satisfies `Laws` with `sec i v = p_v(i)`, `psh i v = p_v(i) • g1`,
`gpk v = p_v(0) • g1`, `gsig v m = p_v(0) • Hm m`; so every theorem above holds for it. -/
theorem threshold_bls_satisfies_laws {V : Type} (g1 : G1) (Hm : M → G2) (droot : DepositMsg G1 → M)
    (rroot : RegMsg G1 → M) (t n : ℕ) (htn : t ≤ n) (p : V → F[X]) (hp : ∀ v, (p v).degree < t)
    (hinj : IdsDistinct F (List.range' 1 n).toFinset) :
    Laws (algCrypto (F := F) g1 Hm droot rroot) n (fun v => pk g1 ((p v).eval 0)) (fun i v => share (p v) i)
      (fun i v => pk g1 (share (p v) i)) (fun v m => sign Hm ((p v).eval 0) m) :=
  alg_laws g1 Hm droot rroot t n htn p hp hinj

end Algebra

section Protocols
variable {PK SK Sig V : Type}

/-- **A cluster-changing protocol keeps every validator's group key.** The new lock that
`updateLockProtocolStep` assembles (reshare, add / remove / replace operators) has, validator by
validator and in the same order, the group public key, the deposit data and the builder
registration of the OLD lock — whatever new shares the reshare produced; only the public shares are
replaced. (That the new shares are shares of the same secret is `Props/C11.lean`
`reshare_keeps_key`.) -/
theorem protocol_lock_keeps_group_keys (oldVals : List (DistValidator PK Sig)) (shares : List (Share PK SK))
    (new : List (DistValidator PK Sig)) (h : updateLockValidators oldVals shares = some new) :
    new.map (·.pubKey) = oldVals.map (·.pubKey) ∧ new.map (·.deposits) = oldVals.map (·.deposits) ∧
    new.map (·.reg) = oldVals.map (·.reg) ∧ new.length = oldVals.length :=
  updateLockValidators_keeps oldVals shares new h

/-- **The new lock lists the new public shares in the NEW share-index order.** The reshare files the
new public share of the `r`-th operator of the new cluster under `key r` in `Share.PublicShares` —
`processKey` uses the operator's ORIGINAL share index, so after a removal the keys are a strictly
increasing sequence with gaps (`remainingShareIdx`), while the new polynomial is evaluated at the
compact point `r+1`. For every strictly increasing `key` and every iteration order of the maps, the
new lock's `PubShares[r]` of validator `v` is the public share `psh r v` of the new cluster's `r`-th
operator — the index `charon run` uses it under. -/
theorem protocol_lock_pubshares_in_new_share_order (n' : Nat) (key : Nat → Nat)
    (hmono : ∀ a b, a < b → b < n' → key a < key b) (vals : List V) (psh : Nat → V → PK)
    (shares : List (Share PK SK))
    (hsh : List.Forall₂ (fun s v => (s.pubShares.map Prod.fst).Perm ((List.range n').map key) ∧
      ∀ r < n', get? s.pubShares (key r) = some (psh r v)) shares vals)
    (oldVals : List (DistValidator PK Sig)) (hlen : oldVals.length = vals.length) :
    ∃ new, updateLockValidators oldVals shares = some new ∧
      new.map (·.pubShares) = vals.map fun v => (List.range n').map fun r => psh r v :=
  updateLockValidators_pubShares n' key hmono vals psh shares hsh oldVals hlen

/-- **Remove-operators bookkeeping.** The new operator list holds exactly the operators that are not
being removed, in lock order; their original share indices (keys of the new `PublicShares` maps, of
the exchanger's peer map, and the index each signs the new lock hash with) are strictly increasing,
so `protocol_lock_pubshares_in_new_share_order` applies; an accepted threshold is at least
`ceil(2n'/3)` and, when given explicitly, below the new node count. -/
theorem remove_operators_bookkeeping {O : Type} [DecidableEq O] (ops removing : List O) :
    (∀ o, o ∈ removeOperators ops removing ↔ o ∈ ops ∧ o ∉ removing) ∧
    (removeOperators ops removing).Sublist ops ∧
    (remainingShareIdx ops removing).Pairwise (· < ·) ∧
    (∀ n removed newT x, removeThreshold n removed newT = some x →
      clusterThreshold (n - removed) ≤ x ∧ (newT ≠ 0 → x = newT ∧ x < n - removed)) :=
  ⟨mem_removeOperators ops removing, removeOperators_sublist ops removing,
   remainingShareIdx_increasing ops removing, removeThreshold_spec⟩

/-- **Replace-operator keeps every other operator at its position**: the new list has the old
length and differs from the old one only at one position, which held the replaced operator. -/
theorem replace_operator_keeps_positions {O : Type} [DecidableEq O] (ops : List O) (old new : O) (l : List O)
    (h : replaceOperator ops old new = some l) :
    l.length = ops.length ∧ ∃ i, ops[i]? = some old ∧ l = ops.set i new :=
  replaceOperator_spec ops old new l h

end Protocols

section AppendAndKeymanager
variable {PK SK Sig M : Type}

/-- **After an append every keystore still matches its lock validator.** The add-validators ceremony
rebuilds the existing shares from the old lock and the node's old secrets (`getExistingShares`), writes
`existing ++ new` to disk and lists `old validators ++ new validators` in the lock. If the old
keystores matched the old lock (node with share index `j`: secret `i` has public key
`oldLock.Validators[i].PubShares[j-1]`) and the new shares match the new validators
(`keystores_match_lock` for the ceremony of the new validators), then for EVERY position `i` of the
new lock — old and new validators alike — keystore `i` holds the secret of
`lock.Validators[i].PubShares[j-1]`, the keystores are the old secrets followed by the new ones, and
the rebuilt shares carry the old validators' group keys in lock order. -/
theorem append_keystores_match_lock (C : Crypto PK SK Sig M) (j : Nat)
    (oldVals newVals : List (DistValidator PK Sig)) (oldSecrets : List SK)
    (existing newShares : List (Share PK SK))
    (hlen : oldSecrets.length = oldVals.length)
    (hex : existingShares oldVals oldSecrets = some existing)
    (hold : oldVals.map (fun dv => dv.pubShares[j - 1]?) = oldSecrets.map (fun sk => some (C.pub sk)))
    (hnew : newVals.map (fun dv => dv.pubShares[j - 1]?) = (keystore newShares).map (fun sk => some (C.pub sk))) :
    keystore (appendKeyShares existing newShares) = oldSecrets ++ keystore newShares ∧
    (appendLockValidators oldVals newVals).map (fun dv => dv.pubShares[j - 1]?) =
      (keystore (appendKeyShares existing newShares)).map (fun sk => some (C.pub sk)) ∧
    existing.map (·.pubKey) = oldVals.map (·.pubKey) := by
  obtain ⟨hsec, hkeys⟩ := existingShares_spec oldVals oldSecrets existing hlen hex
  have hks : keystore (appendKeyShares existing newShares) = oldSecrets ++ keystore newShares := by
    unfold keystore appendKeyShares
    rw [List.map_append]
    exact congrArg (· ++ _) hsec
  refine ⟨hks, ?_, hkeys⟩
  rw [hks]
  unfold appendLockValidators
  rw [List.map_append, List.map_append, hold, hnew]

/-- **A keymanager that refuses every import makes `Run` fail on that node** (keymanager mode never
writes keystores to disk, so a success would leave the node's key shares stored nowhere), and with it
the ceremony. -/
theorem keymanager_failure_fails_run (responses : List Bool) (hall : ∀ r ∈ responses, r = false) (diskOk : Bool)
    (before after : List Bool) :
    runWritesKeys true responses diskOk = false ∧
    ceremonyOk (before ++ runWritesKeys true responses diskOk :: after) = false := by
  have h : runWritesKeys true responses diskOk = false := by
    unfold runWritesKeys writeKeysToKeymanager
    cases responses with
    | nil => rfl
    | cons r rest => simpa using hall r List.mem_cons_self
  refine ⟨h, ?_⟩
  rw [h]
  unfold ceremonyOk
  simp

end AppendAndKeymanager

/-! ### Non-vacuity: the hypotheses are satisfiable and the model computes (`toyCrypto`) -/

section Examples

/-- node `j`'s output for 3 nodes and validators `[0, 1]`, public-share maps in a scrambled order. -/
def exShares (j : Nat) : List (Share (Nat × Nat) (Nat × Nat)) :=
  [⟨(0, 0), (j, 0), [(2, (2, 0)), (3, (3, 0)), (1, (1, 0))]⟩, ⟨(0, 1), (j, 1), [(3, (3, 1)), (1, (1, 1)), (2, (2, 1))]⟩]

def exPartials (v m : Nat) (order : List Nat) : List (ParSig ((Nat × Nat) × Nat)) :=
  order.map fun i => ⟨((i, v), m), i⟩

/-- deposit exchanges for amounts `[1, 32]` (withdrawal address of validator `v` is `7 + v`). -/
def exDep (o1 o2 : List Nat) : List (List ((Nat × Nat) × List (ParSig ((Nat × Nat) × Nat)))) :=
  [[((0, 1), exPartials 1 (1000000 + 8000 + 1) o1), ((0, 0), exPartials 0 (7000 + 1) o2)],
   [((0, 0), exPartials 0 (7000 + 32) o1), ((0, 1), exPartials 1 (1000000 + 8000 + 32) o2)]]

def exReg (o : List Nat) : List ((Nat × Nat) × List (ParSig ((Nat × Nat) × Nat))) :=
  [((0, 1), exPartials 1 (500000 + 1000000 + 4000 + 30) o), ((0, 0), exPartials 0 (500000 + 3000 + 30) o)]

example : NodeOutput 3 [0, 1] (fun v : Nat => (0, v)) (fun i v => (i, v)) (fun i v => (i, v)) 2 (exShares 2) := by
  refine List.Forall₂.cons ⟨rfl, rfl, ⟨by decide, by decide⟩⟩ (List.Forall₂.cons ⟨rfl, rfl, ⟨by decide, by decide⟩⟩ List.Forall₂.nil)

/-- nodes 2 and 3 (different arrival and map orders) compute the same lock; public shares in index order. -/
example :
    lockValidators toyCrypto (exShares 2) 2 [7, 8] [3, 4] 30 [1, 32] true (exDep [3, 1, 2] [2, 3, 1]) (exReg [1, 3, 2]) =
    lockValidators toyCrypto (exShares 3) 3 [7, 8] [3, 4] 30 [1, 32] true (exDep [1, 2, 3] [3, 2, 1]) (exReg [2, 1, 3]) := by
  decide

example :
    (lockValidators toyCrypto (exShares 2) 2 [7, 8] [3, 4] 30 [1, 32] true (exDep [3, 1, 2] [2, 3, 1]) (exReg [1, 3, 2])).toOption.map
      (fun l => l.map (·.pubShares)) = some [[(1, 0), (2, 0), (3, 0)], [(1, 1), (2, 1), (3, 1)]] := by
  decide

/-- a partial of share 1 filed under index 2 makes the aggregation fail. -/
example :
    aggDepositData toyCrypto [((0, 0), [⟨((1, 0), 7001), 2⟩, ⟨((3, 0), 7001), 3⟩])] (exShares 2)
      [((0, 0), ⟨(0, 0), 7, 1⟩)] = .error .badpartial := by
  decide

/-- a set from peer `5` (share index 2) claiming share index 3 is refused and changes nothing. -/
example : recv (PK := Nat) (Sig := Nat) 3 [(4, 1), (5, 2), (6, 3)] {} 5 sigLock [(0, ⟨77, 3⟩)] = ({}, false) :=
  exchange_rejects_foreign_share_index 3 _ _ 5 sigLock _ (0, ⟨77, 3⟩) (by simp) (Or.inl (by decide))

/-- … while its own index is accepted and stored. -/
example : (recv (PK := Nat) (Sig := Nat) 3 [(4, 1), (5, 2), (6, 3)] {} 5 sigLock [(0, ⟨77, 2⟩)]).2 = true := by
  decide

/-- the `Laws` are satisfiable. -/
example : Laws toyCrypto 3 (fun v : Nat => (0, v)) (fun i v => (i, v)) (fun i v => (i, v)) (fun v m => ((0, v), m)) :=
  toy_laws 3 (by decide)

/-- remove operator `b` of `[a, b, c, d]`: operators `[a, c, d]`, original share indices `[1, 3, 4]`;
a share whose `PublicShares` map is keyed `{4, 1, 3}` gives the lock's public shares in the new order. -/
example : removeOperators ["a", "b", "c", "d"] ["b"] = ["a", "c", "d"] ∧
    remainingShareIdx ["a", "b", "c", "d"] ["b"] = [1, 3, 4] := by decide

example : (updateLockValidators (SK := Nat) [(⟨(0, 0), [(1, 0), (2, 0), (3, 0), (4, 0)], [], none⟩ : DistValidator (Nat × Nat) Nat)]
    [⟨(0, 0), 7, [(4, (103, 0)), (1, (101, 0)), (3, (102, 0))]⟩]).map (fun l => l.map (·.pubShares)) =
    some [[(101, 0), (102, 0), (103, 0)]] := by decide

example : removeThreshold 7 2 0 = some 4 ∧ removeThreshold 7 2 5 = none ∧ removeThreshold 7 2 4 = some 4 ∧
    removeThreshold 7 2 3 = none := by decide

example : replaceOperator ["a", "b", "c"] "b" "x" = some ["a", "x", "c"] ∧ replaceOperator ["a", "b"] "z" "x" = none := by
  decide

/-- append: old lock validator 0 with node 2's old secret, one new validator; keystores = old ++ new. -/
example : (existingShares [(⟨(0, 0), [(1, 0), (2, 0), (3, 0)], [], none⟩ : DistValidator (Nat × Nat) Nat)] [(2, 0)]).map
    (fun ex => keystore (appendKeyShares ex [⟨(0, 1), (2, 1), []⟩])) = some [(2, 0), (2, 1)] := by decide

example : runWritesKeys true [false, false, false] true = false ∧ runWritesKeys true [true] false = true ∧
    ceremonyOk [true, runWritesKeys true [false] true, true] = false := by decide

end Examples

end CharonV.DkgGlue
