/-
C05 — Consensus acts only on authentic, well-formed peer messages.

Property theorems only (helper lemmas: `CharonV.Proofs.QbftWire`; model: `CharonV.Model.QbftWire`,
a mirror of `(*Consensus).handle` / `verifyMsg` / `verifyMsgLimits` / `valuesByHash` / `newMsg`).
All theorems hold for every symbolic crypto `C`, every key list, buffer size, environment (gater,
deadliner answer, context), state and request; cryptographic facts (unforgeability, injectivity
of the signed digest, collision resistance of the value hash) appear only as hypotheses.
The limits, `RecvBufferSize` and the type bounds are the constants extracted from the Go source
(`CharonV.Generated.QbftConst`, regenerated on every check run).
-/
import CharonV.Proofs.QbftWire

namespace CharonV.QbftWire

open CharonV.Generated

/-- **accept_sound.** If `handle` accepts a request then it is a `QBFTConsensusMsg` whose main
message and every justification (`CoreOk`) have a valid message type, a valid duty type, round > 0,
prepared round ≥ 0, a known peer index, and a signature that recovers — over the digest of exactly
their own fields — to the key of the member named as their source; all of them share one duty `d`,
which the gater allows and the deadliner has not expired (nor exempted); the justification and value
counts are within `2·nodes` and `2·(justifications+1)`; every non-zero hash referenced by any of the
messages has a value on the wire whose recomputed hash equals it, and that is the value the enqueued
message maps the hash to; the enqueued message shows exactly the wire fields; and it is appended to
the receive buffer of `d` and of no other duty. -/
theorem accept_sound (C : Crypto) (keys : List Key) (cap : Nat) (env : Env) (s s' : State)
    (req : Option Wire) (m : MsgView)
    (h : handle C keys cap env s req = (s', .accept m)) :
    ∃ w c d, req = some w ∧ w.main = some c ∧
      (∀ x ∈ c :: w.just, CoreOk C keys x ∧ (coreView x).duty = d) ∧
      env.gater d = true ∧ env.dl d = .scheduled ∧ env.ctxDone = false ∧
      w.just.length ≤ 2 * keys.length ∧ w.values.length ≤ 2 * (w.just.length + 1) ∧
      (∀ x ∈ c :: w.just, ∀ hh,
        (toHash32 x.fields.valueHash = some hh ∨ toHash32 x.fields.preparedValueHash = some hh) →
          ∃ v ∈ w.values, valHash C v = some hh ∧ m.values.get hh = some v) ∧
      m.core = coreView c ∧ m.just = w.just.map coreView ∧
      (s.getOrNew d).buf.length < cap ∧
      s'.find d = some { s.getOrNew d with buf := (s.getOrNew d).buf ++ [m] } ∧
      (∀ d', d' ≠ d → s'.find d' = s.find d') := by
  rcases handle_cases C keys cap env s req with ⟨r, _, h'⟩ | ⟨duty, m', hv, hlen, h'⟩ | ⟨duty, m', _, _, h'⟩
  · rw [h'] at h; cases h
  · rw [h'] at h
    cases h
    obtain ⟨w, c, vals, hreq, V⟩ := validate_ok hv
    obtain ⟨hm, hrefs⟩ := newMsg_ok V.msg
    obtain ⟨c', hc', hcok⟩ := verifyMsg_none V.mainOk
    cases hc'
    obtain ⟨hl1, hl2⟩ := verifyMsgLimits_none.mp V.limits
    have hvok := valuesByHash_ok V.values (valuesOk_nil C)
    refine ⟨w, c, duty, hreq, V.main, ?_, V.gater, V.dl, V.ctx, hl1, hl2, ?_, ?_, ?_, hlen, ?_, ?_⟩
    · intro x hx
      cases hx with
      | head => exact ⟨hcok, V.dutyEq.symm⟩
      | tail _ hx' => exact ⟨(checkJust_none V.just x hx').1, (checkJust_none V.just x hx').2.1⟩
    · intro x hx hh hor
      have hsome : (vals.get hh).isSome := by
        rcases hor with h1 | h1
        · exact (hrefs x hx).1 hh h1
        · exact (hrefs x hx).2 hh h1
      obtain ⟨v, hv'⟩ := Option.isSome_iff_exists.mp hsome
      have hmem : v ∈ w.values := by
        rcases valuesByHash_mem V.values hh v hv' with hm' | hm'
        · exact hm'
        · simp [VMap.get] at hm'
      exact ⟨v, hmem, hvok hh v hv', by rw [hm]; exact hv'⟩
    · rw [hm]
    · rw [hm]
    · exact find_setInst_eq s.insts _ duty (getOrNew_duty s duty)
    · intro d' hd'
      exact find_setInst_other s.insts _ d' (by simp only [getOrNew_duty]; exact hd')
  · rw [h'] at h; cases h

/-- **accept_authentic** (what `core/qbft` may assume about its inputs, C02–C04): with
`Signed k f` = "the holder of member key `k` signed a message with fields `f`", existential
unforgeability of the signature scheme on digests (`hUF`) and injectivity of the digest (`hinj`:
deterministic marshalling + collision-resistant ssz root), every message `handle` delivers — the
main message and each attached justification separately — has a valid type, round > 0, a known
source index, and was signed, with exactly these fields, by the member it names as source.
Nothing relates the justifications to the main message's signature: attachments may be recombined. -/
theorem accept_authentic (C : Crypto) (keys : List Key) (cap : Nat) (env : Env) (s s' : State)
    (req : Option Wire) (m : MsgView) (Signed : Key → Fields → Prop)
    (hUF : ∀ k ∈ keys, ∀ d sg, C.recover d sg = some k → ∃ f, Signed k f ∧ C.digest f = d)
    (hinj : ∀ f f', C.digest f = C.digest f' → f = f')
    (h : handle C keys cap env s req = (s', .accept m)) :
    ∃ w c, req = some w ∧ w.main = some c ∧ m.core = coreView c ∧ m.just = w.just.map coreView ∧
      ∀ x ∈ c :: w.just,
        msgTypeValid x.fields.type = true ∧ 0 < x.fields.round ∧ 0 ≤ x.fields.preparedRound ∧
        (0 ≤ x.fields.peerIdx ∧ x.fields.peerIdx < keys.length) ∧
        (coreView x).duty = (coreView c).duty ∧
        ∃ k, lookupKey keys x.fields.peerIdx = some k ∧ Signed k x.fields := by
  obtain ⟨w, c, d, hreq, hmain, hcores, _, _, _, _, _, _, hmc, hmj, _⟩ :=
    accept_sound C keys cap env s s' req m h
  refine ⟨w, c, hreq, hmain, hmc, hmj, ?_⟩
  intro x hx
  obtain ⟨hok, hd⟩ := hcores x hx
  obtain ⟨k, sg, hk, _, hrec⟩ := hok.signed
  obtain ⟨f, hsf, hdf⟩ := hUF k (lookupKey_mem hk) _ sg hrec
  have hff : f = x.fields := hinj _ _ hdf
  refine ⟨hok.type, hok.round, hok.pround, lookupKey_range hk, ?_, k, hk, by rw [← hff]; exact hsf⟩
  rw [hd, (hcores c (List.mem_cons_self ..)).2]

/-- **tamper_rejected.** A request that contains — as its main message or as any justification —
a message whose fields the member named as its source never signed is rejected, whatever signature
bytes it carries, and the state is unchanged. (Hypotheses, not axioms: unforgeability on digests and
injectivity of the digest.) -/
theorem tamper_rejected (C : Crypto) (keys : List Key) (cap : Nat) (env : Env) (s : State)
    (w : Wire) (x : Core) (Signed : Key → Fields → Prop)
    (hUF : ∀ k ∈ keys, ∀ d sg, C.recover d sg = some k → ∃ f, Signed k f ∧ C.digest f = d)
    (hinj : ∀ f f', C.digest f = C.digest f' → f = f')
    (hx : w.main = some x ∨ x ∈ w.just)
    (hns : ∀ k, lookupKey keys x.fields.peerIdx = some k → ¬ Signed k x.fields) :
    ∃ r, handle C keys cap env s (some w) = (s, .reject r) := by
  have hbad : ∃ e, verifyMsg C keys (some x) = some e := by
    apply verifyMsg_some_of_not_signed
    intro k sg hk _ hrec
    obtain ⟨f, hsf, hdf⟩ := hUF k (lookupKey_mem hk) _ sg hrec
    have : f = x.fields := hinj _ _ hdf
    exact hns k hk (by rw [← this]; exact hsf)
  obtain ⟨r, hr⟩ := validate_error_of_bad_core (env := env) hx hbad
  exact ⟨r, by unfold handle; rw [hr]⟩

/-- A single-field alteration of a `QBFTMsg`: one constructor per field the signature covers
(every proto field except `signature`, at both levels — `duty` is a nested message — plus unknown
fields, which deterministic marshalling keeps). -/
inductive FieldAlt where
  | type (v : Int)
  | dutyNil
  | dutySlot (v : Nat)
  | dutyType (v : Int)
  | dutyUnknown (v : Nat)
  | peerIdx (v : Int)
  | round (v : Int)
  | preparedRound (v : Int)
  | valueHash (v : HBytes)
  | preparedValueHash (v : HBytes)
  | unknown (v : Nat)

def FieldAlt.apply : FieldAlt → Fields → Fields
  | .type v, f => { f with type := v }
  | .dutyNil, f => { f with duty := none }
  | .dutySlot v, f => { f with duty := f.duty.map (fun d => { d with slot := v }) }
  | .dutyType v, f => { f with duty := f.duty.map (fun d => { d with type := v }) }
  | .dutyUnknown v, f => { f with duty := f.duty.map (fun d => { d with unknown := v }) }
  | .peerIdx v, f => { f with peerIdx := v }
  | .round v, f => { f with round := v }
  | .preparedRound v, f => { f with preparedRound := v }
  | .valueHash v, f => { f with valueHash := v }
  | .preparedValueHash v, f => { f with preparedValueHash := v }
  | .unknown v, f => { f with unknown := v }

/-- the alteration really changes the field's value. -/
def FieldAlt.changes : FieldAlt → Fields → Prop
  | .type v, f => v ≠ f.type
  | .dutyNil, f => f.duty ≠ none
  | .dutySlot v, f => ∃ d, f.duty = some d ∧ v ≠ d.slot
  | .dutyType v, f => ∃ d, f.duty = some d ∧ v ≠ d.type
  | .dutyUnknown v, f => ∃ d, f.duty = some d ∧ v ≠ d.unknown
  | .peerIdx v, f => v ≠ f.peerIdx
  | .round v, f => v ≠ f.round
  | .preparedRound v, f => v ≠ f.preparedRound
  | .valueHash v, f => v ≠ f.valueHash
  | .preparedValueHash v, f => v ≠ f.preparedValueHash
  | .unknown v, f => v ≠ f.unknown

/-- **tamper_field_rejected.** Let the members have signed only messages in a set `H` (`hH`), let
`orig ∈ H` be one of them, alter *any one* signed field of it to a different value such that the
result is not itself in `H` (for instance `H = {orig}`: the adversary has seen one honest message
and holds no member key). Then every request carrying the altered message — as main message or
as a justification, with any signature bytes, next to anything else — is rejected and the state is
unchanged. In particular the altered fields differ from the original ones for every constructor of
`FieldAlt` (first conjunct): each of these fields is bound by the signature. -/
theorem tamper_field_rejected (C : Crypto) (keys : List Key) (cap : Nat) (env : Env) (s : State)
    (Signed : Key → Fields → Prop) (H : Fields → Prop)
    (hUF : ∀ k ∈ keys, ∀ d sg, C.recover d sg = some k → ∃ f, Signed k f ∧ C.digest f = d)
    (hinj : ∀ f f', C.digest f = C.digest f' → f = f')
    (hH : ∀ k ∈ keys, ∀ f, Signed k f → H f)
    (orig : Fields) (a : FieldAlt) (hch : a.changes orig) (hnew : ¬ H (a.apply orig))
    (sg : Option SigB) (w : Wire)
    (hx : w.main = some ⟨a.apply orig, sg⟩ ∨ ⟨a.apply orig, sg⟩ ∈ w.just) :
    a.apply orig ≠ orig ∧ ∃ r, handle C keys cap env s (some w) = (s, .reject r) := by
  constructor
  · intro heq
    cases a with
    | type v => exact hch (by simpa [FieldAlt.apply] using congrArg Fields.type heq)
    | dutyNil => exact hch (by simpa [FieldAlt.apply] using (congrArg Fields.duty heq).symm)
    | dutySlot v =>
      obtain ⟨d, hd, hv⟩ := hch
      have := congrArg Fields.duty heq
      simp [FieldAlt.apply, hd] at this
      exact hv (by simpa using congrArg DutyPb.slot this)
    | dutyType v =>
      obtain ⟨d, hd, hv⟩ := hch
      have := congrArg Fields.duty heq
      simp [FieldAlt.apply, hd] at this
      exact hv (by simpa using congrArg DutyPb.type this)
    | dutyUnknown v =>
      obtain ⟨d, hd, hv⟩ := hch
      have := congrArg Fields.duty heq
      simp [FieldAlt.apply, hd] at this
      exact hv (by simpa using congrArg DutyPb.unknown this)
    | peerIdx v => exact hch (by simpa [FieldAlt.apply] using congrArg Fields.peerIdx heq)
    | round v => exact hch (by simpa [FieldAlt.apply] using congrArg Fields.round heq)
    | preparedRound v => exact hch (by simpa [FieldAlt.apply] using congrArg Fields.preparedRound heq)
    | valueHash v => exact hch (by simpa [FieldAlt.apply] using congrArg Fields.valueHash heq)
    | preparedValueHash v => exact hch (by simpa [FieldAlt.apply] using congrArg Fields.preparedValueHash heq)
    | unknown v => exact hch (by simpa [FieldAlt.apply] using congrArg Fields.unknown heq)
  · apply tamper_rejected C keys cap env s w ⟨a.apply orig, sg⟩ Signed hUF hinj hx
    intro k hk hs
    exact hnew (hH k (lookupKey_mem hk) _ hs)

/-- **value_binding.** In every state reachable from the empty component by any sequence of
`handle` calls, every message sitting in a receive buffer (this is what `core/qbft` — and through
`qcommit[0].Values()[hash]` the `Decide` callback — gets to see) maps a hash only to a value whose
unmarshalled inner message hashes to exactly that hash, and holds such a value for the non-zero
value hash of the message itself and of each of its justifications (so `Decide` finds it). -/
theorem value_binding (C : Crypto) (keys : List Key) (cap : Nat) (ops : List Op) :
    ∀ i ∈ (run C keys cap {} ops).insts, ∀ m ∈ i.buf,
      (∀ h v, decideValue m h = some v → ∃ x, C.unmarshalAny v = some x ∧ C.hashInner x = some h) ∧
      (∀ c ∈ m.core :: m.just, ∀ h, c.value = some h ∨ c.preparedValue = some h →
        ∃ v, decideValue m h = some v) := by
  intro i hi m hm
  obtain ⟨hvals, hrefs⟩ := inv_run ops (inv_init C) i hi m hm
  constructor
  · intro h v hd
    have := hvals h v hd
    unfold valHash at this
    cases hu : C.unmarshalAny v with
    | none => rw [hu] at this; cases this
    | some x => rw [hu] at this; exact ⟨x, rfl, this⟩
  · intro c hc h hor
    rcases hor with h1 | h1
    · exact Option.isSome_iff_exists.mp ((hrefs c hc).1 h h1)
    · exact Option.isSome_iff_exists.mp ((hrefs c hc).2 h h1)

/-- **value_binding_proposed.** If moreover the value hash is collision resistant (`hcr`, a
hypothesis) then the value delivered for an agreed hash `h` is exactly the proposed data `p` that
hashes to `h` (`propose` computes `h = hashProto(p)`). -/
theorem value_binding_proposed (C : Crypto) (keys : List Key) (cap : Nat) (ops : List Op)
    (hcr : ∀ a b h, C.hashInner a = some h → C.hashInner b = some h → a = b)
    (p : Inner) (h : Hash) (hp : C.hashInner p = some h) :
    ∀ i ∈ (run C keys cap {} ops).insts, ∀ m ∈ i.buf, ∀ v,
      decideValue m h = some v → C.unmarshalAny v = some p := by
  intro i hi m hm v hd
  obtain ⟨x, hx, hxh⟩ := (value_binding C keys cap ops i hi m hm).1 h v hd
  rw [hx, hcr x p h hxh hp]

/-- **reject_no_state_change.** A rejected request leaves the whole component state untouched;
the only exception is the receive-buffer-full timeout of an otherwise fully valid message, which
has made the deadliner schedule the (authenticated, allowed, unexpired) duty — the instances
and their buffers are unchanged in that case too (for any positive buffer size). -/
theorem reject_no_state_change (C : Crypto) (keys : List Key) (cap : Nat) (env : Env) (s s' : State)
    (req : Option Wire) (r : Reason)
    (h : handle C keys cap env s req = (s', .reject r)) :
    (r ≠ .timeout → s' = s) ∧ (0 < cap → s'.insts = s.insts) := by
  rcases handle_cases C keys cap env s req with ⟨r', _, h'⟩ | ⟨duty, m', _, _, h'⟩ | ⟨duty, m', _, hlen, h'⟩
  · rw [h'] at h; cases h
    exact ⟨fun _ => rfl, fun _ => rfl⟩
  · rw [h'] at h; cases h
  · rw [h'] at h; cases h
    refine ⟨fun hne => absurd rfl hne, ?_⟩
    intro hcap
    show setInst s.insts (s.getOrNew duty) = s.insts
    unfold State.getOrNew State.find at hlen ⊢
    cases hf : s.insts.find? (fun i => i.duty = duty) with
    | some i => simp only []; exact setInst_of_find hf
    | none => rw [hf] at hlen; simp at hlen; omega

/-- **limits_admit_honest.** With the factors extracted from `verifyMsgLimits`, a message with at
most `2·nodes` justifications and at most `2·(justifications+1)` values passes the limit check
(`honest_within_limits` of C04 shows honest messages are of this form) — and only such a message. -/
theorem limits_admit_honest (w : Wire) (nodes : Nat) :
    (w.just.length ≤ 2 * nodes ∧ w.values.length ≤ 2 * (w.just.length + 1)) ↔
      verifyMsgLimits w nodes = none :=
  verifyMsgLimits_none.symm

/-- **wellformed_accepted** (the checks reject nothing else): a request whose messages are all
well-formed and signed by their named sources, share an allowed unexpired duty, respect the
limits and come with a decodable value for every referenced hash is accepted while the duty's
buffer has room and the receive context is live. -/
theorem wellformed_accepted (C : Crypto) (keys : List Key) (cap : Nat) (env : Env) (s : State)
    (w : Wire) (c : Core) (d : Duty)
    (hmain : w.main = some c)
    (hcores : ∀ x ∈ c :: w.just, CoreOk C keys x ∧ (coreView x).duty = d)
    (hg : env.gater d = true) (hdl : env.dl d = .scheduled) (hctx : env.ctxDone = false)
    (hl : w.just.length ≤ 2 * keys.length ∧ w.values.length ≤ 2 * (w.just.length + 1))
    (hvals : ∀ v ∈ w.values, (valHash C v).isSome)
    (hrefs : ∀ x ∈ c :: w.just, ∀ hh,
      (toHash32 x.fields.valueHash = some hh ∨ toHash32 x.fields.preparedValueHash = some hh) →
        ∃ v ∈ w.values, valHash C v = some hh)
    (hbuf : s.bufLen d < cap) :
    ∃ s' m, handle C keys cap env s (some w) = (s', .accept m) := by
  obtain ⟨vals, hvm⟩ := valuesByHash_some_of_all (C := C) (vs := w.values) (acc := []) hvals
  have hrefsOk : ∀ x ∈ c :: w.just, RefsOk vals x := by
    intro x hx
    exact ⟨fun hh h1 => valuesByHash_complete hvm hh (Or.inl (hrefs x hx hh (Or.inl h1))),
           fun hh h1 => valuesByHash_complete hvm hh (Or.inl (hrefs x hx hh (Or.inr h1)))⟩
  have hnew : newMsg c w.just vals = .ok { core := coreView c, just := w.just.map coreView, values := vals } := by
    unfold newMsg
    rw [checkRefs_of_ok (hrefsOk c (List.mem_cons_self ..)),
      checkRefsList_of_ok (fun j hj => hrefsOk j (List.mem_cons_of_mem _ hj))]
  have hd : d = (coreView c).duty := ((hcores c (List.mem_cons_self ..)).2).symm
  have V : Validated C keys env w c d vals _ :=
    { main := hmain
      mainOk := verifyMsg_of_ok (hcores c (List.mem_cons_self ..)).1
      dutyEq := hd
      gater := hg
      limits := verifyMsgLimits_none.mpr hl
      just := by rw [hctx]; exact checkJust_of_ok (fun j hj => hcores j (List.mem_cons_of_mem _ hj))
      values := hvm
      msg := hnew
      ctx := hctx
      dl := hdl }
  have hv := validate_of V
  rw [bufLen_eq] at hbuf
  rcases handle_cases C keys cap env s (some w) with ⟨r, hr, _⟩ | ⟨duty, m', _, _, h'⟩ | ⟨duty, m', hv', hlen, _⟩
  · rw [hv] at hr; cases hr
  · exact ⟨_, _, h'⟩
  · rw [hv] at hv'; cases hv'
    exact absurd hbuf hlen

/-- **verifyMsg_source_shape** (translator obligation): the statements of the Go function `verifyMsg`,
printed from its AST on this check run, are exactly the ones `Model.verifyMsg` mirrors, in order.
The text is modulo α-renaming: T-const renames the parameters by position (`p0` = `msg`, `p1` =
`pubkeys`) and the locals in order of declaration (`v0`, `v1` = the two `typ`, `v2` = `msgPubkey`,
`v3` = `exists`, `v4` = `ok`, `v5` = `err`), so renaming a local in the Go source does not touch this
statement, while a removed, added, changed or reordered check does. -/
theorem verifyMsg_source_shape : QbftConst.verifyMsgShape = [
    "p0 == nil || p0.GetDuty() == nil",
    "v0 := qbft.MsgType(p0.GetType()); !v0.Valid()",
    "v1 := core.DutyType(p0.GetDuty().GetType()); !v1.Valid()",
    "p0.GetRound() <= 0",
    "p0.GetPreparedRound() < 0",
    "v2, v3 := p1[p0.GetPeerIdx()]",
    "!v3",
    "v4, v5 := verifyMsgSig(p0, v2); v5 != nil",
    "else !v4",
    "return nil"] := by
  decide

/-! ### Non-vacuity: a concrete crypto, concrete accepted and rejected requests -/

namespace Example

/-- toy scheme: a signature by key `k` over digest `d` is `1000*k + d`. -/
def C0 : Crypto :=
  { Digest := Nat
    digest := fun f => (f.round.toNat * 31 + f.peerIdx.toNat * 7 + f.type.toNat) % 1000
    recover := fun d s => if s % 1000 = d then some (s / 1000) else none
    unmarshalAny := fun v => if v = 0 then none else some v
    hashInner := fun x => some (x + 100) }

def keys0 : List Key := [10, 11, 12, 13]
def env0 : Env := { gater := fun d => d.slot ≤ 500, dl := fun d => if d.slot < 100 then .expired else .scheduled }
def duty0 : DutyPb := { slot := 200, type := 2 }

def sign (k : Key) (f : Fields) : Core :=
  { fields := f, sig := some (1000 * k + (f.round.toNat * 31 + f.peerIdx.toNat * 7 + f.type.toNat) % 1000) }

def prepare1 : Core :=
  sign 11 { type := 2, duty := some duty0, peerIdx := 1, round := 1, preparedRound := 0,
            valueHash := .ok 105, preparedValueHash := .other 0 }
def commit2 : Core :=
  sign 12 { type := 3, duty := some duty0, peerIdx := 2, round := 1, preparedRound := 0,
            valueHash := .ok 105, preparedValueHash := .other 0 }
def decided : Wire := { main := some prepare1, just := [commit2], values := [5] }

/-- accepted: `accept_sound`, `accept_authentic`, `wellformed_accepted` are not vacuous. -/
example : ∃ s' m, handle C0 keys0 100 env0 {} (some decided) = (s', .accept m) ∧
    decideValue m 105 = some 5 ∧ s'.bufLen (dutyFromProto duty0) = 1 := by
  refine ⟨_, _, rfl, ?_, ?_⟩ <;> decide

/-- rejected, state unchanged: round altered, signature kept (`tamper_rejected`, `reject_no_state_change`). -/
example : handle C0 keys0 100 env0 {}
    (some { decided with main := some { prepare1 with fields := { prepare1.fields with round := 2 } } })
      = ({}, .reject (.main .sigErr)) := by decide

/-- rejected: a justification naming member 3 as source but (validly) signed by member 2. -/
example : handle C0 keys0 100 env0 {}
    (some { decided with just := [sign 12 { commit2.fields with peerIdx := 3 }] })
      = ({}, .reject (.just .sigWrong)) := by decide

/-- rejected: another value under the agreed hash. -/
example : handle C0 keys0 100 env0 {} (some { decided with values := [6] }) = ({}, .reject .noValue) := by decide

/-- rejected: one justification more than `2·nodes`. -/
example : handle C0 keys0 100 env0 {} (some { decided with just := List.replicate 9 commit2 })
      = ({}, .reject .tooManyJust) := by decide

/-- rejected without touching the instances: buffer of size 0 is always full (`timeout`). -/
example : (handle C0 keys0 0 env0 {} (some decided)).2 = .reject .timeout := by decide

/-- `value_binding` is about non-empty buffers: one accepted request is in the buffer after `run`. -/
example : (run C0 keys0 100 {} [⟨env0, some decided⟩]).insts.map (fun i => i.buf.length) = [1] := by decide

/-- `limits_admit_honest` at the boundary for 4 nodes: 8 justifications with 18 values pass, a 19th
value does not. -/
example : verifyMsgLimits { decided with just := List.replicate 8 commit2, values := List.replicate 18 5 } 4 = none ∧
    verifyMsgLimits { decided with just := List.replicate 8 commit2, values := List.replicate 19 5 } 4
      = some .tooManyValues := by decide

/-- A scheme satisfying the cryptographic hypotheses: the digest is injective (it is the field
tuple itself) and exactly two signatures exist in the world, so it is unforgeable w.r.t. `Signed1`. -/
def C1 : Crypto :=
  { Digest := Fields
    digest := fun f => f
    recover := fun f sg =>
      if f = prepare1.fields ∧ sg = 1 then some 11
      else if f = commit2.fields ∧ sg = 2 then some 12 else none
    unmarshalAny := C0.unmarshalAny
    hashInner := C0.hashInner }

def Signed1 (k : Key) (f : Fields) : Prop :=
  (k = 11 ∧ f = prepare1.fields) ∨ (k = 12 ∧ f = commit2.fields)

def decided1 : Wire :=
  { main := some { prepare1 with sig := some 1 }, just := [{ commit2 with sig := some 2 }], values := [5] }

/-- under this scheme the honest request is accepted … -/
example : ∃ m, (handle C1 keys0 100 env0 {} (some decided1)).2 = .accept m ∧ m.just.length = 1 := by
  refine ⟨_, rfl, ?_⟩; decide

/-- … and `tamper_field_rejected` applies (its hypotheses are jointly satisfiable): the request with
the round of the main message altered is rejected whatever else it carries. -/
example : ∃ r, handle C1 keys0 100 env0 {}
    (some { decided1 with main := some ⟨(FieldAlt.round 2).apply prepare1.fields, some 1⟩ }) = ({}, .reject r) :=
  (tamper_field_rejected C1 keys0 100 env0 {} Signed1 (fun f => f = prepare1.fields ∨ f = commit2.fields)
    (by
      intro k _ d sg h
      unfold C1 at h
      simp only at h
      split at h
      · rename_i h1; cases h; exact ⟨prepare1.fields, Or.inl ⟨rfl, rfl⟩, h1.1.symm⟩
      · split at h
        · rename_i h2; cases h; exact ⟨commit2.fields, Or.inr ⟨rfl, rfl⟩, h2.1.symm⟩
        · cases h)
    (fun _ _ h => h)
    (by
      intro k _ f h
      rcases h with ⟨_, h⟩ | ⟨_, h⟩
      · exact Or.inl h
      · exact Or.inr h)
    prepare1.fields (.round 2) (by show (2 : Int) ≠ prepare1.fields.round; decide) (by decide)
    (some 1) _ (Or.inl rfl)).2

end Example

end CharonV.QbftWire
