/-
C01, last hop — `core/bcast/bcast.go` (`Broadcaster.Broadcast`).

"Across all nodes of a cluster, every fully signed duty object handed to the beacon node carries a
signature that verifies under that validator's group public key, and all such objects for the same
duty and validator have the same signing root."

The C01 / C09 theorems speak about what the aggregator hands to `Broadcast`. `Broadcast` is not a
pass-through function: it converts the set per duty type, picks the endpoint by the blinded flag,
and — for Electra attestations without a validator index — looks the index up by verifying the
aggregate signature against the public keys of the beacon node's attester duties. This file states
what `Broadcast` (model: `CharonV.Model.CoreBcast`) can and cannot do to the objects on their way
to the beacon node, for EVERY verify function, beacon-node behaviour, set, duty type and Go map
iteration order `ord`:

* (a) `submitted_passthrough`, `submitted_no_duplicates`: whatever is handed to the node has the
  content and the signature of an entry of the set, goes to the submit method of its type, and no
  entry is handed over twice or invented — so group validity and signing root (C01/C09) carry
  over unchanged;
* (b) `attestation_only_index_changes`, `recovered_index_is_the_signers`, `present_index_kept_partial`,
  `present_index_can_be_overwritten`: the validator index of an attestation is the only field that
  may differ, and only by the index of an offered duty under whose key the signature verifies;
* (c) `noop_duties_submit_nothing`, `rejected_duties_submit_nothing`;
* (d) `error_means_nothing_submitted`, `exit_submissions`, `exit_partial_submission_witness`: an
  error means no submit call was made, or it is the node's own answer to the one call; voluntary
  exits are the exception (one call per entry, the last answer decides);
* `success_submits_every_entry`, `prior_attestation_known_swallowed`.

Property theorems only (helper lemmas and the relations used in the statements: `Proofs/CoreBcast`).
-/
import CharonV.Proofs.CoreBcast

namespace CharonV.CoreBcast

open CharonV.Admit (SigType)

variable (verify : VerifyFn) (bn : BN) (ord : List (Validator × Obj) → List (Validator × Obj))

/-! ### (a) pass-through -/

/-- **Nothing is altered or invented, for every duty type.** The objects handed to the beacon node
by one `Broadcast` call — over all its submit calls, in order — have exactly the (content,
signature) identities of an initial segment of the set in iteration order (all of it or nothing
for the batch types; the exits before the first failing type assertion), and every single object
is handed to the submit method that belongs to the Go type (and blinded flag) of the entry it comes
from. -/
theorem submitted_passthrough (duty : Duty) (set : List (Validator × Obj)) :
    ((broadcast verify bn ord duty set).calls.flatMap (·.items)).map ikey <+:
      (objsOf ord set).map key ∧
    ∀ c ∈ (broadcast verify bn ord duty set).calls, ∀ it ∈ c.items,
      ∃ e ∈ ord set, e.2.cid = it.cid ∧ e.2.sig = it.sig ∧ endpointOf e.2 = some c.ep := by
  -- one batch call carrying `outs`, which agree with the set on content and signature
  have hbatch : ∀ (r : Result) (ep : Endpoint) (sr : SubRes) (sw : Bool) (outs : List Obj),
      r = submitBatch ep sr sw outs → outs.map key <+: (objsOf ord set).map key →
      (∀ b ∈ outs, ∃ a ∈ objsOf ord set, key b = key a ∧ endpointOf a = some ep) →
      (r.calls.flatMap (·.items)).map ikey <+: (objsOf ord set).map key ∧
      ∀ c ∈ r.calls, ∀ it ∈ c.items,
        ∃ e ∈ ord set, e.2.cid = it.cid ∧ e.2.sig = it.sig ∧ endpointOf e.2 = some c.ep := by
    intro r ep sr sw outs hr hk hm
    subst hr
    rw [submitBatch_calls]
    constructor
    · simp only [List.flatMap_cons, List.flatMap_nil, List.append_nil]
      rw [map_ikey_itemOf]
      exact hk
    · intro c hc it hit
      simp only [List.mem_singleton] at hc
      subst hc
      simp only [List.mem_map] at hit
      obtain ⟨b, hb, rfl⟩ := hit
      obtain ⟨a, ha, hkey, hep⟩ := hm b hb
      obtain ⟨e, he, rfl⟩ := mem_objsOf ha
      have h1 : b.cid = e.2.cid := congrArg Prod.fst hkey
      have h2 : b.sig = e.2.sig := congrArg Prod.snd hkey
      exact ⟨e, he, h1.symm, h2.symm, hep⟩
  have hnil : ∀ (r : Result), r.calls = [] →
      (r.calls.flatMap (·.items)).map ikey <+: (objsOf ord set).map key ∧
      ∀ c ∈ r.calls, ∀ it ∈ c.items,
        ∃ e ∈ ord set, e.2.cid = it.cid ∧ e.2.sig = it.sig ∧ endpointOf e.2 = some c.ep := by
    intro r hr
    rw [hr]
    exact ⟨List.nil_prefix, by intro c hc; cases hc⟩
  have hplain : ∀ (t : SigType) (bad : Err) (ep : Endpoint),
      (∀ o : Obj, o.ty = t → endpointOf o = some ep) →
      ((batch t bad ep bn (objsOf ord set)).calls.flatMap (·.items)).map ikey <+:
        (objsOf ord set).map key ∧
      ∀ c ∈ (batch t bad ep bn (objsOf ord set)).calls, ∀ it ∈ c.items,
        ∃ e ∈ ord set, e.2.cid = it.cid ∧ e.2.sig = it.sig ∧ endpointOf e.2 = some c.ep := by
    intro t bad ep hep
    rcases batch_spec t bad ep bn (objsOf ord set) with ⟨h, _⟩ | ⟨hall, h⟩
    · exact hnil _ (by rw [h]; rfl)
    · exact hbatch _ ep (bn.sub 0) false _ h (List.prefix_refl _)
        (fun b hb => ⟨b, hb, rfl, hep b (hall b hb)⟩)
  cases duty with
  | attester =>
    rw [broadcast_attester]
    rcases attester_spec verify bn (objsOf ord set) with ⟨h, _⟩ | ⟨outs, hty, hall, _, h⟩
    · exact hnil _ h
    · refine hbatch _ .attestations (bn.sub 0) true outs h ?_ ?_
      · rw [forall₂_map_eq (fun a b hab => idxOnly_key hab) hall]
        exact List.prefix_refl _
      · intro b hb
        obtain ⟨a, ha, hab⟩ := all₂_mem_right hall b hb
        exact ⟨a, ha, idxOnly_key hab, by simp [endpointOf, hty a ha]⟩
  | proposer =>
    rw [broadcast_proposer]
    rcases proposer_spec bn set.length (objsOf ord set) with ⟨h, _⟩ | ⟨_, o, rest, hobjs, hty, h⟩
    · exact hnil _ h
    · refine hbatch _ _ (bn.sub 0) false [o] h ?_ ?_
      · rw [hobjs]
        exact ⟨rest.map key, rfl⟩
      · intro b hb
        simp only [List.mem_singleton] at hb
        subst hb
        exact ⟨b, by rw [hobjs]; exact List.mem_cons_self, rfl, by simp [endpointOf, hty]⟩
  | exit =>
    rw [broadcast_exit]
    obtain ⟨h1, h2⟩ := exits_items bn.sub (objsOf ord set) 0 none
    constructor
    · rw [h1, map_ikey_itemOf]
      exact (List.takeWhile_prefix _).map key
    · intro c hc it hit
      have hin : it ∈ (exits bn.sub 0 none (objsOf ord set)).calls.flatMap (·.items) :=
        List.mem_flatMap.mpr ⟨c, hc, hit⟩
      rw [h1] at hin
      obtain ⟨o, ho, rfl⟩ := List.mem_map.mp hin
      obtain ⟨hmo, hpo⟩ := mem_takeWhile ho
      obtain ⟨e, he, rfl⟩ := mem_objsOf hmo
      have hty : e.2.ty = .exit := by simpa [isTy] using hpo
      exact ⟨e, he, rfl, rfl, by rw [h2 c hc]; simp [endpointOf, hty]⟩
  | aggregator =>
    rw [broadcast_aggregator]
    exact hplain .vAggProof .invalidAgg .aggregates (fun o h => by simp [endpointOf, h])
  | syncMessage =>
    rw [broadcast_syncMessage]
    exact hplain .syncMessage .invalidSyncMsg .syncMessages (fun o h => by simp [endpointOf, h])
  | syncContribution =>
    rw [broadcast_syncContribution]
    exact hplain .contribution .invalidContribution .contributions (fun o h => by simp [endpointOf, h])
  | unknown | signature | builderProposer | builderRegistration | randao | prepareAggregator
  | prepareSyncContribution | infoSync | other => exact hnil _ rfl

/-- **No entry is handed over twice; nothing is made up.** When the iteration order is an order of
the map (a permutation of its entries), the objects handed to the node, together with some
not-submitted rest, are exactly the entries of the set: each entry accounts for at most one
submitted object. -/
theorem submitted_no_duplicates (duty : Duty) (set : List (Validator × Obj))
    (hord : (ord set).Perm set) :
    ∃ rest, (((broadcast verify bn ord duty set).calls.flatMap (·.items)).map ikey ++ rest).Perm
      (set.map fun e => key e.2) := by
  obtain ⟨rest, hrest⟩ := (submitted_passthrough verify bn ord duty set).1
  refine ⟨rest, ?_⟩
  rw [hrest, objsOf, List.map_map]
  exact hord.map _

/-! ### (b) attestations: only the validator index may change -/

/-- **The validator index is the only thing `Broadcast` changes in an attestation.** The attester
branch makes at most one submit call; the submitted list is the set in iteration order where each
attestation is either untouched or has ONLY its validator index replaced (`{ a with valIdx := … }`)
— by the index of a duty that the beacon node offered for the epoch and slot of attestation 0 and
under whose public key the attestation's own aggregate signature verifies (`IdxOnly`). -/
theorem attestation_only_index_changes (set : List (Validator × Obj)) (c : Call)
    (hc : c ∈ (broadcast verify bn ord .attester set).calls) :
    (broadcast verify bn ord .attester set).calls = [c] ∧ c.ep = .attestations ∧
    ∃ outs, c.items = outs.map itemOf ∧
      All₂ (IdxOnly verify bn (objsOf ord set)) (objsOf ord set) outs := by
  rw [broadcast_attester] at hc ⊢
  rcases attester_spec verify bn (objsOf ord set) with ⟨h, _⟩ | ⟨outs, _, hall, _, h⟩
  · rw [h] at hc; cases hc
  · rw [h, submitBatch_calls] at hc ⊢
    simp only [List.mem_singleton] at hc
    subst hc
    exact ⟨rfl, rfl, outs, rfl, hall⟩

/-- **Under symbolic unforgeability a recovered index is the signer's own.** If the signature of
every entry verifies (for the domain of attestation 0's epoch) under no other key than the group
key `gk v` of the validator `v` it is filed under, and the beacon node's duties name validator
indices consistently with its registry (`idxOf`), then every submitted attestation is the entry
itself or the entry with the index of ITS OWN validator: an index is never taken from another
validator's duty. -/
theorem recovered_index_is_the_signers (gk : Validator → Key) (idxOf : Key → ValIdx)
    (set : List (Validator × Obj)) (c : Call)
    (hc : c ∈ (broadcast verify bn ord .attester set).calls)
    (hbn : ∀ ds, bn.duties = some ds → ∀ d ∈ ds, d.valIdx = idxOf d.key)
    (hunf : ∀ e ∈ ord set, ∀ k,
      verify k (epoch0 (objsOf ord set)) e.2.root e.2.sig = .ok → k = gk e.1) :
    ∃ outs, c.items = outs.map itemOf ∧
      All₂ (fun (e : Validator × Obj) a' =>
        a' = e.2 ∨ a' = { e.2 with valIdx := some (idxOf (gk e.1)) }) (ord set) outs := by
  obtain ⟨_, _, outs, hitems, hall⟩ := attestation_only_index_changes verify bn ord set c hc
  refine ⟨outs, hitems, all₂_imp_mem ?_ (forall₂_map_left hall)⟩
  intro e he b hb
  rcases hb with rfl | ⟨d, ⟨vals, ds, idxs, _, hds, _, _, hd, _⟩, rfl, hv⟩
  · exact Or.inl rfl
  · have hk : d.key = gk e.1 := hunf e he d.key hv
    have hdm : d ∈ ds := (List.mem_filter.mp hd).1
    have hi : d.valIdx = idxOf d.key := hbn ds hds d hdm
    right
    rw [hi, hk]

/- The property as one would like to state it — "an index that is already present is never
overwritten":

    ∀ e ∈ ord set, e.2.valIdx ≠ none → the submitted object for e is e.2 itself

does NOT hold for the code as it is: the recovery loop runs over ALL attestations of the set as
soon as ONE of them lacks an index, and `att.ValidatorIndex = &attDuty.ValidatorIndex` does not look
at what is there (`present_index_can_be_overwritten`). It holds when no attestation lacks an index,
and when the node's duties agree with the indices the entries carry (`present_index_kept_partial`). -/

/-- **An index that is present is kept — partial.** (1) If the first loop does not ask for the
check (every Electra-or-later attestation before the first pre-Electra one carries an index),
the set is submitted exactly as it came. (2) Under the hypotheses of
`recovered_index_is_the_signers`, if moreover every index carried by an entry is its own
validator's index in the node's registry, every entry that carries an index is submitted
unchanged. -/
theorem present_index_kept_partial (set : List (Validator × Obj)) (c : Call)
    (hc : c ∈ (broadcast verify bn ord .attester set).calls) :
    (checkNeeded (objsOf ord set) = false → c.items = (objsOf ord set).map itemOf) ∧
    (∀ (gk : Validator → Key) (idxOf : Key → ValIdx),
      (∀ ds, bn.duties = some ds → ∀ d ∈ ds, d.valIdx = idxOf d.key) →
      (∀ e ∈ ord set, ∀ k,
        verify k (epoch0 (objsOf ord set)) e.2.root e.2.sig = .ok → k = gk e.1) →
      (∀ e ∈ ord set, ∀ i, e.2.valIdx = some i → i = idxOf (gk e.1)) →
      ∃ outs, c.items = outs.map itemOf ∧
        All₂ (fun (e : Validator × Obj) a' => e.2.valIdx ≠ none → a' = e.2) (ord set) outs) := by
  constructor
  · intro hn
    rw [broadcast_attester] at hc
    rcases attester_spec verify bn (objsOf ord set) with ⟨h, _⟩ | ⟨outs, _, _, hsame, h⟩
    · rw [h] at hc; cases hc
    · rw [h, submitBatch_calls] at hc
      simp only [List.mem_singleton] at hc
      subst hc
      rw [hsame hn]
  · intro gk idxOf hbn hunf hown
    obtain ⟨outs, hitems, hall⟩ := recovered_index_is_the_signers verify bn ord gk idxOf set c hc hbn hunf
    refine ⟨outs, hitems, all₂_imp_mem ?_ hall⟩
    intro e he b hb hne
    rcases hb with rfl | rfl
    · rfl
    · cases hi : e.2.valIdx with
      | none => exact absurd hi hne
      | some i =>
        have hii := hown e he i hi
        subst hii
        rw [← hi]

/-- toy signatures for the witnesses: the validator with key `k` signs root `r` as `1000 * k + r`. -/
def wVerify : VerifyFn := fun k _ r s => if s = 1000 * k + r then .ok else .no

/-- an Electra attestation for slot 33 (target epoch 2) over root `r`, signed by key `k`. -/
def wAtt (cid k r : Nat) (idx : Option ValIdx) (version : Nat := 6) : Obj :=
  ⟨.attestation, cid, 1000 * k + r, version, false, idx, true, 33, 2, r⟩

def wBN (ds : List AttDuty) (sub : Nat → SubRes := fun _ => .ok) : BN :=
  ⟨some [⟨100, false, true, 0⟩, ⟨101, false, true, 0⟩, ⟨109, false, true, 0⟩, ⟨55, false, false, 9⟩],
   some ds, true, sub⟩

/-- **Negation witness: a present index IS overwritten.** Validator 2's attestation arrives with
index 107; validator 1's attestation arrives without one, which switches the recovery on for the
whole set; the node lists validator 2's key with index 109; `Broadcast` submits validator 2's
attestation with 109. (Replayed on the real code by the correspondence stream, scenario
`overwrite`.) -/
theorem present_index_can_be_overwritten :
    broadcast wVerify (wBN [⟨1, 33, 100⟩, ⟨2, 33, 109⟩]) id .attester
      [(1, wAtt 11 1 5 none), (2, wAtt 12 2 5 (some 107))] =
    ⟨none, [⟨.attestations, [⟨11, 1005, some 100⟩, ⟨12, 2005, some 109⟩], false⟩]⟩ := by
  decide

/-! ### (c) duty types that submit nothing -/

/-- **Internal duty types are no-ops**: builder registrations (submitted by the scheduler), randao,
beacon-committee and sync-committee selections return nil and make no submit call, whatever the set. -/
theorem noop_duties_submit_nothing (duty : Duty) (set : List (Validator × Obj))
    (h : duty = .builderRegistration ∨ duty = .randao ∨ duty = .prepareAggregator ∨
      duty = .prepareSyncContribution) :
    broadcast verify bn ord duty set = ⟨none, []⟩ := by
  rcases h with rfl | rfl | rfl | rfl <;> rfl

/-- the deprecated builder-proposer duty and every duty type outside the switch are refused without
a submit call. -/
theorem rejected_duties_submit_nothing (set : List (Validator × Obj)) :
    broadcast verify bn ord .builderProposer set = ⟨some .deprecated, []⟩ ∧
    ∀ duty, duty = .unknown ∨ duty = .signature ∨ duty = .infoSync ∨ duty = .other →
      broadcast verify bn ord duty set = ⟨some .unsupported, []⟩ := by
  refine ⟨rfl, ?_⟩
  intro duty h
  rcases h with rfl | rfl | rfl | rfl <;> rfl

/-! ### (d) errors -/

/-- **An error return means nothing was submitted — or it is the node's own refusal.** For every
duty type except voluntary exits: if `Broadcast` returns an error, either no submit call was made,
or exactly one was made, the beacon node answered it with an error, and that answer is what is
returned. In particular a failing type assertion and a failing index recovery (validators, duties,
domain, attestation data, a signature that cannot be parsed) happen before anything is handed over. -/
theorem error_means_nothing_submitted (duty : Duty) (hd : duty ≠ .exit)
    (set : List (Validator × Obj)) (e : Err)
    (he : (broadcast verify bn ord duty set).err = some e) :
    (broadcast verify bn ord duty set).calls = [] ∨
    (e = .bn ∧ ∃ c, (broadcast verify bn ord duty set).calls = [c] ∧ c.failed = true) := by
  have hsb : ∀ (r : Result) (ep : Endpoint) (sr : SubRes) (sw : Bool) (outs : List Obj),
      r = submitBatch ep sr sw outs → r.err = some e →
      r.calls = [] ∨ (e = .bn ∧ ∃ c, r.calls = [c] ∧ c.failed = true) := by
    intro r ep sr sw outs hr herr
    subst hr
    obtain ⟨h1, h2⟩ := submitBatch_err ep sr sw outs e herr
    exact Or.inr ⟨h1, _, submitBatch_calls ep sr sw outs, h2⟩
  have hplain : ∀ (t : SigType) (bad : Err) (ep : Endpoint),
      (batch t bad ep bn (objsOf ord set)).err = some e →
      (batch t bad ep bn (objsOf ord set)).calls = [] ∨
      (e = .bn ∧ ∃ c, (batch t bad ep bn (objsOf ord set)).calls = [c] ∧ c.failed = true) := by
    intro t bad ep herr
    rcases batch_spec t bad ep bn (objsOf ord set) with ⟨h, _⟩ | ⟨_, h⟩
    · left; rw [h]; rfl
    · exact hsb _ ep (bn.sub 0) false _ h herr
  cases duty with
  | exit => exact absurd rfl hd
  | attester =>
    rw [broadcast_attester] at he ⊢
    rcases attester_spec verify bn (objsOf ord set) with ⟨h, _⟩ | ⟨outs, _, _, _, h⟩
    · exact Or.inl h
    · exact hsb _ .attestations (bn.sub 0) true outs h he
  | proposer =>
    rw [broadcast_proposer] at he ⊢
    rcases proposer_spec bn set.length (objsOf ord set) with ⟨h, _⟩ | ⟨_, o, rest, _, _, h⟩
    · exact Or.inl h
    · exact hsb _ _ (bn.sub 0) false [o] h he
  | aggregator => rw [broadcast_aggregator] at he ⊢; exact hplain _ _ _ he
  | syncMessage => rw [broadcast_syncMessage] at he ⊢; exact hplain _ _ _ he
  | syncContribution => rw [broadcast_syncContribution] at he ⊢; exact hplain _ _ _ he
  | unknown | signature | builderProposer | builderRegistration | randao | prepareAggregator
  | prepareSyncContribution | infoSync | other => exact Or.inl rfl

/-- **Voluntary exits: which partial submissions can happen.** One submit call per entry, in
iteration order, for the leading run of entries that are exits. Either some entry is not an exit:
the result is "invalid exit" and the exits before it (in iteration order) HAVE been submitted; or
all entries are exits, each was submitted in its own call, and the result is the node's answer to
the LAST call only — failures of earlier calls are not reported. -/
theorem exit_submissions (set : List (Validator × Obj)) :
    (broadcast verify bn ord .exit set).calls.flatMap (·.items) =
      ((objsOf ord set).takeWhile (isTy .exit)).map itemOf ∧
    (((broadcast verify bn ord .exit set).err = some .invalidExit ∧
        ∃ o ∈ objsOf ord set, o.ty ≠ .exit) ∨
     ((∀ o ∈ objsOf ord set, o.ty = .exit) ∧
      (broadcast verify bn ord .exit set).calls.length = (objsOf ord set).length ∧
      ((objsOf ord set = [] ∧ (broadcast verify bn ord .exit set).err = none) ∨
       ∃ c, (broadcast verify bn ord .exit set).calls.getLast? = some c ∧
         (broadcast verify bn ord .exit set).err = if c.failed then some .bn else none))) := by
  rw [broadcast_exit]
  exact ⟨(exits_items bn.sub _ 0 none).1, exits_err bn.sub (objsOf ord set) 0 none⟩

/-- **Witnesses for the exit branch**: (1) an error return after a successful submission ("invalid
exit" for the second entry, the first exit has been handed to the node); (2) a nil return although
the node refused the first of two exits. -/
theorem exit_partial_submission_witness :
    broadcast wVerify (wBN []) id .exit
      [(1, ⟨.exit, 21, 7, 0, false, none, true, 0, 0, 0⟩), (2, wAtt 12 2 5 none)] =
      ⟨some .invalidExit, [⟨.voluntaryExit, [⟨21, 7, none⟩], false⟩]⟩ ∧
    broadcast wVerify (wBN [] (fun i => if i = 0 then .err else .ok)) id .exit
      [(1, ⟨.exit, 21, 7, 0, false, none, true, 0, 0, 0⟩), (2, ⟨.exit, 22, 8, 0, false, none, true, 0, 0, 0⟩)] =
      ⟨none, [⟨.voluntaryExit, [⟨21, 7, none⟩], true⟩, ⟨.voluntaryExit, [⟨22, 8, none⟩], false⟩]⟩ := by
  decide

/-! ### success -/

/-- **A nil return means every entry was handed over** (attester, aggregator, sync message, sync
contribution): exactly one submit call was made and it carries the whole set, entry by entry in
iteration order. No entry is silently dropped by the conversion. -/
theorem success_submits_every_entry (duty : Duty) (set : List (Validator × Obj))
    (hd : duty = .attester ∨ duty = .aggregator ∨ duty = .syncMessage ∨ duty = .syncContribution)
    (hok : (broadcast verify bn ord duty set).err = none) :
    ∃ c, (broadcast verify bn ord duty set).calls = [c] ∧
      c.items.map ikey = (objsOf ord set).map key := by
  have hplain : ∀ (t : SigType) (bad : Err) (ep : Endpoint),
      (batch t bad ep bn (objsOf ord set)).err = none →
      ∃ c, (batch t bad ep bn (objsOf ord set)).calls = [c] ∧
        c.items.map ikey = (objsOf ord set).map key := by
    intro t bad ep herr
    rcases batch_spec t bad ep bn (objsOf ord set) with ⟨h, _⟩ | ⟨_, h⟩
    · rw [h] at herr; cases herr
    · rw [h, submitBatch_calls]
      exact ⟨_, rfl, map_ikey_itemOf _⟩
  rcases hd with rfl | rfl | rfl | rfl
  · rw [broadcast_attester] at hok ⊢
    rcases attester_spec verify bn (objsOf ord set) with ⟨_, h, _⟩ | ⟨outs, _, hall, _, h⟩
    · exact absurd hok h
    · rw [h, submitBatch_calls]
      refine ⟨_, rfl, ?_⟩
      show (outs.map itemOf).map ikey = _
      rw [map_ikey_itemOf]
      exact forall₂_map_eq (fun a b hab => idxOnly_key hab) hall
  · rw [broadcast_aggregator] at hok ⊢; exact hplain _ _ _ hok
  · rw [broadcast_syncMessage] at hok ⊢; exact hplain _ _ _ hok
  · rw [broadcast_syncContribution] at hok ⊢; exact hplain _ _ _ hok

/-- **A proposal goes out once, to the endpoint of its blinded flag.** A nil return of the proposer
branch means: the set has exactly one entry, the entry the iteration yields is a proposal, and it
was handed — content and signature as they came — to `SubmitBlindedProposal` iff it is blinded, to
`SubmitProposal` otherwise, in the only submit call. -/
theorem proposal_submitted_once (set : List (Validator × Obj))
    (hok : (broadcast verify bn ord .proposer set).err = none) :
    set.length = 1 ∧ ∃ o, (objsOf ord set).head? = some o ∧ o.ty = .proposal ∧
      (broadcast verify bn ord .proposer set).calls =
        [⟨if o.blinded then .blindedProposal else .proposal, [itemOf o], false⟩] := by
  rw [broadcast_proposer] at hok ⊢
  rcases proposer_spec bn set.length (objsOf ord set) with ⟨_, h, _⟩ | ⟨hlen, o, rest, hobjs, hty, h⟩
  · exact absurd hok h
  · refine ⟨hlen, o, by rw [hobjs]; rfl, hty, ?_⟩
    rw [h] at hok ⊢
    rw [submitBatch_calls, submitBatch_err_none _ _ _ hok]
    rfl

/-- **"PriorAttestationKnown" is success, every other refusal is returned** (attester branch): when
the submit call is made, the result is nil for the answers `ok` and `priorKnown` and the node's
error otherwise. (The other batch branches return `priorKnown` as an error like any other.) -/
theorem prior_attestation_known_swallowed (set : List (Validator × Obj)) (c : Call)
    (hc : c ∈ (broadcast verify bn ord .attester set).calls) :
    (broadcast verify bn ord .attester set).err = (if bn.sub 0 = .err then some .bn else none) ∧
    c.failed = (bn.sub 0 != .ok) := by
  rw [broadcast_attester] at hc ⊢
  rcases attester_spec verify bn (objsOf ord set) with ⟨h, _⟩ | ⟨outs, _, _, _, h⟩
  · rw [h] at hc; cases hc
  · rw [h] at hc ⊢
    rw [submitBatch_calls] at hc
    simp only [List.mem_singleton] at hc
    subst hc
    refine ⟨?_, rfl⟩
    unfold submitBatch
    cases bn.sub 0 <;> simp

/-! ### Non-vacuity: concrete runs of the model -/

-- honest recovery: two Electra attestations without index, the node lists both validators (and a
-- third one, and another slot): each gets its own validator's index; content and signature untouched
example :
    broadcast wVerify (wBN [⟨3, 33, 109⟩, ⟨2, 33, 101⟩, ⟨1, 32, 77⟩, ⟨1, 33, 100⟩]) id .attester
      [(1, wAtt 11 1 5 none), (2, wAtt 12 2 5 none)] =
    ⟨none, [⟨.attestations, [⟨11, 1005, some 100⟩, ⟨12, 2005, some 101⟩], false⟩]⟩ := by decide

-- the node omits validator 2 / lists it for another slot / lists it as not active (index 55 is not
-- requested): its attestation is submitted WITHOUT index, the call still succeeds
example :
    broadcast wVerify (wBN [⟨1, 33, 100⟩, ⟨2, 34, 101⟩, ⟨2, 33, 55⟩]) id .attester
      [(1, wAtt 11 1 5 none), (2, wAtt 12 2 5 none)] =
    ⟨none, [⟨.attestations, [⟨11, 1005, some 100⟩, ⟨12, 2005, none⟩], false⟩]⟩ := by decide

-- two duties under whose key the signature verifies: the later one of the response wins
example :
    broadcast wVerify (wBN [⟨1, 33, 100⟩, ⟨1, 33, 109⟩]) id .attester [(1, wAtt 11 1 5 none)] =
    ⟨none, [⟨.attestations, [⟨11, 1005, some 109⟩], false⟩]⟩ := by decide

-- the same attestation filed under two keys: the inner `break` gives the index to the first only
example :
    broadcast wVerify (wBN [⟨1, 33, 100⟩]) id .attester [(1, wAtt 11 1 5 none), (2, wAtt 11 1 5 none)] =
    ⟨none, [⟨.attestations, [⟨11, 1005, some 100⟩, ⟨11, 1005, none⟩], false⟩]⟩ := by decide

-- a pre-Electra attestation first in iteration order switches the check off for the whole set; the
-- other iteration order switches it on
example :
    broadcast wVerify (wBN [⟨2, 33, 101⟩]) id .attester
      [(1, wAtt 11 1 5 none 5), (2, wAtt 12 2 5 none)] =
      ⟨none, [⟨.attestations, [⟨11, 1005, none⟩, ⟨12, 2005, none⟩], false⟩]⟩ ∧
    broadcast wVerify (wBN [⟨2, 33, 101⟩]) List.reverse .attester
      [(1, wAtt 11 1 5 none 5), (2, wAtt 12 2 5 none)] =
      ⟨none, [⟨.attestations, [⟨12, 2005, some 101⟩, ⟨11, 1005, none⟩], false⟩]⟩ := by decide

-- failures of the recovery happen before anything is handed over; the node's refusal after
example :
    broadcast wVerify ⟨none, some [], true, fun _ => .ok⟩ id .attester [(1, wAtt 11 1 5 none)] =
      ⟨some .validators, []⟩ ∧
    broadcast wVerify ⟨some [⟨100, true, true, 0⟩], some [], true, fun _ => .ok⟩ id .attester
      [(1, wAtt 11 1 5 none)] = ⟨some .validatorNil, []⟩ ∧
    broadcast wVerify ⟨some [], none, true, fun _ => .ok⟩ id .attester [(1, wAtt 11 1 5 none)] =
      ⟨some .fetchDuties, []⟩ ∧
    broadcast wVerify ⟨some [], some [], false, fun _ => .ok⟩ id .attester [(1, wAtt 11 1 5 none)] =
      ⟨some .domain, []⟩ ∧
    broadcast (fun _ _ _ _ => .err) (wBN [⟨1, 33, 100⟩]) id .attester [(1, wAtt 11 1 5 none)] =
      ⟨some .sigVerification, []⟩ ∧
    broadcast wVerify (wBN [] (fun _ => .err)) id .attester [(1, wAtt 11 1 5 (some 100))] =
      ⟨some .bn, [⟨.attestations, [⟨11, 1005, some 100⟩], true⟩]⟩ ∧
    broadcast wVerify (wBN [] (fun _ => .priorKnown)) id .attester [(1, wAtt 11 1 5 (some 100))] =
      ⟨none, [⟨.attestations, [⟨11, 1005, some 100⟩], true⟩]⟩ ∧
    broadcast wVerify (wBN []) id .attester [(1, wAtt 11 1 5 (some 100)), (2, ⟨.randao, 1, 2, 0, false, none, true, 0, 0, 0⟩)] =
      ⟨some .invalidAttestation, []⟩ := by decide

-- proposals: blinded flag picks the endpoint; two entries / another type are refused
example :
    broadcast wVerify (wBN []) id .proposer [(1, ⟨.proposal, 31, 9, 5, true, none, true, 0, 0, 0⟩)] =
      ⟨none, [⟨.blindedProposal, [⟨31, 9, none⟩], false⟩]⟩ ∧
    broadcast wVerify (wBN []) id .proposer [(1, ⟨.proposal, 31, 9, 5, false, none, true, 0, 0, 0⟩)] =
      ⟨none, [⟨.proposal, [⟨31, 9, none⟩], false⟩]⟩ ∧
    broadcast wVerify (wBN []) id .proposer
      [(1, ⟨.proposal, 31, 9, 5, false, none, true, 0, 0, 0⟩), (2, ⟨.proposal, 32, 8, 5, false, none, true, 0, 0, 0⟩)] =
      ⟨some .expectedOne, []⟩ ∧
    broadcast wVerify (wBN []) id .proposer [(1, wAtt 11 1 5 none)] = ⟨some .invalidProposal, []⟩ := by decide

-- batch types and no-ops
example :
    broadcast wVerify (wBN []) id .syncMessage
      [(1, ⟨.syncMessage, 41, 3, 0, false, none, true, 0, 0, 0⟩), (2, ⟨.syncMessage, 42, 4, 0, false, none, true, 0, 0, 0⟩)] =
      ⟨none, [⟨.syncMessages, [⟨41, 3, none⟩, ⟨42, 4, none⟩], false⟩]⟩ ∧
    broadcast wVerify (wBN [] (fun _ => .priorKnown)) id .aggregator [(1, ⟨.vAggProof, 51, 3, 6, false, none, true, 0, 0, 0⟩)] =
      ⟨some .bn, [⟨.aggregates, [⟨51, 3, none⟩], true⟩]⟩ ∧
    broadcast wVerify (wBN []) id .aggregator [(1, ⟨.aggProof, 51, 3, 6, false, none, true, 0, 0, 0⟩)] =
      ⟨some .invalidAgg, []⟩ ∧
    broadcast wVerify (wBN []) id .randao [(1, ⟨.randao, 61, 3, 0, false, none, true, 0, 0, 0⟩)] = ⟨none, []⟩ := by decide

end CharonV.CoreBcast
