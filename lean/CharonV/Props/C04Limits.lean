/-
C04, last sentence, against the receive-side limits of the real handler: what an honest member
broadcasts is never refused by `verifyMsgLimits` of `core/consensus/qbft` because of its number of
justifications. `honest_within_limits` (Props/C04) bounds the attachment list of every honest
broadcast by `2·nodes`; the factor of the limit is the constant the translator T-const extracts
from the Go source of `verifyMsgLimits` on every run (`maxJust := <factor> * nodes`; the
translator fails closed when the statement has another shape, e.g. a bound in terms of the quorum).
-/
import CharonV.Props.C04
import CharonV.Generated.QbftConst

namespace CharonV.Qbft

open CharonV.Generated

/-- **honest_within_wire_limits.** Every attachment list an honest member broadcasts has at most
`maxJustFactor · nodes` entries, with `maxJustFactor` as extracted from `verifyMsgLimits`: the real
handler's justification-count check (`n > maxJust` rejects) never refuses an honest broadcast. -/
theorem honest_within_wire_limits (d : Def) (hn : 1 ≤ d.nodes) (p : Nat) {n : NodeState}
    (hr : NodeReach d p (EvLim d) n) (o : Oracle) (e : Event) (he : EvLim d e)
    {typ round value pr pv : Nat} {just : List Core}
    (hout : Out.bcast typ round value pr pv just ∈ (step d o n e).2) :
    ¬ (just.length > QbftConst.maxJustFactor * d.nodes) := by
  have h := honest_within_limits d hn p hr o e he hout
  have hf : 2 ≤ QbftConst.maxJustFactor := by decide
  have : 2 * d.nodes ≤ QbftConst.maxJustFactor * d.nodes := Nat.mul_le_mul_right _ hf
  omega

/-- the bound `2·nodes` is attained by honest leaders (all `n` ROUND-CHANGEs plus all `n` PREPAREs
can be attached), so no smaller factor would do: with factor 1 the honest maximum is refused. -/
example : ¬ (2 * 7 ≤ 1 * 7) := by decide

end CharonV.Qbft
