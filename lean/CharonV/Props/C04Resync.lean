/-
C04 — the timed composition without the hypothesis "entry skew ≤ minimal latency".

`Props/C04Timed.lean` needs `σ ≤ lo`: no message of round `ρ` reaches a running member that is still in
round `ρ - 1`. Here that hypothesis is gone (`Proofs/QbftTimed2.lean`): the entries into round `ρ` may
be spread over any window `[E, E + σ]` with `σ + 4·hi < timeout ρ`, and early messages of the round are
handled as `Qbft.step` handles them — PREPAREs / COMMITs are buffered and count after the entry, `f+1`
ROUND-CHANGEs make the member enter the round at once (F+1 rule), a justified PRE-PREPARE makes it jump
into the round without announcing it, a DECIDED makes it decide. Same timed model
(`Model/QbftTimed.lean`, unchanged), same conclusions, for every execution.

Start hypothesis `Poised2` (= `Poised` of `Props/C04Timed.lean` plus: the members' `dedup` bookkeeping
only has entries of earlier rounds, `poised2_of_poised`): the running members sit in round `ρ - 1`,
undecided, never prepared, round timers due at instants in `[E, E + σ]` — `σ` ARBITRARY —, nothing in
flight, only null ROUND-CHANGEs of earlier rounds delivered so far. A silent round re-establishes
`Poised2` with the same `σ` (`timed_silent_round_skew`: a member enters the next round when its timer
fires or earlier, by the F+1 rule, but never before `E`; so the skew does not grow — it is not shown
to shrink to `hi`).

Not covered (`timed_resync` of the plan): a start state in which the running members are in DIFFERENT
rounds. All theorems below start with everybody in the same round `ρ - 1`; what the F+1 rule and the
timers do from an arbitrary spread of rounds is not composed. See the report for where that stops.
-/
import CharonV.Proofs.QbftTimed2
import CharonV.Props.C04Timed

namespace CharonV.Qbft

/-- **A round whose leader runs decides within `σ + 4·δ`, whatever the entry skew `σ`.** As
`timed_good_round`, without `σ ≤ lo`: relative round timer, the running members (at least a quorum)
poised for round `G.ρ ≥ 2` with entry instants anywhere in `[E, E + σ]`, the leader runs and has its
proposal, `σ + 4·hi < timeout G.ρ` (the exact constant: by `E + σ` everybody is in the round and has
announced it or jumped; one delay each for ROUND-CHANGE, PRE-PREPARE, PREPARE, COMMIT). Messages of the
round may reach members that have not entered it. In every execution, at every running member: no
fault, `Run` has not returned, the member has not left round `G.ρ` (nobody times out of it), whoever
decided has decided `G.v` in round `G.ρ` exactly once; once the clock has passed `E + σ + 4·hi`
everybody has decided. -/
theorem timed_good_round_skew (P : TParams) (timeout : Nat → Nat) (harm : P.arm = relTimer timeout)
    (G : Rd) (E σ B : Nat) (hR : P.R.Nodup) (hn : 1 ≤ P.d.nodes) (hq : P.d.quorum ≤ P.R.length)
    (hρ : 2 ≤ G.ρ) (hlead : P.d.leader G.ρ = G.l) (hl : G.l ∈ P.R) (hinp : P.inp G.l = G.v)
    (hv : G.v ≠ 0) (hfifo : B + 4 ≤ P.d.fifo) (hfit : σ + 4 * P.hi < timeout G.ρ)
    (s : TState) (hp : Poised2 P G ⟨E, σ, E + timeout G.ρ, σ, B⟩ s)
    (acts : List TAct) (s' : TState) (hs : texec P s acts = some s') :
    (∀ p ∈ P.R, noFault (s'.node p).outs = true ∧ (s'.node p).st.dead = false ∧
      (s'.node p).st.round ≤ G.ρ ∧
      ((s'.node p).st.qCommit ≠ [] → GoodOutcome G.v G.ρ ((s'.node p).st, (s'.node p).outs))) ∧
    (E + σ + 4 * P.hi < s'.now →
      ∀ p ∈ P.R, GoodOutcome G.v G.ρ ((s'.node p).st, (s'.node p).outs)) := by
  have hy : Hyp2 P G ⟨E, σ, E + timeout G.ρ, σ, B⟩ :=
    hyp_rel2 harm E σ B hR hn (by omega) hlead (fun _ => ⟨hinp, hv⟩) hfifo (by omega)
  have hwin : E + σ + 4 * P.hi < E + timeout G.ρ := by omega
  have hinv := good_exec2 hy hl hq hwin acts (poised_rinv2 hp) hs
  refine ⟨fun p hpR => ?_, fun hlate p hpR => ?_⟩
  · obtain ⟨h1, h2, h3, _⟩ := outcome_of_rinv2 hinv hpR
    refine ⟨h1, h2, ?_, h3⟩
    cases hinv.mem p hpR with
    | pend e a1 => rw [a1.mid.round]; omega
    | act dl fd tR tP tC a1 => rw [a1.mid.round]; exact Nat.le_refl _
    | dcd a1 => rw [a1.round]; exact Nat.le_refl _
  · exact (outcome_of_rinv2 hinv hpR).2.2.1 (live2 hy hl hq hinv hlate p hpR)

/-- **A round whose leader is down, whatever the entry skew**: every execution that has reached an
instant in `(E + σ + hi, E + timeout ρ)` is poised for round `ρ + 1` with the entry window
`[E + timeout ρ, E + timeout ρ + σ]` — the skew after the round is bounded by the skew before it
(members that entered early by the F+1 rule have earlier deadlines, but none before `E + timeout ρ`). -/
theorem timed_silent_round_skew (P : TParams) (timeout : Nat → Nat) (harm : P.arm = relTimer timeout)
    (G : Rd) (E σ B : Nat) (hR : P.R.Nodup) (hn : 1 ≤ P.d.nodes) (hρ : 2 ≤ G.ρ)
    (hlead : P.d.leader G.ρ = G.l) (hl : G.l ∉ P.R) (hfifo : B + 4 ≤ P.d.fifo)
    (hfit : σ + P.hi < timeout G.ρ)
    (s : TState) (hp : Poised2 P G ⟨E, σ, E + timeout G.ρ, σ, B⟩ s)
    (acts : List TAct) (s' : TState) (hs : texec P s acts = some s')
    (h1 : E + σ + P.hi < s'.now) (h2 : s'.now < E + timeout G.ρ)
    (G' : Rd) (hG' : G'.ρ = G.ρ + 1) (T' : Tm) (hE : T'.E = E + timeout G.ρ) (hσ' : T'.σ = σ)
    (hB : T'.B = B + 1) : Poised2 P G' T' s' := by
  have hy : Hyp2 P G ⟨E, σ, E + timeout G.ρ, σ, B⟩ :=
    hyp_rel2 harm E σ B hR hn (by omega) hlead (fun h => absurd h hl) hfifo (by omega)
  have hinv := early_exec2 hy acts (poised_rinv2 hp) hs h2
  exact poised_next2 hy hl hinv h1 (Nat.le_of_lt h2) hG' hE hσ' hB

/-- **Decision within one leader rotation, any entry skew.** As `timed_decides_within_rotation`
without `σ ≤ lo`. -/
theorem timed_decides_within_rotation_skew (slot ty n fifo : Nat) (P : TParams)
    (hd : P.d = rotDef slot ty n fifo) (timeout : Nat → Nat) (harm : P.arm = relTimer timeout)
    (hR : P.R.Nodup) (hRn : ∀ p ∈ P.R, p < n) (hn : 1 ≤ n) (hq : P.d.quorum ≤ P.R.length)
    (hinp : ∀ p ∈ P.R, P.inp p ≠ 0) (ρ0 : Nat) (hρ0 : 2 ≤ ρ0) (E0 σ B0 : Nat)
    (hfifo : B0 + n + 3 ≤ fifo)
    (hfit : ∀ ρ, ρ0 ≤ ρ → ρ < ρ0 + n → σ + 4 * P.hi < timeout ρ) :
    ∃ m, m < n ∧ leaderFn slot ty (ρ0 + m) n ∈ P.R ∧
      (∀ k, k < m → leaderFn slot ty (ρ0 + k) n ∉ P.R) ∧
      ∀ (s : TState), Poised2 P (rotG slot ty n P.inp ρ0 0) (rotT timeout ρ0 E0 σ B0 0) s →
      ∀ (acts : List TAct) (s' : TState), texec P s acts = some s' →
        (∀ p ∈ P.R, noFault (s'.node p).outs = true ∧ (s'.node p).st.dead = false) ∧
        (∀ p ∈ P.R, (s'.node p).st.qCommit ≠ [] →
          GoodOutcome (P.inp (leaderFn slot ty (ρ0 + m) n)) (ρ0 + m) ((s'.node p).st, (s'.node p).outs)) ∧
        (E0 + sumTimeouts timeout ρ0 m + σ + 4 * P.hi < s'.now →
          ∀ p ∈ P.R,
            GoodOutcome (P.inp (leaderFn slot ty (ρ0 + m) n)) (ρ0 + m) ((s'.node p).st, (s'.node p).outs)) := by
  have hq1 : 1 ≤ P.d.quorum := quorum_pos P.d (by rw [hd]; exact hn)
  have hne : P.R ≠ [] := by
    intro hc; rw [hc] at hq; simp at hq; omega
  obtain ⟨m, hm, hmR, hsil⟩ := first_running_leader slot ty n hn P.R hRn hne ρ0
  refine ⟨m, hm, hmR, hsil, ?_⟩
  intro s hp acts s' hs
  have hrot := rot_rel2 hd harm hR hn hq hinp (ρ0 := ρ0) (by omega) E0 σ B0 (m := m) (by omega)
    (fun k hk => hfit (ρ0 + k) (by omega) (by omega)) hmR hsil
  exact rot_decides2 hrot hp acts hs

/-- **From the start of the instance** (`ρ0 = 1`, `Poised1`: everybody has been called, the round-1
leader's PRE-PREPARE is in flight), any skew of the later rounds. -/
theorem timed_decides_from_start_skew (slot ty n fifo : Nat) (P : TParams)
    (hd : P.d = rotDef slot ty n fifo) (timeout : Nat → Nat) (harm : P.arm = relTimer timeout)
    (hR : P.R.Nodup) (hRn : ∀ p ∈ P.R, p < n) (hn : 1 ≤ n) (hq : P.d.quorum ≤ P.R.length)
    (hinp : ∀ p ∈ P.R, P.inp p ≠ 0) (E0 σ B0 : Nat) (hfifo : B0 + n + 3 ≤ fifo)
    (hfit : ∀ ρ, 1 ≤ ρ → ρ < 1 + n → σ + 4 * P.hi < timeout ρ) :
    ∃ m, m < n ∧ leaderFn slot ty (1 + m) n ∈ P.R ∧
      (∀ k, k < m → leaderFn slot ty (1 + k) n ∉ P.R) ∧
      ∀ (s : TState), Poised1 P (rotG slot ty n P.inp 1 0) (rotT timeout 1 E0 σ B0 0) s →
      ∀ (acts : List TAct) (s' : TState), texec P s acts = some s' →
        (∀ p ∈ P.R, noFault (s'.node p).outs = true ∧ (s'.node p).st.dead = false) ∧
        (∀ p ∈ P.R, (s'.node p).st.qCommit ≠ [] →
          GoodOutcome (P.inp (leaderFn slot ty (1 + m) n)) (1 + m) ((s'.node p).st, (s'.node p).outs)) ∧
        (E0 + sumTimeouts timeout 1 m + σ + 4 * P.hi < s'.now →
          ∀ p ∈ P.R,
            GoodOutcome (P.inp (leaderFn slot ty (1 + m) n)) (1 + m) ((s'.node p).st, (s'.node p).outs)) := by
  have hq1 : 1 ≤ P.d.quorum := quorum_pos P.d (by rw [hd]; exact hn)
  have hne : P.R ≠ [] := by
    intro hc; rw [hc] at hq; simp at hq; omega
  obtain ⟨m, hm, hmR, hsil⟩ := first_running_leader slot ty n hn P.R hRn hne 1
  refine ⟨m, hm, hmR, hsil, ?_⟩
  intro s hp acts s' hs
  have hrot := rot_rel2 hd harm hR hn hq hinp (ρ0 := 1) (Nat.le_refl 1) E0 σ B0 (m := m) (by omega)
    (fun k hk => hfit (1 + k) (by omega) (by omega)) hmR hsil
  exact rot_decides_inv2 hrot (poised1_rinv2 (hrot.hyp 0 (Nat.zero_le _)) hp) acts hs

/-- **The `increasing` and `linear` production timer objects, any entry skew**: `σ + 4·δ` below the
shortest timeout of the type (`four_delays_fit`) is the only timing hypothesis. -/
theorem timed_rotation_production_skew (slot ty n fifo : Nat) (P : TParams)
    (hd : P.d = rotDef slot ty n fifo) (c : RoundTimer.Cfg) (pt : Bool) (hk : c.kind ≠ .eager)
    (harm : P.arm = prodTimer c pt)
    (hR : P.R.Nodup) (hRn : ∀ p ∈ P.R, p < n) (hn : 1 ≤ n) (hq : P.d.quorum ≤ P.R.length)
    (hinp : ∀ p ∈ P.R, P.inp p ≠ 0) (ρ0 : Nat) (hρ0 : 2 ≤ ρ0) (E0 σ B0 : Nat)
    (hfifo : B0 + n + 3 ≤ fifo)
    (hfit : σ + 4 * P.hi < RoundTimer.shortest c.kind c.dutyType pt) :
    ∃ m, m < n ∧ leaderFn slot ty (ρ0 + m) n ∈ P.R ∧
      (∀ k, k < m → leaderFn slot ty (ρ0 + k) n ∉ P.R) ∧
      ∀ (s : TState), Poised2 P (rotG slot ty n P.inp ρ0 0)
          (rotT (RoundTimer.timeoutOf c pt) ρ0 E0 σ B0 0) s →
      ∀ (acts : List TAct) (s' : TState), texec P s acts = some s' →
        (∀ p ∈ P.R, noFault (s'.node p).outs = true ∧ (s'.node p).st.dead = false) ∧
        (∀ p ∈ P.R, (s'.node p).st.qCommit ≠ [] →
          GoodOutcome (P.inp (leaderFn slot ty (ρ0 + m) n)) (ρ0 + m) ((s'.node p).st, (s'.node p).outs)) ∧
        (E0 + sumTimeouts (RoundTimer.timeoutOf c pt) ρ0 m + σ + 4 * P.hi < s'.now →
          ∀ p ∈ P.R,
            GoodOutcome (P.inp (leaderFn slot ty (ρ0 + m) n)) (ρ0 + m) ((s'.node p).st, (s'.node p).outs)) :=
  timed_decides_within_rotation_skew slot ty n fifo P hd (RoundTimer.timeoutOf c pt)
    (by rw [harm, prodTimer_rel c pt hk]) hR hRn hn hq hinp ρ0 hρ0 E0 σ B0 hfifo
    (fun ρ h1 _ => four_delays_fit c pt σ P.hi hfit ρ (by omega))

/-- **The slot-aligned eager timer, any skew of the entries into the first round** (`σ0` arbitrary, as
long as `E0 + σ0 + 4·δ` lies before the aligned end of round `ρ0`; later rounds are entered
simultaneously). -/
theorem timed_rotation_eager_skew (slot ty n fifo : Nat) (P : TParams)
    (hd : P.d = rotDef slot ty n fifo) (c : RoundTimer.Cfg) (pt : Bool) (hk : c.kind = .eager)
    (g : Nat) (hg : c.genesis = some g) (hsd : 0 < c.slotDur) (harm : P.arm = prodTimer c pt)
    (hR : P.R.Nodup) (hRn : ∀ p ∈ P.R, p < n) (hn : 1 ≤ n) (hq : P.d.quorum ≤ P.R.length)
    (hinp : ∀ p ∈ P.R, P.inp p ≠ 0) (ρ0 : Nat) (hρ0 : 2 ≤ ρ0) (E0 σ0 B0 : Nat)
    (hfifo : B0 + n + 3 ≤ fifo)
    (hfit0 : E0 + σ0 + 4 * P.hi < eagerEnd c pt g ρ0) (hfit : 4 * P.hi < 1000000000) :
    ∃ m, m < n ∧ leaderFn slot ty (ρ0 + m) n ∈ P.R ∧
      (∀ k, k < m → leaderFn slot ty (ρ0 + k) n ∉ P.R) ∧
      ∀ (s : TState), Poised2 P (rotG slot ty n P.inp ρ0 0) (eagerT c pt g ρ0 E0 σ0 B0 0) s →
      ∀ (acts : List TAct) (s' : TState), texec P s acts = some s' →
        (∀ p ∈ P.R, noFault (s'.node p).outs = true ∧ (s'.node p).st.dead = false) ∧
        (∀ p ∈ P.R, (s'.node p).st.qCommit ≠ [] →
          GoodOutcome (P.inp (leaderFn slot ty (ρ0 + m) n)) (ρ0 + m) ((s'.node p).st, (s'.node p).outs)) ∧
        ((if m = 0 then E0 + σ0 else eagerEnd c pt g (ρ0 + m - 1)) + 4 * P.hi < s'.now →
          ∀ p ∈ P.R,
            GoodOutcome (P.inp (leaderFn slot ty (ρ0 + m) n)) (ρ0 + m) ((s'.node p).st, (s'.node p).outs)) := by
  have hq1 : 1 ≤ P.d.quorum := quorum_pos P.d (by rw [hd]; exact hn)
  have hne : P.R ≠ [] := by
    intro hc; rw [hc] at hq; simp at hq; omega
  obtain ⟨m, hm, hmR, hsil⟩ := first_running_leader slot ty n hn P.R hRn hne ρ0
  refine ⟨m, hm, hmR, hsil, ?_⟩
  intro s hp acts s' hs
  have hrot := rot_eager2 hd hk hg hsd harm hR hn hq hinp (ρ0 := ρ0) (by omega) E0 σ0 B0 (m := m) (by omega)
    hfit0 hfit hmR hsil
  obtain ⟨h1, h2, h3⟩ := rot_decides2 hrot hp acts hs
  refine ⟨h1, h2, fun hlate => h3 ?_⟩
  unfold eagerT
  split
  · rename_i h0; rw [if_pos h0] at hlate; exact hlate
  · rename_i h0; rw [if_neg h0] at hlate; simpa using hlate

/-- **Any timer object, any skews** (`Rot2` = `Rot` without `σ_k ≤ lo`). -/
theorem timed_rotation_any_timer_skew (P : TParams) (Gs : Nat → Rd) (Ts : Nat → Tm) (m : Nat)
    (hrot : Rot2 P Gs Ts m) (s : TState) (hp : Poised2 P (Gs 0) (Ts 0) s) (acts : List TAct)
    (s' : TState) (hs : texec P s acts = some s') :
    (∀ p ∈ P.R, noFault (s'.node p).outs = true ∧ (s'.node p).st.dead = false) ∧
    (∀ p ∈ P.R, (s'.node p).st.qCommit ≠ [] →
      GoodOutcome (Gs m).v (Gs m).ρ ((s'.node p).st, (s'.node p).outs)) ∧
    ((Ts m).E + (Ts m).σ + 4 * P.hi < s'.now →
      ∀ p ∈ P.R, GoodOutcome (Gs m).v (Gs m).ρ ((s'.node p).st, (s'.node p).outs)) :=
  rot_decides2 hrot hp acts hs

/-! ### Non-vacuity: entry skew 250 ms, minimal latency 0 (`lo = 0`), δ = 100 ms

The round-1 timers of the members are due at 1.000 s, 1.030 s (example F only) and 1.250 s:
`σ = 250 ms > lo = 0`, and even `σ > δ`. `σ + 4·δ = 650 ms < 1.25 s = timeout 2` (`increasing`
timer, attester duty). Bound of `timed_good_round_skew`: 1 s + 250 ms + 400 ms = 1.65 s. -/

namespace C04ResyncEx

open C04TimedEx (finalOk rcvdTypes)

/-- the upon-rules member `p` has fired, with the round it was in. -/
def rulesOf (p : Nat) : Option TState → List (Nat × Nat)
  | none => []
  | some s => (s.node p).outs.filterMap (fun o => match o with | .rule r rd => some (r, rd) | _ => none)

/-! #### F. A member enters the round by the F+1 rule (members 1, 2, 3 run; slot 11: member 1 leads round 2)

Every message takes 20 ms. Member 3, whose timer is due at 1.25 s only, receives the ROUND-CHANGEs of
members 1 and 2 while it is in round 1: the second one (`f + 1 = 2`) makes it jump (rule 5 =
`UponFPlus1RoundChanges`, fired in round 1) at 1.05 s. Everybody decides at 1.13 s. -/

def P6 : TParams :=
  { d := rotDef 11 0 4 100, R := [1, 2, 3], lo := 0, hi := 100000000,
    arm := relTimer (RoundTimer.incTimeout 2 false), inp := fun p => 7 + p }

def due6 (p : Nat) : Nat := if p = 3 then 1250000000 else if p = 2 then 1030000000 else 1000000000

def s6 : TState :=
  { now := 0
    node := fun p =>
      { st := freshNode P6.d p (7 + p) 1
        outs := (run P6.d {} { proc := p } (.start :: inputEvents (7 + p))).2
        timer := some (due6 p), firsts := [(1, due6 p)] } }

theorem s6_poised :
    Poised2 P6 ⟨2, 8, 1⟩ ⟨1000000000, 250000000, 1000000000 + RoundTimer.incTimeout 2 false 2, 250000000, 0⟩ s6 := by
  refine ⟨rfl, by decide, fun p _ => List.Perm.refl _, (by intro m hm; cases hm), (by intro a; simp [s6]), ?_⟩
  intro p hp
  have hp' : p = 1 ∨ p = 2 ∨ p = 3 := by simpa [P6] using hp
  refine ⟨due6 p, ?_, rfl, ?_, ?_, ?_, ?_⟩
  · have hbuf : (s6.node p).st.buffer = [] := by rcases hp' with rfl | rfl | rfl <;> decide
    refine ⟨by decide, ?_, ?_, ?_, (by intro x hx; cases hx), rfl, ?_, ?_, ?_, ?_, ?_⟩
    · rcases hp' with rfl | rfl | rfl <;> exact ⟨by decide, by decide, by decide, by decide, by decide, by decide⟩
    · rcases hp' with rfl | rfl | rfl <;> decide
    · rw [hbuf]; exact bufIs_nil
    · rcases hp' with rfl | rfl | rfl <;> decide
    · rcases hp' with rfl | rfl | rfl <;> decide
    · rcases hp' with rfl | rfl | rfl <;> decide
    · rcases hp' with rfl | rfl | rfl <;> decide
    · have hdd : (s6.node p).st.dedup = [] := by rcases hp' with rfl | rfl | rfl <;> decide
      rw [hdd]; intro e he; cases he
  · rcases hp' with rfl | rfl | rfl <;> decide
  · rcases hp' with rfl | rfl | rfl <;> decide
  · intro r hr
    have hr' : 2 ≤ r := hr
    show RoundTimer.lookup r [(1, due6 p)] = none
    simp only [RoundTimer.lookup]
    rw [if_neg (by omega)]
  · rcases hp' with rfl | rfl | rfl <;>
      exact ⟨by decide, List.isEmpty_iff.mp (by decide)⟩

-- the hypotheses of `timed_good_round_skew` hold (σ = 250 ms, lo = 0) …
example : ∀ (acts : List TAct) (s' : TState), texec P6 s6 acts = some s' →
    1000000000 + 250000000 + 4 * 100000000 < s'.now →
    ∀ p ∈ P6.R, GoodOutcome 8 2 ((s'.node p).st, (s'.node p).outs) := fun acts s' hs =>
  (timed_good_round_skew P6 (RoundTimer.incTimeout 2 false) rfl ⟨2, 8, 1⟩ 1000000000 250000000 0
    (by decide) (by decide) (by decide) (by decide) (by decide) (by decide) (by decide) (by decide)
    (by decide) (by decide) s6 s6_poised acts s' hs).2

def schedF : List TAct :=
  [.tick 1000000000, .fire 1, .tick 20000000, .deliver 0 ⟨[], 0⟩, .deliver 0 ⟨[], 0⟩,
    .deliver 0 ⟨[], 0⟩, .tick 10000000, .fire 2, .tick 20000000, .deliver 0 ⟨[], 0⟩,
    .deliver 0 ⟨[], 0⟩, .deliver 0 ⟨[], 0⟩, .tick 20000000, .deliver 0 ⟨[], 0⟩, .deliver 0 ⟨[], 0⟩,
    .deliver 0 ⟨[], 0⟩, .tick 20000000, .deliver 0 ⟨[], 0⟩, .deliver 0 ⟨[], 0⟩, .deliver 0 ⟨[], 0⟩,
    .tick 20000000, .deliver 0 ⟨[], 0⟩, .deliver 0 ⟨[], 0⟩, .deliver 0 ⟨[], 0⟩, .deliver 0 ⟨[], 0⟩,
    .deliver 0 ⟨[], 0⟩, .deliver 0 ⟨[], 0⟩, .deliver 0 ⟨[], 0⟩, .deliver 0 ⟨[], 0⟩,
    .deliver 0 ⟨[], 0⟩, .tick 20000000, .deliver 0 ⟨[], 0⟩, .deliver 0 ⟨[], 0⟩, .deliver 0 ⟨[], 0⟩,
    .deliver 0 ⟨[], 0⟩, .deliver 0 ⟨[], 0⟩, .deliver 0 ⟨[], 0⟩, .deliver 0 ⟨[], 0⟩,
    .deliver 0 ⟨[], 0⟩, .deliver 0 ⟨[], 0⟩]

-- … and in this execution the ROUND-CHANGEs of members 1 and 2 reach member 3 while it is in round 1:
-- it fires rule 5 (F+1) in round 1, then rules 1, 2, 3 in round 2; everybody decides 8 in round 2
set_option maxRecDepth 100000 in
example : finalOk [1, 2, 3] 8 2 1650000000 (texec P6 s6 schedF) = true := by decide
set_option maxRecDepth 100000 in
example : rulesOf 3 (texec P6 s6 schedF) = [(5, 1), (1, 2), (2, 2), (3, 2)] := by decide

/-! #### P. A member jumps into the round on the PRE-PREPARE (all four run; slot 10: member 0 leads round 2)

ROUND-CHANGEs to member 3 take 100 ms, everything else 10 ms. Members 0, 1, 2 enter round 2 at 1 s;
the leader proposes at 1.01 s without member 3; its PRE-PREPARE reaches member 3 — still in round 1,
timer due at 1.25 s — at 1.02 s: rule 1 (`UponJustifiedPrePrepare`) fires in round 1, member 3 jumps
to round 2 and never sends a ROUND-CHANGE for it; PREPAREs and COMMITs follow, the ROUND-CHANGEs arrive
last. -/

def P7 : TParams :=
  { d := rotDef 10 0 4 100, R := [0, 1, 2, 3], lo := 0, hi := 100000000,
    arm := relTimer (RoundTimer.incTimeout 2 false), inp := fun p => 7 + p }

def due7 (p : Nat) : Nat := if p = 3 then 1250000000 else 1000000000

def s7 : TState :=
  { now := 0
    node := fun p =>
      { st := freshNode P7.d p (7 + p) 1
        outs := (run P7.d {} { proc := p } (.start :: inputEvents (7 + p))).2
        timer := some (due7 p), firsts := [(1, due7 p)] } }

def schedP : List TAct :=
  [.tick 1000000000, .fire 0, .fire 1, .fire 2, .tick 10000000, .deliver 0 ⟨[], 0⟩,
    .deliver 0 ⟨[], 0⟩, .deliver 0 ⟨[], 0⟩, .deliver 1 ⟨[], 0⟩, .deliver 1 ⟨[], 0⟩,
    .deliver 1 ⟨[], 0⟩, .deliver 2 ⟨[], 0⟩, .deliver 2 ⟨[], 0⟩, .deliver 2 ⟨[], 0⟩, .tick 10000000,
    .deliver 3 ⟨[], 0⟩, .deliver 3 ⟨[], 0⟩, .deliver 3 ⟨[], 0⟩, .deliver 3 ⟨[], 0⟩, .tick 10000000,
    .deliver 3 ⟨[], 0⟩, .deliver 3 ⟨[], 0⟩, .deliver 3 ⟨[], 0⟩, .deliver 3 ⟨[], 0⟩,
    .deliver 3 ⟨[], 0⟩, .deliver 3 ⟨[], 0⟩, .deliver 3 ⟨[], 0⟩, .deliver 3 ⟨[], 0⟩,
    .deliver 3 ⟨[], 0⟩, .deliver 3 ⟨[], 0⟩, .deliver 3 ⟨[], 0⟩, .deliver 3 ⟨[], 0⟩,
    .deliver 3 ⟨[], 0⟩, .deliver 3 ⟨[], 0⟩, .deliver 3 ⟨[], 0⟩, .deliver 3 ⟨[], 0⟩, .tick 10000000,
    .deliver 3 ⟨[], 0⟩, .deliver 3 ⟨[], 0⟩, .deliver 3 ⟨[], 0⟩, .deliver 3 ⟨[], 0⟩,
    .deliver 3 ⟨[], 0⟩, .deliver 3 ⟨[], 0⟩, .deliver 3 ⟨[], 0⟩, .deliver 3 ⟨[], 0⟩,
    .deliver 3 ⟨[], 0⟩, .deliver 3 ⟨[], 0⟩, .deliver 3 ⟨[], 0⟩, .deliver 3 ⟨[], 0⟩,
    .deliver 3 ⟨[], 0⟩, .deliver 3 ⟨[], 0⟩, .deliver 3 ⟨[], 0⟩, .deliver 3 ⟨[], 0⟩, .tick 60000000,
    .deliver 0 ⟨[], 0⟩, .deliver 0 ⟨[], 0⟩, .deliver 0 ⟨[], 0⟩, .tick 10000000, .deliver 0 ⟨[], 0⟩,
    .deliver 0 ⟨[], 0⟩, .deliver 0 ⟨[], 0⟩, .deliver 0 ⟨[], 0⟩, .deliver 0 ⟨[], 0⟩,
    .deliver 0 ⟨[], 0⟩, .deliver 0 ⟨[], 0⟩, .deliver 0 ⟨[], 0⟩, .deliver 0 ⟨[], 0⟩,
    .deliver 0 ⟨[], 0⟩, .deliver 0 ⟨[], 0⟩, .deliver 0 ⟨[], 0⟩]

set_option maxRecDepth 100000 in
example : finalOk [0, 1, 2, 3] 7 2 1650000000 (texec P7 s7 schedP) = true := by decide
set_option maxRecDepth 100000 in
example : rulesOf 3 (texec P7 s7 schedP) = [(1, 1), (2, 2), (3, 2)] ∧
    rcvdTypes 3 (texec P7 s7 schedP) = [1, 2, 2, 2, 2, 3, 3, 3, 3, 4, 4, 4, 5, 5, 5] := by decide

end C04ResyncEx

end CharonV.Qbft
