/-
C03 at the wrapper level (`core/consensus/qbft/qbft.go` outside `handle`) — "a cluster member
decides at most once per duty" and, for C05's last clause, "the value delivered on decision is
exactly the proposed data whose hash was agreed".

Model: `CharonV.Model.ConsWrap` (Propose / Participate / propose / runInstance / instance.IO /
getInstanceIO / deleteInstanceIO / the `Decide` callback of `newDefinition` / Subscribe); helper
lemmas: `CharonV.Proofs.ConsWrap`. `qbft.Run` itself is the subject of C02–C04; here it is an
environment that may call `Decide` (at most once per invocation: C03 `decide_once`) and return.
The theorems quantify over every history of steps, i.e. every linearisation of the concurrently
running entry points (all shared accesses are CAS operations or under the component's mutex),
every answer of the deadliner except that it keeps refusing a duty it has already emitted (C16
`late adds refused`), every crypto and every subscriber count.
-/
import CharonV.Proofs.ConsWrap

namespace CharonV.ConsWrap

open CharonV.QbftWire (Duty Crypto Status VMap Hash Inner ValuesOk valHash)

/-- **one_run_per_duty.** However `Propose`, `Participate`, peer messages, run completions and
deadliner expiries interleave, `qbft.Run` is entered at most once per duty — over the whole
history, i.e. also after the deadliner deleted the duty's IO and a late call re-created one. -/
theorem one_run_per_duty (C : Crypto) (cfg : Cfg) (ops : List Op) (d : Duty) :
    startedIn (trace C cfg {} ops).2 d ≤ 1 := by
  have h := trace_started (C := C) (cfg := cfg) d ops {}
  have hn := (inv_trace (C := C) (cfg := cfg) ops inv_init).nodup
  have hc : (runDuties (trace C cfg {} ops).1).count d ≤ 1 := count_le_one_of_nodup hn d
  simp [runDuties] at h
  simp [runDuties] at hc
  omega

/-- **run_started_at_first_call.** … and it is entered as soon as one of them happens: a `Propose`
(of a hashable value, first for this IO) or an effective `Participate` (first for this IO) that
finds the duty's IO not running enters `qbft.Run` in that very step, provided the deadliner
still schedules the duty. -/
theorem run_started_at_first_call (C : Crypto) (cfg : Cfg) (s : State) (d : Duty) (dl : Status)
    (hrun : (getIO s d).running = false) (hdl : dlStatus s d dl = .scheduled) :
    (∀ p h, C.hashInner p = some h → (getIO s d).proposed = false → (getIO s d).value = none →
      Out.runStarted d ∈ (step C cfg s (.propose d p dl)).2 ∧ isRunning (step C cfg s (.propose d p dl)).1 d) ∧
    (noParticipate d = false → cfg.participateEnabled = true → (getIO s d).participated = false →
      Out.runStarted d ∈ (step C cfg s (.participate d dl)).2 ∧ isRunning (step C cfg s (.participate d dl)).1 d) := by
  constructor
  · intro p h hh hp hv
    simp only [step, hh, hp, hv, hrun]
    simp only [Bool.false_eq_true, if_false, Option.isSome_none]
    rcases runInstance_cases s { getIO s d with proposed := true, value := some (h, p), running := true } .propose dl with ⟨_, hr⟩ | ⟨hne, _⟩
    · rw [hr]
      refine ⟨by simp [getIO_duty], ?_⟩
      exact ⟨_, findIO_setIO_eq s.ios _ d (getIO_duty s d), rfl⟩
    · exact absurd (by simpa [getIO_duty] using hdl) hne
  · intro hnp hen hq
    simp only [step, hnp, hen, hq, hrun]
    simp only [Bool.not_true, Bool.or_self, Bool.false_eq_true, if_false]
    rcases runInstance_cases s { getIO s d with participated := true, running := true } .participate dl with ⟨_, hr⟩ | ⟨hne, _⟩
    · rw [hr]
      refine ⟨by simp [getIO_duty], ?_⟩
      exact ⟨_, findIO_setIO_eq s.ios _ d (getIO_duty s d), rfl⟩
    · exact absurd (by simpa [getIO_duty] using hdl) hne

/-- **propose_twice_rejected.** After a `Propose` for duty `d` (of a hashable value) every later
`Propose` for `d` — whatever happened in between, as long as the deadliner has not deleted the
IO — fails with "already proposed" and changes nothing. -/
theorem propose_twice_rejected (C : Crypto) (cfg : Cfg) (s : State) (d : Duty) (p p' : Inner) (dl dl' : Status)
    (h h' : Hash) (hp : C.hashInner p = some h) (hp' : C.hashInner p' = some h')
    (ops : List Op) (hops : ∀ o ∈ ops, ∀ d', o = .expire d' → d' ≠ d) :
    let s2 := (trace C cfg (step C cfg s (.propose d p dl)).1 ops).1
    step C cfg s2 (.propose d p' dl') = (s2, [.ret .propose d .alreadyProposed]) := by
  intro s2
  -- after the first Propose the IO exists and is marked
  have h1 : ∃ io, findIO (step C cfg s (.propose d p dl)).1 d = some io ∧ io.proposed = true := by
    simp only [step, hp]
    split
    · rename_i hpr
      exact ⟨_, findIO_setIO_eq s.ios _ d (getIO_duty s d), hpr⟩
    · split
      · exact ⟨_, findIO_setIO_eq s.ios _ d (getIO_duty s d), rfl⟩
      · split
        · split
          · exact ⟨_, findIO_setIO_eq s.ios _ d (getIO_duty s d), rfl⟩
          · exact ⟨_, findIO_setIO_eq s.ios _ d (getIO_duty s d), rfl⟩
        · rcases runInstance_cases s { getIO s d with proposed := true, value := some (h, p), running := true } .propose dl with ⟨_, hr⟩ | ⟨_, hr⟩
          · rw [hr]; exact ⟨_, findIO_setIO_eq s.ios _ d (getIO_duty s d), rfl⟩
          · rw [hr]; exact ⟨_, findIO_setIO_eq s.ios _ d (getIO_duty s d), rfl⟩
  -- it stays marked along the history
  have h2 : ∀ (ops : List Op) (s1 : State), (∀ o ∈ ops, ∀ d', o = .expire d' → d' ≠ d) →
      (∃ io, findIO s1 d = some io ∧ io.proposed = true) →
      ∃ io, findIO (trace C cfg s1 ops).1 d = some io ∧ io.proposed = true := by
    intro ops
    induction ops with
    | nil => intro s1 _ h; exact h
    | cons o os ih =>
      intro s1 hno h
      simp only [trace]
      exact ih _ (fun o' ho' => hno o' (List.mem_cons_of_mem _ ho'))
        (step_proposed_persists h (hno o (List.mem_cons_self ..)))
  obtain ⟨io, hio, hpr⟩ := h2 ops _ hops h1
  have hg : getIO s2 d = io := by unfold getIO; rw [hio]
  simp only [step, hp', hg, hpr, if_true]
  have : setIO s2.ios io = s2.ios := setIO_of_find hio
  rw [this]

/-- **decided_value_is_hashed_value.** Every subscriber call made by the `Decide` callback for
decided hash `h` carries the duty of the instance and the unmarshalled content `x` of the value
that the decided message (`qcommit[0]`) maps `h` to; if that message's value map is sound
(`ValuesOk`: C05 `value_binding` for received messages, `propose` for the own one) then `x` hashes
to exactly `h`; and if the hash is missing from the map, or the value does not unmarshal, no
subscriber is called at all. No other step calls subscribers. -/
theorem decided_value_is_hashed_value (C : Crypto) (cfg : Cfg) (s : State) (d : Duty) (h : Hash) (vals : VMap) :
    (∀ i d' x, Out.subCall i d' x ∈ (step C cfg s (.decide d h vals)).2 →
      d' = d ∧ ∃ v, vals.get h = some v ∧ C.unmarshalAny v = some x ∧
        (ValuesOk C vals → C.hashInner x = some h)) ∧
    ((vals.get h = none ∨ ∃ v, vals.get h = some v ∧ C.unmarshalAny v = none) →
      (step C cfg s (.decide d h vals)).2 = []) ∧
    (∀ op, (∀ d h vals, op ≠ .decide d h vals) → ∀ i d' x, Out.subCall i d' x ∉ (step C cfg s op).2) := by
  refine ⟨?_, ?_, ?_⟩
  · intro i d' x hmem
    simp only [step] at hmem
    split at hmem
    · cases hmem
    · split at hmem
      · cases hmem
      · split at hmem
        · cases hmem
        · rename_i v hv
          split at hmem
          · cases hmem
          · rename_i x' hx
            simp only [subCalls, List.mem_map, List.mem_range] at hmem
            obtain ⟨j, _, hj⟩ := hmem
            cases hj
            refine ⟨rfl, v, hv, hx, ?_⟩
            intro hok
            have := hok h v hv
            unfold valHash at this
            rw [hx] at this
            exact this
  · intro hmiss
    simp only [step]
    split
    · rfl
    · split
      · rfl
      · rcases hmiss with hn | ⟨v, hv, hu⟩
        · simp [hn]
        · simp [hv, hu]
  · intro op hop i d' x hmem
    have hpos := subsIn_pos_of_mem hmem
    cases step_deliver C cfg s op with
    | quiet _ _ _ ho => rw [ho i d'] at hpos; omega
    | start _ _ _ ho => rw [ho i d'] at hpos; omega
    | decide d0 _ hopd _ _ _ _ _ _ =>
      obtain ⟨h0, v0, he⟩ := hopd
      exact hop d0 h0 v0 he

/-- **subscribers_once_per_decision.** A `Decide` callback that finds its value calls every
registered subscriber exactly once, in registration order, all with the same `(duty, value)`;
and over any history whatsoever no subscriber is called twice for the same duty: a member
delivers at most one decision per duty. -/
theorem subscribers_once_per_decision (C : Crypto) (cfg : Cfg) :
    (∀ s d h vals, (step C cfg s (.decide d h vals)).2 = [] ∨
      ∃ x, (step C cfg s (.decide d h vals)).2 = (List.range cfg.subs).map (fun i => Out.subCall i d x)) ∧
    (∀ (ops : List Op) (i : Nat) (d : Duty), subsIn (trace C cfg {} ops).2 i d ≤ 1) := by
  constructor
  · intro s d h vals
    simp only [step]
    split
    · exact Or.inl rfl
    · split
      · exact Or.inl rfl
      · split
        · exact Or.inl rfl
        · split
          · exact Or.inl rfl
          · rename_i x _
            exact Or.inr ⟨x, rfl⟩
  · intro ops i d
    have := trace_credit (C := C) (cfg := cfg) i d ops {} inv_init
    have h1 : credit ({} : State) d = 1 := rfl
    omega

/-- **no_run_after_expiry.** Once the deadliner has emitted duty `d` (its IO was deleted), no
step ever enters `qbft.Run` for `d` again: a late `Propose` / `Participate` does re-create an IO —
which nothing will delete any more, since the deadliner does not emit the duty a second time — marks
it running and returns nil after "Skipping consensus for expired/exempt duty"; late peer messages
are rejected by `handle` without creating anything. -/
theorem no_run_after_expiry (C : Crypto) (cfg : Cfg) (s : State) (d : Duty) (hexp : d ∈ s.expired) :
    (∀ op, Out.runStarted d ∉ (step C cfg s op).2) ∧
    (∀ p h dl, C.hashInner p = some h → findIO s d = none →
      (step C cfg s (.propose d p dl)).2 = [.skipped d, .ret .propose d .ok] ∧
      isRunning (step C cfg s (.propose d p dl)).1 d) ∧
    (step C cfg s (.message d)) = (s, []) := by
  refine ⟨?_, ?_, ?_⟩
  · intro op hmem
    cases step_stepRuns C cfg s op with
    | same _ hs =>
      have := hs d
      unfold startedIn at this
      have hm : Out.runStarted d ∈ (step C cfg s op).2.filter (fun o => o = .runStarted d) :=
        List.mem_filter.mpr ⟨hmem, by simp⟩
      rw [List.length_eq_zero_iff] at this
      rw [this] at hm
      cases hm
    | start d0 _ hs hne _ _ =>
      have := hs d
      by_cases hd : d = d0
      · subst hd; exact hne hexp
      · simp [hd] at this
        unfold startedIn at this
        have hm : Out.runStarted d ∈ (step C cfg s op).2.filter (fun o => o = .runStarted d) :=
          List.mem_filter.mpr ⟨hmem, by simp⟩
        rw [List.length_eq_zero_iff] at this
        rw [this] at hm
        cases hm
  · intro p h dl hh hnone
    have hg : getIO s d = { duty := d } := by unfold getIO; rw [hnone]
    simp only [step, hh, hg]
    simp only [Bool.false_eq_true, if_false, Option.isSome_none]
    rcases runInstance_cases s { duty := d, proposed := true, value := some (h, p), running := true } .propose dl with ⟨hs, _⟩ | ⟨_, hr⟩
    · exact absurd hexp (dlStatus_scheduled hs).1
    · rw [hr]
      exact ⟨rfl, _, findIO_setIO_eq s.ios _ d rfl, rfl⟩
  · simp only [step]
    simp [hexp]

/-! ### Non-vacuity -/

namespace Example

def C0 : Crypto :=
  { Digest := Unit, digest := fun _ => (), recover := fun _ _ => none
    unmarshalAny := fun v => some v, hashInner := fun x => some (x + 1000) }

def cfg0 : Cfg := { subs := 2, participateEnabled := true }
def d0 : Duty := { slot := 7, type := 3 }

/-- Participate starts the run, Propose joins it, the run decides the proposed value, both
subscribers are called once, both calls return nil; the same calls after expiry start nothing. -/
example : (trace C0 cfg0 {} [.participate d0 .scheduled, .propose d0 5 .scheduled,
      .decide d0 1005 [(1005, 5)], .ends d0, .expire d0, .propose d0 5 .scheduled, .participate d0 .scheduled]).2 =
    [.runStarted d0, .blocked .participate d0, .blocked .propose d0,
     .subCall 0 d0 5, .subCall 1 d0 5,
     .ret .participate d0 .ok, .ret .propose d0 .ok,
     .skipped d0, .ret .propose d0 .ok, .ret .participate d0 .ok] := by decide

/-- a second Propose is rejected; a decision whose value is missing calls nobody. -/
example : (trace C0 cfg0 {} [.propose d0 5 .scheduled, .propose d0 6 .scheduled, .decide d0 1006 [(1005, 5)]]).2 =
    [.runStarted d0, .blocked .propose d0, .ret .propose d0 .alreadyProposed] := by decide

end Example

end CharonV.ConsWrap
