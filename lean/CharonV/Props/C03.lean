/-
C03 — Consensus validity and integrity: decide once, never the empty value, only a value proposed
by the designated leader of some round (with no Byzantine members: some member's own input), every
decision backed by a quorum of COMMITs for exactly that round and value.

Same setting and quantifiers as `Props/C02.lean` (cluster of implementation-model nodes, any
adversary within `f`, any schedule).
-/
import CharonV.Props.C02
import CharonV.Proofs.QbftImpl2

namespace CharonV.QbftSys

open CharonV.Qbft CharonV.QbftSpec

variable {P : Params} {fifo : Nat}

/-- **Decide once**: the history holds at most one decision per member. -/
theorem decide_once (hn : 1 ≤ P.n) (hb : P.byzCount ≤ faulty P.n) {s : Sys} (h : Reach P fifo s)
    {p r v r' v' : Nat} (h1 : Ev.decide p r v ∈ s.hist) (h2 : Ev.decide p r' v' ∈ s.hist) :
    r = r' ∧ v = v' := by
  obtain ⟨t, hr, hh, _⟩ := impl_refines_spec hn hb h
  rw [← hh] at h1 h2
  exact QbftSpec.decide_event_unique hr h1 h2

/-- One step of the implementation never calls `Decide` twice, and never calls it once `qCommit`
is set (the `len(qCommit) > 0` early branch). -/
theorem decide_once_step (d : Def) (o : Oracle) (n : NodeState) (e : Event)
    (hdec : n.qCommit.isEmpty = false) : ∀ v r qc, Out.decide v r qc ∉ (step d o n e).2 := by
  intro v r qc hmem
  unfold step at hmem
  split at hmem
  · cases hmem
  · split at hmem
    · cases hmem
    · have hcore : Out.decide v r qc ∈ (stepCore d o { n with started := true } e).2 := by
        cases hsc : stepCore d o { n with started := true } e with
        | mk n' outs =>
          rw [hsc] at hmem
          simp only at hmem
          split at hmem <;> exact hmem
      cases e with
      | start =>
        simp only [stepCore, onStart, List.mem_append, List.mem_singleton] at hcore
        rcases hcore with hc | hc
        · split at hc
          · simp only [bcastOwnPrePrepare] at hc
            split at hc
            · simp at hc
            · split at hc
              · cases hc
              · simp [bcastMsg] at hc
          · cases hc
        · cases hc
      | input x =>
        simp only [stepCore, onInput] at hcore
        split at hcore
        · cases hcore
        · split at hcore
          · simp at hcore
          · simp only at hcore
            split at hcore
            · simp [bcastMsg] at hcore
            · cases hcore
      | timeout =>
        simp only [stepCore, onTimeout] at hcore
        split at hcore
        · cases hcore
        · unfold changeRound at hcore
          split at hcore <;> simp [bcastRoundChange] at hcore
      | recv m c =>
        have hq : (!({ n with started := true } : NodeState).qCommit.isEmpty) = true := by simp [hdec]
        simp only [stepCore, hq, if_true, onRecvDecided] at hcore
        split at hcore
        · split at hcore
          · simp [bcastMsg] at hcore
          · cases hcore
        · cases hcore

/-- **Decisions are backed**: a quorum of distinct members has an available COMMIT for exactly the
decided round and value. -/
theorem decide_backed (hn : 1 ≤ P.n) (hb : P.byzCount ≤ faulty P.n) {s : Sys} (h : Reach P fifo s)
    {p r v : Nat} (hd : Ev.decide p r v ∈ s.hist) : commitQuorum P s.hist r v := by
  obtain ⟨t, hr, hh, _⟩ := impl_refines_spec hn hb h
  rw [← hh] at hd ⊢
  exact QbftSpec.decide_backed hr hd

/-- **Never the empty value.** -/
theorem decide_nonzero (hn : 1 ≤ P.n) (hb : P.byzCount ≤ faulty P.n) {s : Sys} (h : Reach P fifo s)
    {p r v : Nat} (hd : Ev.decide p r v ∈ s.hist) : v ≠ 0 := by
  obtain ⟨t, hr, hh, _⟩ := impl_refines_spec hn hb h
  rw [← hh] at hd
  exact QbftSpec.decide_nonzero hn hb hr hd

/-- **Only a leader-proposed value**: the decided value was PRE-PREPAREd by the designated leader
of the decided round (available = really sent by that honest leader, or the leader is Byzantine). -/
theorem decide_leader_value (hn : 1 ≤ P.n) (hb : P.byzCount ≤ faulty P.n) {s : Sys} (h : Reach P fifo s)
    {p r v : Nat} (hd : Ev.decide p r v ∈ s.hist) :
    P.leader r < P.n ∧ avail P s.hist (P.leader r) (.prePrepare (P.leader r) r v) := by
  obtain ⟨t, hr, hh, _⟩ := impl_refines_spec hn hb h
  rw [← hh] at hd ⊢
  exact QbftSpec.decide_leader_value_round hn hb hr hd

/-- **Validity without Byzantine members**: the decided value is some member's own input. -/
theorem decide_input_no_byz (hn : 1 ≤ P.n) (hnb : ∀ i, P.byz i = false) {s : Sys} (h : Reach P fifo s)
    {p r v : Nat} (hd : Ev.decide p r v ∈ s.hist) : (∃ j, j < P.n ∧ v = P.input j) ∧ v ≠ 0 := by
  have hb : P.byzCount ≤ faulty P.n := by
    have : P.byzCount = 0 := by simp [Params.byzCount, hnb]
    omega
  obtain ⟨t, hr, hh, _⟩ := impl_refines_spec hn hb h
  rw [← hh] at hd
  have hdn := (QbftSpec.decide_event_iff hr).mp hd
  exact QbftSpec.decide_input_no_byz hn hr hnb hdn

/-- The `qcommit` list handed to `Decide` on the quorum-COMMIT path consists of COMMITs from
distinct sources for exactly the decided round and value, at least a quorum of them
(`filterByRoundAndValue`); on the DECIDED path it is the unfiltered attachment list, which
*contains* such a quorum (`isJustifiedDecided`). -/
theorem filtered_commits_sound (all : List Core) (r v : Nat) :
    ((filterByRoundAndValue all tCommit r v).map (·.src)).Nodup ∧
      ∀ c ∈ filterByRoundAndValue all tCommit r v, c ∈ all ∧ c.typ = tCommit ∧ c.round = r ∧ c.value = v :=
  ⟨filterMsgs_nodup _ _ _ _ _ _, fun c hc =>
    let h := filterMsgs_sound hc
    ⟨h.1, h.2.1, h.2.2.1, h.2.2.2.1 v rfl⟩⟩

end CharonV.QbftSys
