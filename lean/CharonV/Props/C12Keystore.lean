/-
C12 — the key shares a node stores and loads (`eth2util/keystore`: keystore.go, load.go).

C12: "each key share stored for a node corresponds to that node's public share in the lock … recombining any threshold
of a validator's shares yields the private key". `create cluster` / `dkg` write node i's shares with `StoreKeys`
(share of validator k at position k); at run time, in `combine`, `exit`, `deposit`, `add-validators` … charon reads
them back with `LoadFilesUnordered(dir).SequencedKeys()` and maps them to validators with
`KeysharesToValidatorPubkey`. The clause therefore rests on: position k written = position k read back, for any
number of keys (from 11 keys on the lexical order of `filepath.Glob` differs from the numeric one:
keystore-10.json < keystore-2.json) and whatever order the ten concurrent workers deliver the files in.

Model: `CharonV.Model.Keystore` (files, names, ordering, mapping — NOT the EIP-2335 cryptography: a keystore file is
the symbolic `ks secret password`, `decrypt (ks s p) q = some s ↔ q = p`). Helper lemmas: `CharonV.Proofs.Keystore`.
All theorems hold for every number of secrets, every listing / arrival order, every world (finite map path ↦ content).

Two statements were violated by the code as it was and are REPAIRED in /repo (the model has a switch per repair,
`Fixes`; `Fixes.current` = /repo now, `Fixes.asIs` = before):

* *`SequencedKeys` accepts iff every index 0 … k-1 occurs exactly once.* Duplicates were detected by
  `resp[idx] != zero`: a file holding the all-zero key did not mark its slot; `keystore-0.json` (zero key) and
  `keystore-00.json` (key K), delivered in this order, were accepted with the result `[K, 0]`
  (`sequenced_zero_key_duplicate_witness`, a statement about `Fixes.asIs`). Repaired by edaf179 (a `seen` slice):
  `sequenced_accepts_iff`, `sequenced_rejects_duplicate` now hold for EVERY content, the zero key included.
* *a key returned by `LoadFilesRecursively` is the secret of its keystore, decrypted with a password found below the
  directory.* With no `.txt` file at all the password loop never ran, `err` stayed nil and the zero key was returned
  without error (`recursive_zero_key_witness`, about `Fixes.asIs`). Repaired by cefbe7e ("no password files found"):
  `recursive_decrypt_sound` holds without hypothesis.

Not violations but worth knowing (stated as theorems): `Keys()` is only a permutation of what was stored
(`keys_unsequenced_is_a_permutation`, `keys_unsequenced_order_witness`); `extractFileIndex` reads the FULL path with an
unanchored expression whose `.` is a wildcard (`extract_*`, `dir_not_inert_witness`); `StoreKeys` into a directory
that still holds keystores of an earlier, longer store mixes old and new (`store_into_used_dir_mixes_witness`);
`IndexedKeyShare.Index` is the position in the slice handed in + 1, not the node's share index
(`k2v_index_is_position`; no caller in /repo reads it as a share index: cmd/exit_sign.go overwrites it with the
validator index, everything else uses `ShareIdxForCluster`); `SequencedKeys` of `LoadFilesRecursively` never succeeds
(`recursive_indices_never_sequenced`: the atomic counter starts at 1).
-/
import CharonV.Proofs.Keystore

namespace CharonV.Keystore

/-! ## (4) `extractFileIndex` as a total function on strings -/

/-- **No index.** `extractFileIndex s = -1` iff the expression `keystore-(?:insecure-)?([0-9]+).json` matches nowhere
in `s` (`MatchAt v ds`: `v` starts with `keystore-`, optionally `insecure-`, the non-empty digit string `ds`, one
arbitrary character other than a newline, `json`). -/
theorem extract_none_iff (s : Str) :
    extractFileIndex s = .idx (-1) ↔ ∀ u v ds, s = u ++ v → ¬ MatchAt v ds := by
  unfold extractFileIndex
  cases hf : findMatch s with
  | none =>
    simp only [true_iff]
    intro u v ds huv hm
    have := findMatch_none_iff.1 hf u v huv
    rw [matchAt_iff.2 hm] at this; cases this
  | some ds =>
    obtain ⟨u, v, huv, hm, _⟩ := findMatch_some_iff.1 hf
    simp only []
    constructor
    · intro h
      split at h
      · simp only [IdxRes.idx.injEq] at h; omega
      · cases h
    · intro h; exact absurd (matchAt_iff.1 hm) (h u v ds huv)

/-- **An index.** `extractFileIndex s = n` iff the LEFTMOST match of the expression in `s` captures digits of value
`n < 2^63` (leading zeros do not count: the value is what `strconv.Atoi` computes). The capture of a match position
is unique (`match_capture_unique`). -/
theorem extract_some_iff (s : Str) (n : Nat) :
    extractFileIndex s = .idx n ↔
      ∃ u v ds, s = u ++ v ∧ MatchAt v ds ∧ (∀ u1 u2 ds', u = u1 ++ u2 → u2 ≠ [] → ¬ MatchAt (u2 ++ v) ds') ∧
        parseDec ds = n ∧ n < 2 ^ 63 := by
  unfold extractFileIndex
  constructor
  · intro h
    cases hf : findMatch s with
    | none => rw [hf] at h; simp only [IdxRes.idx.injEq] at h; omega
    | some ds =>
      rw [hf] at h
      simp only [] at h
      obtain ⟨u, v, huv, hm, he⟩ := findMatch_some_iff.1 hf
      split at h
      · rename_i hlt
        simp only [IdxRes.idx.injEq, Int.natCast_inj] at h
        refine ⟨u, v, ds, huv, matchAt_iff.1 hm, ?_, h, by omega⟩
        intro u1 u2 ds' h12 hne hm'
        have := he u1 u2 h12 hne
        rw [matchAt_iff.2 hm'] at this; cases this
      · cases h
  · rintro ⟨u, v, ds, huv, hm, he, hp, hn⟩
    have : findMatch s = some ds := findMatch_some_iff.2 ⟨u, v, huv, matchAt_iff.2 hm, fun u1 u2 h12 hne => by
      cases hx : matchAt (u2 ++ v) with
      | none => rfl
      | some d => exact absurd (matchAt_iff.1 hx) (he u1 u2 d h12 hne)⟩
    rw [this]
    simp [hp, hn]

/-- **The error.** `extractFileIndex` fails ("unexpected regex error") iff the leftmost match captures digits of value
`≥ 2^63` — `LoadFilesUnordered` then fails as a whole. -/
theorem extract_err_iff (s : Str) :
    extractFileIndex s = .err ↔
      ∃ u v ds, s = u ++ v ∧ MatchAt v ds ∧ (∀ u1 u2 ds', u = u1 ++ u2 → u2 ≠ [] → ¬ MatchAt (u2 ++ v) ds') ∧
        2 ^ 63 ≤ parseDec ds := by
  unfold extractFileIndex
  constructor
  · intro h
    cases hf : findMatch s with
    | none => rw [hf] at h; cases h
    | some ds =>
      rw [hf] at h
      simp only [] at h
      obtain ⟨u, v, huv, hm, he⟩ := findMatch_some_iff.1 hf
      split at h
      · cases h
      · rename_i hge
        refine ⟨u, v, ds, huv, matchAt_iff.1 hm, ?_, by omega⟩
        intro u1 u2 ds' h12 hne hm'
        have := he u1 u2 h12 hne
        rw [matchAt_iff.2 hm'] at this; cases this
  · rintro ⟨u, v, ds, huv, hm, he, hp⟩
    have : findMatch s = some ds := findMatch_some_iff.2 ⟨u, v, huv, matchAt_iff.2 hm, fun u1 u2 h12 hne => by
      cases hx : matchAt (u2 ++ v) with
      | none => rfl
      | some d => exact absurd (matchAt_iff.1 hx) (he u1 u2 d h12 hne)⟩
    rw [this]
    have : ¬ parseDec ds < 2 ^ 63 := by omega
    simp [this]

/-- the capture group at a match position is unique (greedy digits, at most one digit given back to the `.`). -/
theorem match_capture_unique {v ds ds' : Str} (h : MatchAt v ds) (h' : MatchAt v ds') : ds = ds' := by
  have a := matchAt_iff.2 h
  rw [matchAt_iff.2 h'] at a
  exact (Option.some.inj a).symm

/-- **Leading zeros are dropped**: `keystore-<zeros><i>.json` (and the insecure variant) has index `i` — two
files `keystore-1.json` and `keystore-01.json` carry the same index. -/
theorem extract_ignores_leading_zeros (b : Bool) (z i : Nat) (hi : i < 2 ^ 63) :
    extractFileIndex (ksP ++ ((if b then insP else []) ++ ((List.replicate z '0' ++ toDec i) ++ dotJson))) = .idx i := by
  have hpz : ∀ z, parseDec (List.replicate z '0' ++ toDec i) = i := by
    intro z
    induction z with
    | zero => simpa using parseDec_toDec i
    | succ z ih =>
      have hd0 : (0 * 10 + digitVal '0') = 0 := by decide
      simp only [List.replicate_succ, List.cons_append, parseDec, List.foldl_cons, hd0]
      simpa [parseDec] using ih
  have hm : MatchAt (ksP ++ ((if b then insP else []) ++ ((List.replicate z '0' ++ toDec i) ++ dotJson)))
      (List.replicate z '0' ++ toDec i) :=
    ⟨if b then insP else [], '.', [], by cases b <;> simp, by simp [toDec_ne_nil],
      by
        intro x hx
        rcases List.mem_append.1 hx with hx | hx
        · rw [List.eq_of_mem_replicate hx]; decide
        · exact toDec_digits i x hx,
      by decide, by simp [dotJson, jsonW]⟩
  unfold extractFileIndex
  rw [findMatch_of_matchAt (matchAt_iff.2 hm)]
  simp only [hpz z, hi, if_true]

/-- **The names `StoreKeys` / `StoreKeysInsecure` write carry their index**, in every directory whose own path is
invisible to the expression (`DirInert`; `dir_inert_of_no_occurrence` gives a syntactic criterion). -/
theorem extract_store_name {dir : Str} (hd : DirInert dir) (b : Bool) (i : Nat) (hi : i < 2 ^ 63) :
    extractFileIndex (join dir (storeName b i)) = .idx i :=
  extract_storeName hd b i hi

/-- a directory path in which neither `keystore-` nor `.json` occurs is inert. -/
theorem dir_inert_of_no_occurrence {dir : Str} (h1 : noOcc ksP dir = true) (h2 : noOcc dotJson dir = true) :
    DirInert dir :=
  dirInert_of_noOcc h1 h2

example : DirInert ".charon/cluster/node0/validator_keys".toList := dir_inert_of_no_occurrence (by decide) (by decide)

-- what the expression does with adversarial names (all decided by the kernel on the model)
example : extractFileIndex "keystore-1.json".toList = .idx 1 := by decide
example : extractFileIndex "keystore-01.json".toList = .idx 1 := by decide
example : extractFileIndex "keystore-insecure-3.json".toList = .idx 3 := by decide
example : extractFileIndex "keystore-insecure-insecure-3.json".toList = .idx (-1) := by decide
example : extractFileIndex "keystore-+1.json".toList = .idx (-1) := by decide
example : extractFileIndex "keystore--1.json".toList = .idx (-1) := by decide
example : extractFileIndex "keystore-.json".toList = .idx (-1) := by decide
example : extractFileIndex "keystore-foo.json".toList = .idx (-1) := by decide
example : extractFileIndex "keystore-5xjson".toList = .idx 5 := by decide            -- the `.` is a wildcard
example : extractFileIndex "keystore-12json.json".toList = .idx 1 := by decide       -- … that may eat a digit
example : extractFileIndex "keystore-1-keystore-2.json".toList = .idx 2 := by decide -- not anchored
example : extractFileIndex "akeystore-4.jsonb".toList = .idx 4 := by decide
example : extractFileIndex "keystore-9223372036854775807.json".toList = .idx 9223372036854775807 := by decide
example : extractFileIndex "keystore-9223372036854775808.json".toList = .err := by decide

/-- **The directory is part of the string**: in `x/keystore-7.json.d/` every file has index 7 — such a directory is
not inert (and `SequencedKeys` then rejects it: never a silent reordering, see `sequenced_rejects_out_of_range`). -/
theorem dir_not_inert_witness :
    extractFileIndex (join "x/keystore-7.json.d".toList (storeName false 0)) = .idx 7 ∧
    extractFileIndex (join "x/keystore-7.json.d".toList "keystore-foo.json".toList) = .idx 7 ∧
    pwFileOf (join "a.json".toList (storeName false 0)) = "a.txt/keystore-0.json".toList := by
  decide

/-! ## (2) `SequencedKeys` -/

/-- **`SequencedKeys` accepts iff the file indices are exactly 0 … k-1, each once** (every content, zero key included):
every index within `[0, k)` and no index twice — which for `k` files is: the indices are a permutation of
`0 … k-1`. -/
theorem sequenced_accepts_iff (k : List KeyFile) :
    (∃ r, sequencedKeys k = .ok r) ↔ (k.map (·.fileIndex)).Perm ((List.range k.length).map Int.ofNat) := by
  constructor
  · rintro ⟨r, h⟩
    obtain ⟨h1, h2, _⟩ := (sequencedKeys_ok_iff k r).1 h
    have hp := ix_perm_range h1 h2
    have : k.map (·.fileIndex) = (k.map KeyFile.ix).map Int.ofNat := by
      rw [List.map_map]
      apply List.map_congr_left
      intro f hf
      have := (h1 f hf).1
      simp only [Function.comp, KeyFile.ix, Int.ofNat_eq_natCast]; omega
    rw [this]
    exact hp.map _
  · intro hp
    have h1 : ∀ f ∈ k, 0 ≤ f.fileIndex ∧ f.fileIndex < k.length := by
      intro f hf
      have := (hp.mem_iff).1 (List.mem_map.2 ⟨f, hf, rfl⟩)
      simp only [List.mem_map, List.mem_range] at this
      obtain ⟨a, ha, he⟩ := this
      rw [← he]; simp only [Int.ofNat_eq_natCast]; omega
    have h2 : (k.map (·.fileIndex)).Nodup :=
      (hp.nodup_iff).2 (List.Nodup.map (fun a b h => Int.ofNat.inj h) List.nodup_range)
    exact ⟨_, (sequencedKeys_ok_iff k _).2 ⟨h1, (nodup_ix_iff (fun f hf => (h1 f hf).1)).2 h2, rfl⟩⟩

example : ∃ r, sequencedKeys [⟨7, [], 1⟩, ⟨8, [], 0⟩] = .ok r := ⟨[8, 7], by decide⟩

/-- **The accepted result puts every key at its file's index, drops none, adds none**: `r` has as many entries as
there are files, `r[idx f] = key f` for every file, and `r` is a permutation of `Keys()`. -/
theorem sequenced_result (k : List KeyFile) (r : List Nat) (h : sequencedKeys k = .ok r) :
    r.length = k.length ∧ (∀ f ∈ k, r[f.fileIndex.toNat]? = some f.secret) ∧ r.Perm (keys k) := by
  obtain ⟨h1, h2, h3⟩ := (sequencedKeys_ok_iff k r).1 h
  have hlen : r.length = k.length := by rw [h3, length_setAll]; simp
  have hget : ∀ f ∈ k, r.getD f.ix 0 = f.secret := by
    rw [h3]
    exact setAll_get k _ h2 (fun f hf => by have := h1 f hf; simp [KeyFile.ix]; omega)
  have hget' : ∀ f ∈ k, r[f.fileIndex.toNat]? = some f.secret := by
    intro f hf
    have hlt : f.fileIndex.toNat < r.length := by have := h1 f hf; omega
    have := hget f hf
    simp only [KeyFile.ix, List.getD_eq_getElem?_getD, List.getElem?_eq_getElem hlt, Option.getD_some] at this
    rw [List.getElem?_eq_getElem hlt, this]
  refine ⟨hlen, hget', ?_⟩
  have hp := ix_perm_range h1 h2
  have e1 : r = (List.range k.length).map (fun j => r.getD j 0) := by
    apply List.ext_getElem
    · simp [hlen]
    · intro j a b
      simp [List.getD_eq_getElem?_getD, List.getElem?_eq_getElem a]
  have e2 : (k.map KeyFile.ix).map (fun j => r.getD j 0) = keys k := by
    rw [List.map_map]
    apply List.map_congr_left
    intro f hf; exact hget f hf
  rw [e1, ← e2]
  exact (hp.map _).symm

/-- **Never silently reordered**: the result does not depend on the order in which the files arrive. -/
theorem sequenced_order_independent (k k' : List KeyFile) (r : List Nat)
    (hp : k.Perm k') (h : sequencedKeys k = .ok r) : sequencedKeys k' = .ok r := by
  obtain ⟨h1, h2, h3⟩ := (sequencedKeys_ok_iff k r).1 h
  have hl := hp.length_eq
  have h1' : ∀ f ∈ k', 0 ≤ f.fileIndex ∧ f.fileIndex < k'.length := by
    intro f hf; rw [← hl]; exact h1 f ((hp.mem_iff).2 hf)
  have h2' : (k'.map KeyFile.ix).Nodup := ((hp.map KeyFile.ix).nodup_iff).1 h2
  rw [sequencedKeys_ok_iff k' r]
  refine ⟨h1', h2', ?_⟩
  have hpr := ix_perm_range h1' h2'
  have hsr := sequenced_result k r h
  symm
  apply getD_setAll_of_perm hpr
  · intro f hf
    have hf' := (hp.mem_iff).2 hf
    have hlt : f.fileIndex.toNat < r.length := by have := h1 f hf'; rw [hsr.1]; omega
    have := hsr.2.1 f hf'
    simp only [KeyFile.ix, List.getD_eq_getElem?_getD, this, Option.getD_some]
  · rw [hsr.1, hl]

/-- **A file without index, or with an index outside `[0, k)` (a gap), is rejected** — for every content, the
all-zero key included, wherever it is in the arrival order. -/
theorem sequenced_rejects_out_of_range (k : List KeyFile)
    (h : ∃ f ∈ k, f.fileIndex < 0 ∨ f.fileIndex ≥ k.length) : ∃ e, sequencedKeys k = .error e :=
  seqLoop_rejects _ _ _ _ _ h

/-- **A duplicate index is rejected**, whatever the files hold and in whatever order they arrive. -/
theorem sequenced_rejects_duplicate (k : List KeyFile)
    (h : ¬ (k.map (·.fileIndex)).Nodup) : ∃ e, sequencedKeys k = .error e := by
  cases hs : sequencedKeys k with
  | error e => exact ⟨e, rfl⟩
  | ok r =>
    exfalso
    have hp := (sequenced_accepts_iff k).1 ⟨r, hs⟩
    exact h ((hp.nodup_iff).2 (List.Nodup.map (fun a b h => Int.ofNat.inj h) List.nodup_range))

example : sequencedKeys [⟨7, "keystore-1.json".toList, 1⟩, ⟨8, "keystore-01.json".toList, 1⟩] = .error .duplicate := by
  decide
example : sequencedKeys [⟨7, [], 0⟩, ⟨8, [], 2⟩] = .error .outOfSequence := by decide
example : sequencedKeys [⟨7, [], 0⟩, ⟨8, [], -1⟩] = .error .unknownIndex := by decide

/-- **Before repair edaf179 (`Fixes.asIs`): the all-zero key defeated the duplicate check.** Two files with index 0,
the first holding the zero key: accepted, and the slot of the missing index 1 returned as a zero key; in the other
arrival order the same two files were rejected. The code as it is now rejects both orders. -/
theorem sequenced_zero_key_duplicate_witness :
    sequencedKeysWith Fixes.asIs [⟨0, "keystore-0.json".toList, 0⟩, ⟨5, "keystore-00.json".toList, 0⟩] = .ok [5, 0] ∧
    sequencedKeysWith Fixes.asIs [⟨5, "keystore-00.json".toList, 0⟩, ⟨0, "keystore-0.json".toList, 0⟩] = .error .duplicate ∧
    sequencedKeys [⟨0, "keystore-0.json".toList, 0⟩, ⟨5, "keystore-00.json".toList, 0⟩] = .error .duplicate ∧
    sequencedKeys [⟨5, "keystore-00.json".toList, 0⟩, ⟨0, "keystore-0.json".toList, 0⟩] = .error .duplicate := by
  decide

/-! ## (1) the round trip `StoreKeys` → `LoadFilesUnordered` → `SequencedKeys` -/

/-- **Round trip.** Store `secrets` (any number, in particular ≥ 11) with fresh passwords `pws` into a directory that
holds no `keystore-*.json` yet, in a world that is a finite map, under a directory path that is inert. If `StoreKeys`
succeeds then for EVERY order in which the loaded files arrive (`order`: any permutation of the glob result)
`LoadFilesUnordered` succeeds and `SequencedKeys` returns exactly `secrets`, in the same order. (Assumption:
`decrypt (encrypt s pw) pw = s`, built into the model's `decrypt`.) -/
theorem roundtrip_sequenced {w w' : World} {dir : Str} {b : Bool} {secrets pws : List Nat}
    (hd : DirInert dir) (hwf : WF w) (hg : glob w dir = []) (hlen : pws.length = secrets.length)
    (hb : secrets.length ≤ 2 ^ 63) (hne : secrets ≠ []) (hs : storeKeys w dir b secrets pws = (w', none))
    (order : List Str) (ho : order.Perm (glob w' dir)) :
    ∃ kfs, loadFilesUnordered w' dir order = .ok kfs ∧ sequencedKeys kfs = .ok secrets := by
  obtain ⟨kfs, h1, h2, _, _⟩ := roundtrip_load hd hwf hg hlen hb hne hs order ho
  exact ⟨kfs, h1, h2⟩

/-- **`Keys()` (unsequenced) is a permutation of what was stored — and nothing more**: the files come back in the
arrival order `order`, whatever it is. -/
theorem keys_unsequenced_is_a_permutation {w w' : World} {dir : Str} {b : Bool} {secrets pws : List Nat}
    (hd : DirInert dir) (hwf : WF w) (hg : glob w dir = []) (hlen : pws.length = secrets.length)
    (hb : secrets.length ≤ 2 ^ 63) (hne : secrets ≠ []) (hs : storeKeys w dir b secrets pws = (w', none))
    (order : List Str) (ho : order.Perm (glob w' dir)) :
    ∃ kfs, loadFilesUnordered w' dir order = .ok kfs ∧ (keys kfs).Perm secrets ∧ kfs.map (·.filename) = order := by
  obtain ⟨kfs, h1, _, h3, h4⟩ := roundtrip_load hd hwf hg hlen hb hne hs order ho
  exact ⟨kfs, h1, h3, h4⟩

/-- the world of the examples: an empty directory `d`. -/
def exWorld : World := [("d".toList, .dir)]
def exSecrets : List Nat := [101, 102, 103, 104, 105, 106, 107, 108, 109, 110, 111, 112]
def exPws : List Nat := [1, 2, 3, 4, 5, 6, 7, 8, 9, 10, 11, 12]
/-- the file of secret `s` stored at index `i` of `d`. -/
def exFile (s i : Nat) : KeyFile := ⟨s, join "d".toList (storeName false i), i⟩
/-- lexical listing of twelve stored files: 0, 1, 10, 11, 2, … -/
def exLexical : List Str := [0, 1, 10, 11, 2, 3, 4, 5, 6, 7, 8, 9].map (fun i => join "d".toList (storeName false i))

-- non-vacuity of the round trip: twelve secrets, the hypotheses hold, the store succeeds
example : DirInert "d".toList ∧ WF exWorld ∧ glob exWorld "d".toList = [] ∧
    (storeKeys exWorld "d".toList false exSecrets exPws).2 = none ∧
    exLexical.Perm (glob (storeKeys exWorld "d".toList false exSecrets exPws).1 "d".toList) := by
  refine ⟨dir_inert_of_no_occurrence (by decide) (by decide), by unfold WF; decide, by decide, by decide, ?_⟩
  decide

/-- **With twelve keys the lexical listing order gives `Keys()` in another order than stored** (keystore-10.json
sorts before keystore-2.json) while `SequencedKeys` restores it. -/
theorem keys_unsequenced_order_witness :
    ∃ kfs, loadFilesUnordered (storeKeys exWorld "d".toList false exSecrets exPws).1 "d".toList exLexical = .ok kfs ∧
      keys kfs = [101, 102, 111, 112, 103, 104, 105, 106, 107, 108, 109, 110] ∧ keys kfs ≠ exSecrets ∧
      sequencedKeys kfs = .ok exSecrets := by
  refine ⟨[exFile 101 0, exFile 102 1, exFile 111 10, exFile 112 11, exFile 103 2, exFile 104 3, exFile 105 4,
    exFile 106 5, exFile 107 6, exFile 108 7, exFile 109 8, exFile 110 9], by decide, by decide, by decide, by decide⟩

/-- **Storing nothing**: `StoreKeys(nil)` succeeds and writes nothing; loading the directory then fails with
"no keys found" (it does not return an empty list). -/
theorem roundtrip_empty (w : World) (dir : Str) (b : Bool) (hc : checkDir w dir = none) (hg : glob w dir = []) :
    storeKeys w dir b [] [] = (w, none) ∧ loadFilesUnordered w dir (glob w dir) = .error .noKeys := by
  constructor
  · simp [storeKeys, hc, storeSome, storeFrom]
  · simp [loadFilesUnordered, hg]

/-- **`checkDir` is the only precondition `StoreKeys` checks**: a missing directory or a file in its place is an
error and nothing is written; an existing directory is written into whatever it contains. -/
theorem store_checks_dir_only (w : World) (dir : Str) (b : Bool) (secrets pws : List Nat) :
    (checkDir w dir = some .notExist → storeKeys w dir b secrets pws = (w, some .dirNotExist)) ∧
    (checkDir w dir = some .notDir → storeKeys w dir b secrets pws = (w, some .dirNotDir)) := by
  constructor <;> intro h <;> simp [storeKeys, h]

/-- **Storing into a directory that still holds a longer, earlier store mixes old and new**: after 3 keys, a store of
1 key succeeds (the process may overwrite) and `SequencedKeys` returns the new key followed by the two OLD ones.
Callers keep this from happening: create cluster, dkg and combine write into directories they have just created or
checked to be empty. -/
theorem store_into_used_dir_mixes_witness :
    let w1 := (storeKeys exWorld "d".toList false [101, 102, 103] [1, 2, 3]).1
    let r := storeKeys w1 "d".toList false [201] [4]
    r.2 = none ∧
    ∃ kfs, loadFilesUnordered r.1 "d".toList (glob r.1 "d".toList) = .ok kfs ∧ sequencedKeys kfs = .ok [201, 102, 103] := by
  refine ⟨by decide, [exFile 201 0, exFile 103 2, exFile 102 1], by decide, by decide⟩

/-! ## (3) `KeysharesToValidatorPubkey` -/

/-- **It succeeds iff none of the error conditions holds**: no public share is listed under two different validators
of the lock; every provided private share has a public key (`tbls.SecretToPublicKey` succeeds) that is listed in the
lock; no two provided shares resolve to the same validator. -/
theorem k2v_accepts_iff (pub : Nat → Option Nat) (lock : Lock) (shares : List Nat) :
    (∃ out, keysharesToValidator pub lock shares = .ok out) ↔
      NoCrossDup lock ∧ (∀ s ∈ shares, (resolve pub lock s).isSome) ∧ (shares.map (resolve pub lock)).Nodup := by
  constructor
  · rintro ⟨out, h⟩
    obtain ⟨h1, h2, h3, _⟩ := (k2v_ok_iff pub lock shares out).1 h
    exact ⟨h1, h2, h3⟩
  · rintro ⟨h1, h2, h3⟩
    obtain ⟨m, hm⟩ := (buildShareMap_some_iff lock).2 h1
    exact ⟨_, (k2v_ok_iff pub lock shares _).2 ⟨h1, h2, h3, m, hm, rfl⟩⟩

/-- the three error conditions, one by one, on the smallest inputs. -/
example : keysharesToValidator (fun s => some s) [⟨1, [10]⟩, ⟨2, [10]⟩] [10] = .error .dupPubShare := by decide
example : keysharesToValidator (fun s => some s) [⟨1, [10]⟩, ⟨2, [20]⟩] [10, 30] = .error (.notFound 1) := by decide
example : keysharesToValidator (fun s => some s) [⟨1, [10, 11]⟩, ⟨2, [20]⟩] [10, 20, 11] = .error (.multiple 2) := by
  decide
example : keysharesToValidator (fun s => if s = 0 then none else some s) [⟨1, [10]⟩] [0] = .error (.badShare 0) := by
  decide
example : ∃ out, keysharesToValidator (fun s => some s) [⟨1, [10, 11]⟩, ⟨2, [20, 21]⟩] [21, 10] = .ok out :=
  ⟨[(2, ⟨21, 1⟩), (1, ⟨10, 2⟩)], by decide⟩

/-- **Every returned pair is right**: if `validator ↦ share` is returned then the share's public key is one of the
public shares the lock lists for that validator. -/
theorem k2v_sound (pub : Nat → Option Nat) (lock : Lock) (shares : List Nat) (out : List (Nat × IndexedKeyShare))
    (h : keysharesToValidator pub lock shares = .ok out) :
    ∀ x ∈ out, ∃ val ∈ lock, val.pubkey = x.1 ∧ ∃ p, pub x.2.share = some p ∧ p ∈ val.pubshares := by
  obtain ⟨hn, h2, _, m, hm, rfl⟩ := (k2v_ok_iff pub lock shares out).1 h
  intro x hx
  obtain ⟨hs, hv⟩ := mkOut_mem hx
  have hsome := h2 _ hs
  unfold resolve at hsome
  cases hp : pub x.2.share with
  | none => simp [hp] at hsome
  | some p =>
    simp only [hp, Option.bind_some] at hsome hv
    cases ho : owner? lock p with
    | none => simp [ho] at hsome
    | some v =>
      rw [mlookup_eq_owner hm, ho] at hv
      obtain ⟨val, hval, hk, hpm⟩ := (owner?_eq_some_iff hn p v).1 ho
      exact ⟨val, hval, by rw [hk, hv]; rfl, p, rfl, hpm⟩

/-- **Every input share is used exactly once, no validator twice, and `Index` is the position + 1**: in insertion
order the result lists exactly the provided shares, with the indices 1, 2, …, under pairwise different validators.
`Index` is the position in the slice handed in — NOT the node's share index in the cluster. -/
theorem k2v_uses_every_share_once (pub : Nat → Option Nat) (lock : Lock) (shares : List Nat)
    (out : List (Nat × IndexedKeyShare)) (h : keysharesToValidator pub lock shares = .ok out) :
    out.map (·.2.share) = shares ∧ out.map (·.2.index) = (List.range shares.length).map (· + 1) ∧
      (out.map (·.1)).Nodup := by
  obtain ⟨_, h2, h3, m, hm, rfl⟩ := (k2v_ok_iff pub lock shares out).1 h
  obtain ⟨a, b, c⟩ := mkOut_shares pub m shares 0
  refine ⟨a, by simpa using b, ?_⟩
  rw [c]
  have hres : ∀ s, (pub s).bind (mlookup m) = resolve pub lock s := by
    intro s; unfold resolve
    cases pub s with
    | none => rfl
    | some p => simp [mlookup_eq_owner hm]
  simp only [hres]
  have := (nodup_getD_iff (l := shares.map (resolve pub lock)) (by simpa using h2)).2 h3
  simpa [List.map_map, Function.comp_def] using this

/-- `Index` is the position, not a share index: node 3 of a cluster hands in its only share and gets `Index = 1`. -/
theorem k2v_index_is_position :
    keysharesToValidator (fun s => some s) [⟨1, [11, 12, 13]⟩] [13] = .ok [(1, ⟨13, 1⟩)] := by decide

/-- **Composition with create-cluster's placement.** A lock with `V` validators (different keys `vk k`) and `N` nodes
whose public shares are the public keys `P k i` of the shares `sh k i` (all different), and node `i`'s key list
`[sh 0 i, …, sh (V-1) i]` — what `SequencedKeys` returns for node `i`'s directory (`roundtrip_sequenced`; create
cluster's `writeKeysToDisk` stores `shareSets[k][i]` at position `k`): the mapping succeeds and every validator gets
its OWN share of node `i` (with `Index = k + 1`). -/
theorem placement_maps_own_share (pub : Nat → Option Nat) (V N : Nat) (vk : Nat → Nat) (sh P : Nat → Nat → Nat)
    (hpub : ∀ k < V, ∀ i < N, pub (sh k i) = some (P k i))
    (hP : ∀ k < V, ∀ i < N, ∀ k' < V, ∀ i' < N, P k i = P k' i' → k = k' ∧ i = i')
    (hvk : ∀ k < V, ∀ k' < V, vk k = vk k' → k = k') (i : Nat) (hi : i < N) :
    ∃ out, keysharesToValidator pub ((List.range V).map (fun k => ⟨vk k, (List.range N).map (P k)⟩))
        ((List.range V).map (fun k => sh k i)) = .ok out ∧
      ∀ k < V, rlookup out (vk k) = some ⟨sh k i, k + 1⟩ := by
  have hmemL : ∀ val, val ∈ (List.range V).map (fun k => (⟨vk k, (List.range N).map (P k)⟩ : Validator)) ↔
      ∃ k < V, val = ⟨vk k, (List.range N).map (P k)⟩ := by
    intro val; simp only [List.mem_map, List.mem_range]
    constructor
    · rintro ⟨k, hk, rfl⟩; exact ⟨k, hk, rfl⟩
    · rintro ⟨k, hk, rfl⟩; exact ⟨k, hk, rfl⟩
  have hn : NoCrossDup ((List.range V).map (fun k => (⟨vk k, (List.range N).map (P k)⟩ : Validator))) := by
    intro v1 h1 v2 h2 p hp1 hp2
    obtain ⟨k1, hk1, rfl⟩ := (hmemL v1).1 h1
    obtain ⟨k2, hk2, rfl⟩ := (hmemL v2).1 h2
    simp only [List.mem_map, List.mem_range] at hp1 hp2
    obtain ⟨i1, hi1, rfl⟩ := hp1
    obtain ⟨i2, hi2, he⟩ := hp2
    have := (hP k2 hk2 i2 hi2 k1 hk1 i1 hi1 he).1
    rw [this]
  obtain ⟨m, hm⟩ := (buildShareMap_some_iff _).2 hn
  have hval : ∀ k < V, ((pub (sh k i)).bind (mlookup m)).getD 0 = vk k := by
    intro k hk
    have : mlookup m (P k i) = some (vk k) :=
      (buildShareMap_lookup hm (P k i) (vk k)).2 ⟨⟨vk k, (List.range N).map (P k)⟩, (hmemL _).2 ⟨k, hk, rfl⟩, rfl,
        List.mem_map.2 ⟨i, List.mem_range.2 hi, rfl⟩⟩
    simp [hpub k hk i hi, this]
  have hmapv : ((List.range V).map (fun k => sh k i)).map (fun s => ((pub s).bind (mlookup m)).getD 0) =
      (List.range V).map vk := by
    rw [List.map_map]
    apply List.map_congr_left
    intro k hk; exact hval k (List.mem_range.1 hk)
  have hnd : (((List.range V).map (fun k => sh k i)).map (fun s => ((pub s).bind (mlookup m)).getD 0)).Nodup := by
    rw [hmapv]
    apply List.Nodup.map_on _ List.nodup_range
    intro a ha c hc h
    exact hvk a (List.mem_range.1 ha) c (List.mem_range.1 hc) h
  refine ⟨mkOut pub m ((List.range V).map (fun k => sh k i)) 0, ?_, ?_⟩
  · unfold keysharesToValidator
    rw [hm]
    simp only []
    rw [mapShares_ok_iff]
    refine ⟨?_, hnd, by simp, by simp⟩
    intro s hs
    simp only [List.mem_map, List.mem_range] at hs
    obtain ⟨k, hk, rfl⟩ := hs
    have : mlookup m (P k i) = some (vk k) :=
      (buildShareMap_lookup hm (P k i) (vk k)).2 ⟨⟨vk k, (List.range N).map (P k)⟩, (hmemL _).2 ⟨k, hk, rfl⟩, rfl,
        List.mem_map.2 ⟨i, List.mem_range.2 hi, rfl⟩⟩
    simp [hpub k hk i hi, this]
  · intro k hk
    have hlen : k < ((List.range V).map (fun k => sh k i)).length := by simpa using hk
    have := rlookup_mkOut pub m ((List.range V).map (fun k => sh k i)) 0 hnd k hlen
    simp only [List.getElem_map, List.getElem_range, Nat.zero_add] at this
    rw [hval k hk] at this
    exact this

-- non-vacuity: 12 validators, 4 nodes, node 2
example : ∃ out, keysharesToValidator (fun s => some (s + 1000))
    ((List.range 12).map (fun k => ⟨500 + k, (List.range 4).map (fun i => 10 * k + i + 1000)⟩))
    ((List.range 12).map (fun k => 10 * k + 2)) = .ok out ∧ ∀ k < 12, rlookup out (500 + k) = some ⟨10 * k + 2, k + 1⟩ :=
  placement_maps_own_share (fun s => some (s + 1000)) 12 4 (fun k => 500 + k) (fun k i => 10 * k + i)
    (fun k i => 10 * k + i + 1000) (by intros; rfl) (by intros; omega) (by intros; omega) 2 (by omega)

/-- **Store, load, sequence, map: a node finds its own share of every validator.** Node `i`'s shares of `V ≥ 1`
validators stored into an empty, inert directory; then for every arrival order of the loaded files the sequenced keys
map every validator `k` of the lock to `sh k i`. -/
theorem create_cluster_node_finds_own_shares (pub : Nat → Option Nat) (V N : Nat) (vk : Nat → Nat) (sh P : Nat → Nat → Nat)
    (hpub : ∀ k < V, ∀ i < N, pub (sh k i) = some (P k i))
    (hP : ∀ k < V, ∀ i < N, ∀ k' < V, ∀ i' < N, P k i = P k' i' → k = k' ∧ i = i')
    (hvk : ∀ k < V, ∀ k' < V, vk k = vk k' → k = k') (i : Nat) (hi : i < N) (hV : 0 < V) (hV2 : V ≤ 2 ^ 63)
    {w w' : World} {dir : Str} {b : Bool} {pws : List Nat}
    (hd : DirInert dir) (hwf : WF w) (hg : glob w dir = []) (hlen : pws.length = V)
    (hs : storeKeys w dir b ((List.range V).map (fun k => sh k i)) pws = (w', none))
    (order : List Str) (ho : order.Perm (glob w' dir)) :
    ∃ kfs seq out, loadFilesUnordered w' dir order = .ok kfs ∧ sequencedKeys kfs = .ok seq ∧
      keysharesToValidator pub ((List.range V).map (fun k => ⟨vk k, (List.range N).map (P k)⟩)) seq = .ok out ∧
      ∀ k < V, rlookup out (vk k) = some ⟨sh k i, k + 1⟩ := by
  obtain ⟨kfs, h1, h2⟩ := roundtrip_sequenced hd hwf hg (by simpa using hlen) (by simpa using hV2)
    (by intro h; have := congrArg List.length h; simp at this; omega) hs order ho
  obtain ⟨out, h3, h4⟩ := placement_maps_own_share pub V N vk sh P hpub hP hvk i hi
  exact ⟨kfs, _, out, h1, h2, h3, h4⟩

/-! ## `ShareIdxForCluster` -/

/-- **The share index of a node is its operator position + 1** (the first position of its peer id in the lock's
operator list), `none` ("node index for loaded enr not found in cluster lock") iff the identity key is no operator. -/
theorem share_idx_is_operator_position (pids : List Nat) (key : Nat) :
    shareIdxForCluster pids key = (pids.findIdx? (· = key)).map (· + 1) := by
  unfold shareIdxForCluster
  rw [shareIdxLoop_eq]
  split
  · rfl
  · rename_i h
    have : pids.findIdx? (· = key) = none := by
      rw [List.findIdx?_eq_none_iff]
      intro x hx; simp only [decide_eq_false_iff_not]; intro he; exact h (he ▸ hx)
    simp [this]

example : shareIdxForCluster [7, 8, 9] 9 = some 3 := by decide
example : shareIdxForCluster [7, 8, 9] 5 = none := by decide

/-! ## `LoadFilesRecursively` -/

/-- **The order in which the password map is ranged over does not matter** (either variant). -/
theorem recursive_decrypt_order_independent (fx : Fixes) (c : Content) (own : Option (Option Nat))
    (others others' : List (Option Nat)) (hp : others.Perm others') :
    recDecrypt fx c own others = recDecrypt fx c own others' := by
  have hnil : others = [] ↔ others' = [] := by
    constructor <;> intro h0
    · have := hp.length_eq; rw [h0] at this; exact List.eq_nil_of_length_eq_zero this.symm
    · have := hp.length_eq; rw [h0] at this; exact List.eq_nil_of_length_eq_zero this
  have key : ∀ f, tryOthers c others f = tryOthers c others' f := by
    intro f
    by_cases h : ∃ p ∈ others, ∃ s, decrypt c p = some s
    · obtain ⟨p, hp1, s, hs⟩ := h
      rw [tryOthers_found f ⟨p, hp1, hs⟩, tryOthers_found f ⟨p, (hp.mem_iff).1 hp1, hs⟩]
    · have h1 : ∀ p ∈ others, decrypt c p = none := by
        intro p hp1
        cases hd : decrypt c p with
        | none => rfl
        | some s => exact absurd ⟨p, hp1, s, hd⟩ h
      have h2 : ∀ p ∈ others', decrypt c p = none := fun p hp2 => h1 p ((hp.mem_iff).2 hp2)
      rw [tryOthers_none f h1, tryOthers_none f h2]
      by_cases h0 : others = []
      · simp [h0, hnil.1 h0]
      · have h0' : others' ≠ [] := fun h' => h0 (hnil.2 h')
        simp [h0, h0']
  have hrest : ∀ f, recRest fx c others f = recRest fx c others' f := by
    intro f
    unfold recRest
    have he : others.isEmpty = others'.isEmpty := by
      by_cases h0 : others = []
      · rw [h0, hnil.1 h0]
      · have h0' : others' ≠ [] := fun h' => h0 (hnil.2 h')
        rw [List.isEmpty_eq_false_iff.2 h0, List.isEmpty_eq_false_iff.2 h0']
    rw [he, key f]
  cases own with
  | none => simp only [recDecrypt]; exact hrest false
  | some p =>
    simp only [recDecrypt]
    cases decrypt c p with
    | some s => rfl
    | none => exact hrest true

/-- **A returned key is the keystore's own secret**, decrypted by a password that is there (the matching file's or
any other) — for the code as it is now, without hypothesis (before repair cefbe7e this needed "at least one password
file": `recursive_zero_key_witness`). -/
theorem recursive_decrypt_sound (c : Content) (own : Option (Option Nat)) (others : List (Option Nat))
    (s : Nat) (h : recDecrypt Fixes.current c own others = .ok s) :
    ∃ q, c = .ks s q ∧ (some q ∈ others ∨ own = some (some q)) := by
  have hto : ∀ f, recRest Fixes.current c others f = .ok s → ∃ q, c = .ks s q ∧ some q ∈ others := by
    intro f ht
    unfold recRest at ht
    by_cases hne : others = []
    · simp [hne, Fixes.current] at ht
    · have hemp : others.isEmpty = false := by simpa using hne
      simp only [hemp, Bool.and_false, Bool.false_eq_true, if_false] at ht
      by_cases hex : ∃ p ∈ others, ∃ t, decrypt c p = some t
      · obtain ⟨p, hp1, t, hd⟩ := hex
        rw [tryOthers_found f ⟨p, hp1, hd⟩] at ht
        simp only [Except.ok.injEq] at ht
        subst ht
        obtain ⟨q, hq, rfl⟩ := decrypt_some.1 hd
        exact ⟨q, hq, hp1⟩
      · have h1 : ∀ p ∈ others, decrypt c p = none := by
          intro p hp1
          cases hd : decrypt c p with
          | none => rfl
          | some t => exact absurd ⟨p, hp1, t, hd⟩ hex
        rw [tryOthers_none f h1] at ht
        simp [hne] at ht
  cases own with
  | none =>
    simp only [recDecrypt] at h
    obtain ⟨q, hq, hm⟩ := hto false h
    exact ⟨q, hq, Or.inl hm⟩
  | some p =>
    simp only [recDecrypt] at h
    cases hd : decrypt c p with
    | some t =>
      rw [hd] at h; cases h
      obtain ⟨q, hq, rfl⟩ := decrypt_some.1 hd
      exact ⟨q, hq, Or.inr rfl⟩
    | none =>
      rw [hd] at h
      obtain ⟨q, hq, hm⟩ := hto true h
      exact ⟨q, hq, Or.inl hm⟩

/-- **Without any password file the loader now fails** ("no password files found") instead of returning a key. -/
theorem recursive_no_password_files_is_an_error (c : Content) :
    recDecrypt Fixes.current c none [] = .error .noPasswords := by
  simp [recDecrypt, recRest, Fixes.current]

/-- **Before repair cefbe7e (`Fixes.asIs`): with no `.txt` file anywhere below the directory the zero key was returned
without error** — for a keystore of secret 5 under password 1 the result was `ok 0`; through the loader: a directory
with one keystore and no password file loaded "successfully" as the all-zero key. The code as it is now fails. -/
theorem recursive_zero_key_witness :
    recDecrypt Fixes.asIs (.ks 5 1) none [] = .ok 0 ∧
    loadFilesRecursivelyWith Fixes.asIs [("d".toList, .dir), ("d/key.json".toList, .file (.ks 5 1))] "d".toList
      [(("d/key.json".toList, .ks 5 1), 1)] = .ok [⟨0, "d/key.json".toList, 1⟩] ∧
    loadFilesRecursively [("d".toList, .dir), ("d/key.json".toList, .file (.ks 5 1))] "d".toList
      [(("d/key.json".toList, .ks 5 1), 1)] = .error .noPasswordFiles := by
  decide

/-- **`SequencedKeys` never accepts what `LoadFilesRecursively` returns** (one file or more): its FileIndex values
are the atomic counter's 1 … n, and n is out of range. -/
theorem recursive_indices_never_sequenced (k : List KeyFile) (hne : k ≠ [])
    (hp : (k.map (·.fileIndex)).Perm ((List.range k.length).map (fun i => Int.ofNat (i + 1)))) :
    ∃ e, sequencedKeys k = .error e := by
  apply sequenced_rejects_out_of_range
  have hpos : 0 < k.length := List.length_pos_of_ne_nil hne
  have : Int.ofNat (k.length - 1 + 1) ∈ k.map (·.fileIndex) :=
    (hp.mem_iff).2 (List.mem_map.2 ⟨k.length - 1, List.mem_range.2 (by omega), rfl⟩)
  obtain ⟨f, hf, he⟩ := List.mem_map.1 this
  refine ⟨f, hf, Or.inr ?_⟩
  rw [he]; simp only [Int.ofNat_eq_natCast]; omega

example : ∃ e, sequencedKeys [⟨7, [], 2⟩, ⟨8, [], 1⟩] = .error e :=
  recursive_indices_never_sequenced _ (by simp) (by decide)

end CharonV.Keystore
