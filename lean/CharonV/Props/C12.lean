/-
C12 — cluster artifacts are mutually consistent and tamper-evident (hash part).

Property theorems only (helper lemmas live in `CharonV.Proofs.SszSchema`).

* Generic part, for every 2-to-1 compression function `h` on 32-byte chunks (SHA-256 of the
  concatenation in the real hasher): tamper evidence of the SSZ hash-walker encoding is *reduced* to
  collision resistance of `h` — a hypothesis (`NoColl h` / conclusion `Collision h`), never an axiom.
* Per-version part, `decide`d on data regenerated from the Go source on every run
  (`Generated/ClusterSsz.lean` by T-ssz, `Generated/ClusterFields.lean` by T-fields): every JSON leaf
  of a definition / lock file is hashed or is in the explicit allow-list below; which schemas are
  well-formed and which leaves go through a raw `PutBytes`.

FULL STATEMENT that the code as it is does NOT satisfy (kept visible, see the witnesses
`fixed_shorter_value_same_root`, `raw_trailing_zero_same_root`):

    ∀ t u, shapeEq t u → root h t = root h u → t = u            (for collision-free h)

It fails because `putBytesN` left-pads a shorter value instead of rejecting it and because a raw
`PutBytes` right-pads to the chunk size without mixing in the length. `encode_injective_partial`
is the statement with exactly the two missing size hypotheses (`Tree.sized`, `Tree.rawAgree`).
-/
import CharonV.Proofs.SszSchema
import CharonV.Generated.ClusterSsz
import CharonV.Generated.ClusterFields

namespace CharonV.Ssz

variable {h : Chunk → Chunk → Chunk}

/-- **Merkle collision.** Two different chunk sequences of the same length (within the limit) with
the same `merkleize` root yield an explicit collision of the compression function: two different
pairs of 32-byte chunks with the same image. -/
theorem merkle_collision (limit : Nat) (xs ys : List Chunk) (hl : xs.length = ys.length)
    (hb : limit = 0 ∨ xs.length ≤ limit) (hne : xs ≠ ys)
    (he : merkleize h limit xs = merkleize h limit ys) : Collision h := by
  apply Classical.byContradiction
  intro hn
  exact hne (merkleize_inj (noColl_of_not_collision hn) limit xs ys hl hb he)

/-- **Encoding is injective (partial: with the size hypotheses the code does not enforce).**
Two chunk trees that are instances of the same schema (`shapeEq`), whose raw `PutBytes` leaves have
pairwise equal byte length (`rawAgree`) and whose data is `sized` (every `putBytesN n` value has
exactly `n` bytes, integers / limits / list lengths fit uint64, list groups mix in their own
element count) and that hash to the same root are equal — i.e. agree on every field value the schema
reads. -/
theorem encode_injective_partial (hc : NoColl h) (t u : Tree) (hs : t.shapeEq u = true)
    (hr : t.rawAgree u = true) (hz : t.sized = true) (hz' : u.sized = true) (r : Chunk)
    (ht : t.root h = .ok r) (hu : u.root h = .ok r) : t = u := by
  unfold Tree.root at ht hu
  cases ha : Tree.chunks h t with
  | error e => simp [ha] at ht
  | ok a =>
    cases hb : Tree.chunks h u with
    | error e => simp [hb] at hu
    | ok b =>
      have ih := tree_inj hc t u hs hr hz hz' a b ha hb
      rw [ha] at ht; rw [hb] at hu
      match a, b, ht, hu with
      | [c], [d], ht, hu =>
        simp at ht hu
        exact ih.2 (by rw [ht, hu])

/-- **Encoding under one schema is injective (partial, schema level).** For every schema whose
groups and lists are closed correctly (`wfLegacy`: all 36 regenerated schemas, see
`legacy_schema_wf`), two struct values `v`, `w` whose encodings `encode h s v = encode h s w`
coincide are read into the same chunk tree, i.e. agree on every field value the schema mentions —
under the size hypotheses of `encode_injective_partial` on the two trees. -/
theorem encode_injective (hc : NoColl h) (s : Sch) (hw : s.wfLegacy = true) (v w : Val) (t u : Tree)
    (hv : s.resolve [v] = .ok [t]) (hw' : s.resolve [w] = .ok [u])
    (hr : t.rawAgree u = true) (hz : t.sized = true) (hz' : u.sized = true) (r : Chunk)
    (ev : encode h s v = .ok r) (ew : encode h s w = .ok r) : t = u := by
  obtain ⟨t', u', e1, e2, hs⟩ := resolve_shape s hw [v] [w] [t] [u] hv hw'
  simp only [List.cons.injEq, and_true] at e1 e2
  subst e1; subst e2
  unfold encode at ev ew
  rw [hv] at ev; rw [hw'] at ew
  exact encode_injective_partial hc t u hs hr hz hz' r ev ew

/-- **Well-formed schemas: only hypotheses on the data remain.** For a `wf` schema (config and
definition hash of v1.5 … v1.10, config hash of v1.11, lock hash of v1.5 / v1.6, see
`modern_schema_wf`) equal encodings of two struct values imply equal chunk trees as soon as the
data is in range (`sizedData`: every `putBytesN n` value has exactly `n` bytes — the one condition
the Go code does not enforce — and integers, limits and list lengths fit uint64). -/
theorem encode_injective_wf (hc : NoColl h) (s : Sch) (hw : s.wf = true) (v w : Val) (t u : Tree)
    (hv : s.resolve [v] = .ok [t]) (hw' : s.resolve [w] = .ok [u])
    (hd : t.sizedData = true) (hd' : u.sizedData = true) (r : Chunk)
    (ev : encode h s v = .ok r) (ew : encode h s w = .ok r) : t = u := by
  have s1 := resolve_struct s hw [v] [t] hv
  have s2 := resolve_struct s hw [w] [u] hw'
  simp only [Tree.sizedStructL, Tree.noRawL, Bool.and_true] at s1 s2
  exact encode_injective hc s (wfLegacy_of_wf s hw) v w t u hv hw' (rawAgree_of_noRaw t u s1.2)
    (sized_of_parts t hd s1.1) (sized_of_parts u hd' s2.1) r ev ew

/-- **Tamper evidence reduced to collision resistance.** If an altered tree (same schema, size
hypotheses as above) still hashes to the root of the original, an explicit collision of the
compression function exists. -/
theorem tamper_yields_collision (t u : Tree) (hs : t.shapeEq u = true) (hr : t.rawAgree u = true)
    (hz : t.sized = true) (hz' : u.sized = true) (hne : t ≠ u) (r : Chunk)
    (ht : t.root h = .ok r) (hu : u.root h = .ok r) : Collision h := by
  apply Classical.byContradiction
  intro hn
  exact hne (encode_injective_partial (noColl_of_not_collision hn) t u hs hr hz hz' r ht hu)

/-- **Witness 1 (negation of the full statement): `putBytesN` left-pads.** A 4-byte field holding
`00 00 00 01` and the same field holding the 1-byte value `01` leave the same chunks in the hasher,
for every compression function. (`sized` is violated by the second tree only.) -/
theorem fixed_shorter_value_same_root :
    Tree.fixed 4 [0, 0, 0, 1] ≠ Tree.fixed 4 [1] ∧
    (Tree.fixed 4 [0, 0, 0, 1]).shapeEq (Tree.fixed 4 [1]) = true ∧
    Tree.chunks h (Tree.fixed 4 [0, 0, 0, 1]) = Tree.chunks h (Tree.fixed 4 [1]) := by
  refine ⟨by simp, rfl, rfl⟩

/-- **Witness 2: a raw `PutBytes` right-pads without length mix-in.** `01` and `01 00` hash alike
(legacy v1.0–v1.2 string fields, v1.3/v1.4 byte fields, `Registration.FeeRecipient` since v1.7,
`ConfigHash` in the v1.11 definition hash). -/
theorem raw_trailing_zero_same_root :
    Tree.raw [1] ≠ Tree.raw [1, 0] ∧ (Tree.raw [1]).shapeEq (Tree.raw [1, 0]) = true ∧
    Tree.chunks h (Tree.raw [1]) = Tree.chunks h (Tree.raw [1, 0]) := by
  refine ⟨by simp, rfl, ?_⟩
  simp [Tree.chunks, putBytes, chunkify, chunkifyAux, mkChunk]

/-- **Witness 3: an empty raw field leaves no chunk at all**, so neighbouring raw fields can trade
places: (`"a"`, `""`) and (`""`, `"a"`) give the same container root (legacy v1.0–v1.2). -/
theorem raw_empty_field_shifts :
    Tree.chunks h (Tree.cont [.raw [97], .raw []]) = Tree.chunks h (Tree.cont [.raw [], .raw [97]]) := by
  simp [Tree.chunks, Tree.chunksL, putBytes, chunkify, chunkifyAux]

/-! ### non-vacuity -/

/-- the hypotheses of `encode_injective_partial` are satisfiable by two different trees with roots. -/
example : ∃ t u : Tree, t ≠ u ∧ t.shapeEq u = true ∧ t.rawAgree u = true ∧ t.sized = true ∧ u.sized = true ∧
    (∃ r, t.root (fun a _ => a) = .ok r) ∧ (∃ r, u.root (fun a _ => a) = .ok r) :=
  ⟨.cont [.u64 1, .blist 64 [1, 2], .mix (some 4) 1 [.fixed 4 [1, 2, 3, 4]]],
   .cont [.u64 2, .blist 64 [1], .mix (some 4) 2 [.fixed 4 [1, 2, 3, 4], .fixed 4 [0, 0, 0, 0]]],
   by simp, by decide, by decide, by decide, by decide, ⟨_, rfl⟩, ⟨_, rfl⟩⟩

/-- the hypotheses of `encode_injective_wf` (hence of `encode_injective`) are satisfiable by a
well-formed schema and two struct values that it reads into different trees. -/
example : ∃ (s : Sch) (v w : Val) (t u : Tree), s.wf = true ∧ s.resolve [v] = .ok [t] ∧
    s.resolve [w] = .ok [u] ∧ t.sizedData = true ∧ u.sizedData = true ∧ t ≠ u :=
  ⟨.cont [.u64 ⟨0, [.f "A"], .id, 1, ""⟩, .fixed 2 ⟨0, [.f "B"], .id, 2, ""⟩],
   .obj [("A", .int 1), ("B", .bytes [1, 2])], .obj [("A", .int 2), ("B", .bytes [1, 2])],
   .cont [.u64 1, .fixed 2 [1, 2]], .cont [.u64 2, .fixed 2 [1, 2]],
   by decide,
   by simp [Sch.resolve, Sch.resolveL, Src.u64, Src.bytes, Src.get, Val.walk, Val.step, Val.field, Xf.apply],
   by simp [Sch.resolve, Sch.resolveL, Src.u64, Src.bytes, Src.get, Val.walk, Val.step, Val.field, Xf.apply],
   by decide, by decide, by simp⟩

/-- `merkle_collision` is not vacuous: the constant compression function collides. -/
example : Collision (fun _ _ => zeroChunk) :=
  merkle_collision (h := fun _ _ => zeroChunk) 0 [zeroChunk, zeroChunk] [zeroChunk, u64Chunk 1] rfl (Or.inl rfl)
    (by decide) (by simp [merkleize, merkLoop, layer, depthOf, Nat.log2])

/-! ## Per-version facts on the regenerated schemas and field lists -/

open CharonV.Generated.ClusterSsz CharonV.Generated.ClusterFields

/-- Leaves of a definition file that need not be read by a hash schema, with the reason:
* `config_hash` IS the config hash and `definition_hash` IS the definition hash: both are compared
  with the recomputed value by `Definition.VerifyHashes` (from v1.3 on the definition hash reads
  `config_hash` as well, see `definition_hash_reads_config_hash_from_v1_3`);
* `operators[].nonce` (v1.0/v1.1): decoding rejects every value but 0 (`operatorsFromV1x1`); the
  definition hash includes the constant 0. -/
def allowDef : List String := ["config_hash", "definition_hash", "operators[].nonce"]

/-- Leaves of a lock file that are not hashed by the lock hash, with the reason:
* `lock_hash` IS the lock hash (compared by `Lock.VerifyHashes`);
* `signature_aggregate`: BLS aggregate signature of all key shares over the lock hash
  (`Lock.VerifySignatures`);
* `node_signatures[]` (v1.7+): secp256k1 signature of every operator's ENR key over the lock hash;
* `cluster_definition.config_hash` / `cluster_definition.definition_hash`: ARE the config /
  definition hash of the embedded definition (`Lock.VerifyHashes` calls `Definition.VerifyHashes`);
  the lock hash recomputes the definition hash from the definition's fields;
* `cluster_definition.operators[].nonce`: as above;
* `distributed_validators[].fee_recipient_address` (up to v1.5): decoding rejects every non-empty value. -/
def allowLock : List String :=
  ["lock_hash", "signature_aggregate", "node_signatures[]", "cluster_definition.config_hash",
   "cluster_definition.definition_hash",
   "cluster_definition.operators[].nonce", "distributed_validators[].fee_recipient_address"]

/-- name of an interned JSON path id of the generated data. -/
def nm (i : Nat) : String := pathName pathTable i

/-- every JSON leaf of the definition file is read by the config hash or the definition hash, every
JSON leaf of the lock file by the lock hash (which embeds the definition hash) or by the config hash
of the embedded definition (checked by `Lock.VerifyHashes` through `Definition.VerifyHashes`), or is
allow-listed by name. -/
def coversVersion (v : String) : Bool :=
  match schemas.find? (·.1 == v), fields.find? (·.1 == v) with
  | some (_, c, d, l, lc), some (_, df, lf) =>
    coveredBy pathTable df (c.mentions ++ d.mentions) allowDef &&
    coveredBy pathTable lf (l.mentions ++ lc.mentions) allowLock
  | _, _ => false

/-- the list of format versions the theorems below enumerate is the list in the Go source. -/
theorem schema_versions_complete :
    versions = ["v1.0.0", "v1.1.0", "v1.2.0", "v1.3.0", "v1.4.0", "v1.5.0", "v1.6.0", "v1.7.0",
      "v1.8.0", "v1.9.0", "v1.10.0", "v1.11.0"] ∧
    schemas.map (·.1) = versions ∧ fields.map (·.1) = versions := by decide +kernel

theorem schema_covers_fields_v1_0 : coversVersion "v1.0.0" = true := by decide +kernel
theorem schema_covers_fields_v1_1 : coversVersion "v1.1.0" = true := by decide +kernel
theorem schema_covers_fields_v1_2 : coversVersion "v1.2.0" = true := by decide +kernel
theorem schema_covers_fields_v1_3 : coversVersion "v1.3.0" = true := by decide +kernel
theorem schema_covers_fields_v1_4 : coversVersion "v1.4.0" = true := by decide +kernel
theorem schema_covers_fields_v1_5 : coversVersion "v1.5.0" = true := by decide +kernel
theorem schema_covers_fields_v1_6 : coversVersion "v1.6.0" = true := by decide +kernel
theorem schema_covers_fields_v1_7 : coversVersion "v1.7.0" = true := by decide +kernel
theorem schema_covers_fields_v1_8 : coversVersion "v1.8.0" = true := by decide +kernel
theorem schema_covers_fields_v1_9 : coversVersion "v1.9.0" = true := by decide +kernel
theorem schema_covers_fields_v1_10 : coversVersion "v1.10.0" = true := by decide +kernel
theorem schema_covers_fields_v1_11 : coversVersion "v1.11.0" = true := by decide +kernel

/-- the definition hash alone (without the config hash) already reads every definition leaf from
v1.1 on, except the stored `config_hash` of v1.1 / v1.2 (v1.0 leaves `timestamp` to the config hash). -/
theorem definition_hash_covers_all_from_v1_1 :
    ((schemas.zip fields).drop 1).all (fun (s, f) => coveredBy pathTable f.2.1 s.2.2.1.mentions allowDef) = true := by
  decide +kernel

/-- from v1.3 on the definition hash (hence the lock hash) also reads the stored `config_hash`:
the only unhashed definition leaves are then `definition_hash` itself (and no `nonce` exists). -/
theorem definition_hash_reads_config_hash_from_v1_3 :
    ((schemas.zip fields).drop 3).all (fun (s, f) =>
      coveredBy pathTable f.2.1 s.2.2.1.mentions ["definition_hash"] &&
      coveredBy pathTable f.2.2 (s.2.2.2.1.mentions ++ s.2.2.2.2.mentions)
        ["lock_hash", "signature_aggregate", "node_signatures[]", "cluster_definition.definition_hash",
         "distributed_validators[].fee_recipient_address"]) = true := by decide +kernel

/-- **Well-formed schemas.** Config hash and definition hash of v1.5 … v1.10, config hash of v1.11
and the lock hashes of v1.5 and v1.6: no raw `PutBytes`, every list closed by a `MerkleizeWithMixin`
with constant limit that mixes in the length of the list it loops over, one chunk per element. -/
theorem modern_schema_wf :
    (schemas.filter (fun s => ["v1.5.0", "v1.6.0", "v1.7.0", "v1.8.0", "v1.9.0", "v1.10.0"].contains s.1)).all
      (fun s => s.2.1.wf && s.2.2.1.wf) = true ∧
    cfg_v1_11.wf = true ∧ lock_v1_5.wf = true ∧ lock_v1_6.wf = true := by decide +kernel

/-- **All schemas are well-formed up to raw leaves**: groups and lists are closed correctly (every
list mixes in the length of the list it loops over, legacy versions with `limit = num`); the only
deviation from `wf` are the raw `PutBytes` leaves listed by the theorems below. -/
theorem legacy_schema_wf :
    schemas.all (fun s => s.2.1.wfLegacy && s.2.2.1.wfLegacy && s.2.2.2.1.wfLegacy) = true := by decide +kernel

/-- raw `PutBytes` leaves of the config / definition hash per version — for these
`encode_injective_partial` needs the equal-length hypothesis `rawAgree`. -/
theorem raw_putbytes_fields_definition :
    schemas.map (fun s => (s.1, ((s.2.1.rawFields ++ s.2.2.1.rawFields).eraseDups).map nm)) =
    [("v1.0.0", ["uuid", "name", "version", "validators[].fee_recipient_address", "validators[].withdrawal_address",
        "dkg_algorithm", "fork_version", "operators[].address", "timestamp", "operators[].enr",
        "operators[].config_signature", "operators[].enr_signature"]),
     ("v1.1.0", ["uuid", "name", "version", "validators[].fee_recipient_address", "validators[].withdrawal_address",
        "dkg_algorithm", "fork_version", "operators[].address", "timestamp", "operators[].enr",
        "operators[].config_signature", "operators[].enr_signature"]),
     ("v1.2.0", ["uuid", "name", "version", "validators[].fee_recipient_address", "validators[].withdrawal_address",
        "dkg_algorithm", "fork_version", "operators[].address", "timestamp", "operators[].enr",
        "operators[].config_signature", "operators[].enr_signature"]),
     ("v1.3.0", ["validators[].fee_recipient_address", "validators[].withdrawal_address", "fork_version",
        "operators[].address", "operators[].config_signature", "operators[].enr_signature", "config_hash"]),
     ("v1.4.0", ["validators[].fee_recipient_address", "validators[].withdrawal_address", "fork_version",
        "operators[].address", "creator.address", "operators[].config_signature", "operators[].enr_signature",
        "creator.config_signature", "config_hash"]),
     ("v1.5.0", []), ("v1.6.0", []), ("v1.7.0", []), ("v1.8.0", []), ("v1.9.0", []), ("v1.10.0", []),
     ("v1.11.0", ["config_hash"])] := by decide +kernel

/-- raw `PutBytes` leaves the lock hash adds to those of the embedded definition hash. -/
theorem raw_putbytes_fields_lock :
    schemas.map (fun s => (s.1, ((s.2.2.2.1.rawFields.eraseDups).map nm).filter
      (fun p => !(s.2.2.1.rawFields.map (fun i => "cluster_definition." ++ nm i)).contains p))) =
    [("v1.0.0", ["distributed_validators[].distributed_public_key", "distributed_validators[].public_shares[]"]),
     ("v1.1.0", ["distributed_validators[].distributed_public_key", "distributed_validators[].public_shares[]"]),
     ("v1.2.0", ["distributed_validators[].distributed_public_key", "distributed_validators[].public_shares[]"]),
     ("v1.3.0", ["distributed_validators[].distributed_public_key"]),
     ("v1.4.0", ["distributed_validators[].distributed_public_key"]),
     ("v1.5.0", []), ("v1.6.0", []),
     ("v1.7.0", ["distributed_validators[].builder_registration.message.fee_recipient"]),
     ("v1.8.0", ["distributed_validators[].builder_registration.message.fee_recipient"]),
     ("v1.9.0", ["distributed_validators[].builder_registration.message.fee_recipient"]),
     ("v1.10.0", ["distributed_validators[].builder_registration.message.fee_recipient"]),
     ("v1.11.0", ["distributed_validators[].builder_registration.message.fee_recipient"])] := by decide +kernel

/-! ## `charon combine`: which share sets are recombined -/

/-- **Combine accepts exactly the share sets of at least threshold size** (model of the sufficiency
check of `cmd/combine.Combine`, tied to the real command by the ops `combine` of stream `cluster`). -/
theorem combine_accepts_iff (t k : Nat) : combineAccepts t k = true ↔ t ≤ k := by
  simp [combineAccepts]

/-- **A share set of exactly threshold size is recombined** — in particular an n-of-n cluster and a
cluster that lost n − t nodes — and one share less is refused. Acceptance with distinct share
indices is precisely the hypothesis `t ≤ S.card` of C08 `recover_secret`; that the secret written by
the command is that recovery (`tbls.RecoverSecret` of the same shares, public key = the lock's
validator key) is checked on the real command by the monitor `cluster:combine_wrong_key`, not proved here. -/
theorem combine_exact_threshold_accepted (t : Nat) :
    combineAccepts t t = true ∧ (0 < t → combineAccepts t (t - 1) = false) := by
  refine ⟨by simp [combineAccepts], fun h => ?_⟩
  simp [combineAccepts]; omega

end CharonV.Ssz
