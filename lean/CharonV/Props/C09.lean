/-
C09 — The aggregator publishes only group-valid signatures.

"Whenever the signature aggregator publishes a signed object for a validator, its signature verifies
under that validator's group public key for the object's own signing root, domain and epoch, and
the object's signed content is the content the contributing partial signatures were made over. If
the partials supplied for any validator are too few, repeat a share, disagree on the signed content
or contain an invalid share, nothing at all is published for that call."

Property theorems only (helper lemmas: `CharonV.Proofs.SigAgg`). The theorems about the model
quantify over an arbitrary threshold, arbitrary symbolic `verify` and `combine`, any group-key
assignment, every input set (any number of validators, any partial lists), any number of
subscribers, every Go map iteration order `ord` (an arbitrary function) and every subscriber
failure position. The last section instantiates the two cryptographic hypotheses from the
threshold-BLS algebra of C08.
-/
import CharonV.Proofs.SigAgg
import CharonV.Props.C08
import CharonV.Generated.Eth2sd

namespace CharonV.SigAgg

open CharonV.Admit (Obj VerifyFn Validator Key Sig ShareIdx Domain Epoch Root domainOf SigType)

variable (thr : Nat) (combine : CombineFn) (verify : VerifyFn) (gkOf : Validator → Option Key)

/-- **Every published signature is group-valid.** Whatever is handed to any subscriber (aggregate
signature store, broadcaster) for validator `v` carries a non-zero signature that verifies under
`v`'s group key for the published object's own domain, epoch and signing root. -/
theorem publish_valid (nsub : Nat) (ord : List (Validator × List Par) → List (Validator × List Par))
    (failAt : Option Nat) (set : List (Validator × List Par)) (c : Call)
    (hc : c ∈ (aggregateAll thr combine verify gkOf nsub ord failAt set).2)
    (v : Validator) (s : Signed) (hs : (v, s) ∈ c.out) :
    GroupValid verify (gkOf v) s.content s.sig := by
  obtain ⟨_, _, hout⟩ := aggregateAll_calls hc
  rw [hout] at hs
  obtain ⟨e, _, he⟩ := List.mem_map.mp (mem_okOnes.mp hs)
  simp only [Prod.mk.injEq] at he
  obtain ⟨rfl, hagg⟩ := he
  exact (aggregate_ok hagg).2.2.2.2.2

/-- hypothesis form of the C08 negative results: an aggregate that verifies under group key `gk` for
(`d`,`e`,`r`) was combined from partial signatures that each verify, under the key share of their
own index, for that same (`d`,`e`,`r`). (C08 proves the single-corruption instances in the
algebraic model, see `single_corruption_detected` below; simultaneous corruptions that cancel each
other require control of several shares and are excluded by this hypothesis.) -/
def CombineSound (pubshare : ShareIdx → Option Key) (gk : Key) : Prop :=
  ∀ m σ d e r, combine m = some σ → verify gk d e r σ = true →
    ∀ x ∈ m, ∃ k, pubshare x.1 = some k ∧ verify k d e r x.2 = true

/-- a signature verifies under a given key for at most one (domain, epoch, signing root). -/
def SigBinds : Prop :=
  ∀ k d e r d' e' r' σ, verify k d e r σ = true → verify k d' e' r' σ = true → d = d' ∧ e = e' ∧ r = r'

/-- **The published content is the content that was signed.** The published object is one of the
supplied partials' objects of that validator (the carrier: the first leading attestation with a
validator index, else the first partial) with only the signature replaced by the combination of
the share-index map of the supplied partials. And, given the C08 negative results (`CombineSound`),
uniqueness of signatures (`SigBinds`) and that every supplied partial verifies under its own share
key for its own object (what C10 guarantees at admission), every contributing partial — every
partial whose signature is in the combined map — has the carrier's domain, epoch and signing root:
partials that disagree on the signed content cannot yield a publication. -/
theorem publish_content (nsub : Nat) (ord : List (Validator × List Par) → List (Validator × List Par))
    (failAt : Option Nat) (set : List (Validator × List Par)) (c : Call)
    (hc : c ∈ (aggregateAll thr combine verify gkOf nsub ord failAt set).2)
    (v : Validator) (s : Signed) (hs : (v, s) ∈ c.out) :
    ∃ parts, (v, parts) ∈ set ∧ (∃ p ∈ parts, p.obj = s.content) ∧
      combine (sigMap parts) = some s.sig ∧ thr ≤ (sigMap parts).length ∧
      ∀ (pubshare : ShareIdx → Option Key) (gk : Key), gkOf v = some gk →
        CombineSound combine verify pubshare gk → SigBinds verify →
        (∀ p ∈ parts, ∃ k d e r, pubshare p.idx = some k ∧ domainOf p.obj.ty = some d ∧
          p.obj.epoch = some e ∧ p.obj.root = some r ∧ verify k d e r p.obj.sig = true) →
        ∀ p ∈ parts, (p.idx, p.obj.sig) ∈ sigMap parts →
          domainOf p.obj.ty = domainOf s.content.ty ∧ p.obj.epoch = s.content.epoch ∧
            p.obj.root = s.content.root := by
  obtain ⟨_, _, hout⟩ := aggregateAll_calls hc
  rw [hout] at hs
  obtain ⟨e, he, heq⟩ := List.mem_map.mp (mem_okOnes.mp hs)
  simp only [Prod.mk.injEq] at heq
  obtain ⟨rfl, hagg⟩ := heq
  obtain ⟨_, _, hlen, hcomb, ⟨cr, hcar, _, hcont⟩, hgv⟩ := aggregate_ok hagg
  refine ⟨e.2, he, ⟨cr, carrier_mem hcar, hcont.symm⟩, hcomb, hlen, ?_⟩
  intro pubshare gk hgk hsound hbind hvalid p hp hcontrib
  obtain ⟨k0, d0, e0, r0, hk0, hd0, he0, hr0, _, hv0⟩ := hgv
  rw [hgk] at hk0
  cases hk0
  obtain ⟨k, hk, hvk⟩ := hsound _ _ d0 e0 r0 hcomb hv0 _ hcontrib
  obtain ⟨k', d, ep, r, hk', hd, hep, hr, hv⟩ := hvalid p hp
  simp only at hk hvk
  rw [hk] at hk'
  cases hk'
  obtain ⟨h1, h2, h3⟩ := hbind k d ep r d0 e0 r0 _ hv hvk
  subst h1 h2 h3
  exact ⟨by rw [hd, hd0], by rw [hep, he0], by rw [hr, hr0]⟩

/-- **All or nothing.** If the aggregation of any one validator of the call fails — for whatever
reason — no subscriber is called at all and the call returns an error, for EVERY iteration order
of the validator map: the validators that would have aggregated fine are not published either. -/
theorem all_or_nothing (nsub : Nat) (ord : List (Validator × List Par) → List (Validator × List Par))
    (failAt : Option Nat) (set : List (Validator × List Par)) (e : Validator × List Par)
    (he : e ∈ set) (err : Err) (hbad : aggregate thr combine verify (gkOf e.1) e.2 = .error err) :
    (aggregateAll thr combine verify gkOf nsub ord failAt set).2 = [] ∧
    ∃ err', (aggregateAll thr combine verify gkOf nsub ord failAt set).1 = some err' ∧ err' ≠ .subErr :=
  aggregateAll_reject he hbad

/-- **The failure causes named by the property do make `aggregate` fail**: fewer partials than the
threshold; exactly threshold partials with a repeated share index (duplicates collapse in the map);
a combination that fails; an aggregate that does not verify under the group key for the carrier's
own domain, epoch and root — which by `CombineSound` is what an invalid share or a disagreeing root
leads to. -/
theorem failure_causes (gk : Option Key) (parts : List Par) :
    (parts.length < thr → aggregate thr combine verify gk parts = .error .tooFew) ∧
    (parts.length = thr → ¬ (parts.map (·.idx)).Nodup →
      ∃ err, aggregate thr combine verify gk parts = .error err) ∧
    ((sigMap parts).length < thr → ∃ err, aggregate thr combine verify gk parts = .error err) ∧
    (combine (sigMap parts) = none → ∃ err, aggregate thr combine verify gk parts = .error err) ∧
    (∀ σ c, combine (sigMap parts) = some σ → carrier parts = some c →
      ¬ GroupValid verify gk c.obj σ → ∃ err, aggregate thr combine verify gk parts = .error err) := by
  have key : ∀ {P : Prop}, (∀ s, aggregate thr combine verify gk parts = .ok s → P → False) → P →
      ∃ err, aggregate thr combine verify gk parts = .error err := by
    intro P h hp
    cases hr : aggregate thr combine verify gk parts with
    | error e => exact ⟨e, rfl⟩
    | ok s => exact absurd hp (fun hp => h s hr hp)
  refine ⟨?_, ?_, ?_, ?_, ?_⟩
  · intro h; simp [aggregate, h]
  · intro hlen hdup
    refine key (P := True) ?_ trivial
    intro s hs _
    have h3 := (aggregate_ok hs).2.2.1
    have hlt : (sigMap parts).length < parts.length := by
      have := lastWins_length_lt (l := parts.map fun p => (p.idx, p.obj.sig))
        (by simpa [List.map_map, Function.comp_def] using hdup)
      simpa [sigMap] using this
    omega
  · intro h
    refine key (P := True) ?_ trivial
    intro s hs _
    have := (aggregate_ok hs).2.2.1
    omega
  · intro h
    refine key (P := True) ?_ trivial
    intro s hs _
    have := (aggregate_ok hs).2.2.2.1
    rw [h] at this; cases this
  · intro σ c hσ hc hnv
    refine key (P := True) ?_ trivial
    intro s hs _
    obtain ⟨_, _, _, hcomb, ⟨c', hc', _, hcont⟩, hgv⟩ := aggregate_ok hs
    rw [hσ] at hcomb; cases hcomb
    rw [hc] at hc'; cases hc'
    rw [hcont] at hgv
    exact hnv hgv

/-- **When something is published, everything is**: a subscriber call carries exactly one signed
object for every validator of the input, and (absent subscriber errors) every subscriber is called. -/
theorem publish_complete (nsub : Nat) (ord : List (Validator × List Par) → List (Validator × List Par))
    (set : List (Validator × List Par)) (hne : set ≠ [])
    (hall : ∀ e ∈ set, ∃ s, aggregate thr combine verify (gkOf e.1) e.2 = .ok s)
    (hord : ∀ e ∈ ord set, e ∈ set) :
    (aggregateAll thr combine verify gkOf nsub ord none set).1 = none ∧
    (aggregateAll thr combine verify gkOf nsub ord none set).2.length = nsub ∧
    ∀ c ∈ (aggregateAll thr combine verify gkOf nsub ord none set).2, ∀ e ∈ set, ∃ s, (e.1, s) ∈ c.out := by
  have h2 : firstErr (set.map fun e => aggregate thr combine verify (gkOf e.1) e.2) = none := by
    apply firstErr_none.mpr
    intro x hx
    obtain ⟨e, he, rfl⟩ := List.mem_map.mp hx
    exact hall e he
  have h1 : firstErr ((ord set).map fun e => aggregate thr combine verify (gkOf e.1) e.2) = none := by
    apply firstErr_none.mpr
    intro x hx
    obtain ⟨e, he, rfl⟩ := List.mem_map.mp hx
    exact hall e (hord e he)
  have hemp : set.isEmpty = false := by
    cases set with
    | nil => exact absurd rfl hne
    | cons _ _ => rfl
  have hres : aggregateAll thr combine verify gkOf nsub ord none set =
      (none, (List.range nsub).map fun s => ({ sub := s, out := okOnes (set.map fun e => (e.1, aggregate thr combine verify (gkOf e.1) e.2)) } : Call)) := by
    unfold aggregateAll
    simp only [hemp, Bool.false_eq_true, if_false, h1, h2]
  rw [hres]
  refine ⟨rfl, by simp, ?_⟩
  intro c hc e he
  obtain ⟨s, _, rfl⟩ := List.mem_map.mp hc
  obtain ⟨sg, hsg⟩ := hall e he
  refine ⟨sg, mem_okOnes.mpr ?_⟩
  exact List.mem_map.mpr ⟨e, he, by rw [hsg]⟩

/-! ### The tie to the Go source: translator T-eth2sd -/

def goType : SigType → String
  | .proposal => "VersionedSignedProposal" | .attestation => "VersionedAttestation"
  | .exit => "SignedVoluntaryExit" | .registration => "VersionedSignedValidatorRegistration"
  | .randao => "SignedRandao" | .bcSelection => "BeaconCommitteeSelection"
  | .aggProof => "SignedAggregateAndProof" | .vAggProof => "VersionedSignedAggregateAndProof"
  | .syncMessage => "SignedSyncMessage" | .contribution => "SignedSyncContributionAndProof"
  | .syncSelection => "SyncCommitteeSelection" | .rawSig => "Signature"

def domainName : Domain → String
  | .beaconProposer => "DOMAIN_BEACON_PROPOSER" | .beaconAttester => "DOMAIN_BEACON_ATTESTER"
  | .voluntaryExit => "DOMAIN_VOLUNTARY_EXIT" | .applicationBuilder => "DOMAIN_APPLICATION_BUILDER"
  | .randao => "DOMAIN_RANDAO" | .selectionProof => "DOMAIN_SELECTION_PROOF"
  | .aggregateAndProof => "DOMAIN_AGGREGATE_AND_PROOF" | .syncCommittee => "DOMAIN_SYNC_COMMITTEE"
  | .contributionAndProof => "DOMAIN_CONTRIBUTION_AND_PROOF"
  | .syncCommitteeSelectionProof => "DOMAIN_SYNC_COMMITTEE_SELECTION_PROOF"

/-- where the object's own epoch comes from (what the correspondence harness re-derives by hand):
the field / method chain read from the receiver, with the method's single-assignment locals replaced
by their defining expressions (`data, err := a.Data(); return data.Target.Epoch` reads
`Data().Target.Epoch`; the names of locals do not occur). -/
def epochSource : SigType → String
  | .proposal => "slot:Slot()" | .attestation => "field:Data().Target.Epoch" | .exit => "field:Message.Epoch"
  | .registration => "zero" | .randao => "field:SignedEpoch.Epoch" | .bcSelection => "slot:Slot"
  | .aggProof => "slot:Message.Aggregate.Data.Slot" | .vAggProof => "slot:Slot()"
  | .syncMessage => "slot:Slot" | .contribution => "slot:Message.Contribution.Slot"
  | .syncSelection => "slot:Slot" | .rawSig => ""

def rowOf (ty : SigType) : Option (String × String × String) :=
  (domainOf ty).map fun d => (goType ty, domainName d, epochSource ty)

/-- **Every implementation of `core.Eth2SignedData` has a row, and it is the model's row.** The
table regenerated from the Go source on every run (all named types of package core that implement
the interface, found by go/types) consists exactly of the eleven signed-object types of the model
with the model's `domainOf` and epoch source, plus the unsigned inner `SyncContributionAndProof`
(used only for the selection-proof gate of C10); and `VerifyEth2SignedData` hands the object's own
domain name, epoch, message root and signature to `signing.Verify`. A new signed type, a changed
domain or epoch source makes this statement false. -/
theorem domain_table_complete :
    Generated.Eth2sd.rows =
      ([SigType.bcSelection, .aggProof, .randao, .contribution, .syncMessage, .exit, .syncSelection].filterMap rowOf)
      ++ [("SyncContributionAndProof", "DOMAIN_SYNC_COMMITTEE_SELECTION_PROOF", "slot:Contribution.Slot")]
      ++ ([SigType.attestation, .vAggProof, .proposal, .registration].filterMap rowOf) ∧
    Generated.Eth2sd.verifyPassesOwnFields = true := by
  decide

/-! ### The two cryptographic hypotheses in the threshold-BLS algebra of C08 -/

section Algebra
open CharonV.Tbls Polynomial

variable {F : Type*} [Field F]
variable {G1 G2 Msg : Type*} [AddCommGroup G1] [Module F G1] [AddCommGroup G2] [Module F G2]

/-- **Honest partials aggregate to a publishable signature** (C08 `threshold_aggregate`): partial
signatures of any `≥ t` distinct shares over one message combine to a signature that verifies under
the group key — so `publish_valid` is not vacuous and `aggregate`'s final verification does not
reject honest input. -/
theorem honest_partials_aggregate_verifies (t : ℕ) (p : F[X]) (hp : p.degree < t) (S : Finset ℕ)
    (hS : t ≤ S.card) (hinj : IdsDistinct F S) (g1 : G1) (Hm : Msg → G2) (m : Msg) :
    Verifies F g1 Hm (pk g1 (p.eval 0)) m (recoverG F S (fun j => sign Hm (share p j) m)) :=
  (threshold_aggregate t p hp S hS hinj g1 Hm m).2

/-- **`CombineSound` for a single corrupted contribution** (C08 `wrong_share_rejected`,
`wrong_index_rejected`, `wrong_message_rejected`): if, in a qualified set, the contribution of
identifier `j` is replaced by `σ'` — a signature over the same message under an arbitrary scalar
(wrong share, wrong index) or share `j`'s own signature over another message — and the combination
still verifies under the group key for `m`, then `σ'` is exactly share `j`'s signature over `m`. -/
theorem single_corruption_detected (t : ℕ) (p : F[X]) (hp : p.degree < t) (S : Finset ℕ)
    (hS : t ≤ S.card) (hinj : IdsDistinct F S) (hnz : IdsNonzero F S) (g1 : G1) (hg : g1 ≠ 0)
    (Hm : Msg → G2) (m : Msg) (hH : Hm m ≠ 0) (j : ℕ) (hj : j ∈ S) (σ' : G2)
    (hform : (∃ s' : F, σ' = sign Hm s' m) ∨ (∃ m', σ' = sign Hm (share p j) m' ∧ share p j ≠ 0))
    (hver : Verifies F g1 Hm (pk g1 (p.eval 0)) m
      (recoverG F S (Function.update (fun i => sign Hm (share p i) m) j σ'))) :
    σ' = sign Hm (share p j) m := by
  rcases hform with ⟨s', rfl⟩ | ⟨m', rfl, hy⟩
  · by_cases hs : s' = share p j
    · rw [hs]
    · exact absurd hver (wrong_share_rejected t p hp S hS hinj hnz g1 hg Hm m hH j hj s' hs).2
  · by_cases hmm : Hm m' = Hm m
    · unfold sign; rw [hmm]
    · exact absurd hver (wrong_message_rejected t p hp S hS hinj hnz g1 hg Hm m m' hmm j hj hy).2

end Algebra

/-! ### Non-vacuity (concrete runs of the model) -/

/-- toy crypto: share `i` signs root `r` as `100*i + r`; three distinct shares over one root combine
to `1000 + r`, which is what verifies under group key 7. -/
def exCombine : CombineFn := fun m =>
  match m with
  | [(_, a), (_, b), (_, c)] =>
    if a % 100 = b % 100 ∧ b % 100 = c % 100 then some (1000 + a % 100) else some 1
  | _ => none

def exVerify : VerifyFn := fun k _ _ r s => k == 7 && s == 1000 + r

def exPar (id : Nat) (idx : Int) (root : Nat) (vi : Bool) : Par :=
  { obj := ⟨id, .attestation, some 3, some root, 100 * idx.toNat + root⟩, idx := idx, sigLenOk := true,
    isAtt := true, hasValIdx := vi, setOk := true }

-- three partials over one root: published; the carrier is the one attestation with a validator index
example :
    aggregateAll 3 exCombine exVerify (fun _ => some 7) 2 id none
      [(1, [exPar 10 1 5 false, exPar 11 2 5 true, exPar 10 3 5 false])] =
    (none, [⟨0, [(1, ⟨(exPar 11 2 5 true).obj, 1005⟩)]⟩, ⟨1, [(1, ⟨(exPar 11 2 5 true).obj, 1005⟩)]⟩]) := by
  decide

-- too few / a repeated share / a disagreeing root for validator 2: nothing is published for validator 1 either
example :
    let good := (1, [exPar 10 1 5 false, exPar 10 2 5 false, exPar 10 3 5 false])
    aggregateAll 3 exCombine exVerify (fun _ => some 7) 1 id none
      [good, (2, [exPar 20 1 6 false, exPar 20 2 6 false])] = (some .tooFew, []) ∧
    aggregateAll 3 exCombine exVerify (fun _ => some 7) 1 id none
      [good, (2, [exPar 20 1 6 false, exPar 20 2 6 false, exPar 20 2 6 false])] = (some .tooFewDistinct, []) ∧
    aggregateAll 3 exCombine exVerify (fun _ => some 7) 1 id none
      [good, (2, [exPar 20 1 6 false, exPar 21 2 9 false, exPar 20 3 6 false])] = (some .badSig, []) ∧
    aggregateAll 3 exCombine exVerify (fun _ => some 7) 1 List.reverse none
      [good, (2, [exPar 20 1 6 false, exPar 21 2 9 false, exPar 20 3 6 false])] = (some .badSig, []) := by
  decide

end CharonV.SigAgg
