/-
C04 — Consensus liveness: a good round decides also when members PREPARED in earlier rounds
(justification rule J2, implementation level, every cluster size).

C04: "If at most f members crash, start late or stay silent, the other members keep running the
duty's consensus instance with their proposals available, and messages between running members
arrive well within a round's timeout, then every running member decides, within at most one full
leader rotation after the last such fault. No message sent by an honest member is ever rejected as
unjustified by another honest member."

`Props/C04Live.lean` proves that a good round decides when the earlier rounds were lost *silently*
(all ROUND-CHANGEs null, the leader proposes its own input, rule J1). Here the earlier rounds may
have progressed partially: some members hold a prepared certificate `(pr, pv, quorum of PREPAREs)`,
their ROUND-CHANGEs carry it, the leader's `getJustifiedQrc` has to pick a quorum of ROUND-CHANGEs
plus the PREPAREs of the highest prepared round among them and to RE-PROPOSE that value (J2), and
every receiver's `isJustifiedPrePrepare` / `containsJustifiedQrc` has to accept exactly that.
Same setting as `C04Live`: the implementation model `CharonV.Model.Qbft` (`step` = one iteration of
`qbft.Run`'s loop), every `d : Def` with `1 ≤ d.nodes` and every leader function, every duplicate-free
list `R` of running members with `d.quorum ≤ R.length` (everybody else silent), every `env : Env`
with `env.Fair` (an oracle — Go map iteration orders `srcOrd`, `pqPerm` — per step and member, an
arbitrary arrival order per phase and member), no timer firing inside the good round.

Executions (`Proofs/QbftPrepared.lean`):

* `partialPrepareRound d env R inp ρ dp dc`: the members of `R` start and obtain their inputs, rounds
  `1 … ρ-1` are lost silently, the leader of `ρ` (running, input `v`) proposes `v` and its PRE-PREPARE
  reaches all of `R`; the PREPAREs of the senders `dp p` (any duplicate-free list of members of `R`,
  in that order) reach member `p`, so `p` prepares `(ρ, v)` — and sends its COMMIT — iff
  `d.quorum ≤ (dp p).length`; the COMMITs of the senders `dc p` (prepared members, fewer than a
  quorum) reach member `p`; everything else is lost (`PartialDelivery`).
* `afterPartialPrepare … k`: then every member's round timer fires `k + 1` times with nothing
  delivered in between (`k` further lost rounds); the ROUND-CHANGEs for round `ρ + k + 1` — each with
  its sender's certificate —, then the leader's PRE-PREPARE, then all PREPAREs, then all COMMITs are
  delivered to all of `R` (`timeoutsThenGood`).
* `Stuck d r B p old nd` / `timeoutsThenGood d env R cl k ρ`: the same good round from ANY cluster
  state in which every running member sits undecided in round `r` with an armed timer, holding any
  old buffer (rounds `≤ r`, ≤ `B` messages per source) and ANY valid prepared certificate of a round
  `≤ r` — members prepared in different rounds on different values included.

Theorems:

* `j2_selection_complete` — function level, the leader-side half of J2: `getJustifiedQrc` SUCCEEDS on
  every flattened buffer with ≥ quorum ROUND-CHANGEs whose highest prepared round `ρ` (value `w`) is
  backed by PREPAREs of a quorum of sources in the buffer, for every oracle permutation (the
  receiver-side half is `getJustifiedQrc_contains`, used by `Props/C04.honest_msgs_justified`).
* (A) `good_round_after_partial_prepare` — if fewer than a quorum of the running members are
  unprepared (every quorum of ROUND-CHANGEs contains a prepared one), every member of `R` decides the
  prepared value `v` in round `r`, exactly once, no `bug`/`unjust` — the leader needs NO input of its
  own; `good_round_after_partial_prepare_exact_quorum`: in particular for exactly quorum-many running
  members and any non-empty set of prepared members.
  `good_round_after_partial_prepare_any` — any set of prepared members (also empty), leader with an
  input: everybody decides one value `w` in round `r`: `w = v` if the first quorum of ROUND-CHANGEs
  reaching the leader contains a prepared member's, the leader's input if not (QBFT allows that: a
  null quorum justifies a fresh proposal).
  The literal statement "for every non-empty set of prepared members the good round decides `v`, the
  leader needing no input" is FALSE on the model — and in QBFT: `unforced_no_input_witness` (nobody
  decides: the leader saw a null quorum first and has nothing to propose), `unforced_other_value_witness`
  (everybody decides the leader's input).
* (B) `good_round_after_any_prepares` — from any `Stuck` cluster (members prepared in different
  earlier rounds): everybody decides one value `w ≠ 0` in the good round; `w` is the value prepared
  in the HIGHEST prepared round among the first quorum of ROUND-CHANGEs that reached the leader
  (`ValueSpec`), or the leader's input if those were all null. `stuck_at_start`,
  `partial_round_keeps_stuck`: `Stuck` holds at the start and is kept by every lost round and every
  partially progressing round, i.e. (B) applies after ANY history of such rounds (each partial round
  adds ≤ 4 buffered messages per source: `B + 4 ≤ d.fifo`, production `fifo = 100`).
* (C) `prepared_decides_within_rotation` — production leader function: after a round with partial
  prepares every running member `l` leads exactly one of the next `n` rounds, and the execution
  "rounds before it lost, that round good" decides the prepared value.

Not covered: asynchronous overlap of phases and real time (see `C04Timed` for the silent case),
`CmpOut.fail`/`.timeout`, members that crash between the partial round and the good round while
their PREPAREs are part of a certificate (covered by (B): certificates may name any sources),
Byzantine members.
-/
import CharonV.Proofs.QbftPrepared
import CharonV.Props.C04Live

namespace CharonV.Qbft

/-- **J2, leader side, is complete.** At least a quorum of ROUND-CHANGEs for `round` in the scanned
list, all with prepared round `≤ ρ`, one of them prepared on `(ρ, w)`, and PREPAREs for `(ρ, w)` of a
quorum of distinct sources in the scanned list: `getJustifiedQrc` returns a justification — for every
oracle `k` (order of the candidate prepare quorums). -/
theorem j2_selection_complete (d : Def) (hn : 1 ≤ d.nodes) (k : Nat) (all : List Core) (round ρ w : Nat)
    (hlen : d.quorum ≤ (filterRoundChange all round).length)
    (hall : ∀ c ∈ filterRoundChange all round, c.pr ≤ ρ)
    (hmax : ∃ c ∈ filterRoundChange all round, c.pr = ρ ∧ c.pv = w)
    (S : List Nat) (hS : S.Nodup) (hSlen : d.quorum ≤ S.length)
    (hprep : ∀ s ∈ S, ∃ c ∈ all, c.typ = tPrepare ∧ c.round = ρ ∧ c.value = w ∧ c.src = s) :
    ∃ j, getJustifiedQrc d k all round = some j :=
  getJustifiedQrc_complete d (quorum_pos d hn) k all round ρ w hlen hall hmax S hS hSlen hprep

/-- **(A) Good round after a round with partial prepares.** Round `r - 1`: the leader's
PRE-PREPARE(`v`) reached all of `R`, member `p` got the PREPAREs of `dp p` (prepared iff a quorum)
and the COMMITs of `dc p` (fewer than a quorum); then all timers fired. If fewer than a quorum of
members are unprepared and the leader of round `r` is running — with or without an input —, and
round `r` is good, every member of `R` decides `v` in round `r`, exactly once, without
`bug`/`unjust`: the leader's PRE-PREPARE re-proposes `v` with the J2 justification and passes
`isJustifiedPrePrepare` at every receiver, whichever ROUND-CHANGEs and PREPAREs `getJustifiedQrc`
picked. -/
theorem good_round_after_partial_prepare (d : Def) (hn : 1 ≤ d.nodes) (hf : 8 ≤ d.fifo)
    (R : List Nat) (hR : R.Nodup) (hq : d.quorum ≤ R.length)
    (r : Nat) (hr : 2 ≤ r) (hl' : d.leader (r - 1) ∈ R) (hl : d.leader r ∈ R)
    (inp : Nat → Nat) (v : Nat) (hv : v ≠ 0) (hinp : inp (d.leader (r - 1)) = v)
    (env : Env) (henv : env.Fair) (dp dc : Nat → List Nat) (hd : PartialDelivery d R dp dc)
    (hP : (unprepared d R dp).length < d.quorum) :
    ∀ p ∈ R, GoodOutcome v r (afterPartialPrepare d env R inp (r - 1) dp dc 0 p) := by
  have hr1 : r - 1 + 0 + 1 = r := by omega
  obtain ⟨w, _, _, hwv, hgood⟩ := afterPartialPrepare_decides d hn hf R hR hq (r - 1) 0 (by omega) hl'
    (by rw [hr1]; exact hl) inp v hv hinp env henv dp dc hd (Or.inr hP)
  rw [hwv hP, hr1] at hgood
  exact hgood

/-- (A) for exactly quorum-many running members: ANY non-empty set of prepared members forces J2. -/
theorem good_round_after_partial_prepare_exact_quorum (d : Def) (hn : 1 ≤ d.nodes) (hf : 8 ≤ d.fifo)
    (R : List Nat) (hR : R.Nodup) (hq : R.length = d.quorum)
    (r : Nat) (hr : 2 ≤ r) (hl' : d.leader (r - 1) ∈ R) (hl : d.leader r ∈ R)
    (inp : Nat → Nat) (v : Nat) (hv : v ≠ 0) (hinp : inp (d.leader (r - 1)) = v)
    (env : Env) (henv : env.Fair) (dp dc : Nat → List Nat) (hd : PartialDelivery d R dp dc)
    (hP : ∃ a ∈ R, d.quorum ≤ (dp a).length) :
    ∀ p ∈ R, GoodOutcome v r (afterPartialPrepare d env R inp (r - 1) dp dc 0 p) := by
  apply good_round_after_partial_prepare d hn hf R hR (by omega) r hr hl' hl inp v hv hinp env henv dp dc hd
  obtain ⟨a, ha, hqa⟩ := hP
  have := length_filter_lt_of_mem (fun p => decide ((dp p).length < d.quorum)) R a ha (by simpa using hqa)
  unfold unprepared
  omega

/-- **(A), any set of prepared members, leader with an input.** Everybody decides the same value `w`
in round `r`: the prepared value `v` if the first quorum of ROUND-CHANGEs reaching the leader
(`leaderQuorum`) contains a prepared member's, the leader's own input if they were all null. -/
theorem good_round_after_partial_prepare_any (d : Def) (hn : 1 ≤ d.nodes) (hf : 8 ≤ d.fifo)
    (R : List Nat) (hR : R.Nodup) (hq : d.quorum ≤ R.length)
    (r : Nat) (hr : 2 ≤ r) (hl' : d.leader (r - 1) ∈ R) (hl : d.leader r ∈ R)
    (inp : Nat → Nat) (v : Nat) (hv : v ≠ 0) (hinp : inp (d.leader (r - 1)) = v)
    (hinp' : inp (d.leader r) ≠ 0)
    (env : Env) (henv : env.Fair) (dp dc : Nat → List Nat) (hd : PartialDelivery d R dp dc) :
    ∃ w, ((w = v ∧ ∃ a ∈ leaderQuorum d (env.shift 4) R (partialPrepareRound d env R inp (r - 1) dp dc) r,
            d.quorum ≤ (dp a).length) ∨
          (w = inp (d.leader r) ∧
            ∀ a ∈ leaderQuorum d (env.shift 4) R (partialPrepareRound d env R inp (r - 1) dp dc) r,
              (dp a).length < d.quorum)) ∧
      ∀ p ∈ R, GoodOutcome w r (afterPartialPrepare d env R inp (r - 1) dp dc 0 p) := by
  have hr1 : r - 1 + 0 + 1 = r := by omega
  obtain ⟨w, _, hspec, _, hgood⟩ := afterPartialPrepare_decides d hn hf R hR hq (r - 1) 0 (by omega) hl'
    (by rw [hr1]; exact hl) inp v hv hinp env henv dp dc hd (Or.inl (by rw [hr1]; exact hinp'))
  rw [hr1] at hgood hspec
  exact ⟨w, hspec, hgood⟩

/-- **(B) Good round from any stuck cluster — members prepared in different earlier rounds.**
Every member of `R` sits undecided in round `r` (`Stuck`: armed timer, any old buffer of rounds `≤ r`,
any valid prepared certificate of a round `≤ r`, or none); all time out `k + 1` times and round
`r + k + 1` is good; its leader runs and has an input, or fewer than a quorum of members are
unprepared. Then every member of `R` decides the same `w ≠ 0` in round `r + k + 1`, exactly once,
without `bug`/`unjust`, and `w` is (`ValueSpec`) the leader's input if the first quorum of
ROUND-CHANGEs that reached the leader was all null, otherwise the value prepared in the highest
prepared round among them. -/
theorem good_round_after_any_prepares (d : Def) (hn : 1 ≤ d.nodes) (B : Nat) (hf : B + 4 ≤ d.fifo)
    (R : List Nat) (hR : R.Nodup) (hq : d.quorum ≤ R.length) (r k : Nat)
    (hl : d.leader (r + k + 1) ∈ R) (cl : Cluster) (old : Nat → List Msg)
    (hst : ∀ p ∈ R, Stuck d r B p (old p) (cl p))
    (hinp : (cl (d.leader (r + k + 1))).1.inputValue ≠ 0 ∨
      (R.filter (fun a => nullPrepared (cl a))).length < d.quorum)
    (env : Env) (henv : env.Fair) :
    ∃ w, w ≠ 0 ∧
      ValueSpec (fun a => rcOfState (r + k + 1) a (cl a).1) (leaderQuorum d env R cl (r + k + 1))
        (cl (d.leader (r + k + 1))).1.inputValue w ∧
      ∀ p ∈ R, GoodOutcome w (r + k + 1) (timeoutsThenGood d env R cl k (r + k + 1) p) :=
  stuck_then_good_decides d hn B hf R hR hq r k hl cl old hst hinp env henv

/-- (B), base: freshly started members (with or without input) are `Stuck` in round 1. -/
theorem stuck_at_start (d : Def) (R : List Nat) (inp : Nat → Nat) :
    ∀ p ∈ R, Stuck d 1 0 p [] ((startPhase d R inp).1 p) :=
  fun p hp => (start_stuck d R inp p hp).1

/-- (B), step: from a stuck cluster, `k` lost rounds and a partially progressing round `r + k + 1`
(ROUND-CHANGEs and the leader's PRE-PREPARE to everybody, then any PREPAREs and fewer than a quorum
of COMMITs per member) leave the cluster stuck in round `r + k + 1` — with members prepared in
different rounds if some prepared now and others before. -/
theorem partial_round_keeps_stuck (d : Def) (hn : 1 ≤ d.nodes) (B : Nat) (hf : B + 4 ≤ d.fifo)
    (R : List Nat) (hR : R.Nodup) (hq : d.quorum ≤ R.length) (r k : Nat)
    (hl : d.leader (r + k + 1) ∈ R) (cl : Cluster) (old : Nat → List Msg)
    (hst : ∀ p ∈ R, Stuck d r B p (old p) (cl p))
    (hinp : (cl (d.leader (r + k + 1))).1.inputValue ≠ 0 ∨
      (R.filter (fun a => nullPrepared (cl a))).length < d.quorum)
    (env : Env) (henv : env.Fair) (dp dc : Nat → List Nat) (hd : PartialDelivery d R dp dc) :
    ∃ old' : Nat → List Msg, ∀ p ∈ R,
      Stuck d (r + k + 1) (B + 4) p (old' p)
        (partialRound d env dp dc R (enterRound d env R cl k (r + k + 1)).1
          (enterRound d env R cl k (r + k + 1)).2 p) := by
  obtain ⟨old', h⟩ := stuck_partial_stuck d hn B hf R hR hq r k hl cl old hst hinp env henv dp dc hd
  exact ⟨old', fun p hp => (h p hp).1⟩

/-- **(C) The prepared value is decided within one leader rotation.** With the production leader
function, after a round `ρ` with partial prepares (fewer than a quorum of members unprepared) every
running member `l < n` leads exactly one of the rounds `ρ+1 … ρ+n`, say `ρ + k + 1`, and if the
rounds before it are lost and that round is good, every running member decides the prepared value
`v` in it — whether or not `l` has an input of its own. -/
theorem prepared_decides_within_rotation (slot ty n fifo : Nat) (hn : 1 ≤ n) (hf : 8 ≤ fifo)
    (R : List Nat) (hR : R.Nodup) (hq : (rotDef slot ty n fifo).quorum ≤ R.length)
    (ρ : Nat) (hρ : 1 ≤ ρ) (hl' : leaderFn slot ty ρ n ∈ R)
    (inp : Nat → Nat) (v : Nat) (hv : v ≠ 0) (hinp : inp (leaderFn slot ty ρ n) = v)
    (l : Nat) (hl : l ∈ R) (hln : l < n)
    (env : Env) (henv : env.Fair) (dp dc : Nat → List Nat)
    (hd : PartialDelivery (rotDef slot ty n fifo) R dp dc)
    (hP : (unprepared (rotDef slot ty n fifo) R dp).length < (rotDef slot ty n fifo).quorum) :
    ∃ k, k < n ∧ leaderFn slot ty (ρ + k + 1) n = l ∧
      (∀ k', k' < n → leaderFn slot ty (ρ + k' + 1) n = l → k' = k) ∧
      ∀ p ∈ R, GoodOutcome v (ρ + k + 1)
        (afterPartialPrepare (rotDef slot ty n fifo) env R inp ρ dp dc k p) := by
  obtain ⟨r2, h1, h2, h3, h4⟩ := leader_rotation slot ty n hn (ρ + 1) l hln
  refine ⟨r2 - ρ - 1, by omega, ?_, ?_, ?_⟩
  · rw [show ρ + (r2 - ρ - 1) + 1 = r2 by omega]; exact h3
  · intro k' hk' hk'l
    have := h4 (ρ + k' + 1) (by omega) (by omega) hk'l
    omega
  · have e : (rotDef slot ty n fifo).leader (ρ + (r2 - ρ - 1) + 1) = l := by
      show leaderFn slot ty (ρ + (r2 - ρ - 1) + 1) n = l
      rw [show ρ + (r2 - ρ - 1) + 1 = r2 by omega]; exact h3
    obtain ⟨w, _, _, hwv, hgood⟩ := afterPartialPrepare_decides (rotDef slot ty n fifo) hn hf R hR hq ρ
      (r2 - ρ - 1) hρ hl' (by rw [e]; exact hl) inp v hv hinp env henv dp dc hd (Or.inr hP)
    rw [hwv hP] at hgood
    exact hgood

/-! ### Non-vacuity and witnesses: concrete clusters, evaluated by the kernel -/

namespace C04PreparedEx

open C04LiveEx

/-- `d4` (quorum 3), `R4 = [1, 2, 3]` = exactly a quorum running, inputs `7 + p`. Round 1 (leader 1,
value 8): members 1 and 3 receive three PREPAREs and prepare, member 2 only two; member 2 gets both
COMMITs, member 1 one of them. -/
def dp4 : Nat → List Nat := fun p => if p = 1 then [1, 2, 3] else if p = 3 then [3, 1, 2] else [2, 3]
def dc4 : Nat → List Nat := fun p => if p = 2 then [1, 3] else if p = 1 then [3] else []

/-- `d7` (quorum 5), `R7 = [6, 1, 3, 5, 0]` = exactly a quorum running (2 and 4 down, member 1 without
input). Only member 0 sees a PREPARE quorum. -/
def dp7 : Nat → List Nat := fun p => if p = 0 then [5, 3, 1, 6, 0] else if p = 6 then [6, 3] else [3, 0, 1, 5]
def dc7 : Nat → List Nat := fun p => if p = 1 then [0] else []

example : env0.Fair ∧ env1.Fair := by
  constructor
  · exact fun _ _ l => List.Perm.refl l
  · intro ph p l
    show (if (ph + p) % 2 = 0 then l else l.reverse).Perm l
    split
    · exact List.Perm.refl l
    · exact List.reverse_perm l

-- the hypotheses of (A) hold on these clusters …
example : PartialDelivery d4 R4 dp4 dc4 := partialDeliveryB_sound (by decide)
example : PartialDelivery d7 R7 dp7 dc7 := partialDeliveryB_sound (by decide)
example : 1 ≤ d4.nodes ∧ 8 ≤ ({ d4 with fifo := 8 } : Def).fifo ∧ R4.Nodup ∧ R4.length = d4.quorum ∧
    d4.leader 1 ∈ R4 ∧ d4.leader 2 ∈ R4 ∧ inp4 (d4.leader 1) = 8 ∧
    (unprepared d4 R4 dp4).length < d4.quorum := by decide
example : R7.length = d7.quorum ∧ d7.leader 3 ∈ R7 ∧ d7.leader 4 ∈ R7 ∧ inp7 (d7.leader 3) = 15 ∧
    (unprepared d7 R7 dp7).length < d7.quorum := by decide

/-- the examples' clusters with the FIFO limit the theorems ask for. -/
def e4 : Def := { d4 with fifo := 8 }
def e7 : Def := { d7 with fifo := 8 }

-- … members 1 and 3 of `e4` are prepared on (1, 8) after the partial round, member 2 is not …
example : R4.map (fun p => ((partialPrepareRound e4 env1 R4 inp4 1 dp4 dc4 p).1.preparedRound,
    (partialPrepareRound e4 env1 R4 inp4 1 dp4 dc4 p).1.preparedValue)) = [(1, 8), (0, 0), (1, 8)] := by
  decide
-- … and the model evaluates to the conclusion: round 2 (leader 2, unprepared) decides 8, not 9
example : ∀ p ∈ R4, GoodOutcome 8 2 (afterPartialPrepare e4 env0 R4 inp4 1 dp4 dc4 0 p) := by decide
example : ∀ p ∈ R4, GoodOutcome 8 2 (afterPartialPrepare e4 env1 R4 inp4 1 dp4 dc4 0 p) := by decide
-- the same if the leader of round 2 has no input at all
example : ∀ p ∈ R4, GoodOutcome 8 2
    (afterPartialPrepare e4 env1 R4 (fun p => if p = 2 then 0 else 7 + p) 1 dp4 dc4 0 p) := by decide
-- with the production FIFO limit
example : ∀ p ∈ R4, GoodOutcome 8 2
    (afterPartialPrepare { d4 with fifo := 100 } env1 R4 inp4 1 dp4 dc4 0 p) := by decide
-- `e7`: rounds 1, 2 lost, partial prepares in round 3 (leader 5, value 15, only member 0 prepares),
-- good round 4 (leader 6): everybody decides 15 — also member 1, which never had an input
example : ∀ p ∈ R7, GoodOutcome 15 4 (afterPartialPrepare e7 env0 R7 inp7 3 dp7 dc7 0 p) := by decide
example : ∀ p ∈ R7, GoodOutcome 15 4 (afterPartialPrepare e7 env1 R7 inp7 3 dp7 dc7 0 p) := by decide
-- `e7`: partial prepares in round 1 (leader 3, value 13), round 2 lost (its leader 4 is down), good round 3
example : ∀ p ∈ R7, GoodOutcome 13 3 (afterPartialPrepare e7 env1 R7 inp7 1 dp7 dc7 1 p) := by decide

/-! #### The literal statement (A) without "fewer than a quorum unprepared" is false -/

/-- all 7 members of `e7` run; in round 1 (leader 3, value 13) only member 3 prepares. -/
def R7all : List Nat := [0, 1, 2, 3, 4, 5, 6]
def dp7one : Nat → List Nat := fun p => if p = 3 then [0, 1, 2, 3, 4] else [3, 0]
/-- ROUND-CHANGEs (phase 4 = phase 0 of the good round) reach every member in sending order
`0, 1, …, 6` except that member 3's comes last. -/
def envLate : Env :=
  { orc := fun _ _ _ => {},
    ord := fun ph _ l => if ph = 4 then l.filter (fun m => m.core.src != 3) ++ l.filter (fun m => m.core.src == 3)
                         else l }

example : envLate.Fair := by
  intro ph p l
  show (if ph = 4 then _ else l).Perm l
  split
  · have h := List.filter_append_perm (fun m : Msg => m.core.src != 3) l
    have e : (fun m : Msg => !(m.core.src != 3)) = (fun m : Msg => m.core.src == 3) := by
      funext m; cases h : (m.core.src == 3) <;> simp [bne, h]
    rw [e] at h
    exact h
  · exact List.Perm.refl l

example : PartialDelivery e7 R7all dp7one (fun _ => []) := partialDeliveryB_sound (by decide)

/-- **Witness: the good round need not decide the prepared value, nor decide at all, if a quorum of
members is unprepared and the leader has no input.** `e7`, everybody runs, member 3 alone prepared
`(1, 13)`; the leader of round 2 (member 4) has no input and receives the six null ROUND-CHANGEs
before member 3's: at the fifth it holds a null quorum (J1), has nothing to propose and caches the
justification — round 2 ends without a decision although every message was delivered. -/
theorem unforced_no_input_witness :
    PartialDelivery e7 R7all dp7one (fun _ => []) ∧
    (partialPrepareRound e7 envLate R7all (fun p => if p = 4 then 0 else 10 + p) 1 dp7one
      (fun _ => []) 3).1.preparedValue = 13 ∧
    ∀ p ∈ R7all, (afterPartialPrepare e7 envLate R7all (fun p => if p = 4 then 0 else 10 + p) 1 dp7one
      (fun _ => []) 0 p).1.qCommit = [] :=
  ⟨partialDeliveryB_sound (by decide), by decide, by decide⟩

/-- **Witness: … and with an input the leader proposes its OWN value** (14, not the prepared 13), which
everybody — the prepared member 3 included — decides. Allowed by QBFT: fewer than a quorum prepared,
so nobody can have decided 13. (`good_round_after_partial_prepare_any`, second alternative.) -/
theorem unforced_other_value_witness :
    ∀ p ∈ R7all, GoodOutcome 14 2 (afterPartialPrepare e7 envLate R7all (fun p => 10 + p) 1 dp7one
      (fun _ => []) 0 p) := by decide

-- with the ROUND-CHANGEs in sending order member 3's is among the leader's first five: 13 is decided
example : ∀ p ∈ R7all, GoodOutcome 13 2 (afterPartialPrepare e7 env0 R7all (fun p => 10 + p) 1 dp7one
    (fun _ => []) 0 p) := by decide

/-! #### (B): members prepared in different rounds on different values -/

/-- `e7`, everybody runs. Round 1 (leader 3, value 13): members 0 and 1 prepare. Round 2 (leader 4):
the leader sees five null ROUND-CHANGEs first (`envLate2`) and proposes its own 14; members 5 and 6
prepare `(2, 14)`. Round 3 (leader 5) is good. -/
def dpA : Nat → List Nat := fun p => if p = 0 ∨ p = 1 then [3, 2, 4, 5, 6] else [3]
def dpB : Nat → List Nat := fun p => if p = 5 ∨ p = 6 then [4, 2, 3, 5, 6] else [4, 0]
def envLate2 : Env :=
  { orc := fun _ _ _ => {},
    ord := fun ph _ l => if ph = 0 then l.filter (fun m => decide (m.core.src ≥ 2)) ++
                                        l.filter (fun m => decide (m.core.src < 2))
                         else l }
def inpAll : Nat → Nat := fun p => 10 + p
/-- after the partial round 1 -/
def cl1 : Cluster := partialPrepareRound e7 env0 R7all inpAll 1 dpA (fun _ => [])
/-- after the partial round 2 -/
def cl2 : Cluster :=
  partialRound e7 envLate2 dpB (fun _ => []) R7all (enterRound e7 envLate2 R7all cl1 0 2).1
    (enterRound e7 envLate2 R7all cl1 0 2).2

-- members 0, 1 hold a certificate for (1, 13), members 5, 6 for (2, 14), members 2, 3, 4 none
example : R7all.map (fun p => ((cl2 p).1.preparedRound, (cl2 p).1.preparedValue)) =
    [(1, 13), (1, 13), (0, 0), (0, 0), (0, 0), (2, 14), (2, 14)] := by decide
-- good round 3: ROUND-CHANGEs in sending order — the leader's first five are 0 … 4, highest prepared
-- round among them is 1: everybody decides 13
example : ∀ p ∈ R7all, GoodOutcome 13 3 (timeoutsThenGood e7 env0 R7all cl2 0 3 p) := by decide
-- good round 3, reversed arrival orders in the odd phases/members (`env1`): the leader (member 5,
-- phase 0: reversed) first sees 6, 5, 4, 3, 2 — highest prepared round 2: everybody decides 14
set_option maxRecDepth 2048 in
example : ∀ p ∈ R7all, GoodOutcome 14 3 (timeoutsThenGood e7 env1 R7all cl2 0 3 p) := by decide

-- (C): slot 10, duty type 1, 4 members: leaders of rounds 1.. are 0, 1, 2, 3, 0 …; members 1, 2, 3
-- run, partial prepares in round 1 is not possible (leader 0 is down) — take round 2 (leader 1,
-- value 8): member 3 leads round 4 = 2 + 1 + 1, round 3 (leader 2) is lost
example : (List.range 5).map (fun k => leaderFn 10 1 (1 + k) 4) = [0, 1, 2, 3, 0] := by decide
example : ∀ p ∈ R4, GoodOutcome 8 4
    (afterPartialPrepare (rotDef 10 1 4 8) env1 R4 inp4 2 dp4 dc4 1 p) := by decide

end C04PreparedEx

end CharonV.Qbft
