/-
C19 (extension) — the lazy client every configured beacon node is wrapped in (`app/eth2wrap/lazy.go`) and the
non-generated methods of the multi client (`app/eth2wrap/multi.go`), over `Model/LazyMulti.lean`.

Property theorems only (helper lemmas in `CharonV.Proofs.LazyMulti`). "Reachable" = after any list of events
(`run (Lazy.init a) evs`): any interleaving of callers entering, spinning callers taking the provider lock,
provider outcomes (client / error / context error, or never: a hung provider simply makes no step),
cancellations and setters.

One finding, REPAIRED in /repo (83baa9b; model switch `Fixes`, `Fixes.current` = /repo = what every definition uses
by default, `Fixes.asFound` = the code as found): `lazy.setClient` handed the validator cache to a client created
later, but not the duties caches. The statement

    a duties cache set through the lazy client (before or after its client exists) is what the client answers
    the duties-cache endpoints from

is now `duties_cache_reaches_client` (+ `duties_cache_call_succeeds_once_a_primary_is_up` through the multi). The
failure as found stays kernel-checked about the unrepaired switch: `late_client_has_no_duties_cache` (every late
client), `duties_cache_call_fails_although_node_is_up` (witness through the multi). Monitor sig
`lazymulti:duties_cache_lost_on_late_client` (silent on the repaired tree); patch
`fixes/C19-lazy-duties-cache-late-client.diff` (applied).
-/
import CharonV.Proofs.LazyMulti

namespace CharonV.LazyMulti

open CharonV

/-- **At most one client per node, shared by all callers.** In every reachable state the provider has returned
at most one client, and every caller that ever obtained a client obtained client 0. -/
theorem single_client_per_node (a : Nat) (evs : List LEv) :
    (run (Lazy.init a) evs).1.created ≤ 1 ∧
    ∀ c k ans, (c, CallRes.got k ans) ∈ (run (Lazy.init a) evs).2 → k = 0 := by
  have h := inv_run (inv_init a) evs
  refine ⟨?_, h.2⟩
  cases hc : (run (Lazy.init a) evs).1.client with
  | none => rw [h.1.noClient hc]; omega
  | some i => rw [(h.1.clientId i hc).2]; omega

example : (run (Lazy.init 1) [.call 1 .nv, .call 2 .av, .provOk 1 true true, .acquire 2, .call 3 .nv]).2 =
    [(1, .got 0 .node), (2, .got 0 .nocache), (3, .got 0 .node)] := by decide

/-- **The provider is only ever called while there is no client and by the one lock holder.** -/
theorem provider_called_only_without_client (a : Nat) (evs : List LEv) (c : Nat) :
    (run (Lazy.init a) evs).1.lock = some c → (run (Lazy.init a) evs).1.client = none :=
  (inv_run (inv_init a) evs).1.lockNoClient c

/-- **After a failed creation the next caller retries it.** In a reachable state in which `c` is inside the
provider: when the provider fails, only `c` gets the error, nothing is remembered (no client, lock free), and
the next caller — one that was spinning (`acquire`) or a new one (`call`) — calls the provider again. -/
theorem creation_retried_after_failure (a : Nat) (evs : List LEv) (c : Nat)
    (hl : (run (Lazy.init a) evs).1.lock = some c) :
    let l := (run (Lazy.init a) evs).1
    let l1 := (step l (.provErr c)).1
    (step l (.provErr c)).2 = some (c, .err) ∧ l1.lock = none ∧ l1.client = none ∧
    (∀ d k, findCaller l1 d = none →
      (step l1 (.call d k)).1.lock = some d ∧ (step l1 (.call d k)).1.provCalls = l1.provCalls + 1 ∧
      (step l1 (.call d k)).2 = none) ∧
    (∀ d cl, findCaller l1 d = some cl →
      (step l1 (.acquire d)).1.lock = some d ∧ (step l1 (.acquire d)).1.provCalls = l1.provCalls + 1) := by
  intro l l1
  have hc : l.client = none := provider_called_only_without_client a evs c hl
  have hl' : l.lock = some c := hl
  have e1 : step l (.provErr c) = ({ dropCaller l c with lock := none }, some (c, .err)) := by
    simp [step, hl']
  have hl1 : l1 = { dropCaller l c with lock := none } := by simp [l1, e1]
  refine ⟨by rw [e1], by rw [hl1], by rw [hl1]; simpa [dropCaller] using hc, ?_, ?_⟩
  · intro d k hd
    have h1c : l1.client = none := by rw [hl1]; simpa [dropCaller] using hc
    have h1l : l1.lock = none := by rw [hl1]
    simp [step, hd, h1c, h1l]
  · intro d cl hd
    have h1c : l1.client = none := by rw [hl1]; simpa [dropCaller] using hc
    have h1l : l1.lock = none := by rw [hl1]
    simp [step, hd, h1c, h1l]

example : (run (Lazy.init 1) [.call 1 .nv, .call 2 .nv, .provErr 1, .acquire 2, .provOk 2 true true]).2 =
    [(1, .err), (2, .got 0 .node)] := by decide

/-- **A cancelled caller returns at once, whatever the others do.** A caller whose context is cancelled while it
waits for the provider lock returns `ctx.Err()` by a step of its own — no step of the lock holder (which may hang
in the provider for ever) is needed; a cancelled lock holder returns as soon as its provider returns the context
error (`provCtx`; a provider that ignores its context is the one thing that can keep it). -/
theorem cancelled_caller_returns_promptly (l : Lazy) (c : Nat) (cl : Caller) (hf : findCaller l c = some cl) :
    let l1 := (step l (.cancel c)).1
    (l.lock ≠ some c → (step l1 (.ctxRet c)).2 = some (c, .ctxErr)) ∧
    (l.lock = some c → (step l1 (.provCtx c)).2 = some (c, .ctxErr)) := by
  intro l1
  have hf1 : findCaller l1 c = some { cl with cancelled := true } := by
    simp only [l1, step, findCaller]
    exact find_after_cancel l.callers c cl hf
  have hlock : l1.lock = l.lock := by simp [l1, step]
  constructor
  · intro hn
    have : l1.lock ≠ some c := by rw [hlock]; exact hn
    simp [step, hf1, this]
  · intro hy
    have : l1.lock = some c := by rw [hlock]; exact hy
    simp [step, hf1, this]

/-- **Cancellation does not poison the client.** After a cancelled caller has returned, the client (if any), the
caches and every other caller are exactly as before; the provider lock is as before if the caller was waiting
for it, and free if the caller held it — so a later caller gets the existing client or creates one
(`creation_retried_after_failure` applies to the state reached: see `after_cancel_next_caller_creates`). -/
theorem cancel_does_not_poison (l : Lazy) (c : Nat) (cl : Caller) (hf : findCaller l c = some cl) :
    let l1 := (step l (.cancel c)).1
    let lw := (step l1 (.ctxRet c)).1
    let lh := (step l1 (.provCtx c)).1
    (l.lock ≠ some c → lw.client = l.client ∧ lw.lock = l.lock ∧ lw.val = l.val ∧ lw.dut = l.dut ∧
        lw.created = l.created ∧ lw.callers = l.callers.filter (fun x => x.id != c)) ∧
    (l.lock = some c → lh.client = l.client ∧ lh.lock = none ∧ lh.val = l.val ∧ lh.dut = l.dut ∧
        lh.created = l.created ∧ lh.callers = l.callers.filter (fun x => x.id != c)) := by
  intro l1 lw lh
  have hf1 : findCaller l1 c = some { cl with cancelled := true } := by
    simp only [l1, step, findCaller]
    exact find_after_cancel l.callers c cl hf
  have hlock : l1.lock = l.lock := by simp [l1, step]
  have hcs : l1.callers.filter (fun x => x.id != c) = l.callers.filter (fun x => x.id != c) := by
    simp only [l1, step]
    exact filter_after_cancel l.callers c
  constructor
  · intro hn
    have h' : l1.lock ≠ some c := by rw [hlock]; exact hn
    have e : step l1 (.ctxRet c) = (dropCaller l1 c, some (c, .ctxErr)) := by simp [step, hf1, h']
    simp only [lw, e, dropCaller, hcs]
    simp [l1, step]
  · intro hy
    have h' : l1.lock = some c := by rw [hlock]; exact hy
    have e : step l1 (.provCtx c) = ({ dropCaller l1 c with lock := none }, some (c, .ctxErr)) := by
      simp [step, hf1, h']
    simp only [lh, e, dropCaller, hcs]
    simp [l1, step]

/-- after the creating caller was cancelled, the next caller calls the provider (with its own context). -/
theorem after_cancel_next_caller_creates :
    (run (Lazy.init 1) [.call 1 .nv, .call 2 .nv, .cancel 1, .provCtx 1, .acquire 2, .provOk 2 true false,
                        .call 3 .nv]).2 =
      [(1, .ctxErr), (2, .got 0 .node), (3, .got 0 .node)] := by decide

/-- **A creation failure is an error of that node only.** Seen from `provide`, a lazy node whose provider fails
is a node answering with that error (class `ecls`), nothing else; a node that has a client, or whose provider
returns one, answers a node endpoint with the node's own answer. -/
theorem lazy_failure_is_a_node_error (l : Lazy) (k : Kind) (s : Script) (ecls : Provide.Outcome)
    (hc : l.client = none) :
    (s.create = false → nodeOutcome l k s ecls = ecls) ∧
    (s.create = true → s.answer = true → nodeOutcome l .nv s ecls = .ok) := by
  constructor
  · intro h; simp [nodeOutcome, hc, h]
  · intro h1 h2; simp [nodeOutcome, hc, h1, h2]

/-- **One reachable node suffices.** A call through a multi over lazy nodes returns primary `i`'s answer at the
moment `i` completes, if `i`'s lazy client yields a successful answer (its client exists or its provider returns
one, and the node answers) and up to then nobody cancelled and no other primary completed successfully — whatever
the other nodes do: providers that fail with any class, that hang (never complete), nodes answering errors. -/
theorem one_reachable_node_suffices (m : Multi) (k : Kind) (ecls : Provide.Outcome) (ps fs : List Script)
    (pre post : List Provide.Ev) (i : Nat) (l : Lazy) (s : Script)
    (hi : (zipScripts m.prim ps)[i]? = some (l, s))
    (hok : nodeOutcome l k s ecls = .ok)
    (hq : Provide.Quiet (scenOf m k ecls ps fs) false [i] pre) :
    (m.call k ecls ps fs (pre ++ Provide.Ev.rel false i :: post)).2 = .okFrom false i := by
  have hn : (scenOf m k ecls ps fs).prim[i]? = some ⟨.ok, true⟩ := by
    simp only [scenOf]
    rw [getElem?_zipScripts_map m.prim ps _ i (l, s) hi, hok]
  have hne : (scenOf m k ecls ps fs).prim.isEmpty = false := by
    cases h : (scenOf m k ecls ps fs).prim with
    | nil => rw [h] at hn; cases hn
    | cons _ _ => rfl
  have h1 := Provide.go_first_success (scenOf m k ecls ps fs) false pre post i ⟨.ok, true⟩ 0 hn
    (by simp [Provide.isOk]) hq
  have h2 : Provide.provide (scenOf m k ecls ps fs) (pre ++ Provide.Ev.rel false i :: post) =
      (.okFrom false i, pre.length + 1) := by
    simpa [Provide.provide, hne, Provide.nodes] using h1
  simp [Multi.call, h2]

/-- non-vacuity: primary 0 cannot be created (time-out class), primary 2 hangs, primary 1 is created on this call. -/
example : (Multi.call ⟨[Lazy.init 1, Lazy.init 2, Lazy.init 3], [], []⟩ .nv .timeout
      [⟨false, true⟩, ⟨true, true⟩, ⟨true, true⟩] [] [.rel false 0, .rel false 1]).2 = .okFrom false 1 := by decide

/-- **IsActive / IsSynced of the multi = some PRIMARY has a client that is active / synced** (fallbacks and
nodes without client do not count). -/
theorem multi_active_iff (m : Multi) :
    (m.isActive = true ↔ ∃ l ∈ m.prim, ∃ i, l.client = some i ∧ i.active = true) ∧
    (m.isSynced = true ↔ ∃ l ∈ m.prim, ∃ i, l.client = some i ∧ i.synced = true) := by
  constructor
  · simp only [Multi.isActive, List.any_eq_true]
    constructor
    · rintro ⟨l, hl, ha⟩
      refine ⟨l, hl, ?_⟩
      unfold Lazy.isActive at ha
      split at ha
      · exact ⟨_, by assumption, ha⟩
      · cases ha
    · rintro ⟨l, hl, i, hi, ha⟩
      exact ⟨l, hl, by simp [Lazy.isActive, hi, ha]⟩
  · simp only [Multi.isSynced, List.any_eq_true]
    constructor
    · rintro ⟨l, hl, ha⟩
      refine ⟨l, hl, ?_⟩
      unfold Lazy.isSynced at ha
      split at ha
      · exact ⟨_, by assumption, ha⟩
      · cases ha
    · rintro ⟨l, hl, i, hi, ha⟩
      exact ⟨l, hl, by simp [Lazy.isSynced, hi, ha]⟩

/-- an active fallback does not make the multi active. -/
example : (Multi.mk [Lazy.init 1] [(run (Lazy.init 101) [.call 1 .nv, .provOk 1 true true]).1] []).isActive = false := by
  decide

/-- **SetForkVersion reaches every existing client of the primaries** — and nothing else: the fallbacks are
untouched, a node without client keeps no trace of it. -/
theorem fork_version_reaches_existing_clients (m : Multi) (v : Nat) :
    (∀ l ∈ (m.setFork v).prim, ∀ i, l.client = some i → i.fork = some v) ∧
    (m.setFork v).fb = m.fb ∧
    (∀ l ∈ m.prim, l.client = none → (step l (.setFork v)).1 = l) := by
  refine ⟨?_, rfl, ?_⟩
  · intro l hl i hi
    simp only [Multi.setFork, List.mem_map] at hl
    obtain ⟨l0, _, rfl⟩ := hl
    simp only [step, Option.map_eq_some_iff] at hi
    obtain ⟨j, _, rfl⟩ := hi
    rfl
  · intro l _ hc
    cases l
    simp_all [step]

/-- **Witness: a fork version set before the client exists is lost** (in production the provider of
`newBeaconClient` configures the constructor's fork version itself, and nobody calls `SetForkVersion` later). -/
theorem fork_version_lost_on_late_client_witness :
    ((run (Lazy.init 1) [.setFork 5, .call 1 .nv, .provOk 1 true true]).1.client.map (·.fork)) = some none := by
  decide

/-- **The validator cache reaches the client whenever it is created** (`setClient`) **and when it exists**. -/
theorem validator_cache_reaches_client (l : Lazy) (c : Nat) (cl : Caller) (act syn : Bool)
    (hf : findCaller l c = some cl) (hl : l.lock = some c) :
    ((step l (.provOk c act syn)).1.client.map (·.val)) = some l.val ∧
    ∀ v, ((step l (.setVal v)).1.val = some v ∧ ∀ i, (step l (.setVal v)).1.client = some i → i.val = some v) := by
  constructor
  · simp [step, hf, hl, newClient]
  · intro v
    refine ⟨by simp [step], ?_⟩
    intro i hi
    simp only [step, Option.map_eq_some_iff] at hi
    obtain ⟨j, _, rfl⟩ := hi
    rfl

/-- **The duties caches reach the client whenever it is created** (`setClient`, repaired) **and when it exists**:
a duties cache set through the lazy client — before or after its client exists — is what the client answers the
duties-cache endpoints from. -/
theorem duties_cache_reaches_client (l : Lazy) (c : Nat) (cl : Caller) (act syn : Bool)
    (hf : findCaller l c = some cl) (hl : l.lock = some c) :
    (∃ i, (step l (.provOk c act syn)).1.client = some i ∧ i.dut = l.dut ∧
       (∀ v, l.dut = some v → answer i .pd = .cache v)) ∧
    ∀ v, ((step l (.setDut v)).1.dut = some v ∧
      ∀ i, (step l (.setDut v)).1.client = some i → i.dut = some v ∧ answer i .pd = .cache v) := by
  constructor
  · refine ⟨newClient l act syn, by simp [step, hf, hl], by simp [newClient, Fixes.current], ?_⟩
    intro v hv
    simp [answer, newClient, Fixes.current, hv]
  · intro v
    refine ⟨by simp [step], ?_⟩
    intro i hi
    simp only [step, Option.map_eq_some_iff] at hi
    obtain ⟨j, _, rfl⟩ := hi
    exact ⟨rfl, rfl⟩

example : (run (Lazy.init 1) [.setDut 8, .call 1 .pd, .provOk 1 true true, .call 2 .pd]).2 =
    [(1, .got 0 (.cache 8)), (2, .got 0 (.cache 8))] := by decide

/-- **A duties-cache call through the multi succeeds once one primary has come up**: if primary `i` holds a duties
cache (set through the multi at start-up, whether or not the node was up then) and its client exists or can be
created, the call returns `i`'s answer at the event at which `i` completes — whatever the other nodes do. -/
theorem duties_cache_call_succeeds_once_a_primary_is_up (m : Multi) (ecls : Provide.Outcome) (ps fs : List Script)
    (pre post : List Provide.Ev) (i : Nat) (l : Lazy) (s : Script)
    (hi : (zipScripts m.prim ps)[i]? = some (l, s))
    (hd : l.dut.isSome = true)
    (hup : (∃ c, l.client = some c ∧ c.dut = l.dut) ∨ (l.client = none ∧ s.create = true))
    (hq : Provide.Quiet (scenOf m .pd ecls ps fs) false [i] pre) :
    (m.call .pd ecls ps fs (pre ++ Provide.Ev.rel false i :: post)).2 = .okFrom false i := by
  refine one_reachable_node_suffices m .pd ecls ps fs pre post i l s hi ?_ hq
  rcases hup with ⟨c, hc, hcd⟩ | ⟨hc, hs⟩
  · simp [nodeOutcome, hc, hcd, hd]
  · simp [nodeOutcome, hc, hs, hd, Fixes.current]

/-- **As found** (`Fixes.asFound`, before 83baa9b), **for every late client:** whatever duties cache the lazy client
holds, the client its provider returns later has none (`setClient` handed over `l.valCache` only) — its duties-cache
endpoints answer "no active … duties cache" until somebody calls `SetDutiesCache` again (charon calls it once). -/
theorem late_client_has_no_duties_cache (l : Lazy) (c : Nat) (cl : Caller) (act syn : Bool)
    (hf : findCaller l c = some cl) (hl : l.lock = some c) :
    ∃ i, (step l (.provOk c act syn) Fixes.asFound).1.client = some i ∧ i.dut = none ∧
      (step l (.provOk c act syn) Fixes.asFound).1.dut = l.dut ∧ answer i .pd = .nocache := by
  refine ⟨newClient l act syn Fixes.asFound, by simp [step, hf, hl], rfl, by simp [step, hf, hl, dropCaller], rfl⟩

/-- **Witness through the multi, as found and repaired:** the only primary is down when the caches are set (the
validator cache and the duties cache, as `app.go` does at start-up) and comes up later: the validator-cache call
succeeds; the duties-cache call failed as found with a non-availability error (so no fallback was consulted) although
the node is up — and succeeds on the repaired code. -/
theorem duties_cache_call_fails_although_node_is_up :
    let m0 : Multi := ⟨[Lazy.init 1], [Lazy.init 101], []⟩
    let m1 := (m0.setVal 7).setDut 8
    (m1.call .av .timeout [⟨true, true⟩] [⟨true, true⟩] [.rel false 0, .rel true 0]).2 = .okFrom false 0 ∧
    (m1.call .pd .timeout [⟨true, true⟩] [⟨true, true⟩] [.rel false 0, .rel true 0] Fixes.asFound).2 =
      .errFrom false 0 .other ∧
    (m1.call .pd .timeout [⟨true, true⟩] [⟨true, true⟩] [.rel false 0, .rel true 0]).2 = .okFrom false 0 := by
  decide

/-- **The cache setters of the multi skip the fallbacks** (as `SetForkVersion`, `IsActive`, `IsSynced`): when
every primary is unreachable the fallbacks are consulted, but a cache endpoint can never be answered by them. -/
theorem cache_setters_skip_fallbacks (m : Multi) (v : Nat) :
    (m.setVal v).fb = m.fb ∧ (m.setDut v).fb = m.fb := ⟨rfl, rfl⟩

example :
    let m0 : Multi := ⟨[Lazy.init 1], [Lazy.init 101], []⟩
    ((m0.setVal 7).call .av .timeout [⟨false, true⟩] [⟨true, true⟩] [.rel false 0, .rel true 0]).2 =
      .errFrom true 0 .other := by decide

/-- **Address() is a node that answered most often** (or, before any answer, the first primary's address — empty
while that node has no client), **and ClientForAddress never selects a node without client.** -/
theorem client_for_address_needs_a_client (m : Multi) (a : Nat) (i : Nat) (h : m.cfa a = .prim i) :
    ∃ l, m.prim[i]? = some l ∧ l.client.isSome = true ∧ l.address = a := by
  unfold Multi.cfa at h
  split at h
  · cases h
  · rename_i ha
    split at h
    · rename_i j hj
      cases h
      rw [List.findIdx?_eq_some_iff_getElem] at hj
      obtain ⟨hlt, hp, _⟩ := hj
      refine ⟨m.prim[i], by simp [hlt], ?_, by simpa using hp⟩
      have hp' : m.prim[i].address = a := by simpa using hp
      unfold Lazy.address at hp'
      split at hp'
      · simp [*]
      · exact absurd hp'.symm ha
    · split at h <;> cases h

end CharonV.LazyMulti
