/-
C01, the asynchronous retry layer: `app/retry/retry.go` and `core.WithAsyncRetry` (core/retry.go).

Production wiring puts `go retryer.DoAsync(...)` on five edges of the duty pipeline (`wrappedEdges`:
Fetcher.Fetch, Consensus.Participate, Consensus.Propose, ParSigEx.Broadcast, Broadcaster.Broadcast — pinned
against the source by the stream's `cfg` op); every other component input (`syncEdges`) is called inline.
`Model/Retry.lean` is one Retryer with any number of calls as a small-step machine; the environment (the op
list) chooses every outcome of the wrapped function, when backoff timers fire, when duty deadlines pass, when
the caller's context is cancelled, when Shutdown is called and when Shutdown's own context gives up — in any
order. All theorems are for EVERY op list (`run init os` is any reachable state).

Stated for the code as it is:
* attempt 0 of a call runs unconditionally, also when the duty deadline has passed already (the wrapped
  function is handed an expired context): `no_attempt_after_deadline` is about retries (attempt ≥ 1),
  `first_attempt_ignores_deadline_witness` shows attempt 0.
* `Shutdown(ctx)` returns when `ctx` is done even if calls are still running
  (`shutdown_timeout_leaves_inflight_witness`); `shutdown_waits_for_inflight` is about the other return.
-/
import CharonV.Proofs.Retry
import CharonV.Props.C01

namespace CharonV.Retry

/-! ### one call: sequential attempts, at most one success, permanent errors end the call -/

/-- **Attempts of one call are strictly sequential and numbered consecutively.** Whenever attempt `i` of a
call enters the wrapped function, no attempt of that call is running, and `i` is the number of attempts the
call has made before. -/
theorem attempts_sequential (os : List Op) (o : Op) (id i : Nat) (x : Bool)
    (h : Ev.start id i x ∈ (step (run init os) o).2) :
    (∀ c, (run init os).calls id = some c → c.phase ≠ .inflight) ∧ i = attemptsOf (run init os) id := by
  rcases step_start h with ⟨_, _, _, _, h0, _, hi, _⟩ | ⟨_, c, h0, hp, _, _, hi, _⟩
  · exact ⟨(by intro c hc; rw [h0] at hc; cases hc), (by simp [attemptsOf, h0, hi])⟩
  · refine ⟨?_, by simp [attemptsOf, h0, hp, hi]⟩
    intro c' hc'; rw [h0] at hc'; cases hc'; rw [hp]; simp

/-- Every outcome that is not a retryable error is the LAST outcome of its call, and the call has returned. -/
theorem final_outcome_ends_call (os : List Op) (id : Nat) (c : Call) (o : Outcome)
    (hc : (run init os).calls id = some c) (ho : o ∈ c.hist) (hr : o.retryable = false) :
    c.phase = .done ∧ c.hist.head? = some o ∧ ∀ o' ∈ c.hist.tail, o'.retryable = true := by
  have hI := inv_run inv_init os
  have hD := hI.histDone id c hc
  refine ⟨?_, ?_, hD⟩
  · refine Classical.byContradiction fun hne => ?_
    have := hI.histLive id c hc hne o ho
    rw [hr] at this; cases this
  · cases hh : c.hist with
    | nil => rw [hh] at ho; cases ho
    | cons a t =>
      rw [hh] at ho hD
      rcases List.mem_cons.mp ho with e | e
      · simp [e]
      · have := hD o e
        rw [hr] at this; cases this

/-- **The wrapped function never runs again after it succeeded**: a success is the last outcome of its call,
the call has returned, its history holds exactly one success, and no attempt of it starts afterwards. -/
theorem stops_after_first_success (os : List Op) (id : Nat) (c : Call)
    (hc : (run init os).calls id = some c) (ho : Outcome.ok ∈ c.hist) :
    c.phase = .done ∧ c.hist.head? = some .ok ∧ c.hist.count .ok = 1 ∧
    ∀ o i x, Ev.start id i x ∉ (step (run init os) o).2 := by
  obtain ⟨hp, hh, ht⟩ := final_outcome_ends_call os id c .ok hc ho rfl
  refine ⟨hp, hh, ?_, ?_⟩
  · cases hl : c.hist with
    | nil => rw [hl] at ho; cases ho
    | cons a t =>
      rw [hl] at hh ht
      simp at hh
      subst hh
      have : t.count Outcome.ok = 0 := by
        rw [List.count_eq_zero]
        intro hm
        have := ht _ hm
        simp [Outcome.retryable] at this
      simp [this]
  · intro o i x h
    rcases step_start h with ⟨_, _, _, _, h0, _⟩ | ⟨_, c', h0, hp', _⟩
    · rw [h0] at hc; cases hc
    · rw [h0] at hc; cases hc; rw [hp] at hp'; cases hp'

/-- **A permanent error is not retried**: it is the last outcome, the call has returned, no attempt follows. -/
theorem permanent_error_not_retried (os : List Op) (id : Nat) (c : Call) (e : Outcome)
    (hc : (run init os).calls id = some c) (he : e ∈ c.hist) (hperm : e.permanent = true) :
    c.phase = .done ∧ c.hist.head? = some e ∧ ∀ o i x, Ev.start id i x ∉ (step (run init os) o).2 := by
  have hr : e.retryable = false := by
    simp [Outcome.permanent] at hperm; exact hperm.2
  obtain ⟨hp, hh, _⟩ := final_outcome_ends_call os id c e hc he hr
  refine ⟨hp, hh, ?_⟩
  intro o i x h
  rcases step_start h with ⟨_, _, _, _, h0, _⟩ | ⟨_, c', h0, hp', _⟩
  · rw [h0] at hc; cases hc
  · rw [h0] at hc; cases hc; rw [hp] at hp'; cases hp'

/-- All attempts of a call that was retried failed with retryable errors: a retry attempt (index ≥ 1) starts
only on a history of retryable errors of exactly that length. -/
theorem retry_only_after_retryable_errors (os : List Op) (o : Op) (id i : Nat) (x : Bool)
    (h : Ev.start id i x ∈ (step (run init os) o).2) (hi : 1 ≤ i) :
    ∃ c, (run init os).calls id = some c ∧ c.hist.length = i ∧ ∀ o' ∈ c.hist, o'.retryable = true := by
  rcases step_start h with ⟨_, _, _, _, _, _, h0, _⟩ | ⟨_, c, h0, hp, _, _, hl, _⟩
  · omega
  · refine ⟨c, h0, hl.symm, (inv_run inv_init os).histLive id c h0 ?_⟩
    rw [hp]; simp

/-! ### deadline and shutdown -/

/-- **No retry after the deadline**: an attempt with index ≥ 1 starts only while the call's context is live
(the duty deadline has not passed) and Shutdown has not begun; the context it is given is not expired. -/
theorem no_attempt_after_deadline (os : List Op) (o : Op) (id i : Nat) (x : Bool)
    (h : Ev.start id i x ∈ (step (run init os) o).2) (hi : 1 ≤ i) :
    x = false ∧ (run init os).shutdown = false ∧
    ∃ c, (run init os).calls id = some c ∧ c.expired = false := by
  rcases step_start h with ⟨_, _, _, _, _, _, h0, _⟩ | ⟨_, c, h0, _, hs, hx, _, hxx⟩
  · omega
  · exact ⟨hxx, hs, c, h0, hx⟩

/-- As the code is, attempt 0 is not guarded: a call made after its duty's deadline still runs the wrapped
function once, with an expired context. -/
theorem first_attempt_ignores_deadline_witness :
    (step init (.call 1 0 true true)).2 = [.start 1 0 true] := by decide

/-- Once the deadline has passed (or Shutdown began) a call that is not running has returned, and a running
one returns with its next outcome, whatever it is. -/
theorem expired_call_ends_with_next_outcome (os : List Op) (id : Nat) (c : Call) (o : Outcome)
    (hc : (run init os).calls id = some c) (hx : c.expired = true) :
    c.phase ≠ .backoff ∧
    (c.phase = .inflight → Ev.returned id ∈ (step (run init os) (.ret id o)).2) := by
  have hI := inv_run inv_init os
  refine ⟨?_, ?_⟩
  · intro hp
    have := (hI.boff id c hc hp).1
    rw [hx] at this; cases this
  · intro hp
    unfold step
    have : Ev.returned id ∈ (core (run init os) (.ret id o)).2 := by
      simp only [core, hc, hp, if_true]
      split
      · simp
      · split
        · simp
        · simp [hx]
    rcases settle_events (core (run init os) (.ret id o)) with e | ⟨e, _, _⟩
    · rw [e]; exact this
    · rw [e]; exact List.mem_append_left _ this

/-- **A temporary error before the deadline is retried**: the call arms backoff `i` (= the index of the failed
attempt) and, when that timer fires, starts attempt `i + 1`. -/
theorem temporary_error_retried_until_deadline (os : List Op) (id : Nat) (c : Call) (o : Outcome)
    (hc : (run init os).calls id = some c) (hp : c.phase = .inflight) (hx : c.expired = false)
    (hr : o.retryable = true) :
    (step (run init os) (.ret id o)).2 = [.backoff id c.hist.length] ∧
    (step (step (run init os) (.ret id o)).1 (.fire id)).2 = [.start id (c.hist.length + 1) false] := by
  have hI := inv_run inv_init os
  have hsd : (run init os).shutdown = false := by
    cases hs : (run init os).shutdown with
    | false => rfl
    | true => have := hI.sdexp hs id c hc; rw [hx] at this; cases this
  have hw : (run init os).sdWaiting = false := by
    cases hs : (run init os).sdWaiting with
    | false => rfl
    | true => have := hI.wait hs; rw [hsd] at this; cases this
  have hok : o ≠ .ok := by intro e; rw [e] at hr; cases hr
  have hc1 : core (run init os) (.ret id o)
      = (upd (run init os) id { c with hist := o :: c.hist, phase := .backoff }, [.backoff id c.hist.length]) := by
    simp [core, hc, hp, hok, hr, hx]
  have hs1 : step (run init os) (.ret id o)
      = (upd (run init os) id { c with hist := o :: c.hist, phase := .backoff }, [.backoff id c.hist.length]) := by
    unfold step settle
    rw [hc1]
    simp [upd, hw]
  refine ⟨by rw [hs1], ?_⟩
  rw [hs1]
  unfold step settle
  simp [core, upd, hsd, hx, hw]

/-- A waiting call is not lost: nothing but its timer, its deadline or Shutdown moves it. -/
theorem backoff_call_not_lost (os : List Op) (id : Nat) (c : Call) (o : Op)
    (hc : (run init os).calls id = some c) (hp : c.phase = .backoff)
    (h1 : o ≠ .fire id) (h2 : o ≠ .expire id) (h3 : o ≠ .shutdown) :
    (step (run init os) o).1.calls id = some c := by
  unfold step
  rw [settle_calls]
  cases o with
  | call id' label dl pre =>
    simp only [core]
    split
    · exact hc
    · rename_i h0
      have : id ≠ id' := by intro e; rw [e] at hc; rw [h0] at hc; cases hc
      split <;> simp [this, hc]
  | ret id' o' =>
    simp only [core]
    split
    · exact hc
    · rename_i c' h0
      split
      · rename_i hp'
        have : id ≠ id' := by
          intro e; rw [e] at hc; rw [h0] at hc; cases hc; rw [hp] at hp'; cases hp'
        split
        · simp [finish, this, hc]
        · split
          · simp [finish, this, hc]
          · split <;> simp [finish, upd, this, hc]
      · exact hc
  | fire id' =>
    have : id ≠ id' := by intro e; exact h1 (by rw [e])
    simp only [core]
    split
    · exact hc
    · split
      · split
        · simp [finish, this, hc]
        · split <;> simp [finish, upd, this, hc]
      · exact hc
  | expire id' =>
    have : id ≠ id' := by intro e; exact h2 (by rw [e])
    simp only [core]
    split
    · exact hc
    · split
      · split
        · simp [finish, this, hc]
        · split <;> simp [upd, this, hc]
      · exact hc
  | pcancel _ => exact hc
  | shutdown => exact absurd rfl h3
  | sdcancel =>
    simp only [core]
    split <;> exact hc

/-- **The caller's context does not matter** (`DoAsync` switches to the retryer's own context): cancelling it
changes nothing and causes no event. -/
theorem parent_cancel_is_ignored (s : State) (id : Nat) :
    (core s (.pcancel id)) = (s, []) := rfl

/-- **No call starts after Shutdown began**: `DoAsync` is refused (no attempt, the `active` map untouched), and
no attempt of any call starts while the shutdown flag is set. -/
theorem no_start_after_shutdown (os : List Op) (hs : (run init os).shutdown = true) :
    (∀ o id i x, Ev.start id i x ∉ (step (run init os) o).2) ∧
    (∀ id label dl pre, (run init os).calls id = none →
      (core (run init os) (.call id label dl pre)).2 = [.dropped id] ∧
      (core (run init os) (.call id label dl pre)).1.active = (run init os).active) := by
  refine ⟨?_, ?_⟩
  · intro o id i x h
    rcases step_start h with ⟨_, _, _, _, _, h0, _⟩ | ⟨_, _, _, _, h0, _⟩ <;> (rw [hs] at h0; cases h0)
  · intro id label dl pre h0
    simp [core, h0, hs]

/-- **The `active` map is exact**: per label it counts the calls that are between startAsync and endAsync. -/
theorem active_counts_exact (os : List Op) (l : Nat) :
    (run init os).active l = live (run init os).calls l (run init os).ids :=
  (inv_run inv_init os).act l

/-- **Shutdown waits for every call**: when `Shutdown` returns because its polling loop found the `active` map
empty (not because its own context was done), every call has returned — none is running, none is waiting. -/
theorem shutdown_waits_for_inflight (os : List Op) (o : Op)
    (h : Ev.sdReturned false ∈ (step (run init os) o).2) :
    ∀ id c, (step (run init os) o).1.calls id = some c → c.phase = .done := by
  have hI : Inv (core (run init os) o).1 := inv_core (inv_run inv_init os) o
  unfold step at h ⊢
  rcases settle_events (core (run init os) o) with e | ⟨_, _, hs⟩
  · rw [e] at h; exact absurd h (core_no_sdok _ _)
  · intro id c hc
    rw [settle_calls] at hc
    exact all_done_of_not_someActive hI hs id c hc

/-- As the code is, `Shutdown(ctx)` gives up when `ctx` is done and then returns while a call is running. -/
theorem shutdown_timeout_leaves_inflight_witness :
    let s := run init [.call 1 0 true false, .shutdown]
    (step s .sdcancel).2 = [.sdReturned true] ∧
    ((step s .sdcancel).1.calls 1).map (·.phase) = some .inflight := by decide

/-! ### error classification and backoff -/

/-- `strings.Contains`. -/
theorem hasSub_iff (pat s : List Char) : hasSub pat s = true ↔ ∃ a b, s = a ++ pat ++ b := by
  induction s with
  | nil =>
    simp only [hasSub, List.isEmpty_iff]
    constructor
    · intro h; exact ⟨[], [], by simp [h]⟩
    · rintro ⟨a, b, h⟩
      have := congrArg List.length h
      simp at this
      exact List.eq_nil_of_length_eq_zero (by omega)
  | cons c cs ih =>
    simp only [hasSub, Bool.or_eq_true, ih]
    constructor
    · rintro (h | ⟨a, b, h⟩)
      · obtain ⟨t, ht⟩ := List.isPrefixOf_iff_prefix.mp h
        exact ⟨[], t, by simp [ht]⟩
      · exact ⟨c :: a, b, by simp [h]⟩
    · rintro ⟨a, b, h⟩
      cases a with
      | nil =>
        left
        exact List.isPrefixOf_iff_prefix.mpr ⟨b, by simpa using h.symm⟩
      | cons a0 a' =>
        right
        simp at h
        exact ⟨a', b, by simp [h.2]⟩

/-- **What is retried**: context errors, network errors and errors whose text contains one of the three
beacon-node phrases; everything else is permanent. -/
theorem retryable_iff (n c : Bool) (m : String) :
    (Outcome.err n c m).retryable = true ↔
      c = true ∨ n = true ∨ (∃ a b, m.toList = a ++ "future".toList ++ b) ∨
      (∃ a b, m.toList = a ++ "current or previous".toList ++ b) ∨ (∃ a b, m.toList = a ++ "retryable".toList ++ b) := by
  simp only [Outcome.retryable, isTemporaryBeaconErr, Bool.or_eq_true, hasSub_iff]
  constructor
  · rintro ((h | h) | ((h | h) | h))
    · exact Or.inl h
    · exact Or.inr (Or.inl h)
    · exact Or.inr (Or.inr (Or.inl h))
    · exact Or.inr (Or.inr (Or.inr (Or.inl h)))
    · exact Or.inr (Or.inr (Or.inr (Or.inr h)))
  · rintro (h | h | h | h | h)
    · exact Or.inl (Or.inl h)
    · exact Or.inl (Or.inr h)
    · exact Or.inr (Or.inl (Or.inl h))
    · exact Or.inr (Or.inl (Or.inr h))
    · exact Or.inr (Or.inr h)

/-- The nominal backoff never exceeds MaxDelay (12 s) and never falls below BaseDelay (250 ms). -/
theorem nominal_delay_bounds (i : Nat) : baseDelayUs ≤ nominalDelayUs i ∧ nominalDelayUs i ≤ maxDelayUs := by
  unfold nominalDelayUs
  refine ⟨?_, Nat.min_le_right _ _⟩
  rw [Nat.le_min]
  refine ⟨?_, by decide⟩
  rw [Nat.le_div_iff_mul_le (Nat.pow_pos (by decide))]
  exact Nat.mul_le_mul_left _ (Nat.pow_le_pow_left (by decide) i)

/-! ### composition with C01: a retried edge is an instance of the cluster model's environment -/

open CharonV.Cluster in
/-- What one attempt of a retried edge call does to the cluster: the wrapper's closure captured the call's
arguments once (`clone.X(ctx, duty, set)`), so every attempt works through the same list `full` of deliveries;
an attempt that fails may have performed any selection of them (`mask`) before failing. -/
def attemptOps (full : List Cluster.Op) (mask : List Bool) : List Cluster.Op :=
  (full.zip mask).filterMap (fun p => if p.2 then some p.1 else none)

/-- All cluster operations one retried call causes: attempt after attempt, each repeated WHOLE (nothing
remembers what an earlier, failed attempt had delivered already). -/
def edgeOps (attempts : Nat) (full : List Cluster.Op) (masks : Nat → List Bool) : List Cluster.Op :=
  (List.range attempts).flatMap (fun k => attemptOps full (masks k))

theorem attemptOps_subset (full : List Cluster.Op) (mask : List Bool) :
    ∀ o ∈ attemptOps full mask, o ∈ full := by
  intro o ho
  unfold attemptOps at ho
  obtain ⟨p, hp, hpo⟩ := List.mem_filterMap.mp ho
  split at hpo
  · cases hpo; exact (List.of_mem_zip hp).1
  · cases hpo

/-- **A retried edge refines the cluster environment.** For every retry script `rs`, every call `id` of it,
every delivery list `full` captured by the call and every partial-delivery pattern `masks`: the cluster
operations the call causes are drawn from `full` only (any number of times — once per attempt —, in the
attempts' order, or never: no attempt, or attempts that delivered nothing), i.e. they are an op sequence of
`Model/Cluster.lean`; and C01's conclusion holds verbatim for every cluster history `cs` that contains them
interleaved with anything else. -/
theorem retry_edge_refines_cluster_env (rs : List Op) (id : Nat) (full : List Cluster.Op)
    (masks : Nat → List Bool) :
    (∀ o ∈ edgeOps (attemptsOf (run init rs) id) full masks, o ∈ full) ∧
    (attemptsOf (run init rs) id = 0 → edgeOps (attemptsOf (run init rs) id) full masks = []) ∧
    (∀ (c : Cluster.Cfg), 1 ≤ c.n → (Cluster.toParams c).byzCount ≤ CharonV.QbftSpec.faulty c.n →
      ∀ cs : List Cluster.Op, (edgeOps (attemptsOf (run init rs) id) full masks).Sublist cs →
      ∀ j j' r r', r ∈ ((Cluster.run c Cluster.init cs) j).emitted →
        r' ∈ ((Cluster.run c Cluster.init cs) j').emitted → r = r') := by
  refine ⟨?_, ?_, ?_⟩
  · intro o ho
    unfold edgeOps at ho
    obtain ⟨k, _, hk⟩ := List.mem_flatMap.mp ho
    exact attemptOps_subset full (masks k) o hk
  · intro h0; rw [h0]; rfl
  · intro c hn hb cs _ j j' r r' hr hr'
    exact Cluster.no_two_roots c hn hb cs j j' r r' hr hr'

/-- **Retries of the exchange edge never change the root.** `ParSigEx.Broadcast` of member `k` for the root
`r` its validator client signed: whatever the retry script, every cluster operation it causes is a delivery
of that same partial `(k, r)` to some member. -/
theorem parsigex_retry_same_root (rs : List Op) (id k r : Nat) (peers : List Nat) (masks : Nat → List Bool) :
    ∀ o ∈ edgeOps (attemptsOf (run init rs) id) (peers.map (fun j => Cluster.Op.deliver j k r)) masks,
      ∃ j, j ∈ peers ∧ o = Cluster.Op.deliver j k r := by
  intro o ho
  have := (retry_edge_refines_cluster_env rs id (peers.map (fun j => Cluster.Op.deliver j k r)) masks).1 o ho
  obtain ⟨j, hj, e⟩ := List.mem_map.mp this
  exact ⟨j, hj, e.symm⟩

/-- A successful call delivered everything at least once: its last attempt went through the whole list. -/
theorem success_delivers_all (n : Nat) (full : List Cluster.Op) (masks : Nat → List Bool)
    (hfull : masks n = List.replicate full.length true) :
    ∀ o ∈ full, o ∈ edgeOps (n + 1) full masks := by
  intro o ho
  unfold edgeOps
  refine List.mem_flatMap.mpr ⟨n, by simp, ?_⟩
  rw [hfull]
  unfold attemptOps
  obtain ⟨i, hi, e⟩ := List.getElem_of_mem ho
  refine List.mem_filterMap.mpr ⟨(o, true), ?_, by simp⟩
  rw [List.mem_iff_getElem]
  refine ⟨i, by simpa using hi, ?_⟩
  simp [e]

/-- **A wrapped edge hands its component only pairs that were captured by a call of that edge.** For every op
list and every assignment `cap` of wrapped calls to retryer calls: each invocation of an inner function
carries the (edge, duty, set) of the very call whose attempt it is — never the set of one call under the duty
of another, never something nobody passed in; and that call was indeed made (its attempt count is ≥ 1). -/
theorem wrapped_edge_delivers_only_captured_pairs (cap : Nat → Option WCall) (os : List Op) :
    ∀ w ∈ invocations cap (trace init os),
      ∃ id i x, Ev.start id i x ∈ trace init os ∧ cap id = some w := by
  intro w hw
  unfold invocations at hw
  obtain ⟨e, he, hew⟩ := List.mem_filterMap.mp hw
  cases e with
  | start id i x => exact ⟨id, i, x, he, hew⟩
  | backoff _ _ => cases hew
  | returned _ => cases hew
  | dropped _ => cases hew
  | sdReturned _ => cases hew

/-- The number of invocations a wrapped call causes is its number of attempts, all with its own pair: the
delivery list of the refinement theorem with `full = [the captured pair]` (cf. `attemptOps_subset`). -/
theorem wrapped_call_attempts_same_pair (w : Cluster.Op) (n : Nat) (masks : Nat → List Bool) :
    ∀ o ∈ edgeOps n [w] masks, o = w := by
  intro o ho
  unfold edgeOps at ho
  obtain ⟨k, _, hk⟩ := List.mem_flatMap.mp ho
  simpa using attemptOps_subset [w] (masks k) o hk

/-- The wiring the model assumes (compared with core/retry.go and core/interfaces.go by the stream's `cfg`
op): exactly five inputs are asynchronous and retried, six are inline. -/
theorem wrapped_edges_table :
    wrappedEdges.map (·.1) = ["FetcherFetch", "ConsensusParticipate", "ConsensusPropose", "ParSigExBroadcast",
      "BroadcasterBroadcast"] ∧
    syncEdges = ["FetcherFetchOnly", "DutyDBStore", "ParSigDBStoreInternal", "ParSigDBStoreExternal",
      "SigAggAggregate", "AggSigDBStore"] ∧
    ∀ f ∈ syncEdges, f ∉ wrappedEdges.map (·.1) := by decide

/-! ### Non-vacuity (concrete runs) -/

-- a call that fails twice with retryable errors, is retried after each timer, then succeeds: three attempts,
-- numbered 0, 1, 2, and nothing after the success
example :
    trace init [.call 1 3 true false, .ret 1 (.err true false "dial"), .fire 1,
      .ret 1 (.err false false "Cannot create attestation for future slot"), .fire 1, .ret 1 .ok, .fire 1,
      .ret 1 .ok]
    = [.start 1 0 false, .backoff 1 0, .start 1 1 false, .backoff 1 1, .start 1 2 false, .returned 1] := by
  decide

-- permanent error: one attempt; deadline while waiting: the call returns; deadline while running: the next
-- retryable error ends the call
example :
    trace init [.call 1 0 true false, .ret 1 (.err false false "boom"), .fire 1,
      .call 2 0 true false, .ret 2 (.err false true "x: context canceled"), .expire 2, .fire 2,
      .call 3 0 true false, .expire 3, .ret 3 (.err true false "net")]
    = [.start 1 0 false, .returned 1, .start 2 0 false, .backoff 2 0, .returned 2,
       .start 3 0 false, .returned 3] := by decide

-- Shutdown: the waiting call leaves at once, the running one is waited for, a new call is refused, and
-- Shutdown returns with the last endAsync
example :
    trace init [.call 1 0 true false, .ret 1 (.err true false "net"), .call 2 0 true false, .shutdown,
      .call 3 1 true false, .ret 2 (.err true false "net")]
    = [.start 1 0 false, .backoff 1 0, .start 2 0 false, .returned 1, .dropped 3, .returned 2,
       .sdReturned false] := by decide

example : isTemporaryBeaconErr "Attestations must be from the current or previous epoch" = true ∧
    isTemporaryBeaconErr "Future" = false ∧ (Outcome.err false false "boom").permanent = true := by decide

example : (List.range 11).map nominalDelayMs = [250, 400, 640, 1024, 1638, 2621, 4194, 6711, 10737, 12000, 12000] := by
  decide

-- two failed attempts that each reached one peer, then a complete one: deliveries of the same partial only
example :
    edgeOps 3 [Cluster.Op.deliver 0 2 107, .deliver 1 2 107] (fun k => [[true, false], [false, true], [true, true]].getD k [])
    = [.deliver 0 2 107, .deliver 1 2 107, .deliver 0 2 107, .deliver 1 2 107] := by rfl

-- D1 fails temporarily and waits, D2 on the same edge succeeds, D1's timer fires: the edge's component sees
-- (D1, S1), (D2, S2), (D1, S1) — D1's set again under D1, nothing else
example :
    invocations (fun id => if id = 1 then some ⟨3, 5, 1⟩ else if id = 2 then some ⟨3, 6, 2⟩ else none)
      (trace init [(WCall.mk 3 5 1).op 1, .ret 1 (.err true false "net"), (WCall.mk 3 6 2).op 2, .ret 2 .ok, .fire 1])
    = [⟨3, 5, 1⟩, ⟨3, 6, 2⟩, ⟨3, 5, 1⟩] := by decide

end CharonV.Retry
