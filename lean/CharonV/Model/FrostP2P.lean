/-
Model of the receive side of `dkg/frostp2p.go` (core Lean only): the decisions of
`newBcastCallback` (round-1 and round-2 casts), `newP2PCallback` (round-1 shares) and the
collect-by-count loops of `frostP2P.Round1` / `frostP2P.Round2`.

A received message is abstracted to what the callbacks inspect: the authenticated sender (share
index `1..n` for cluster members, any other number for a non-member peer id), the `msgKey`s of its
entries with the number of commitments each carries, and a content tag (two messages are the same
bytes iff all fields agree).

The order of the checks is the order in the code:
* bcast callback (round 1 / round 2): de-duplication by sender *first* (the sender is marked before
  validation), then membership, then per entry source / target / validator index (/ commitments).
* p2p callback: membership, per entry source / target / validator index, *then* de-duplication.
-/
import CharonV.Model.FrostGlue

namespace CharonV.FrostP2P

open CharonV.FrostGlue

structure Cfg where
  n    : Nat   -- nodes, share indices 1..n
  t    : Nat   -- threshold = commitments per round-1 cast
  nv   : Nat   -- validators
  self : Nat   -- this node's share index
  deriving Repr

structure Entry where
  key     : MsgKey
  commits : Nat := 0
  deriving DecidableEq, Repr

structure Msg where
  sender  : Nat
  entries : List Entry
  tag     : Nat := 0
  deriving DecidableEq, Repr

inductive Err where
  | unknownPeer | source | target | val | commit
  deriving DecidableEq, Repr

inductive Res where
  | queued | dup | err (e : Err)
  deriving DecidableEq, Repr

def isMember (c : Cfg) (p : Nat) : Bool := 1 ≤ p && p ≤ c.n

/-- first failing check over the entries, in order. `tgt` is the required target id (0 for a
broadcast, the receiving node for a p2p share); `commits = some t` adds the commitment count. -/
def firstErr (c : Cfg) (sender tgt : Nat) (commits : Option Nat) : List Entry → Option Err
  | [] => none
  | e :: rest =>
    if e.key.sourceID ≠ sender then some .source
    else if e.key.targetID ≠ tgt then some .target
    else if e.key.valIdx ≥ c.nv then some .val
    else match commits with
      | some t => if e.commits ≠ t then some .commit else firstErr c sender tgt commits rest
      | none => firstErr c sender tgt commits rest

/-- de-duplication set and queue of one message kind at one node. -/
structure Chan where
  seen  : List Nat := []
  queue : List Msg := []
  deriving Repr

/-- `newBcastCallback`, one branch (`commits = some t` for round 1, `none` for round 2). -/
def bcastCb (c : Cfg) (commits : Option Nat) (s : Chan) (m : Msg) : Chan × Res :=
  if m.sender ∈ s.seen then (s, .dup)
  else
    let s' := { s with seen := m.sender :: s.seen }
    if !isMember c m.sender then (s', .err .unknownPeer)
    else match firstErr c m.sender 0 commits m.entries with
      | some e => (s', .err e)
      | none => ({ s' with queue := s'.queue ++ [m] }, .queued)

/-- `newP2PCallback`. -/
def p2pCb (c : Cfg) (s : Chan) (m : Msg) : Chan × Res :=
  if !isMember c m.sender then (s, .err .unknownPeer)
  else match firstErr c m.sender c.self none m.entries with
    | some e => (s, .err e)
    | none =>
      if m.sender ∈ s.seen then (s, .dup)
      else ({ seen := m.sender :: s.seen, queue := s.queue ++ [m] }, .queued)

/-- all deliveries of one kind, in order. -/
def runCb (cb : Chan → Msg → Chan × Res) (s : Chan) (ms : List Msg) : Chan :=
  ms.foldl (fun s m => (cb s m).1) s

/-! ### collect loops -/

inductive CRes where
  | done (casts p2ps : List Msg)
  | tooMany
  | waiting (casts p2ps : List Msg)   -- blocked in `select`: not everything arrived yet
  deriving Repr

/-- `frostP2P.Round1`'s loop. `evs` is the order in which the `select` receives (`true` = from
the casts channel, which also holds the node's own broadcast; `false` = from the p2p channel). -/
def collect1 (n : Nat) : List (Bool × Msg) → List Msg → List Msg → CRes
  | [], cs, ps => .waiting cs ps
  | (true, m) :: rest, cs, ps =>
    let cs' := cs ++ [m]
    if cs'.length > n then .tooMany
    else if cs'.length = n ∧ ps.length = n - 1 then .done cs' ps
    else collect1 n rest cs' ps
  | (false, m) :: rest, cs, ps =>
    let ps' := ps ++ [m]
    if ps'.length > n - 1 then .tooMany
    else if cs.length = n ∧ ps'.length = n - 1 then .done cs ps'
    else collect1 n rest cs ps'

/-- `frostP2P.Round2`'s loop: the first `n` messages of the channel. -/
def collect2 (n : Nat) (q : List Msg) : Option (List Msg) :=
  if q.length ≥ n then some (q.take n) else none

/-! ### the genuine messages (what `round1` / `round2` of `frost.go` produce) -/

def genCast1 (c : Cfg) (p : Nat) : Msg :=
  { sender := p, entries := (List.range c.nv).map fun v => { key := ⟨v, p, 0⟩, commits := c.t } }

def genP2P (c : Cfg) (p : Nat) : Msg :=
  { sender := p, entries := (List.range c.nv).map fun v => { key := ⟨v, p, c.self⟩ } }

def genCast2 (c : Cfg) (p : Nat) : Msg :=
  { sender := p, entries := (List.range c.nv).map fun v => { key := ⟨v, p, 0⟩ } }

end CharonV.FrostP2P

namespace CharonV.FrostP2P

/-- What the network may hand to a node's round-1 callbacks (`d1`: everything delivered to the
round-1 cast callback, `dp`: to the p2p callback — any order, any repetitions, any junk):
nothing carries the node's own id as sender (libp2p never dials itself); a broadcast bearing a
member's id is that member's genuine broadcast (bcast authenticates the sender; an honest member
sends one message per round — replays are allowed); a *valid* share message bearing a member's id
is genuine (invalid ones from anybody are allowed). -/
structure Fair1 (c : Cfg) (d1 dp : List Msg) : Prop where
  notSelf1 : ∀ m ∈ d1, m.sender ≠ c.self
  notSelfP : ∀ m ∈ dp, m.sender ≠ c.self
  honest1  : ∀ m ∈ d1, isMember c m.sender = true → m = genCast1 c m.sender
  honestP  : ∀ m ∈ dp, isMember c m.sender = true →
    firstErr c m.sender c.self none m.entries = none → m = genP2P c m.sender

/-- the same for the round-2 cast callback. -/
structure Fair2 (c : Cfg) (d2 : List Msg) : Prop where
  notSelf : ∀ m ∈ d2, m.sender ≠ c.self
  honest  : ∀ m ∈ d2, isMember c m.sender = true → m = genCast2 c m.sender

end CharonV.FrostP2P

/-!
### Overlapping invocations of the bcast callback

Several deliveries may be inside the callback at once. What the code's mutex guarantees is modelled
as two steps per invocation: `enter` — the duplicate check **and** the marking of the sender, one
atomic step — and later `handover` — validation and the channel send. Steps of different
invocations interleave arbitrarily. (The real code holds the lock over both steps, which is one of
these interleavings.) `cstepLate` is the variant that only *checks* at `enter` and marks at
`handover`: it is what the theorem `overlapping_no_duplicate_sender` excludes (see the example).
-/
namespace CharonV.FrostP2P

inductive CEv where
  | enter (m : Msg)
  | handover (m : Msg)
  deriving Repr

structure CState where
  seen   : List Nat := []
  inside : List Msg := []   -- invocations that passed the duplicate check and have not handed over
  queue  : List Msg := []
  deriving Repr

def cstep (c : Cfg) (commits : Option Nat) (s : CState) : CEv → CState
  | .enter m =>
    if m.sender ∈ s.seen then s
    else { s with seen := m.sender :: s.seen, inside := m :: s.inside }
  | .handover m =>
    if m ∈ s.inside then
      let s' := { s with inside := s.inside.erase m }
      if isMember c m.sender && (firstErr c m.sender 0 commits m.entries).isNone then
        { s' with queue := s'.queue ++ [m] }
      else s'
    else s

def crun (c : Cfg) (commits : Option Nat) (s : CState) (evs : List CEv) : CState :=
  evs.foldl (cstep c commits) s

/-- check at `enter`, mark only at `handover` (not what the code does). -/
def cstepLate (c : Cfg) (commits : Option Nat) (s : CState) : CEv → CState
  | .enter m => if m.sender ∈ s.seen then s else { s with inside := m :: s.inside }
  | .handover m =>
    if m ∈ s.inside then
      let s' := { s with inside := s.inside.erase m }
      if isMember c m.sender && (firstErr c m.sender 0 commits m.entries).isNone then
        { s' with queue := s'.queue ++ [m], seen := m.sender :: s'.seen }
      else s'
    else s

end CharonV.FrostP2P
