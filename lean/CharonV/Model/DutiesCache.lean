/-
Model of the duties cache in `app/eth2wrap/cache.go` (`DutiesCache.{Attester,Proposer,SyncComm}DutiesCache`,
`fetch*Duties`, `storeOrAmend*Duties`, `Trim`/`trimBefore*`, `InvalidateCache`/`trimAfter*`,
`UpdateActiveValIndices`) — executable, core Lean only.

The Go code is the same text three times (attester = kind 0, proposer = kind 1, sync = kind 2); the
model is written once over a kind parameter and the correspondence driver exercises all three.

Correspondence with the Go code:

* `lookup cache k e` — the three maps `duties[e]`, `metadata[e]`, `requestedIdxs[e]` of kind `k` (always
                 written and deleted together, under one lock) as one optional `Entry`.
* `Entry.req`  — `requestedIdxs[e]` in slice order (may contain repeats).
* `Entry.duties` — `duties[e]` in slice order; each element carries, besides its content, the
                 identity `sl` of the backing array of its `ValidatorSyncCommitteeIndices` slice
                 (only the sync kind has such a field; for the other kinds the id is a ghost).
* `Entry.md`/`mdObj` — content and identity of the stored `map[string]any` metadata.
* `Pending`    — a `…DutiesCache` call that has done its lookup (`fetch*Duties`) and its beacon
                 node request but not yet `storeOrAmend*Duties`. Every call is `begin` followed by
                 `finish`; the lock-free window between them is where other callers, `Trim` and
                 `InvalidateCache` interleave. `get` is a call nobody interleaves with.
* `reorgs`     — ghost history of `InvalidateCache` epochs; the beacon node's answer for epoch `e`
                 is `bn (verOf reorgs e) k e`: a reorg back to epoch `r` changes what the node
                 answers for every epoch `> r` (and only for those).
* `nextObj`    — allocation counter for object identities; `handed` — ghost list of all object
                 identities (metadata maps, index slices) that were ever returned to a caller.

`Cfg` has one switch per proposed fix in `/verif/fixes/C20-*.diff`; `Cfg.asIs` is the code as it is.
-/
namespace CharonV.DutiesCache

abbrev Epoch := Nat
abbrev VIdx := Nat

/-- content of a duty: validator index and everything else (slot, committee, …) as one tag. -/
structure Duty where
  idx : VIdx
  tag : Nat
  deriving DecidableEq, Repr

/-- a duty struct in Go memory: content plus identity of its index-slice backing array. -/
structure DObj where
  d  : Duty
  sl : Nat
  deriving DecidableEq, Repr

structure Cfg where
  /-- fixes/C20-dedup-amend.diff: the amend path skips an index it has already taken over -/
  dedupAmend    : Bool
  /-- fixes/C20-private-copies.diff: metadata maps are cloned when stored and when served -/
  cloneMeta     : Bool
  /-- fixes/C20-private-copies.diff: sync-duty index slices are cloned when stored and when served -/
  cloneSlices   : Bool
  /-- fixes/C20-inflight-invalidate.diff: a response fetched before an invalidation is not stored -/
  guardInflight : Bool
  deriving DecidableEq, Repr

def Cfg.asIs : Cfg := ⟨false, false, false, false⟩
def Cfg.fixed : Cfg := ⟨true, true, true, true⟩
/-- the variant of `/repo` the correspondence driver is compared against. -/
def Cfg.current : Cfg := ⟨true, true, true, true⟩  -- applied in /repo: 48745d4 (dedupAmend), 85f4ab0 (cloneMeta, cloneSlices), guardInflight (fix of D-16)

structure Entry where
  req     : List VIdx
  duties  : List DObj
  md    : Nat
  mdObj : Nat
  deriving Repr

structure Pending where
  id      : Nat
  kind    : Nat
  epoch   : Epoch
  reqV    : List VIdx   -- effective request of the caller (ghost)
  req     : List VIdx   -- indices sent to the beacon node (`requestVidxs` after narrowing)
  cached  : List DObj   -- `dutiesResult` collected from the cache at lookup time
  data    : List DObj   -- `eth2Resp.Data`
  md    : Nat         -- `eth2Resp.Metadata` content
  mdObj : Nat         -- … and identity
  ver     : Nat         -- ghost: version of the beacon node's answer
  gen     : Nat         -- number of invalidations seen at lookup time
  deriving Repr

structure State where
  active  : List VIdx := []
  cache   : List (Nat × Epoch × Entry) := []
  pending : List Pending := []
  reorgs  : List Epoch := []
  nextObj : Nat := 1
  handed  : List Nat := []

inductive Op where
  | get (k : Nat) (e : Epoch) (idxs : List VIdx)
  | begin (id k : Nat) (e : Epoch) (idxs : List VIdx)
  | finish (id : Nat)
  | reorg (e : Epoch)
  | trim (e : Epoch)
  | setActive (idxs : List VIdx)
  deriving Repr

inductive Out where
  /-- the call returned: duties (in slice order), metadata content and identity, and the indices
  of the beacon node request it made (`none`: served without asking the node). -/
  | ans (duties : List DObj) (md mdObj : Nat) (call : Option (List VIdx))
  /-- the call is waiting for `storeOrAmend`; it asked the node for `call`. -/
  | pend (call : List VIdx)
  | none
  deriving Repr, DecidableEq

/-- version of the node's answer for epoch `e`: number of reorgs back to an epoch `< e`. -/
def verOf (reorgs : List Epoch) (e : Epoch) : Nat :=
  (reorgs.filter (fun r => decide (r < e))).length

/-- the beacon node's answer to a duties request for `idxs` (order of the node's own list). -/
def bnAnswer (bn : Nat → Nat → Epoch → List Duty) (v k : Nat) (e : Epoch) (idxs : List VIdx) : List Duty :=
  (bn v k e).filter (fun d => decide (d.idx ∈ idxs))

/-- fresh Go objects for a list of duty contents, identities `b, b+1, …`. -/
def mkObjs : Nat → List Duty → List DObj
  | _, [] => []
  | b, d :: ds => ⟨d, b⟩ :: mkObjs (b + 1) ds

/-- `requestVidxs`: the caller's indices, or all active ones when the caller passes none. -/
def effReq (s : State) (vidxs : List VIdx) : List VIdx :=
  if vidxs.isEmpty then s.active else vidxs

/-- keep the first occurrence of every index (order preserved). -/
def dedup : List VIdx → List VIdx
  | [] => []
  | x :: xs => x :: (dedup xs).filter (fun y => !(y == x))

/-- the maps as an association list; the first binding of a key is the current one. -/
def lookup : List (Nat × Epoch × Entry) → Nat → Epoch → Option Entry
  | [], _, _ => none
  | (k', e', v) :: rest, k, e => if k' = k ∧ e' = e then some v else lookup rest k e

def setCache (c : List (Nat × Epoch × Entry)) (k : Nat) (e : Epoch) (v : Entry) :
    List (Nat × Epoch × Entry) :=
  (k, e, v) :: c

/-- delete every epoch satisfying `drop` (in all kinds). -/
def dropEpochs (c : List (Nat × Epoch × Entry)) (drop : Epoch → Bool) : List (Nat × Epoch × Entry) :=
  c.filter (fun x => !(drop x.2.1))

def objsOf (ds : List DObj) : List Nat := ds.map (·.sl)

/-- the beacon node call and the parking of the call before `storeOrAmend`. -/
def fetch (bn : Nat → Nat → Epoch → List Duty) (bnMeta : Nat → Nat → Epoch → Nat)
    (s : State) (id k : Nat) (e : Epoch) (reqV req : List VIdx) (cached : List DObj) : State × Out :=
  let ver := verOf s.reorgs e
  let mo := s.nextObj
  let data := mkObjs (mo + 1) (bnAnswer bn ver k e req)
  let p : Pending := { id := id, kind := k, epoch := e, reqV := reqV, req := req, cached := cached,
                       data := data, md := bnMeta ver k e, mdObj := mo, ver := ver,
                       gen := s.reorgs.length }
  ({ s with pending := p :: s.pending, nextObj := mo + 1 + data.length }, .pend req)

/-- first half of `…DutiesCache`: `fetch*Duties`, hit/miss decision, beacon node request. -/
def beginOp (cfg : Cfg) (bn : Nat → Nat → Epoch → List Duty) (bnMeta : Nat → Nat → Epoch → Nat)
    (s : State) (id k : Nat) (e : Epoch) (vidxs : List VIdx) : State × Out :=
  let reqV := effReq s vidxs
  match lookup s.cache k e with
  | none => fetch bn bnMeta s id k e reqV reqV []
  | some ent =>
    -- `missing`: requested indices never asked from the node for this epoch (repeats kept)
    let missing := reqV.filter (fun i => !(ent.req.contains i))
    -- `dutiesResult = append(dutiesResult, &d)`: struct copies whose index slice still points
    -- into the cache
    let hit0 := ent.duties.filter (fun o => decide (o.d.idx ∈ reqV))
    let hit := if cfg.cloneSlices then mkObjs s.nextObj (hit0.map (·.d)) else hit0
    let n1 := if cfg.cloneSlices then s.nextObj + hit0.length else s.nextObj
    if missing.isEmpty then
      let mo := if cfg.cloneMeta then n1 else ent.mdObj
      let n2 := if cfg.cloneMeta then n1 + 1 else n1
      ({ s with nextObj := n2, handed := s.handed ++ (mo :: objsOf hit) }, .ans hit ent.md mo none)
    else
      fetch bn bnMeta { s with nextObj := n1 } id k e reqV missing hit

/-- `storeOrAmend*Duties` for the response held by `p`: the new content of the epoch's maps,
given their old content `old`. -/
def storeOrAmend (cfg : Cfg) (old : Option Entry) (p : Pending) (copies : List DObj) (mdObj : Nat) :
    Entry :=
  match old with
  | none => { req := p.req, duties := copies, md := p.md, mdObj := mdObj }
  | some ent =>
    let newly0 := p.req.filter (fun i => !(ent.req.contains i))
    let newly := if cfg.dedupAmend then dedup newly0 else newly0
    let newD := newly.flatMap (fun i => copies.filter (fun o => o.d.idx == i))
    { ent with req := ent.req ++ newly, duties := ent.duties ++ newD }

/-- second half of `…DutiesCache`: `storeOrAmend*Duties`, then the answer is returned. -/
def finishOp (cfg : Cfg) (s : State) (id : Nat) : State × Out :=
  match s.pending.find? (fun p => p.id == id) with
  | none => (s, .none)
  | some p =>
    let rest := s.pending.filter (fun q => !(q.id == id))
    -- `d := *duty`: struct copies sharing the response's index slices
    let copies := if cfg.cloneSlices then mkObjs s.nextObj (p.data.map (·.d)) else p.data
    let n1 := if cfg.cloneSlices then s.nextObj + p.data.length else s.nextObj
    let smo := if cfg.cloneMeta then n1 else p.mdObj
    let n2 := if cfg.cloneMeta then n1 + 1 else n1
    let skip := cfg.guardInflight && !(p.gen == s.reorgs.length)
    let cache' := if skip then s.cache else
      setCache s.cache p.kind p.epoch (storeOrAmend cfg (lookup s.cache p.kind p.epoch) p copies smo)
    ({ s with pending := rest, cache := cache', nextObj := n2,
              handed := s.handed ++ (p.mdObj :: objsOf (p.cached ++ p.data)) },
     .ans (p.cached ++ p.data) p.md p.mdObj (some p.req))

/-- a complete, uninterleaved `…DutiesCache` call. -/
def getOp (cfg : Cfg) (bn : Nat → Nat → Epoch → List Duty) (bnMeta : Nat → Nat → Epoch → Nat)
    (s : State) (k : Nat) (e : Epoch) (vidxs : List VIdx) : State × Out :=
  match beginOp cfg bn bnMeta s 0 k e vidxs with
  | (s1, .pend _) => finishOp cfg s1 0
  | r => r

def step (cfg : Cfg) (bn : Nat → Nat → Epoch → List Duty) (bnMeta : Nat → Nat → Epoch → Nat)
    (s : State) : Op → State × Out
  | .get k e idxs => getOp cfg bn bnMeta s k e idxs
  | .begin id k e idxs => beginOp cfg bn bnMeta s id k e idxs
  | .finish id => finishOp cfg s id
  | .reorg r =>
    -- `InvalidateCache(r)`: `trimAfter*`: delete every epoch `k > r`, in all three kinds
    ({ s with cache := dropEpochs s.cache (fun e => decide (r < e)), reorgs := r :: s.reorgs }, .none)
  | .trim t =>
    -- `Trim(t)`: nothing when `t < 3`, else `trimBefore*(t - 3)`: delete every epoch `k < t - 3`
    if t < 3 then (s, .none)
    else ({ s with cache := dropEpochs s.cache (fun e => decide (e < t - 3)) }, .none)
  | .setActive idxs => ({ s with active := idxs }, .none)

def run (cfg : Cfg) (bn : Nat → Nat → Epoch → List Duty) (bnMeta : Nat → Nat → Epoch → Nat)
    (s : State) : List Op → State
  | [] => s
  | o :: os => run cfg bn bnMeta (step cfg bn bnMeta s o).1 os

/-- outputs of a run (for the witnesses). -/
def outs (cfg : Cfg) (bn : Nat → Nat → Epoch → List Duty) (bnMeta : Nat → Nat → Epoch → Nat)
    (s : State) : List Op → List Out
  | [] => []
  | o :: os => (step cfg bn bnMeta s o).2 :: outs cfg bn bnMeta (step cfg bn bnMeta s o).1 os

/-! ### The scripted beacon node of the correspondence driver

A pure function of `(seed, number of validators)`, implemented identically in
`harness/cmd/drive-cache/main.go`: validator `i` has 0–3 duties of kind `k` in epoch `e` under
answer version `v`; the node lists them by validator index. -/

def mix (x : Nat) : Nat :=
  let x := x % 4294967296
  let x := ((x ^^^ (x >>> 16)) * 73244475) % 4294967296
  let x := ((x ^^^ (x >>> 16)) * 73244475) % 4294967296
  x ^^^ (x >>> 16)

def h5 (seed v k e i : Nat) : Nat :=
  mix (mix (mix (mix (mix seed + v) + k) + e) + i)

def nDuties (h : Nat) : Nat :=
  let c := h % 16
  if c < 4 then 0 else if c < 12 then 1 else if c < 15 then 2 else 3

def scriptedBn (seed nv : Nat) (v k : Nat) (e : Epoch) : List Duty :=
  (List.range nv).flatMap (fun i =>
    let h := h5 seed v k e i
    (List.range (nDuties h)).map (fun j => ⟨i, (mix (h + j + 1) % 8) * 4 + j⟩))

def scriptedMeta (seed : Nat) (v k : Nat) (e : Epoch) : Nat :=
  h5 seed v k e 1000003 % 1000

end CharonV.DutiesCache
