/-
C12 — model of the SSZ hash-walker operations used by `cluster/ssz.go` (fastssz `Hasher`) and of
the per-version hashing *schemas* of cluster definitions and locks.

Layers (core Lean only; compiled into the `drv-cluster` line driver):

* `Sha256`        : SHA-256 over `ByteArray` (used by the driver to reproduce Go's roots bit-for-bit).
* hasher semantics: `mkChunk`, `chunkify` (`AppendBytes32`), `putBytes` (`PutBytes`), `le64`/`u64Chunk`
                    (`PutUint64`), `merkleize` (`merkleizeImpl`: layer-by-layer with zero hashes,
                    `limit` cases 0 / 1 / depth), `mixin` (`MerkleizeWithMixin`).
                    Everything is generic in the 2-to-1 compression function `h : Chunk → Chunk → Chunk`.
* `Tree`          : the *chunk tree* = a hashing schema instantiated with concrete field values
                    (one node per hasher operation, loops unrolled). `Tree.chunks` is what the
                    operation appends to the hasher buffer; `Tree.root` the final 32-byte root.
* `Sch`/`Val`     : schema datatype emitted by translator T-ssz (field accessor, encoder kind, limits;
                    config-only / version switches already resolved per (version, hash kind)), generic
                    values, and the interpreter `Sch.resolve : Sch → env → Tree`; `encode = root ∘ resolve`.
* static checks   : `Sch.wf`, `Sch.rawFields`, `Sch.mentions` — decidable facts about a schema, evaluated
                    by `decide` on the regenerated schemas in `Props/C12.lean`.
-/
namespace CharonV.Ssz

abbrev Bytes := List UInt8

/-! ## SHA-256 (FIPS 180-4), ByteArray based -/
namespace Sha256

def K : Array UInt32 := #[
  0x428a2f98, 0x71374491, 0xb5c0fbcf, 0xe9b5dba5, 0x3956c25b, 0x59f111f1, 0x923f82a4, 0xab1c5ed5,
  0xd807aa98, 0x12835b01, 0x243185be, 0x550c7dc3, 0x72be5d74, 0x80deb1fe, 0x9bdc06a7, 0xc19bf174,
  0xe49b69c1, 0xefbe4786, 0x0fc19dc6, 0x240ca1cc, 0x2de92c6f, 0x4a7484aa, 0x5cb0a9dc, 0x76f988da,
  0x983e5152, 0xa831c66d, 0xb00327c8, 0xbf597fc7, 0xc6e00bf3, 0xd5a79147, 0x06ca6351, 0x14292967,
  0x27b70a85, 0x2e1b2138, 0x4d2c6dfc, 0x53380d13, 0x650a7354, 0x766a0abb, 0x81c2c92e, 0x92722c85,
  0xa2bfe8a1, 0xa81a664b, 0xc24b8b70, 0xc76c51a3, 0xd192e819, 0xd6990624, 0xf40e3585, 0x106aa070,
  0x19a4c116, 0x1e376c08, 0x2748774c, 0x34b0bcb5, 0x391c0cb3, 0x4ed8aa4a, 0x5b9cca4f, 0x682e6ff3,
  0x748f82ee, 0x78a5636f, 0x84c87814, 0x8cc70208, 0x90befffa, 0xa4506ceb, 0xbef9a3f7, 0xc67178f2]

def H0 : Array UInt32 := #[
  0x6a09e667, 0xbb67ae85, 0x3c6ef372, 0xa54ff53a, 0x510e527f, 0x9b05688c, 0x1f83d9ab, 0x5be0cd19]

@[inline] def rotr (x : UInt32) (n : UInt32) : UInt32 := (x >>> n) ||| (x <<< (32 - n))

@[inline] def be32 (b : ByteArray) (i : Nat) : UInt32 :=
  ((b.get! i).toUInt32 <<< 24) ||| ((b.get! (i+1)).toUInt32 <<< 16) |||
  ((b.get! (i+2)).toUInt32 <<< 8) ||| (b.get! (i+3)).toUInt32

/-- one compression of the 64-byte block at offset `off`. -/
def compress (hs : Array UInt32) (msg : ByteArray) (off : Nat) : Array UInt32 := Id.run do
  let mut w : Array UInt32 := Array.mkEmpty 64
  for t in [0:16] do
    w := w.push (be32 msg (off + 4*t))
  for t in [16:64] do
    let w15 := w[t-15]!
    let w2 := w[t-2]!
    let s0 := rotr w15 7 ^^^ rotr w15 18 ^^^ (w15 >>> 3)
    let s1 := rotr w2 17 ^^^ rotr w2 19 ^^^ (w2 >>> 10)
    w := w.push (w[t-16]! + s0 + w[t-7]! + s1)
  let mut a := hs[0]!
  let mut b := hs[1]!
  let mut c := hs[2]!
  let mut d := hs[3]!
  let mut e := hs[4]!
  let mut f := hs[5]!
  let mut g := hs[6]!
  let mut hh := hs[7]!
  for t in [0:64] do
    let s1 := rotr e 6 ^^^ rotr e 11 ^^^ rotr e 25
    let ch := (e &&& f) ^^^ ((~~~ e) &&& g)
    let t1 := hh + s1 + ch + K[t]! + w[t]!
    let s0 := rotr a 2 ^^^ rotr a 13 ^^^ rotr a 22
    let maj := (a &&& b) ^^^ (a &&& c) ^^^ (b &&& c)
    let t2 := s0 + maj
    hh := g
    g := f
    f := e
    e := d + t1
    d := c
    c := b
    b := a
    a := t1 + t2
  return #[hs[0]! + a, hs[1]! + b, hs[2]! + c, hs[3]! + d, hs[4]! + e, hs[5]! + f, hs[6]! + g, hs[7]! + hh]

def pad (msg : ByteArray) : ByteArray := Id.run do
  let len := msg.size
  let mut m := msg.push 0x80
  while m.size % 64 != 56 do
    m := m.push 0
  let bits : UInt64 := (UInt64.ofNat len) * 8
  for i in [0:8] do
    m := m.push ((bits >>> (UInt64.ofNat (56 - 8*i))).toUInt8)
  return m

def hash (msg : ByteArray) : ByteArray := Id.run do
  let m := pad msg
  let mut hs := H0
  for blk in [0:m.size / 64] do
    hs := compress hs m (64 * blk)
  let mut out := ByteArray.emptyWithCapacity 32
  for i in [0:8] do
    let x := hs[i]!
    out := out.push (x >>> 24).toUInt8
    out := out.push (x >>> 16).toUInt8
    out := out.push (x >>> 8).toUInt8
    out := out.push x.toUInt8
  return out

def hashList (b : Bytes) : Bytes := (hash (ByteArray.mk b.toArray)).toList

end Sha256

/-! ## Chunks and the hasher buffer operations -/

/-- a 32-byte hasher chunk. -/
structure Chunk where
  bytes : Bytes
  len : bytes.length = 32
deriving DecidableEq

/-- `b` right-padded with zeros / cut to exactly 32 bytes. -/
def mkChunk (b : Bytes) : Chunk :=
  ⟨(b ++ List.replicate 32 0).take 32, by simp [List.length_take]⟩

def zeroChunk : Chunk := mkChunk []

/-- `AppendBytes32`: the bytes cut into 32-byte chunks, the last one right-padded with zeros;
nothing at all for the empty slice. -/
def chunkifyAux : Nat → Bytes → List Chunk
  | 0, _ => []
  | n+1, b => if b.isEmpty then [] else mkChunk (b.take 32) :: chunkifyAux n (b.drop 32)

def chunkify (b : Bytes) : List Chunk := chunkifyAux b.length b

/-- 8-byte little-endian encoding (`binary.LittleEndian.PutUint64` / `MarshalUint64`). -/
def le64 (n : Nat) : Bytes :=
  [UInt8.ofNat (n % 256), UInt8.ofNat (n / 256 % 256), UInt8.ofNat (n / 65536 % 256),
   UInt8.ofNat (n / 16777216 % 256), UInt8.ofNat (n / 4294967296 % 256),
   UInt8.ofNat (n / 1099511627776 % 256), UInt8.ofNat (n / 281474976710656 % 256),
   UInt8.ofNat (n / 72057594037927936 % 256)]

/-- `PutUint64`. -/
def u64Chunk (n : Nat) : Chunk := mkChunk (le64 n)

/-- `PutBool`. -/
def boolChunk (b : Bool) : Chunk := mkChunk [if b then 1 else 0]

/-- `leftPad(b, n)`: zeros prepended up to length at least `n`. -/
def leftPad (n : Nat) (b : Bytes) : Bytes := List.replicate (n - b.length) 0 ++ b

section Hasher
variable (h : Chunk → Chunk → Chunk)

/-- `zeroHashes[i]`. -/
def zeroHash : Nat → Chunk
  | 0 => zeroChunk
  | i+1 => h (zeroHash i) (zeroHash i)

/-- one layer of `merkleizeImpl`: hash neighbouring pairs, an odd last node is paired with `z`. -/
def layer (z : Chunk) : List Chunk → List Chunk
  | [] => []
  | [a] => [h a z]
  | a :: b :: r => h a b :: layer z r

/-- `d` layers starting at layer index `i`. -/
def merkLoop : Nat → Nat → List Chunk → List Chunk
  | _, 0, xs => xs
  | i, d+1, xs => merkLoop (i+1) d (layer h (zeroHash h i) xs)

/-- `getDepth(limit)` = ceil(log2 limit). -/
def depthOf (limit : Nat) : Nat := if limit ≤ 1 then 0 else Nat.log2 (limit - 1) + 1

/-- `merkleizeImpl(dst, input, limit)` on a chunk-aligned input (the `count > limit` panic is checked
by the callers: `Tree.chunks`). -/
def merkleize (limit : Nat) (xs : List Chunk) : Chunk :=
  let lim := if limit = 0 then xs.length else limit
  if lim = 0 then zeroChunk
  else if lim = 1 then (match xs with | [c] => c | _ => zeroChunk)
  else match xs with
    | [] => zeroHash h (depthOf lim)
    | _ => (merkLoop h 0 (depthOf lim) xs).headD zeroChunk

/-- `MerkleizeWithMixin`: root of the group hashed with the little-endian `num`. -/
def mixin (root : Chunk) (num : Nat) : Chunk := h root (u64Chunk num)

/-- `PutBytes`: at most one chunk in place (none for the empty slice), more than 32 bytes are
merkleized to one chunk. -/
def putBytes (b : Bytes) : List Chunk :=
  if b.length ≤ 32 then chunkify b else [merkleize h 0 (chunkify b)]

/-- consecutive `n`-byte pieces of `b` (`n > 0`; a shorter tail is dropped: callers check divisibility). -/
def piecesAux (n : Nat) : Nat → Bytes → List Bytes
  | 0, _ => []
  | k+1, b => if b.length < n then [] else b.take n :: piecesAux n k (b.drop n)

def pieces (n : Nat) (b : Bytes) : List Bytes := piecesAux n b.length b

/-- `ssz.CalculateLimit(maxCapacity, numItems, size)`. -/
def calcLimit (maxCap numItems size : Nat) : Nat :=
  let l := (maxCap * size + 31) / 32
  if l ≠ 0 then l else if numItems = 0 then 1 else numItems

/-! ## Chunk trees -/

inductive Err | tooLong | panic | badHex | badVal | multiAddr | noField
deriving DecidableEq, Repr

/-- A hashing schema instantiated with the values it reads: one node per hasher operation. -/
inductive Tree
  /-- `hh.PutBytes(b)` on a slice of unchecked length. -/
  | raw (b : Bytes)
  /-- `putBytesN(hh, b, n)` / `putHexBytes20`: error if longer than `n`, else `PutBytes(leftPad(b, n))`. -/
  | fixed (n : Nat) (b : Bytes)
  /-- `putByteList(hh, b, max)`: error if longer than `max`, chunks merkleized with limit
  `(max+31)/32` and the byte length mixed in. -/
  | blist (max : Nat) (b : Bytes)
  | u64 (n : Nat)
  | bool (b : Bool)
  /-- `PutUint64Array(xs, max)`. -/
  | u64s (max : Nat) (xs : List Nat)
  /-- `putK1SigList(hh, b, max)`: 65-byte pieces, each `PutBytes`, merkleized with limit `max`,
  number of signatures mixed in. -/
  | sigs (max : Nat) (b : Bytes)
  /-- `idx := hh.Index(); kids…; hh.Merkleize(idx)`. -/
  | cont (kids : List Tree)
  /-- `idx := hh.Index(); kids…; hh.MerkleizeWithMixin(idx, num, limit)`; `limit = none` is the
  legacy `MerkleizeWithMixin(idx, num, num)`. -/
  | mix (limit : Option Nat) (num : Nat) (kids : List Tree)
  /-- operations appended to the enclosing group without an own `Merkleize`. -/
  | seq (kids : List Tree)
deriving Repr

mutual
/-- the chunks the operation leaves in the hasher buffer (`error` = the Go function returns an error,
`panic` = fastssz panics with `count higher than limit`). -/
def Tree.chunks : Tree → Except Err (List Chunk)
  | .raw b => .ok (putBytes h b)
  | .fixed n b => if b.length > n then .error .tooLong else .ok (putBytes h (leftPad n b))
  | .blist max b =>
    if b.length > max then .error .tooLong
    else .ok [mixin h (merkleize h ((max + 31) / 32) (chunkify b)) b.length]
  | .u64 n => .ok [u64Chunk n]
  | .bool b => .ok [boolChunk b]
  | .u64s max xs =>
    let lim := calcLimit max xs.length 8
    let cs := chunkify (xs.flatMap le64)
    if cs.length > lim then .error .panic else .ok [mixin h (merkleize h lim cs) xs.length]
  | .sigs max b =>
    if b.length % 65 ≠ 0 then .error .badVal
    else if b.length / 65 > max then .error .tooLong
    else .ok [mixin h (merkleize h max ((pieces 65 b).flatMap (putBytes h))) (b.length / 65)]
  | .cont kids =>
    match Tree.chunksL kids with
    | .error e => .error e
    | .ok cs => .ok [merkleize h 0 cs]
  | .mix lim num kids =>
    match Tree.chunksL kids with
    | .error e => .error e
    | .ok cs =>
      let l := lim.getD num
      if l ≠ 0 ∧ cs.length > l then .error .panic else .ok [mixin h (merkleize h l cs) num]
  | .seq kids => Tree.chunksL kids

def Tree.chunksL : List Tree → Except Err (List Chunk)
  | [] => .ok []
  | t :: ts =>
    match Tree.chunks t with
    | .error e => .error e
    | .ok a =>
      match Tree.chunksL ts with
      | .error e => .error e
      | .ok b => .ok (a ++ b)
end

/-- `hh.HashRoot()`: the buffer must hold exactly one chunk. -/
def Tree.root (t : Tree) : Except Err Chunk :=
  match Tree.chunks h t with
  | .error e => .error e
  | .ok [c] => .ok c
  | .ok _ => .error .badVal

end Hasher

/-! ### shape, size side conditions -/

mutual
/-- operation emits exactly one chunk whatever the data. -/
def Tree.single : Tree → Bool
  | .raw _ => false
  | .fixed n _ => n != 0
  | .blist _ _ => true
  | .u64 _ => true
  | .bool _ => true
  | .u64s _ _ => true
  | .sigs _ _ => true
  | .cont _ => true
  | .mix _ _ _ => true
  | .seq _ => false
end

mutual
/-- Two trees are instances of the same schema: same operations in the same order; list groups
(`mix`) may differ in length and are compared on their common prefix. -/
def Tree.shapeEq : Tree → Tree → Bool
  | .raw _, .raw _ => true
  | .fixed n _, .fixed m _ => n == m
  | .blist n _, .blist m _ => n == m
  | .u64 _, .u64 _ => true
  | .bool _, .bool _ => true
  | .u64s n _, .u64s m _ => n == m
  | .sigs n _, .sigs m _ => n == m
  | .cont ks, .cont ls => ks.length == ls.length && Tree.shapeEqL ks ls
  | .mix l _ ks, .mix l' _ ls => l == l' && Tree.shapeEqL ks ls
  | .seq ks, .seq ls => ks.length == ls.length && Tree.shapeEqL ks ls
  | _, _ => false
/-- pointwise on the common prefix. -/
def Tree.shapeEqL : List Tree → List Tree → Bool
  | t :: ts, u :: us => Tree.shapeEq t u && Tree.shapeEqL ts us
  | _, _ => true
end

mutual
/-- size hypothesis of legacy raw `PutBytes` fields: corresponding raw slices have equal length. -/
def Tree.rawAgree : Tree → Tree → Bool
  | .raw a, .raw b => a.length == b.length
  | .cont ks, .cont ls => Tree.rawAgreeL ks ls
  | .mix _ _ ks, .mix _ _ ls => Tree.rawAgreeL ks ls
  | .seq ks, .seq ls => Tree.rawAgreeL ks ls
  | _, _ => true
def Tree.rawAgreeL : List Tree → List Tree → Bool
  | t :: ts, u :: us => Tree.rawAgree t u && Tree.rawAgreeL ts us
  | _, _ => true
end

mutual
/-- Side conditions on the data: `fixed n b` holds exactly `n` bytes (**not** enforced by
`putBytesN`, which only rejects longer slices and left-pads shorter ones), integers, limits and
list lengths are in uint64 range, and list groups mix in their own element count with one chunk per
element. -/
def Tree.sized : Tree → Bool
  | .raw _ => true
  | .fixed n b => b.length == n
  | .blist max _ => max < 18446744073709551616
  | .u64 n => n < 18446744073709551616
  | .bool _ => true
  | .u64s _ xs => xs.length < 18446744073709551616 && xs.all (· < 18446744073709551616)
  | .sigs max _ => max < 18446744073709551616
  | .cont ks => Tree.sizedL ks
  | .mix _ num ks => num == ks.length && num < 18446744073709551616 && ks.all Tree.single && Tree.sizedL ks
  | .seq ks => Tree.sizedL ks
def Tree.sizedL : List Tree → Bool
  | [] => true
  | t :: ts => Tree.sized t && Tree.sizedL ts
end

mutual
/-- no raw `PutBytes` leaf. -/
def Tree.noRaw : Tree → Bool
  | .raw _ => false
  | .cont ks => Tree.noRawL ks
  | .mix _ _ ks => Tree.noRawL ks
  | .seq ks => Tree.noRawL ks
  | _ => true
def Tree.noRawL : List Tree → Bool
  | [] => true
  | t :: ts => Tree.noRaw t && Tree.noRawL ts
end

mutual
/-- the part of `sized` that is about the data: exact length of `putBytesN` values, uint64 ranges. -/
def Tree.sizedData : Tree → Bool
  | .fixed n b => b.length == n
  | .blist max _ => max < 18446744073709551616
  | .u64 n => n < 18446744073709551616
  | .u64s _ xs => xs.length < 18446744073709551616 && xs.all (· < 18446744073709551616)
  | .sigs max _ => max < 18446744073709551616
  | .cont ks => Tree.sizedDataL ks
  | .mix _ num ks => num < 18446744073709551616 && Tree.sizedDataL ks
  | .seq ks => Tree.sizedDataL ks
  | _ => true
def Tree.sizedDataL : List Tree → Bool
  | [] => true
  | t :: ts => Tree.sizedData t && Tree.sizedDataL ts
end

mutual
/-- the part of `sized` that follows from a well-formed schema: list groups mix in their own
element count, one chunk per element. -/
def Tree.sizedStruct : Tree → Bool
  | .cont ks => Tree.sizedStructL ks
  | .mix _ num ks => num == ks.length && ks.all Tree.single && Tree.sizedStructL ks
  | .seq ks => Tree.sizedStructL ks
  | _ => true
def Tree.sizedStructL : List Tree → Bool
  | [] => true
  | t :: ts => Tree.sizedStruct t && Tree.sizedStructL ts
end

/-! ## Values, schemas, interpreter -/

/-- generic value of a decoded definition / lock (Go struct seen through reflection). -/
inductive Val
  | bytes (b : Bytes)
  | int (i : Int)
  | bool (b : Bool)
  | list (vs : List Val)
  | obj (fs : List (String × Val))
  /-- Go zero value of any type (`var dd DepositData`). -/
  | zero
deriving Repr

inductive Step
  | f (name : String)
  /-- `if len(xs) > 0 { x = xs[0] }` on a zero-initialised `x`. -/
  | first
  /-- `Definition.LegacyValidatorAddresses()`: the common element, zero value for none, error if they differ. -/
  | legacy
deriving DecidableEq, Repr

inductive Xf
  | id
  /-- `to0xHex(b)`: "" for empty, else "0x" + lower-case hex. -/
  | toHex
  /-- `from0xHex(s, n)`: nil for "", else hex decoding of `s` without "0x" prefix, which must give `n` bytes. -/
  | fromHex (n : Nat)
deriving DecidableEq, Repr

/-- field accessor of a schema leaf. -/
structure Src where
  /-- de Bruijn index into the environment: 0 = innermost loop variable, last = root struct. -/
  var : Nat
  path : List Step
  xf : Xf := .id
  /-- JSON leaf (tag path of the Go structs) the accessor reads: index into the generated
  `pathTable` (strings are interned: the kernel compares naturals fast and long strings slowly). -/
  jid : Nat
  /-- Go expression, for documentation. -/
  go : String := ""
deriving Repr

inductive Lim | const (n : Nat) | num
deriving DecidableEq, Repr

/-- limit argument of `MerkleizeWithMixin`: a constant, or (`none`) the mixed-in number itself. -/
def Lim.toOpt : Lim → Option Nat
  | .const n => some n
  | .num => none

/-- hashing schema as extracted by T-ssz from `cluster/ssz.go` for one (version, hash kind). -/
inductive Sch
  | raw (s : Src)
  /-- `if x != "" { hh.PutBytes(x) }` — same buffer effect as `raw`. -/
  | rawIfNonEmpty (s : Src)
  /-- `hh.PutBytes(nil)`. -/
  | rawNil
  | fixed (n : Nat) (s : Src)
  | blist (max : Nat) (s : Src)
  | u64 (s : Src)
  | constU64 (n : Nat)
  | bool (s : Src)
  | u64s (max : Nat) (s : Src)
  | sigs (max : Nat) (s : Src)
  | cont (kids : List Sch)
  /-- `MerkleizeWithMixin(idx, uint64(len(num)), limit)` closing the group `kids`. -/
  | mix (limit : Lim) (num : Src) (kids : List Sch)
  /-- `for _, x := range s { body }`. -/
  | loop (s : Src) (body : List Sch)
  | seq (kids : List Sch)
deriving Repr

def Val.field : Val → String → Except Err Val
  | .obj fs, n => match fs.find? (·.1 == n) with | some p => .ok p.2 | none => .error .noField
  | .zero, _ => .ok .zero
  | _, _ => .error .badVal

def Val.step : Val → Step → Except Err Val
  | v, .f n => v.field n
  | .list [], .first => .ok .zero
  | .list (v :: _), .first => .ok v
  | .zero, .first => .ok .zero
  | _, .first => .error .badVal
  | .list [], .legacy => .ok .zero
  | .zero, .legacy => .ok .zero
  | .list (v :: vs), .legacy =>
    -- `resp != vaddrs` on a struct of two strings
    match v.field "FeeRecipientAddress", v.field "WithdrawalAddress" with
    | .ok (.bytes a), .ok (.bytes b) =>
      if vs.all (fun w => match w.field "FeeRecipientAddress", w.field "WithdrawalAddress" with
          | .ok (.bytes a'), .ok (.bytes b') => a == a' && b == b'
          | _, _ => false) then .ok v else .error .multiAddr
    | _, _ => .error .badVal
  | _, .legacy => .error .badVal

def Val.walk : Val → List Step → Except Err Val
  | v, [] => .ok v
  | v, s :: ss => match v.step s with | .ok w => w.walk ss | .error e => .error e

def hexDigit (n : Nat) : UInt8 := if n < 10 then UInt8.ofNat (48 + n) else UInt8.ofNat (87 + n)

def hexOf (b : Bytes) : Bytes :=
  if b.isEmpty then [] else 48 :: 120 :: b.flatMap (fun x => [hexDigit (x.toNat / 16), hexDigit (x.toNat % 16)])

def unhexDigit (c : UInt8) : Option Nat :=
  let n := c.toNat
  if 48 ≤ n ∧ n ≤ 57 then some (n - 48)
  else if 97 ≤ n ∧ n ≤ 102 then some (n - 87)
  else if 65 ≤ n ∧ n ≤ 70 then some (n - 55)
  else none

def unhex : Bytes → Option Bytes
  | [] => some []
  | [_] => none
  | a :: b :: r =>
    match unhexDigit a, unhexDigit b, unhex r with
    | some x, some y, some t => some (UInt8.ofNat (x * 16 + y) :: t)
    | _, _, _ => none

/-- `from0xHex(s, n)`. -/
def unhexN (n : Nat) (s : Bytes) : Except Err Bytes :=
  if s.isEmpty then .ok []
  else
    let s' := match s with | 48 :: 120 :: r => r | _ => s
    match unhex s' with
    | none => .error .badHex
    | some b => if b.length = n then .ok b else .error .badHex

def Xf.apply : Xf → Bytes → Except Err Bytes
  | .id, b => .ok b
  | .toHex, b => .ok (hexOf b)
  | .fromHex n, b => unhexN n b

def Src.get (env : List Val) (s : Src) : Except Err Val :=
  match env[s.var]? with
  | none => .error .noField
  | some v => v.walk s.path

def Src.bytes (env : List Val) (s : Src) : Except Err Bytes :=
  match s.get env with
  | .ok (.bytes b) => s.xf.apply b
  | .ok .zero => s.xf.apply []
  | .ok _ => .error .badVal
  | .error e => .error e

/-- Go `uint64(x)` of an `int`/`uint`/`int64`. -/
def Src.u64 (env : List Val) (s : Src) : Except Err Nat :=
  match s.get env with
  | .ok (.int i) => .ok (i % 18446744073709551616).toNat
  | .ok .zero => .ok 0
  | .ok _ => .error .badVal
  | .error e => .error e

def Src.bool (env : List Val) (s : Src) : Except Err Bool :=
  match s.get env with
  | .ok (.bool b) => .ok b
  | .ok .zero => .ok false
  | .ok _ => .error .badVal
  | .error e => .error e

def Src.list (env : List Val) (s : Src) : Except Err (List Val) :=
  match s.get env with
  | .ok (.list vs) => .ok vs
  | .ok .zero => .ok []
  | .ok _ => .error .badVal
  | .error e => .error e

def u64sOf : List Val → Except Err (List Nat)
  | [] => .ok []
  | .int i :: r => match u64sOf r with | .ok t => .ok ((i % 18446744073709551616).toNat :: t) | .error e => .error e
  | _ :: _ => .error .badVal

def exceptConcat {α} : List (Except Err (List α)) → Except Err (List α)
  | [] => .ok []
  | .error e :: _ => .error e
  | .ok a :: r => match exceptConcat r with | .ok b => .ok (a ++ b) | .error e => .error e

mutual
/-- instantiate a schema with the values of `env`; a schema node yields a list of tree nodes
(`loop` yields one group of nodes per element). Errors of accessors (`from0xHex`,
`LegacyValidatorAddresses`) surface here, in the order the Go function meets them only as far as
"some error" is concerned. -/
def Sch.resolve : Sch → List Val → Except Err (List Tree)
  | .raw s, env => match s.bytes env with | .ok b => .ok [.raw b] | .error e => .error e
  | .rawIfNonEmpty s, env => match s.bytes env with | .ok b => .ok [.raw b] | .error e => .error e
  | .rawNil, _ => .ok [.raw []]
  | .fixed n s, env => match s.bytes env with | .ok b => .ok [.fixed n b] | .error e => .error e
  | .blist m s, env => match s.bytes env with | .ok b => .ok [.blist m b] | .error e => .error e
  | .u64 s, env => match s.u64 env with | .ok n => .ok [.u64 n] | .error e => .error e
  | .constU64 n, _ => .ok [.u64 n]
  | .bool s, env => match s.bool env with | .ok b => .ok [.bool b] | .error e => .error e
  | .u64s m s, env =>
    match s.list env with
    | .ok vs => (match u64sOf vs with | .ok xs => .ok [.u64s m xs] | .error e => .error e)
    | .error e => .error e
  | .sigs m s, env => match s.bytes env with | .ok b => .ok [.sigs m b] | .error e => .error e
  | .cont kids, env => match Sch.resolveL kids env with | .ok ts => .ok [.cont ts] | .error e => .error e
  | .mix lim num kids, env =>
    match num.list env, Sch.resolveL kids env with
    | .ok vs, .ok ts => .ok [.mix lim.toOpt vs.length ts]
    | .error e, _ => .error e
    | _, .error e => .error e
  | .loop s body, env =>
    match s.list env with
    | .ok vs => exceptConcat (vs.map (fun v => Sch.resolveL body (v :: env)))
    | .error e => .error e
  | .seq kids, env => match Sch.resolveL kids env with | .ok ts => .ok [.seq ts] | .error e => .error e
termination_by s => (sizeOf s, 0)
def Sch.resolveL : List Sch → List Val → Except Err (List Tree)
  | [], _ => .ok []
  | s :: ss, env =>
    match Sch.resolve s env, Sch.resolveL ss env with
    | .ok a, .ok b => .ok (a ++ b)
    | .error e, _ => .error e
    | _, .error e => .error e
termination_by ss => (sizeOf ss, 0)
end

/-- the root the Go function computes for the struct `v` under schema `s` (a top-level schema is one
`cont`). -/
def encode (h : Chunk → Chunk → Chunk) (s : Sch) (v : Val) : Except Err Chunk :=
  match s.resolve [v] with
  | .ok [t] => t.root h
  | .ok _ => .error .badVal
  | .error e => .error e

/-! ## Static checks on schemas (evaluated by `decide` on the regenerated data) -/

mutual
/-- schema node yields exactly one chunk whatever the data. -/
def Sch.single : Sch → Bool
  | .raw _ | .rawIfNonEmpty _ | .rawNil => false
  | .fixed n _ => n != 0
  | .blist _ _ | .u64 _ | .constU64 _ | .bool _ | .u64s _ _ | .sigs _ _ => true
  | .cont _ => true
  | .mix _ _ _ => true
  | .loop _ _ => false
  | .seq _ => false
end

mutual
/-- Well-formed: no raw `PutBytes` of unchecked length, every list is closed by a
`MerkleizeWithMixin` with a constant limit that mixes in the length of the very list it loops
over, and every loop body is a single one-chunk node. -/
def Sch.wf : Sch → Bool
  | .raw _ | .rawIfNonEmpty _ | .rawNil => false
  | .fixed _ _ | .blist _ _ | .u64 _ | .constU64 _ | .bool _ | .u64s _ _ | .sigs _ _ => true
  | .cont kids => Sch.wfL kids
  | .mix lim num kids =>
    (match lim with | .const _ => true | .num => false) &&
    (match kids with
     | [.loop s [b]] => s.var == num.var && s.path == num.path && b.single && b.wf
     | _ => false)
  | .loop _ _ => false   -- a loop outside a `mix` group
  | .seq kids => Sch.wfL kids
def Sch.wfL : List Sch → Bool
  | [] => true
  | s :: ss => s.wf && Sch.wfL ss
end

mutual
/-- Like `wf` but raw `PutBytes` leaves and the legacy `limit = num` mix-in are tolerated
(their side conditions are listed by `rawFields`), and a loop body may be a raw leaf. -/
def Sch.wfLegacy : Sch → Bool
  | .raw _ | .rawIfNonEmpty _ | .rawNil => true
  | .fixed _ _ | .blist _ _ | .u64 _ | .constU64 _ | .bool _ | .u64s _ _ | .sigs _ _ => true
  | .cont kids => Sch.wfLegacyL kids
  | .mix _ num kids =>
    (match kids with
     | [.loop s [b]] => s.var == num.var && s.path == num.path && b.wfLegacy
     | _ => false)
  | .loop _ _ => false
  | .seq kids => Sch.wfLegacyL kids
def Sch.wfLegacyL : List Sch → Bool
  | [] => true
  | s :: ss => s.wfLegacy && Sch.wfLegacyL ss
end

mutual
/-- JSON leaves hashed through a raw `PutBytes` (injectivity needs a length hypothesis for them). -/
def Sch.rawFields : Sch → List Nat
  | .raw s | .rawIfNonEmpty s => [s.jid]
  | .rawNil => []
  | .fixed _ _ | .blist _ _ | .u64 _ | .constU64 _ | .bool _ | .u64s _ _ | .sigs _ _ => []
  | .cont kids => Sch.rawFieldsL kids
  | .mix _ _ kids => Sch.rawFieldsL kids
  | .loop _ body => Sch.rawFieldsL body
  | .seq kids => Sch.rawFieldsL kids
def Sch.rawFieldsL : List Sch → List Nat
  | [] => []
  | s :: ss => s.rawFields ++ Sch.rawFieldsL ss
end

mutual
/-- JSON leaves hashed through `putBytesN` (left-padded: injectivity needs the exact length). -/
def Sch.fixedFields : Sch → List (Nat × Nat)
  | .fixed n s => [(s.jid, n)]
  | .raw _ | .rawIfNonEmpty _ | .rawNil => []
  | .blist _ _ | .u64 _ | .constU64 _ | .bool _ | .u64s _ _ | .sigs _ _ => []
  | .cont kids => Sch.fixedFieldsL kids
  | .mix _ _ kids => Sch.fixedFieldsL kids
  | .loop _ body => Sch.fixedFieldsL body
  | .seq kids => Sch.fixedFieldsL kids
def Sch.fixedFieldsL : List Sch → List (Nat × Nat)
  | [] => []
  | s :: ss => s.fixedFields ++ Sch.fixedFieldsL ss
end

mutual
/-- JSON leaves whose value enters the hash. -/
def Sch.mentions : Sch → List Nat
  | .raw s | .rawIfNonEmpty s | .fixed _ s | .blist _ s | .u64 s | .bool s | .u64s _ s | .sigs _ s => [s.jid]
  | .rawNil | .constU64 _ => []
  | .cont kids => Sch.mentionsL kids
  | .mix _ _ kids => Sch.mentionsL kids
  | .loop _ body => Sch.mentionsL body
  | .seq kids => Sch.mentionsL kids
def Sch.mentionsL : List Sch → List Nat
  | [] => []
  | s :: ss => s.mentions ++ Sch.mentionsL ss
end

-- lists whose length is mixed in.
mutual
def Sch.lists : Sch → List Nat
  | .mix _ num kids => num.jid :: Sch.listsL kids
  | .cont kids | .seq kids => Sch.listsL kids
  | .loop _ body => Sch.listsL body
  | _ => []
def Sch.listsL : List Sch → List Nat
  | [] => []
  | s :: ss => s.lists ++ Sch.listsL ss
end

/-- one decoded JSON leaf of a file format version (T-fields); paths are indices into the generated
`pathTable`. -/
structure Leaf where
  /-- JSON path in the file, `[]` marks list elements. -/
  pid : Nat
  /-- Go type kind of the JSON struct field: str, int, uint, bool, hex, b64, intstr, gwei. -/
  kind : String
  /-- the tag path of the Go struct field the leaf is decoded into (identical to the path unless the
  per-version JSON struct differs from the Go struct: legacy single validator addresses, v1.6/v1.7
  single deposit data; 0 = decoding stores nothing and rejects every non-default value). -/
  tid : Nat
deriving Repr

/-- name of an interned path. -/
def pathName (tbl : List String) (i : Nat) : String := tbl.getD i ""

/-- every leaf is hashed (its decode target is read by a schema) or explicitly allowed by name. -/
def coveredBy (tbl : List String) (leaves : List Leaf) (mentioned : List Nat) (allow : List String) : Bool :=
  leaves.all (fun l => (l.tid != 0 && mentioned.contains l.tid) || allow.contains (pathName tbl l.pid))

/-! ## `charon combine`: sufficiency rule -/

/-- `cmd/combine.Combine`, per validator: `if len(pkSet) < lock.Threshold { return error }` — the
command goes on to `tbls.RecoverSecret` iff at least `threshold` key shares were loaded. -/
def combineAccepts (threshold shares : Nat) : Bool := !(decide (shares < threshold))

end CharonV.Ssz
