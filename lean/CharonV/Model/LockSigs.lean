/-
Model of the DECISION LOGIC of signature verification of cluster artifacts — executable, core Lean only:

* `cluster/definition.go`  `Definition.VerifySignatures` (+ `validateSignatureLength`, `eip712SigsPresent`,
                           `supportEIP712Sigs`), `Definition.VerifyHashes`
* `cluster/eip712sigs.go`  which EIP-712 typed data is signed: `getOperatorEIP712Type`, `digestEIP712`
* `cluster/helpers.go`     `verifySig`, `verifySigOrERC1271`
* `cluster/lock.go`        `Lock.VerifySignatures`, `verifyNodeSignatures`, `parsePubShares`, `verifySharesReconstruct`
                           (which subsets are recovered), `verifyBuilderRegistrations` (only its version / presence
                           branches: the message and signature checks are `Model/DepositReg.lean`), `Lock.VerifyHashes`
* `cluster/distvalidator.go`  `PublicShare`, `ZeroRegistration`, `Eth2Registration` (and the `noRegistration` test of lock.go)
* `app/k1util`             `Verify65` / `Recover` as "the signer is recoverable from a valid signature"

Cryptography is SYMBOLIC (the modelling assumption, never an axiom; theorems that need more state it as a hypothesis):

* a secp256k1 key is an id `Key = Nat`; the Ethereum address of key `k` is `Addr.key k` (`PublicKeyToAddress` injective);
  `Addr.empty` is the Go string "", `Addr.malformed` any string `eth2util.ChecksumAddress` rejects.
* a hash value is an element of an arbitrary type `η` with decidable equality (config hash, definition hash, lock hash);
  the hash FUNCTIONS are parameters (`Hashes`), injectivity is a hypothesis of the theorems that need it (the SSZ layer is
  `Model/SszSchema.lean`).
* `Digest η`  the 32 bytes that are signed: the EIP-712 digest of (primary type, chain id, value) — a free term, i.e.
  EIP-712 hashing is injective in its three inputs and never collides with a raw 32 byte message — or `raw h`, a hash
  signed as it is (node signatures over the lock hash).
* `Sig η`     `good k d` = the 65 bytes r‖s‖v that key `k` made over digest `d` (v = 0/1 and v = 27/28 are the same term:
  `k1util.Recover` accepts both spellings); `bytes n` = n bytes that are nobody's signature (for n = 65 recovery fails
  with an error); `empty` = no bytes. Unforgeability: `k1util.Recover(d', good k d)` is `k` iff `d' = d`, otherwise a key
  whose address is nobody's (`verifySig` answers false, without error).
* `BKey`      a BLS public key: share `i` of sharing polynomial `p`, the group key of polynomial `p`, or a free-standing
  key. `Agg`  `agg signers m` = `tbls.Aggregate` of the signatures of `signers` over `m`; `tbls.VerifyAggregate(pks, ·, m')`
  succeeds iff `pks` is non-empty, a permutation of `signers`, and `m' = m` (FastAggregateVerify adds the keys up: order
  is irrelevant; no rogue-key sums). `tbls.RecoverPubkey` is an uninterpreted parameter `recover`.
* `Eth1`      the execution client used for ERC-1271 contract signatures: `none` = nil client; otherwise an arbitrary
  answer function (yes / no / ErrNoExecutionEngineAddr / other error).

`verifyDef` and `verifyLock` follow the Go functions branch by branch, in the Go order; the result is `ok` or the class of
the FIRST error the Go code returns (the correspondence stream `locksigs` compares exactly this class).
-/
namespace CharonV.LockSigs

abbrev Key := Nat

inductive Addr
  | empty
  | key (k : Key)
  | malformed
  deriving DecidableEq, Repr

/-- What is signed. `chain` is the EIP-712 domain chain id (`eth2util.ForkVersionToChainID(def.ForkVersion)`). -/
inductive Digest (η : Type)
  | opCfg (chain : Nat) (h : η)       -- eip712OperatorConfigHash  {operator_config_hash: 0x<ConfigHash>}
  | legacyCfg (chain : Nat) (h : η)   -- eip712V1x3ConfigHash      {config_hash: 0x<ConfigHash>}
  | creatorCfg (chain : Nat) (h : η)  -- eip712CreatorConfigHash   {creator_config_hash: 0x<ConfigHash>}
  | enr (chain : Nat) (e : Nat)       -- eip712ENR                 {enr: <operator.ENR>}
  | terms (chain : Nat)               -- eip712TermsAndConditions  (never verified by this package)
  | raw (h : η)                       -- a 32 byte hash signed directly
  deriving DecidableEq, Repr

inductive Sig (η : Type)
  | empty
  | good (k : Key) (d : Digest η)
  | bytes (n : Nat)
  deriving DecidableEq, Repr

def Sig.size {η : Type} : Sig η → Nat
  | .empty => 0
  | .good _ _ => 65
  | .bytes n => n

structure Operator (η : Type) where
  addr : Addr
  enr : Nat                 -- the ENR string (as an id): what the ENR signature signs
  enrKey : Option Key       -- the secp256k1 key inside the record; `none`: `enr.Parse` fails
  cfgSig : Sig η
  enrSig : Sig η
  deriving DecidableEq, Repr

structure Creator (η : Type) where
  addr : Addr
  cfgSig : Sig η
  deriving DecidableEq, Repr

/-- `cluster.Definition`. `ver` is the minor version (v1.`ver`.0); `content` stands for every config-hashed field that
is not listed here (name, uuid, timestamp, validator addresses, …); `chain = none`: the fork version is of no known
network (`ForkVersionToChainID` fails). -/
structure Definition (η : Type) where
  ver : Nat
  content : Nat
  chain : Option Nat
  numVals : Nat
  threshold : Nat
  ops : List (Operator η)
  creator : Creator η
  cfgHash : η               -- the STORED ConfigHash field
  defHash : η               -- the STORED DefinitionHash field
  numAddrs : Nat := 65536   -- len(ValidatorAddresses) (the JSON decoders of v1.5+ make it equal to `numVals`; the
                            -- struct does not): only `verifyBuilderRegistrations` indexes it
  deriving Repr

/-! ### verifySig / verifySigOrERC1271 (helpers.go) -/

/-- `(true, nil)`, `(false, nil)`, or an error. -/
inductive VR
  | ok | bad | addrErr | recErr | ercErr
  deriving DecidableEq, Repr

/-- `verifySig(expectedAddr, digest, sig)`; only called with 65 byte signatures. -/
def verifySig {η : Type} [DecidableEq η] (a : Addr) (d : Digest η) (s : Sig η) : VR :=
  match a with
  | .key k =>
    match s with
    | .good k' d' => if k' = k ∧ d' = d then .ok else .bad
    | _ => .recErr
  | _ => .addrErr

inductive ErcAns
  | yes | no | noEngine | fail
  deriving DecidableEq, Repr

/-- `eth1wrap.EthClientRunner.VerifySmartContractBasedSignature`, an arbitrary function. -/
structure Eth1 (η : Type) where
  answer : Addr → Digest η → Sig η → ErcAns

def verifySigOrErc {η : Type} [DecidableEq η] (e : Option (Eth1 η)) (a : Addr) (d : Digest η) (s : Sig η) : VR :=
  let eoa : VR := if s.size = 65 then verifySig a d s else .bad   -- eoaOK = false, eoaErr = nil when not 65 bytes
  if eoa = .ok then .ok
  else match e with
    | none => eoa                      -- return false, eoaErr
    | some c =>
      match c.answer a d s with
      | .noEngine => eoa               -- errors.Is(err, ErrNoExecutionEngineAddr): return false, eoaErr
      | .yes => .ok
      | .no => .bad
      | .fail => .ercErr

/-! ### Definition.VerifySignatures (definition.go) -/

/-- `validateSignatureLength`. -/
def lenOk {η : Type} (ver : Nat) (s : Sig η) : Bool :=
  if s.size = 0 then true
  else if ver ≠ 11 then s.size = 65
  else s.size % 65 = 0 ∧ s.size ≤ 32 * 65

inductive Who
  | opCfg | opEnr | creator
  deriving DecidableEq, Repr

inductive DefErr
  | oldSigs             -- "older version signatures not supported"
  | creatorLen          -- "invalid signature length" (creator)
  | chain               -- digestEIP712: ForkVersionToChainID fails
  | emptyEnrSig         -- "empty operator enr signature"
  | emptyCfgSig         -- "empty operator config signature"
  | opLen               -- "invalid signature length" (operator)
  | sigErr (w : Who) (r : VR)   -- verifySigOrERC1271 returned an error
  | invalid (w : Who)   -- "invalid operator config signature" / "… enr signature" / "invalid creator config signature"
  | someSigned          -- "some operators signed while others did not"
  | creatorOld          -- "unexpected creator config signature in old version"
  | opsSignedCreatorNot -- "operators signed while creator did not"
  | creatorEmpty        -- "empty creator config signature"
  deriving DecidableEq, Repr

inductive DefRes
  | ok
  | err (e : DefErr)
  deriving DecidableEq, Repr

def sigsPresent {η : Type} (ops : List (Operator η)) : Bool :=
  ops.any fun o => decide (o.enrSig.size > 0) || decide (o.cfgSig.size > 0)

/-- `getOperatorEIP712Type(version)` applied to the stored config hash. -/
def opDigest {η : Type} (ver ch : Nat) (h : η) : Digest η :=
  if ver = 3 then .legacyCfg ch h else .opCfg ch h

/-- The call pattern `if ok, err := verifySigOrERC1271(…); err != nil { return err } else if !ok { return invalid }`. -/
def sigStep {η : Type} [DecidableEq η] (e : Option (Eth1 η)) (w : Who) (a : Addr) (d : Digest η) (s : Sig η) :
    Option DefErr :=
  match verifySigOrErc e a d s with
  | .ok => none
  | .bad => some (.invalid w)
  | r => some (.sigErr w r)

inductive OpRes
  | unsigned | signed
  | err (e : DefErr)
  deriving DecidableEq, Repr

/-- One iteration of the loop over `d.Operators`. -/
def opCheck {η : Type} [DecidableEq η] (e : Option (Eth1 η)) (ver ch : Nat) (h : η) (o : Operator η) : OpRes :=
  if o.addr = .empty ∧ o.enrSig.size = 0 ∧ o.cfgSig.size = 0 then .unsigned
  else if o.enrSig.size = 0 then .err .emptyEnrSig
  else if o.cfgSig.size = 0 then .err .emptyCfgSig
  else if !(lenOk ver o.cfgSig && lenOk ver o.enrSig) then .err .opLen
  else match sigStep e .opCfg o.addr (opDigest ver ch h) o.cfgSig with
    | some x => .err x
    | none =>
      match sigStep e .opEnr o.addr (.enr ch o.enr) o.enrSig with
      | some x => .err x
      | none => .signed

/-- The loop: first error, or the number of completely unsigned operators (`noOpSigs`). -/
def opsLoop {η : Type} (check : Operator η → OpRes) : List (Operator η) → Nat → Except DefErr Nat
  | [], c => .ok c
  | o :: os, c =>
    match check o with
    | .unsigned => opsLoop check os (c + 1)
    | .signed => opsLoop check os c
    | .err x => .error x

/-- The creator part, after the loop. -/
def creatorCheck {η : Type} [DecidableEq η] (e : Option (Eth1 η)) (d : Definition η) (ch : Nat) (noOpSigs : Nat) : DefRes :=
  if d.ver = 3 then
    if d.creator.cfgSig.size > 0 then .err .creatorOld else .ok
  else if d.creator.addr = .empty ∧ d.creator.cfgSig.size = 0 then
    if noOpSigs = 0 then .err .opsSignedCreatorNot else .ok
  else if d.creator.cfgSig.size = 0 then .err .creatorEmpty
  else match sigStep e .creator d.creator.addr (.creatorCfg ch d.cfgHash) d.creator.cfgSig with
    | some x => .err x
    | none => .ok

/-- `Definition.VerifySignatures(eth1)`. -/
def verifyDef {η : Type} [DecidableEq η] (e : Option (Eth1 η)) (d : Definition η) : DefRes :=
  if d.ver ≤ 2 then                                  -- !supportEIP712Sigs(d.Version)
    if sigsPresent d.ops then .err .oldSigs else .ok
  else if !lenOk d.ver d.creator.cfgSig then .err .creatorLen
  else match d.chain with
    | none => .err .chain
    | some ch =>
      match opsLoop (opCheck e d.ver ch d.cfgHash) d.ops 0 with
      | .error x => .err x
      | .ok noOpSigs =>
        if noOpSigs > 0 ∧ noOpSigs ≠ d.ops.length then .err .someSigned
        else creatorCheck e d ch noOpSigs

/-! ### hashes (the functions are parameters) -/

inductive BKey
  | share (p i : Nat)     -- public share `i` (1-based) of sharing polynomial `p`
  | root (p : Nat)        -- the group public key of polynomial `p`
  | free (n : Nat)        -- any other key
  deriving DecidableEq, Repr

inductive Reg
  | absent | valid | invalid
  deriving DecidableEq, Repr

/-- `cluster.DistValidator`: `none` = bytes that `tblsconv.PubkeyFromBytes` rejects (not 48 bytes). `reg`: no builder
registration (`noRegistration` of lock.go), one that passes the message / signature checks of
`verifyBuilderRegistrations`, one that does not. -/
structure Validator where
  pubKey : Option BKey
  shares : List (Option BKey)
  reg : Reg
  deriving DecidableEq, Repr

inductive Agg (η : Type)
  | agg (signers : List BKey) (msg : η)
  | bytes (n : Nat)           -- n bytes that are no aggregate of anything
  deriving DecidableEq, Repr

def Agg.size {η : Type} : Agg η → Nat
  | .agg _ _ => 96
  | .bytes n => n

structure Lock (η : Type) where
  defn : Definition η
  vals : List Validator
  lockHash : η               -- the STORED LockHash field
  agg : Agg η
  nodeSigs : List (Sig η)
  deriving Repr

/-- `hashDefinition(d, true)`, `hashDefinition(d, false)`, `hashLock(l)`: arbitrary functions of what they read.
`cfg` reads the config-hashed fields (never signatures, ENRs, stored hashes), `dfn` the whole definition but its stored
definition hash, `lck` the definition (through a recomputed definition hash) and the validators. -/
structure Hashes (η : Type) where
  cfg : Nat → Nat → Option Nat → Nat → Nat → List Addr → Addr → η   -- ver content chain numVals threshold opAddrs creatorAddr
  dfn : Definition η → η
  lck : Definition η → List Validator → η

def Definition.clearDefHash {η : Type} (d : Definition η) (z : η) : Definition η := { d with defHash := z }

def cfgHashOf {η : Type} (H : Hashes η) (d : Definition η) : η :=
  H.cfg d.ver d.content d.chain d.numVals d.threshold (d.ops.map (·.addr)) d.creator.addr

/-- `z` is a fixed dummy value put into the field the hash does not read. -/
def defHashOf {η : Type} (H : Hashes η) (z : η) (d : Definition η) : η := H.dfn (d.clearDefHash z)

def lockHashOf {η : Type} (H : Hashes η) (z : η) (l : Lock η) : η := H.lck (l.defn.clearDefHash z) l.vals

inductive HashRes
  | ok | cfg | dfn | count | lock
  deriving DecidableEq, Repr

/-- `Definition.VerifyHashes`. -/
def verifyDefHashes {η : Type} [DecidableEq η] (H : Hashes η) (z : η) (d : Definition η) : HashRes :=
  if d.cfgHash ≠ cfgHashOf H d then .cfg
  else if d.defHash ≠ defHashOf H z d then .dfn
  else .ok

/-- `Lock.VerifyHashes`. -/
def verifyLockHashes {η : Type} [DecidableEq η] (H : Hashes η) (z : η) (l : Lock η) : HashRes :=
  match verifyDefHashes H z l.defn with
  | .ok =>
    if l.vals.length ≠ l.defn.numVals then .count
    else if l.lockHash ≠ lockHashOf H z l then .lock
    else .ok
  | r => r

/-! ### Lock.VerifySignatures (lock.go) -/

inductive LockErr
  | defn (e : DefErr)     -- "invalid definition"
  | emptyAgg              -- "empty lock aggregate signature"
  | aggBytes              -- tblsconv.SignatureFromBytes
  | shareCount            -- "invalid public share count"
  | pubkeyBytes           -- tblsconv.PubkeyFromBytes(val.PubKey)
  | dupDvKey              -- "duplicate distributed validator public key"
  | shareBytes            -- parsePubShares: PubkeyFromBytes
  | dupShare              -- "duplicate public share"
  | threshold             -- "invalid threshold"
  | reconstruct           -- "public shares do not reconstruct distributed public key"
  | extraShare            -- "extra share does not lie on distributed key polynomial"
  | aggInvalid            -- "verify lock signature aggregate"
  | regUnexpected         -- "unexpected validator registration"
  | regMissing            -- "missing validator registration"
  | regPanic              -- feeRecipientAddrs[i]: index out of range — the Go code PANICKED before repair 5c353f3 (`Fixes.asFound`)
  | regNoAddr             -- "missing fee recipient address for validator" (since 5c353f3)
  | regInvalid            -- any later error of verifyBuilderRegistrations
  | nsUnexpected          -- "unexpected node signatures"
  | nsCount               -- "invalid node signature count"
  | enrParse              -- "operator ENR"
  | nsErr                 -- "node signature check" (k1util.Verify65 error)
  | nsInvalid             -- "invalid node signature"
  deriving DecidableEq, Repr

inductive LockRes
  | ok
  | err (e : LockErr)
  deriving DecidableEq, Repr

/-- `parsePubShares`. -/
def parseShares : List (Option BKey) → List BKey → Except LockErr (List BKey)
  | [], acc => .ok acc.reverse
  | none :: _, _ => .error .shareBytes
  | some k :: r, acc => if k ∈ acc then .error .dupShare else parseShares r (k :: acc)

/-- the map `{1 ↦ s₁, 2 ↦ s₂, …}` as a list -/
def indexed (l : List BKey) : List (Nat × BKey) := (l.zipIdx).map fun (k, i) => (i + 1, k)

/-- `verifySharesReconstruct(dvKey, shares, threshold)`; `recover` is `tbls.RecoverPubkey` on a map index ↦ share. -/
def sharesReconstruct (recover : List (Nat × BKey) → BKey) (dv : BKey) (shares : List BKey) (t : Nat) : Option LockErr :=
  if t < 1 ∨ t > shares.length then some .threshold
  else if recover (indexed (shares.take t)) ≠ dv then some .reconstruct
  else if (List.range' t (shares.length - t)).any fun i =>
      match shares[i]? with
      | some s => decide (recover (indexed (shares.take (t - 1)) ++ [(i + 1, s)]) ≠ dv)
      | none => false
    then some .extraShare
  else none

/-- One iteration of the loop over `l.Validators` (without the duplicate-key map). -/
def valCheck (recover : List (Nat × BKey) → BKey) (nOps t : Nat) (v : Validator) (seen : List BKey) : Except LockErr BKey :=
  if v.shares.length ≠ nOps then .error .shareCount
  else match v.pubKey with
    | none => .error .pubkeyBytes
    | some dv =>
      if dv ∈ seen then .error .dupDvKey
      else match parseShares v.shares [] with
        | .error x => .error x
        | .ok shares =>
          match sharesReconstruct recover dv shares t with
          | some x => .error x
          | none => .ok dv

def valsLoop (recover : List (Nat × BKey) → BKey) (nOps t : Nat) : List Validator → List BKey → Option LockErr
  | [], _ => none
  | v :: vs, seen =>
    match valCheck recover nOps t v seen with
    | .error x => some x
    | .ok dv => valsLoop recover nOps t vs (dv :: seen)

/-- `pubkeys` as the loop appends them: every validator's public shares, validator by validator. -/
def allShares (vals : List Validator) : List BKey := vals.flatMap fun v => v.shares.filterMap id

/-- `tbls.VerifyAggregate(pubkeys, sig, msg)`. -/
def aggVerifies {η : Type} [DecidableEq η] (pubkeys : List BKey) (a : Agg η) (msg : η) : Bool :=
  match a with
  | .agg signers m => !pubkeys.isEmpty && signers.isPerm pubkeys && decide (m = msg)
  | .bytes _ => false

/-- Repairs of /repo as switches (`Fixes.current` = /repo now, what the correspondence stream compares against;
`Fixes.asFound` = the code as this extension found it, only in the witness theorem).
`regIndexChecked` — 5c353f3: `verifyBuilderRegistrations` returns "missing fee recipient address for validator" when the
validator index is not below `len(l.FeeRecipientAddresses())`; before, `feeRecipientAddrs[i]` PANICKED (index out of range). -/
structure Fixes where
  regIndexChecked : Bool
  deriving DecidableEq, Repr

def Fixes.asFound : Fixes := ⟨false⟩
def Fixes.current : Fixes := ⟨true⟩

/-- `verifyBuilderRegistrations`: version / presence branches; `i` is the loop index, `nAddrs` the length of
`l.FeeRecipientAddresses()`. -/
def regsCheckWith (fx : Fixes) (ver nAddrs : Nat) : Nat → List Validator → Option LockErr
  | _, [] => none
  | i, v :: vs =>
    if ver ≤ 6 then
      if v.reg ≠ .absent then some .regUnexpected else regsCheckWith fx ver nAddrs (i + 1) vs
    else if v.reg = .absent then some .regMissing
    else if i ≥ nAddrs then (if fx.regIndexChecked then some .regNoAddr else some .regPanic)
    else if v.reg = .invalid then some .regInvalid
    else regsCheckWith fx ver nAddrs (i + 1) vs

/-- the check of /repo as it is now -/
def regsCheck (ver nAddrs : Nat) (i : Nat) (vals : List Validator) : Option LockErr :=
  regsCheckWith Fixes.current ver nAddrs i vals

/-- `k1util.Verify65(record.PubKey, l.LockHash, sig)`. -/
def nodeSigStep {η : Type} [DecidableEq η] (h : η) (o : Operator η) (s : Sig η) : Option LockErr :=
  match o.enrKey with
  | none => some .enrParse
  | some k =>
    match s with
    | .good k' d => if k' = k ∧ d = .raw h then none else some .nsInvalid
    | _ => some .nsErr

def nodeSigsLoop {η : Type} [DecidableEq η] (h : η) : List (Operator η) → List (Sig η) → Option LockErr
  | o :: os, s :: ss =>
    match nodeSigStep h o s with
    | some x => some x
    | none => nodeSigsLoop h os ss
  | _, _ => none

/-- `verifyNodeSignatures`: NOTE it reads the STORED `l.LockHash`, the aggregate is checked against the recomputed one. -/
def nodeSigsCheck {η : Type} [DecidableEq η] (l : Lock η) : Option LockErr :=
  if l.defn.ver ≤ 6 then
    if l.nodeSigs.length > 0 then some .nsUnexpected else none
  else if l.nodeSigs.length ≠ l.defn.ops.length then some .nsCount
  else nodeSigsLoop l.lockHash l.defn.ops l.nodeSigs

/-- `Lock.VerifySignatures(eth1)`. -/
def verifyLock {η : Type} [DecidableEq η] (e : Option (Eth1 η)) (H : Hashes η) (z : η)
    (recover : List (Nat × BKey) → BKey) (l : Lock η) : LockRes :=
  match verifyDef e l.defn with
  | .err x => .err (.defn x)
  | .ok =>
    if l.agg.size = 0 then
      if l.defn.ver ≤ 1 then .ok else .err .emptyAgg
    else if l.agg.size ≠ 96 then .err .aggBytes
    else match valsLoop recover l.defn.ops.length l.defn.threshold l.vals [] with
      | some x => .err x
      | none =>
        if !aggVerifies (allShares l.vals) l.agg (lockHashOf H z l) then .err .aggInvalid
        else match regsCheck l.defn.ver l.defn.numAddrs 0 l.vals with
          | some x => .err x
          | none =>
            match nodeSigsCheck l with
            | some x => .err x
            | none => .ok

/-- `Lock.VerifySignatures(eth1)` under a choice of repairs (the same text as `verifyLock`, with `regsCheckWith fx`;
`Proofs.verifyLockWith_current`: for `Fixes.current` it IS `verifyLock`). -/
def verifyLockWith {η : Type} [DecidableEq η] (fx : Fixes) (e : Option (Eth1 η)) (H : Hashes η) (z : η)
    (recover : List (Nat × BKey) → BKey) (l : Lock η) : LockRes :=
  match verifyDef e l.defn with
  | .err x => .err (.defn x)
  | .ok =>
    if l.agg.size = 0 then
      if l.defn.ver ≤ 1 then .ok else .err .emptyAgg
    else if l.agg.size ≠ 96 then .err .aggBytes
    else match valsLoop recover l.defn.ops.length l.defn.threshold l.vals [] with
      | some x => .err x
      | none =>
        if !aggVerifies (allShares l.vals) l.agg (lockHashOf H z l) then .err .aggInvalid
        else match regsCheckWith fx l.defn.ver l.defn.numAddrs 0 l.vals with
          | some x => .err x
          | none =>
            match nodeSigsCheck l with
            | some x => .err x
            | none => .ok

/-! ### distvalidator.go -/

/-- `DistValidator.PublicShare(peerIdx)`: `none` = index out of range (the Go code panics) or bad bytes (error). -/
def publicShare (v : Validator) (peerIdx : Nat) : Option BKey := (v.shares[peerIdx]?).join

/-- The lengths `ZeroRegistration` / `Eth2Registration` / `noRegistration` look at. -/
structure RegForm where
  sigLen : Nat
  pkLen : Nat
  feeLen : Nat
  gas : Nat
  tsZero : Bool       -- Timestamp.IsZero()
  deriving DecidableEq, Repr

def zeroRegistration (r : RegForm) : Bool :=
  r.sigLen = 0 ∧ r.pkLen = 0 ∧ r.feeLen = 0 ∧ r.gas = 0 ∧ r.tsZero

def eth2RegistrationOk (r : RegForm) : Bool :=
  !(decide (r.sigLen ≠ 96) || decide (r.pkLen ≠ 48) || decide (r.feeLen ≠ 20) || decide (r.gas = 0) || r.tsZero)

/-- `noRegistration` in `verifyBuilderRegistrations`. -/
def noRegistration (r : RegForm) : Bool :=
  decide (r.sigLen = 0) || decide (r.feeLen = 0) || decide (r.pkLen = 0)

end CharonV.LockSigs
