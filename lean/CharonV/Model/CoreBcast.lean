/-
Model of `core/bcast/bcast.go` (`Broadcaster.Broadcast`, `setToAttestations`, `setToOne`,
`setToAggAndProof`, `setToSyncMessages`, `setToSyncContributions`, `resolveActiveValidatorsIndices`)
— the last hop of C01: what a node hands to its beacon node. Executable, core Lean only.

Input: the duty type, the `core.SignedDataSet` (validator public key ↦ signed object; a Go map, so
the iteration order is an explicit oracle `ord`), and the beacon node as Broadcast sees it
(validator registry, attester duties, whether the signing domain can be fetched, the answer to each
submit call). Output: the error class Broadcast returns and the list of submit calls it made on the
beacon client, each with the objects handed over (content identity, signature identity, validator
index carried by an attestation).

Cryptography is symbolic: `verify key epoch root sig` stands for
`tbls.Verify(duty.PubKey, signing_root(DOMAIN_BEACON_ATTESTER at epoch, root), sig)`; it has three
outcomes because Broadcast treats `tbls.ErrSigNotVerified` and every other error differently.

Objects are abstracted to what Broadcast reads: the Go dynamic type (the type assertions), the data
version and the blinded flag, the attestation's `ValidatorIndex`, whether `Data()` / `Signature()`
succeed, the attestation data's slot, target epoch and hash tree root, the signature, and an opaque
identity `cid` of all the rest of the content.
-/
import CharonV.Model.Admit

namespace CharonV.CoreBcast

open CharonV.Admit (SigType)

abbrev Validator := Nat   -- key of the set (a `core.PubKey`)
abbrev Key := Nat         -- a BLS public key as listed by the beacon node
abbrev Sig := Nat
abbrev Root := Nat
abbrev Epoch := Nat
abbrev Slot := Nat
abbrev ValIdx := Nat

/-- `core.DutyType`; `other` = any value from `dutySentinel` (14) on. -/
inductive Duty where
  | unknown | proposer | attester | signature | exit | builderProposer | builderRegistration | randao
  | prepareAggregator | aggregator | syncMessage | prepareSyncContribution | syncContribution
  | infoSync | other
  deriving DecidableEq, Repr

/-- `eth2spec.DataVersionElectra` (unknown = 0, phase0 = 1, … , electra = 6, fulu = 7). -/
def electra : Nat := 6

/-- what Broadcast reads of one `core.SignedData` value. -/
structure Obj where
  ty      : SigType        -- Go dynamic type
  cid     : Nat            -- content identity (signature and attestation validator index excluded)
  sig     : Sig
  version : Nat            -- `Version` of the versioned types
  blinded : Bool           -- `VersionedSignedProposal.Blinded`
  valIdx  : Option ValIdx  -- `VersionedAttestation.ValidatorIndex`
  dataOk  : Bool           -- `att.Data()` and `att.Signature()` succeed
  slot    : Slot           -- attestation data: slot
  epoch   : Epoch          -- attestation data: target epoch
  root    : Root           -- attestation data: hash tree root
  deriving DecidableEq, Repr

/-- outcome of `tbls.Verify`: nil, `ErrSigNotVerified`, any other error (malformed key / signature). -/
inductive VRes where
  | ok | no | err
  deriving DecidableEq, Repr

abbrev VerifyFn := Key → Epoch → Root → Sig → VRes

/-- `eth2v1.AttesterDuty` as far as it is read. -/
structure AttDuty where
  key    : Key
  slot   : Slot
  valIdx : ValIdx
  deriving DecidableEq, Repr

/-- one entry of `eth2Cl.CompleteValidators`. -/
structure BNVal where
  idx      : ValIdx
  isNil    : Bool    -- `val == nil || val.Validator == nil`
  active   : Bool    -- `val.Status.IsActive()`
  actEpoch : Epoch   -- `val.Validator.ActivationEpoch`
  deriving DecidableEq, Repr

/-- answer of the beacon node to one submit call. -/
inductive SubRes where
  | ok
  | priorKnown   -- an error whose text contains "PriorAttestationKnown"
  | err          -- any other error
  deriving DecidableEq, Repr

/-- the beacon node as Broadcast sees it. `duties`: what the node would answer for all validators;
the response to a request is this list restricted to the requested indices. `sub i`: the answer to
the `i`-th submit call of this Broadcast call (only voluntary exits make more than one). -/
structure BN where
  vals     : Option (List BNVal)     -- `none`: `CompleteValidators` fails
  duties   : Option (List AttDuty)   -- `none`: `AttesterDuties` fails
  domainOk : Bool                    -- `signing.GetDomain` succeeds
  sub      : Nat → SubRes

inductive Err where
  | invalidAttestation    -- "invalid attestation"
  | noAttestations        -- "no attestations"
  | att0Data              -- "attestation 0 data"
  | validators            -- "resolve active validators" (the call failed)
  | validatorNil          -- "resolve active validators: validator data is nil"
  | fetchDuties           -- "fetch attester duties"
  | domain                -- `signing.GetDomain` failed
  | attData               -- "attestation data" / "aggregate signature of attestation"
  | sigVerification       -- "sig verification"
  | bn                    -- the beacon node's own answer to a submit call
  | expectedOne           -- "expected one item in set"
  | invalidProposal       -- "invalid proposal"
  | deprecated            -- `core.ErrDeprecatedDutyBuilderProposer`
  | invalidExit           -- "invalid exit"
  | invalidAgg            -- "invalid aggregate and proof"
  | invalidSyncMsg        -- "invalid sync committee message"
  | invalidContribution   -- "invalid sync committee contribution"
  | unsupported           -- "unsupported duty type"
  deriving DecidableEq, Repr

/-- the submit methods of the beacon client that Broadcast calls. -/
inductive Endpoint where
  | attestations | proposal | blindedProposal | voluntaryExit | aggregates | syncMessages | contributions
  deriving DecidableEq, Repr

/-- one object handed to the beacon node. -/
structure Item where
  cid    : Nat
  sig    : Sig
  valIdx : Option ValIdx
  deriving DecidableEq, Repr

def itemOf (o : Obj) : Item := ⟨o.cid, o.sig, o.valIdx⟩

/-- one call of a submit method: the objects handed over and whether the node answered with an
error (`priorKnown` counts as an error answer of the node). -/
structure Call where
  ep     : Endpoint
  items  : List Item
  failed : Bool
  deriving DecidableEq, Repr

structure Result where
  err   : Option Err
  calls : List Call
  deriving DecidableEq, Repr

/-- `setToAttestations` / `setToAggAndProof` / `setToSyncMessages` / `setToSyncContributions`: the
loop returns at the first value whose type assertion fails. -/
def collect (p : Obj → Bool) : List Obj → Option (List Obj)
  | [] => some []
  | o :: os => if p o then (collect p os).map (o :: ·) else none

/-- the first loop of the attester branch: `break` (no check) at the first pre-Electra attestation,
`checkValIdxs = true; break` at the first attestation without validator index. -/
def checkNeeded : List Obj → Bool
  | [] => false
  | a :: rest =>
    if a.version < electra then false
    else if a.valIdx.isNone then true
    else checkNeeded rest

/-- `resolveActiveValidatorsIndices` (the map is walked completely unless a nil entry is met). -/
def resolveActive (vals : List BNVal) (epoch : Epoch) : Except Err (List ValIdx) :=
  if vals.any (·.isNil) then .error .validatorNil
  else .ok ((vals.filter fun v => v.active || v.actEpoch == epoch).map (·.idx))

/-- the inner loop of the index recovery for one attester duty: the first attestation (in list
order) whose signature verifies under the duty's public key gets the duty's validator index —
whether or not it already carried one — and the loop `break`s. -/
def tryDuty (verify : VerifyFn) (e : Epoch) (d : AttDuty) : List Obj → Except Err (List Obj)
  | [] => .ok []
  | a :: rest =>
    if !a.dataOk then .error .attData
    else
      match verify d.key e a.root a.sig with
      | .ok => .ok ({ a with valIdx := some d.valIdx } :: rest)
      | .no =>
        match tryDuty verify e d rest with
        | .ok r => .ok (a :: r)
        | .error x => .error x
      | .err => .error .sigVerification

/-- the outer loop: every duty of the response whose slot is the slot of attestation 0, in the
order of the response. A later duty overwrites what an earlier one set. -/
def recover (verify : VerifyFn) (e : Epoch) (s : Slot) : List AttDuty → List Obj → Except Err (List Obj)
  | [], atts => .ok atts
  | d :: ds, atts =>
    if d.slot ≠ s then recover verify e s ds atts
    else
      match tryDuty verify e d atts with
      | .ok atts' => recover verify e s ds atts'
      | .error x => .error x

/-- the attester duties the node answers with for the requested indices. -/
def dutiesFor (ds : List AttDuty) (idxs : List ValIdx) : List AttDuty :=
  ds.filter fun d => idxs.contains d.valIdx

/-- the `if checkValIdxs { … }` block: the attestations as they are submitted afterwards. -/
def recoverIdxs (verify : VerifyFn) (bn : BN) (atts : List Obj) : Except Err (List Obj) :=
  match atts with
  | [] => .error .noAttestations
  | a0 :: _ =>
    if !a0.dataOk then .error .att0Data
    else
      match bn.vals with
      | none => .error .validators
      | some vals =>
        match resolveActive vals a0.epoch with
        | .error x => .error x
        | .ok idxs =>
          match bn.duties with
          | none => .error .fetchDuties
          | some ds =>
            if !bn.domainOk then .error .domain
            else recover verify a0.epoch a0.slot (dutiesFor ds idxs) atts

/-- one batch submit call; `swallow`: the attester branch turns a "PriorAttestationKnown" answer into
success. -/
def submitBatch (ep : Endpoint) (r : SubRes) (swallow : Bool) (objs : List Obj) : Result :=
  let err : Option Err :=
    match r with
    | .ok => none
    | .priorKnown => if swallow then none else some .bn
    | .err => some .bn
  ⟨err, [⟨ep, objs.map itemOf, r != .ok⟩]⟩

def fail (e : Err) : Result := ⟨some e, []⟩

def isTy (t : SigType) (o : Obj) : Bool := o.ty == t

def attester (verify : VerifyFn) (bn : BN) (objs : List Obj) : Result :=
  match collect (isTy .attestation) objs with
  | none => fail .invalidAttestation
  | some atts =>
    if checkNeeded atts then
      match recoverIdxs verify bn atts with
      | .error x => fail x
      | .ok atts' => submitBatch .attestations (bn.sub 0) true atts'
    else submitBatch .attestations (bn.sub 0) true atts

/-- `setToOne` + the proposer branch. `n`: `len(set)`. `ToBlinded` cannot fail when `Blinded`. -/
def proposer (bn : BN) (n : Nat) (objs : List Obj) : Result :=
  if n ≠ 1 then fail .expectedOne
  else
    match objs with
    | [] => fail .expectedOne
    | o :: _ =>
      if !isTy .proposal o then fail .invalidProposal
      else submitBatch (if o.blinded then .blindedProposal else .proposal) (bn.sub 0) false [o]

/-- the exit branch: one submit call per entry, "try submitting all exits and return last error";
a value of another type ends the loop with "invalid exit" (what was submitted before stays). `i`:
number of calls made so far, `last`: the error variable. -/
def exits (sub : Nat → SubRes) : Nat → Option Err → List Obj → Result
  | _, last, [] => ⟨last, []⟩
  | i, _, o :: os =>
    if !isTy .exit o then fail .invalidExit
    else
      let failed := sub i != .ok
      let r := exits sub (i + 1) (if failed then some .bn else none) os
      ⟨r.err, ⟨.voluntaryExit, [itemOf o], failed⟩ :: r.calls⟩

def batch (t : SigType) (bad : Err) (ep : Endpoint) (bn : BN) (objs : List Obj) : Result :=
  match collect (isTy t) objs with
  | none => fail bad
  | some xs => submitBatch ep (bn.sub 0) false xs

/-- `Broadcaster.Broadcast`. `set`: the input map as a list, `ord`: Go's iteration order over it
(each branch ranges over the map once). -/
def broadcast (verify : VerifyFn) (bn : BN)
    (ord : List (Validator × Obj) → List (Validator × Obj))
    (duty : Duty) (set : List (Validator × Obj)) : Result :=
  let objs := (ord set).map (·.2)
  match duty with
  | .attester => attester verify bn objs
  | .proposer => proposer bn set.length objs
  | .builderProposer => fail .deprecated
  | .builderRegistration => ⟨none, []⟩
  | .exit => exits bn.sub 0 none objs
  | .randao => ⟨none, []⟩
  | .prepareAggregator => ⟨none, []⟩
  | .aggregator => batch .vAggProof .invalidAgg .aggregates bn objs
  | .syncMessage => batch .syncMessage .invalidSyncMsg .syncMessages bn objs
  | .prepareSyncContribution => ⟨none, []⟩
  | .syncContribution => batch .contribution .invalidContribution .contributions bn objs
  | .unknown | .signature | .infoSync | .other => fail .unsupported

end CharonV.CoreBcast
