/-
Model of the HTTP router glue of the validator API — executable, core Lean only.

* `core/validatorapi/router.go`: the endpoint table of `NewRouter` (path, method, accepted
  encodings) for every endpoint through which a partial signature can enter, `wrap` (content type
  rule, 415 answers), `unmarshal` (400 / 415 answers), `writeError` (status of an error that is not
  an `apiError`: 500), the handlers `submitAttestations`, `submitProposal`, `submitBlindedBlock`,
  `submitAggregateAttestations`, `submitSyncCommitteeMessages`, `submitContributionAndProofs`,
  `submitExit`, `beaconCommitteeSelections`, `syncCommitteeSelections`,
  `submitValidatorRegistrations`, `respond404`, `proposeBlockV3` (+ `getProposeBlockParams`).
* go-eth2-client `spec.DataVersion.UnmarshalJSON` (how the `Eth-Consensus-Version` header is read).
* in front of `CharonV.Admit.admitVC` (the model of `validatorapi.Component`).

The body is abstract: `decode enc route version body` is a parameter (in the driver: the outcome of
the harness's own decoding). What the router itself decides is modelled line by line: which
requests are answered without looking at the body, which decoder is asked (encoding from the
Content-Type header, target type from the version header — never from the body), what happens to a
decode error (`errors.Wrap` keeps the 400/415 of `unmarshal`, `errors.New` turns it into a 500), how a
`SingleAttestation` becomes the versioned attestation the Component resolves, that the decoded list
is handed over unchanged, and what a JSON `null` list element does.
-/
import CharonV.Model.Admit

namespace CharonV.Router

open CharonV.Admit

/-- `spec.DataVersion` without `DataVersionUnknown`. -/
inductive Version where
  | phase0 | altair | bellatrix | capella | deneb | electra | fulu
  deriving DecidableEq, Repr

def Version.all : List Version := [.phase0, .altair, .bellatrix, .capella, .deneb, .electra, .fulu]

/-- `dataVersionStrings`. -/
def Version.name : Version → String
  | .phase0 => "phase0" | .altair => "altair" | .bellatrix => "bellatrix" | .capella => "capella"
  | .deneb => "deneb" | .electra => "electra" | .fulu => "fulu"

def Version.idx : Version → Nat
  | .phase0 => 0 | .altair => 1 | .bellatrix => 2 | .capella => 3 | .deneb => 4 | .electra => 5
  | .fulu => 6

/-- `Version.name` as characters (strings do not reduce in the kernel; the header is a `List Char`). -/
def Version.chars : Version → List Char
  | .phase0 => ['p','h','a','s','e','0'] | .altair => ['a','l','t','a','i','r']
  | .bellatrix => ['b','e','l','l','a','t','r','i','x'] | .capella => ['c','a','p','e','l','l','a']
  | .deneb => ['d','e','n','e','b'] | .electra => ['e','l','e','c','t','r','a']
  | .fulu => ['f','u','l','u']

/-- `strings.ToLower` on ASCII (the header values the driver sends are ASCII). -/
def lowerAscii (c : Char) : Char := if 'A' ≤ c ∧ c ≤ 'Z' then Char.ofNat (c.toNat + 32) else c

/-- `version.UnmarshalJSON([]byte("\"" + header.Get(versionHeader) + "\""))`: the quoted header is
lower-cased and looked up in `dataVersionMap` (seven entries; `"unknown"` is not one). An absent
header reads as the empty string. -/
def parseVersion (h : List Char) : Option Version :=
  Version.all.find? (fun v => v.chars == h.map lowerAscii)

inductive Enc where
  | json | ssz
  deriving DecidableEq, Repr

/-- the endpoints of `NewRouter` behind which a partial signature is submitted (POST), with the
two retired v1 endpoints (`respond404`) and the swallowed registration endpoint. -/
inductive Route where
  | attestationsV1 | attestationsV2 | proposalV1 | proposalV2 | blindedV1 | blindedV2
  | registration | exit | bcSelections | aggregatesV1 | aggregatesV2 | syncMessages
  | contributions | syncSelections
  deriving DecidableEq, Repr

def Route.all : List Route :=
  [.attestationsV1, .attestationsV2, .proposalV1, .proposalV2, .blindedV1, .blindedV2,
   .registration, .exit, .bcSelections, .aggregatesV1, .aggregatesV2, .syncMessages,
   .contributions, .syncSelections]

/-- the `Name` column. -/
def Route.name : Route → String
  | .attestationsV1 => "submit_attestations"
  | .attestationsV2 => "submit_attestations_v2"
  | .proposalV1 => "submit_proposal_v1"
  | .proposalV2 => "submit_proposal_v2"
  | .blindedV1 => "submit_blinded_block_v1"
  | .blindedV2 => "submit_blinded_block_v2"
  | .registration => "submit_validator_registration"
  | .exit => "submit_voluntary_exit"
  | .bcSelections => "aggregate_beacon_committee_selections"
  | .aggregatesV1 => "submit_aggregate_and_proofs"
  | .aggregatesV2 => "submit_aggregate_and_proofs_v2"
  | .syncMessages => "submit_sync_committee_messages"
  | .contributions => "submit_contribution_and_proofs"
  | .syncSelections => "aggregate_sync_committee_selections"

/-- the `Encodings` column. -/
def Route.encodings : Route → List Enc
  | .proposalV1 | .proposalV2 | .blindedV1 | .blindedV2 | .registration => [.json, .ssz]
  | _ => [.json]

/-- the `Handler` column. -/
inductive Handling where
  | notFound                 -- `respond404`
  | ignore                   -- `submitValidatorRegistrations`: `return nil, nil, nil`
  | handler (ep : Endpoint)  -- decodes the body and calls this method of the `Handler`
  deriving DecidableEq, Repr

def Route.handling : Route → Handling
  | .attestationsV1 | .aggregatesV1 => .notFound
  | .registration => .ignore
  | .attestationsV2 => .handler .submitAttestations
  | .proposalV1 | .proposalV2 => .handler .submitProposal
  | .blindedV1 | .blindedV2 => .handler .submitBlindedProposal
  | .exit => .handler .submitVoluntaryExit
  | .bcSelections => .handler .beaconCommitteeSelections
  | .aggregatesV2 => .handler .submitAggregateAttestations
  | .syncMessages => .handler .submitSyncCommitteeMessages
  | .contributions => .handler .submitSyncCommitteeContributions
  | .syncSelections => .handler .syncCommitteeSelections

/-- the handler starts with `version.UnmarshalJSON(header)`. -/
def Route.needsVersion : Route → Bool
  | .attestationsV2 | .proposalV1 | .proposalV2 | .blindedV1 | .blindedV2 | .aggregatesV2 => true
  | _ => false

/-- the handler's `switch version` has a case for the version (`submitBlindedBlock` has none for
phase0 and altair: `default: invalid block`). -/
def Route.supports : Route → Version → Bool
  | .blindedV1, v | .blindedV2, v => decide (2 ≤ v.idx)
  | _, _ => true

/-- what the handler does with the error of `unmarshal`: `errors.Wrap(err, …)` keeps the `apiError`
inside (status 400 / 415 survives `errors.As` in `writeError`), `errors.New("invalid …")` drops it
(status 500). -/
def Route.keepsApiError : Route → Bool
  | .attestationsV2 | .proposalV1 | .proposalV2 | .blindedV1 | .blindedV2 => false
  | _ => true

/-- the list is decoded into a slice of values (`*[]eth2p0.Attestation`,
`*[]electra.SingleAttestation`): a JSON `null` element is handed to the element's own
`UnmarshalJSON`, which refuses it. Every other list endpoint decodes into a slice of pointers, where
`null` becomes a nil pointer without an error. -/
def Route.nullIsDecodeError : Route → Bool
  | .attestationsV2 => true
  | _ => false

/-- the Component method dereferences the list element without a nil check (`msg.Slot`,
`contrib.Message`, `selection.ValidatorIndex`); `SubmitAggregateAttestations` wraps the nil pointer
into a versioned object whose `Slot()` accessor returns an error instead. -/
def Route.nilPanics : Route → Bool
  | .syncMessages | .contributions | .bcSelections | .syncSelections => true
  | _ => false

/-- what `wrap` looks at in the `Content-Type` header (`strings.Contains`). -/
structure CtHdr where
  empty   : Bool
  hasJson : Bool   -- contains "application/json"
  hasSsz  : Bool   -- contains "application/octet-stream"
  deriving DecidableEq, Repr

/-- `wrap`: empty or JSON named ⇒ JSON, else octet-stream ⇒ SSZ, else 415. -/
def contentType (h : CtHdr) : Option Enc :=
  if h.empty || h.hasJson then some .json else if h.hasSsz then some .ssz else none

/-- HTTP status with the message class of the error body. -/
inductive Status where
  | ok200
  | empty400     -- "empty request body"
  | json400      -- "failed parsing json request body"
  | param400     -- missing / invalid path or query parameter
  | notFound404
  | media415     -- "unsupported media type …"
  | enc415       -- "Cannot read the supplied content type."
  | ssz415       -- "failed parsing ssz request body"
  | noSsz415     -- "internal type doesn't support ssz unmarshalling"
  | ise500       -- any error that is not an apiError: "Internal server error"
  | proxied      -- no route of the table matched: the catch-all reverse proxy got the request
  | panic        -- the handler goroutine panicked: connection closed without a response
  deriving DecidableEq, Repr

def Status.is4xx : Status → Bool
  | .empty400 | .json400 | .param400 | .notFound404 | .media415 | .enc415 | .ssz415 | .noSsz415 => true
  | _ => false

/-- one element of a decoded body. -/
inductive Elem where
  | nil                                              -- JSON `null` in a list of pointers
  | single (pre : Bool) (ci ai slot : Nat) (obj : Obj)
      -- `electra.SingleAttestation`: committee_index, attester_index, data.slot; `pre`: data present,
      -- `NewPartialVersionedAttestation` accepts the converted object
  | item (it : Item)                                 -- anything else, as `Admit` sees it
  deriving DecidableEq, Repr

/-- outcome of decoding a body into the handler's target type. -/
inductive Decoded where
  | empty                      -- zero-length body
  | fail                       -- decoder error
  | noSsz                      -- target type is not an `ssz.Unmarshaler`
  | ok (elems : List Elem)
  deriving DecidableEq, Repr

/-- `unmarshal`: the status of its `apiError`. -/
def unmarshalStatus (enc : Enc) : Decoded → Status
  | .empty => .empty400
  | .fail => match enc with | .json => .json400 | .ssz => .ssz415
  | .noSsz => .noSsz415
  | .ok _ => .ok200

inductive Method where
  | post | other
  deriving DecidableEq, Repr

structure Request (β : Type) where
  route   : Route
  method  : Method
  ct      : CtHdr
  version : List Char   -- first value of `Eth-Consensus-Version`, empty if absent
  body    : β

/-- The part of the router that does not look at the body: either the answer, or the question put to
the decoder — the Component method that will be called, the encoding (from the Content-Type header
alone) and the version of the target type (from the version header alone; `none` for endpoints
whose bodies are not versioned). -/
def decodeArgs {β : Type} (rq : Request β) : Except Status (Endpoint × Enc × Option Version) :=
  -- gorilla/mux: the route has `Methods(POST)`; another method matches only the catch-all proxy
  if rq.method ≠ .post then .error .proxied else
  match contentType rq.ct with
  | none => .error .media415
  | some enc =>
    if !(rq.route.encodings.contains enc) then .error .enc415 else
    match rq.route.handling with
    | .notFound => .error .notFound404
    | .ignore => .error .ok200
    | .handler ep =>
      if rq.route.needsVersion then
        match parseVersion rq.version with
        | none => .error .ise500                    -- "missing consensus version header"
        | some v => if rq.route.supports v then .ok (ep, enc, some v) else .error .ise500
      else .ok (ep, enc, none)

/-- the decoder of a request body: encoding, endpoint (it fixes the type family), version. -/
abbrev Decoder (β : Type) := Enc → Route → Option Version → β → Decoded

inductive Outcome where
  | respond (s : Status)                          -- answered by the router layer, no Component call
  | call (ep : Endpoint) (elems : List Elem)      -- the Component method is called with these elements
  deriving DecidableEq, Repr

def afterDecode (r : Route) (ep : Endpoint) (enc : Enc) : Decoded → Outcome
  | .ok elems =>
    if r.nullIsDecodeError && elems.contains .nil then .respond .ise500
    else .call ep elems
  | d => .respond (if r.keepsApiError then unmarshalStatus enc d else .ise500)

/-- the router layer. -/
def route {β : Type} (decode : Decoder β) (rq : Request β) : Outcome :=
  match decodeArgs rq with
  | .error s => .respond s
  | .ok (ep, enc, v) => afterDecode rq.route ep enc (decode enc rq.route v rq.body)

/-! ### From decoded elements to what the Component sees -/

/-- `pubKeyByAttFunc(slot, commIdx, valIdx)`: an input of the Component. -/
abbrev AttEnv := Nat → Nat → Nat → Option Validator

/-- `commBits := bitfield.NewBitvector64(); commBits.SetBitAt(uint64(CommitteeIndex), true)`:
`SetBitAt` beyond the length is a no-op. -/
def committeeBits (ci : Nat) : List Nat := if ci < 64 then [ci] else []

/-- `electra.Attestation.CommitteeIndex()`: exactly one bit set. -/
def committeeIndexOf : List Nat → Option Nat
  | [c] => some c
  | _ => none

/-- `submitAttestations` (electra / fulu branch) followed by the electra branch of
`Component.SubmitAttestations`: the versioned attestation gets `ValidatorIndex := &AttesterIndex` and
the single committee bit; the Component reads the committee index back from the bits (error if none
is set) and asks `pubKeyByAttFunc(data.slot, committee index, *ValidatorIndex)`. -/
def convertSingle (env : AttEnv) (pre : Bool) (ci ai slot : Nat) (obj : Obj) : Item :=
  let c := committeeIndexOf (committeeBits ci)
  { pre := pre && c.isSome, val := c.bind (fun c => env slot c ai), gate := true, slot := slot,
    subcomm := 0, obj := obj }

/-- `none`: a nil pointer. -/
def toItem (env : AttEnv) : Elem → Option Item
  | .nil => none
  | .single pre ci ai slot obj => some (convertSingle env pre ci ai slot obj)
  | .item it => some it

def statusOf : Res → Status
  | .ok => .ok200
  | _ => .ise500     -- no Component error is an apiError

/-- The Component behind the router. Elements are processed in order with early return; a nil
element is dereferenced when its turn comes (after the elements before it passed their checks). -/
def component (verify : VerifyFn) (L : Lock) (env : AttEnv) (idx : ShareIdx) (nsub : Nat)
    (ord : List GKey → List GKey) (failAt : Option Nat) (r : Route) (ep : Endpoint)
    (elems : List Elem) : Status × List Call :=
  if !elems.contains .nil then
    let res := admitVC verify L idx nsub ord failAt ep (elems.filterMap (toItem env))
    (statusOf res.1, res.2)
  else
    let before := (elems.takeWhile (· != .nil)).filterMap (toItem env)
    match firstFail (before.map (checkItem verify L idx ep)) with
    | some _ => (.ise500, [])
    | none => (if r.nilPanics then .panic else .ise500, [])

/-- a complete request. -/
def serve {β : Type} (decode : Decoder β) (verify : VerifyFn) (L : Lock) (env : AttEnv)
    (idx : ShareIdx) (nsub : Nat) (ord : List GKey → List GKey) (failAt : Option Nat)
    (rq : Request β) : Status × List Call :=
  match route decode rq with
  | .respond s => (s, [])
  | .call ep elems => component verify L env idx nsub ord failAt rq.route ep elems

/-! ### `GET /eth/v3/validator/blocks/{slot}?randao_reveal=…` -/

/-- `proposeBlockV3`: `getProposeBlockParams` (slot path parameter, fixed-length 0x-hex
`randao_reveal`, optional `graffiti`) answers 400 on any malformed parameter; otherwise
`Component.Proposal` is called with the slot and the reveal. (The unsigned proposal awaited
afterwards and its rendering are inputs assumed to succeed.) -/
def servePropose (verify : VerifyFn) (L : Lock) (idx : ShareIdx) (nsub : Nat)
    (paramsOk : Bool) (it : Item) : Status × List Call :=
  if !paramsOk then (.param400, [])
  else
    let res := admitVC verify L idx nsub id none .proposal [it]
    (statusOf res.1, res.2)

end CharonV.Router
