/-
Model of the head-event path of `core/scheduler/scheduler.go` (feature flags
`featureset.FetchAttOnBlock`, `featureset.FetchAttOnBlockWithDelay`, alpha, off by default) — a
layer on top of `Model/Sched.lean`; executable, core Lean only.

What the Go code does (read from the code, not from the feature's description):

* `HandleHeadEvent(slot, root, bnAddr)` never triggers a duty. If the fetch-only function is
  registered, one of the two flags is on, an attester definition set is stored for `slot` and
  `eventTriggeredAttestations` has no entry for `slot`, it stores the entry (`LoadOrStore`) and calls
  `fetcherFetchOnly(duty, clone of the stored definition set, bnAddr, root)` in a goroutine — the
  *early fetch* (`Fetch`, below). No comparison with the current slot is made: the slot may be in the
  past, in the future, or one the ticker skipped.
* the attester trigger goroutine spawned by `scheduleSlot` for the slot's own attester duty always
  runs. With a flag on it does not use `delayFunc` but parks in `waitForEarlyFetchOrTimeout` on
  `s.clock.After(time.Until(slot.Time + 1/3 slot [+ 300 ms with FetchAttOnBlockWithDelay]))`; when that
  timer fires it stores the entry for its slot (`Store`, whatever was there; the `Load` before only
  selects a log line) and calls the duty subscribers. So the duty subscribers get the attester duty
  exactly as without the flags, at the same or (with the delay flag) a 300 ms later deadline, and the
  entry of `eventTriggeredAttestations` only decides whether a head event still starts an early fetch.
* `trimDuties(epoch)`: after deleting the duties filed under `epoch` — and only if there were any
  (early return on an empty `dutiesByEpoch[epoch]`) — with a flag on `trimEventTriggeredAttestations`
  drops every entry with `slot < (epoch+1) * slotsPerEpoch`. Called from `resolveDuties`
  (`epoch - 3`) and from `HandleChainReorgEvent` (`resolvedEpoch`, i.e. including the current slot's
  entry: after a reorg a second early fetch for the same slot is possible — the data may have changed).
* `GetDutyDefinition` with `isResolvingEpoch` / `getEpochResolvedChan` / `isEpochResolved` /
  `isEpochTrimmed` (`getDutyDefinition`, and `probe` for a call made while `resolveDuties` runs).

Goroutine interleaving is explicit: a parked attester trigger (`pend`) proceeds by event `fire`
(enabled when the clock has reached its deadline) or, for `adv d true` ("eager": every timer that is
due runs to completion before the ticker's next slot is handled — the order the lock-step harness
enforces), inside the clock advance. Theorems quantify over all event sequences.
-/
import CharonV.Model.Sched

namespace CharonV.Sched

/-! ### `trimDuties` / `resolveDuties` / `scheduleSlot` / reorg with the event bookkeeping

Each function below returns the base model's result in its first component (proved in
`Proofs/SchedHead.lean`: `trimH_fst`, `resolveDutiesH_fst`, …) and the map
`eventTriggeredAttestations` (its key list) in the second. -/

/-- `trimEventTriggeredAttestations(epoch)`: keep `slot ≥ (epoch+1) * slotsPerEpoch`. -/
def trimEvt (cfg : Cfg) (evt : List Nat) (ep : Nat) : List Nat :=
  evt.filter (fun sl => decide ((ep + 1) * cfg.spe ≤ sl))

/-- `trimDuties(epoch)` including its feature test. -/
def trimH (cfg : Cfg) (s : State) (evt : List Nat) (ep : Nat) : State × List Nat :=
  if (byEp s ep).isEmpty then (s, evt)
  else (trim s ep, if earlyFetchOn cfg then trimEvt cfg evt ep else evt)

def trimBackH (cfg : Cfg) (s : State) (evt : List Nat) (epoch : Nat) : State × List Nat :=
  if 3 ≤ epoch then trimH cfg s evt (epoch - 3) else (s, evt)

/-- `resolveDuties` (same text as `Sched.resolveDuties`, threading the bookkeeping to the trim). -/
def resolveDutiesH (bn : BN) (cfg : Cfg) (s : State) (evt : List Nat) (slot : Nat) : State × List Nat :=
  let epoch := slot / cfg.spe
  let s1 := { s with nv := s.nv + 1 }
  match activeVals (bn.vals s.nv epoch) epoch with
  | none => (s1, evt)
  | some vals =>
    if vals.isEmpty then ({ s1 with resolvedEpoch := epoch }, evt)
    else
      let r2 := resolveAtt bn cfg s1 slot vals
      if !r2.2 then (r2.1, evt) else
      let r3 := resolvePro bn cfg r2.1 slot vals
      if !r3.2 then (r3.1, evt) else
      let r4 := resolveSync bn cfg r3.1 slot vals
      if !r4.2 then (r4.1, evt) else
      trimBackH cfg { r4.1 with resolvedEpoch := epoch } evt epoch

def trigLoopH (bn : BN) (cfg : Cfg) (slot : Nat) : List Nat → State → List Nat → (State × List Nat) × List Trigger
  | [], s, evt => ((s, evt), [])
  | ty :: tys, s, evt =>
    match AMap.get? s.duties ⟨slot, ty⟩ with
    | none => trigLoopH bn cfg slot tys s evt
    | some ds =>
      let p := if lastInEpoch cfg slot then resolveDutiesH bn cfg s evt (slot + 1) else (s, evt)
      let r := trigLoopH bn cfg slot tys p.1 p.2
      (r.1, ⟨⟨slot, ty⟩, ds, notBefore cfg slot ty⟩ :: r.2)

def preResolveH (bn : BN) (cfg : Cfg) (s : State) (evt : List Nat) (slot : Nat) : State × List Nat :=
  if s.resolvedEpoch ≠ slot / cfg.spe then resolveDutiesH bn cfg s evt slot else (s, evt)

def scheduleSlotH (bn : BN) (cfg : Cfg) (s : State) (evt : List Nat) (slot : Nat) : (State × List Nat) × List Trigger :=
  let p := preResolveH bn cfg s evt slot
  trigLoopH bn cfg slot allDutyTypes p.1 p.2

/-- `HandleChainReorgEvent`. -/
def reorgH (cfg : Cfg) (s : State) (evt : List Nat) (ep : Nat) : State × List Nat :=
  if cfg.reorgEnabled then
    if ep < s.resolvedEpoch then
      let r := trimH cfg s evt s.resolvedEpoch
      ({ r.1 with resolvedEpoch := maxInt64 }, r.2)
    else (s, evt)
  else (s, evt)

/-! ### the system with head events -/

/-- a call of `fetcherFetchOnly` (the early fetch started by a head event). -/
structure Fetch where
  slot : Nat
  defs : DefSet
  clock : Nat          -- clock value of the call (ghost)
  deriving DecidableEq, Repr

/-- a duty delivered to the duty subscribers. `waited`: it went through
`waitForEarlyFetchOrTimeout` (attester duty, a flag on) and `clock` is the clock value at delivery;
otherwise it went through the injected `delayFunc` (timing abstracted as in the base model: the
trigger carries its not-before instant) and `clock` is the clock value of the tick. -/
structure Fired where
  trig : Trigger
  clock : Nat
  waited : Bool
  deriving DecidableEq, Repr

structure HSys where
  sys  : Sys := {}
  evt  : List Nat := []          -- keys of `eventTriggeredAttestations`
  pend : List Trigger := []      -- attester trigger goroutines parked in `waitForEarlyFetchOrTimeout`
  fired : List Fired := []       -- ghost: deliveries to the duty subscribers, oldest first
  fetches : List Fetch := []     -- ghost: early fetches, oldest first
  stored : List Nat := []        -- ghost: slots whose own trigger created the entry (no head event before)
  trimmed : List Nat := []       -- ghost: entries removed by `trimEventTriggeredAttestations`, one per removal
  deriving Repr

def HSys.init (cfg : Cfg) (t0 : Nat) : HSys := { sys := Sys.init cfg t0 }

inductive HEv where
  | adv (d : Nat) (eager : Bool)  -- clock advance; `eager`: due timers run before / between the ticks
  | fire (slot : Nat)             -- the parked attester trigger of `slot` proceeds (if its timer is due)
  | head (slot : Nat)             -- SSE head event
  | reorg (ep : Nat)              -- SSE chain-reorg event
  deriving Repr

/-- does this trigger go through `waitForEarlyFetchOrTimeout`? -/
def waits (cfg : Cfg) (t : Trigger) : Bool := earlyFetchOn cfg && t.duty.ty == tyAttester

/-- `eventTriggeredAttestations.Store(slot, true)`. -/
def evtStore (evt : List Nat) (slot : Nat) : List Nat := if evt.contains slot then evt else slot :: evt

/-- entries removed when `evt` became `evt'` by a trim. -/
def removed (evt evt' : List Nat) : List Nat := evt.filter (fun sl => !evt'.contains sl)

def due (now : Nat) (t : Trigger) : Bool := decide (t.nb ≤ now)

/-- the timer of the parked attester trigger `t` fired: `Store`, then the duty subscribers. Nothing
happens if `t` is not parked or its deadline has not been reached. -/
def HSys.fireT (h : HSys) (t : Trigger) : HSys :=
  if h.pend.contains t && due h.sys.now t then
    { h with pend := h.pend.erase t,
             evt := evtStore h.evt t.duty.slot,
             stored := if h.evt.contains t.duty.slot then h.stored else h.stored ++ [t.duty.slot],
             fired := h.fired ++ [⟨t, h.sys.now, true⟩] }
  else h

def HSys.fire (h : HSys) (slot : Nat) : HSys × List Trigger :=
  match h.pend.find? (fun t => t.duty.slot == slot && due h.sys.now t) with
  | some t => (h.fireT t, [t])
  | none => (h, [])

/-- every parked trigger whose timer is due proceeds (oldest first). -/
def HSys.fireDue (h : HSys) : HSys × List Trigger :=
  let ds := h.pend.filter (due h.sys.now)
  (ds.foldl HSys.fireT h, ds)

/-- one slot received from the ticker: `scheduleSlot`; triggers that do not wait are delivered (through
the injected `delayFunc`), the attester trigger parks when a flag is on. -/
def HSys.tick (bn : BN) (cfg : Cfg) (h : HSys) (slot next' : Nat) : HSys × List Trigger :=
  let r := scheduleSlotH bn cfg h.sys.st h.evt slot
  ({ h with sys := { h.sys with st := r.1.1, next := next', hist := h.sys.hist ++ r.2, ticked := h.sys.ticked ++ [slot] },
            evt := r.1.2,
            trimmed := h.trimmed ++ removed h.evt r.1.2,
            pend := h.pend ++ r.2.filter (waits cfg),
            fired := h.fired ++ (r.2.filter (fun t => !waits cfg t)).map (fun t => ⟨t, h.sys.now, false⟩) }, r.2)

/-- what one clock advance shows: fired timers and handled slots in order. -/
inductive Out where
  | fired (ts : List Trigger)
  | tick (slot : Nat) (pre : State) (ts : List Trigger)   -- `pre`: scheduler state when the slot arrives
  deriving Repr

def HSys.pump (bn : BN) (cfg : Cfg) (eager : Bool) : Nat → HSys → HSys × List Out
  | 0, h => (h, [])
  | fuel + 1, h =>
    match tickerStep cfg.slotDur h.sys.now h.sys.next with
    | none => (h, [])
    | some (slot, next') =>
      let r := HSys.tick bn cfg h slot next'
      let f := if eager then r.1.fireDue else (r.1, [])
      let r' := HSys.pump bn cfg eager fuel f.1
      (r'.1, .tick slot h.sys.st r.2 :: .fired f.2 :: r'.2)

/-- `HandleHeadEvent`. -/
def HSys.head (cfg : Cfg) (h : HSys) (slot : Nat) : HSys × Option Fetch :=
  if !cfg.fetchOnlyRegistered then (h, none)
  else if !earlyFetchOn cfg then (h, none)
  else
    match AMap.get? h.sys.st.duties ⟨slot, tyAttester⟩ with
    | none => (h, none)
    | some ds =>
      if h.evt.contains slot then (h, none)
      else
        let f : Fetch := ⟨slot, ds, h.sys.now⟩
        ({ h with evt := slot :: h.evt, fetches := h.fetches ++ [f] }, some f)

def HSys.reorg (cfg : Cfg) (h : HSys) (ep : Nat) : HSys :=
  let r := reorgH cfg h.sys.st h.evt ep
  { h with sys := { h.sys with st := r.1 }, evt := r.2, trimmed := h.trimmed ++ removed h.evt r.2 }

/-- a clock advance: the ticker goroutine runs until it parks again (at most 3 slots, as in the base model). -/
def HSys.adv (bn : BN) (cfg : Cfg) (h : HSys) (d : Nat) (eager : Bool) : HSys × List Out :=
  let h1 := { h with sys := { h.sys with now := h.sys.now + d } }
  let f := if eager then h1.fireDue else (h1, [])
  let r := HSys.pump bn cfg eager 3 f.1
  (r.1, .fired f.2 :: r.2)

def HSys.step (bn : BN) (cfg : Cfg) (h : HSys) : HEv → HSys
  | .adv d eager => (HSys.adv bn cfg h d eager).1
  | .fire slot => (h.fire slot).1
  | .head slot => (h.head cfg slot).1
  | .reorg ep => h.reorg cfg ep

def HSys.run (bn : BN) (cfg : Cfg) (h : HSys) : List HEv → HSys
  | [] => h
  | e :: es => HSys.run bn cfg (HSys.step bn cfg h e) es

/-- the events the base model sees. -/
def eraseEv : List HEv → List Ev
  | [] => []
  | .adv d _ :: es => .adv d :: eraseEv es
  | .reorg ep :: es => .reorg ep :: eraseEv es
  | _ :: es => eraseEv es

/-! ### `GetDutyDefinition` -/

abbrev tyBuilderProposer : Nat := 5

inductive GetDef where
  | deprecated            -- core.ErrDeprecatedDutyBuilderProposer
  | unresolved            -- "epoch not resolved yet"
  | trimmed               -- "epoch already trimmed"
  | notFound              -- core.ErrNotFound
  | ok (ds : DefSet)
  | blocked               -- waits on the epoch-resolved channel until its context ends
  deriving DecidableEq, Repr

/-- `isEpochResolved(epoch)`. -/
def isEpochResolved (s : State) (epoch : Nat) : Bool :=
  if s.resolvedEpoch = maxInt64 then false else decide (epoch ≤ s.resolvedEpoch)

/-- `isEpochTrimmed(epoch)`. -/
def isEpochTrimmed (s : State) (epoch : Nat) : Bool :=
  if s.resolvedEpoch = maxInt64 then false else decide (epoch + 3 ≤ s.resolvedEpoch)

/-- `GetDutyDefinition` from the point after the `isResolvingEpoch` block. -/
def getDefTail (cfg : Cfg) (s : State) (d : Duty) : GetDef :=
  let epoch := d.slot / cfg.spe
  if !isEpochResolved s epoch then .unresolved
  else if isEpochTrimmed s epoch then .trimmed
  else match AMap.get? s.duties d with
    | none => .notFound
    | some ds => .ok ds

/-- `GetDutyDefinition` called while no `resolveDuties` is running (`resolvingEpoch = MaxInt64`). -/
def getDutyDefinition (cfg : Cfg) (s : State) (d : Duty) : GetDef :=
  if d.ty = tyBuilderProposer then .deprecated else getDefTail cfg s d

/-- `GetDutyDefinition(d)` called while `resolveDuties(slot)` runs, before that call has stored anything
(from the beacon node's attester-duties endpoint): `s` is the state at the call, `s'` the state when
`resolveDuties` returns. `isResolvingEpoch` holds for the epoch being resolved; `getEpochResolvedChan`
returns a closed channel iff `resolvedEpoch ≠ MaxInt64 ∧ resolvedEpoch ≥ epoch`, otherwise the
channel that `setResolvedEpoch(epoch)` closes — which happens iff this `resolveDuties` succeeds. -/
def probe (cfg : Cfg) (s s' : State) (slot : Nat) (d : Duty) : GetDef :=
  if d.ty = tyBuilderProposer then .deprecated
  else
    let epoch := d.slot / cfg.spe
    if slot / cfg.spe ≠ epoch then getDefTail cfg s d            -- not the epoch being resolved
    else if s.resolvedEpoch ≠ maxInt64 ∧ epoch ≤ s.resolvedEpoch then getDefTail cfg s d   -- closed channel
    else if s'.resolvedEpoch = epoch then getDefTail cfg s' d      -- woken by setResolvedEpoch
    else .blocked

end CharonV.Sched
