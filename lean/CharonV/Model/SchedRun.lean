/-
Model of `Scheduler.Run` (`core/scheduler/scheduler.go`) and what runs around the per-slot handler:
`waitChainStart`, `waitBeaconSync`, the creation of the slot ticker, the `select` over `s.quit` and the
ticker channel, `Stop`, `emitCoreSlot` (the `SubscribeSlots` fan-out) and the builder registrations
(`submitValidatorRegistrations`, `submitValidatorRegistrationsDelayed`, `get/setSubmittedRegistrationEpoch`).
Executable, core Lean only, on top of `Model/Sched.lean`: a slot handled is `Sched.Sys.tick`
(= `scheduleSlot` of the base model).

Small-step semantics: every event is one action of one goroutine; the theorems quantify over every
event sequence, so over every interleaving and every scheduling delay.

* the `Run` goroutine (`Phase`):
  `gCall i` inside `eth2Cl.Genesis` of `waitChainStart` (loop counter `i`), `gSleep` inside `clock.Sleep`
  (`none`: the jittered `expbackoff.Backoff(FastConfig, i)` after an error — any duration; `some g`: until the
  genesis time `g`, after which the loop asks again), `sCall i` / `sSleep i` likewise for `waitBeaconSync`
  (`NodeSyncing`: error, syncing, synced), `tCall` inside `FetchGenesisTime` of `newSlotTicker` (an error makes
  `Run` return that error: nothing is retried), `idle` = blocked in the `select`, `busy s` = between receiving
  slot `s` and the return of `scheduleSlot`, `returned err`.
  Neither wait loop looks at `s.quit`, and their context is only cancelled when `Run` returns: `Stop` has no
  effect before the loop is reached.
* the ticker goroutine of `newSlotTicker` (`Ticker`): `wait n` blocked in `clock.After` until slot `n` starts,
  `offer s` blocked in the unbuffered send of slot `s`, `dead` after `Run` returned (context cancelled).
  `tick` = the goroutine runs after its timer fired: it reads the clock *then* (`Sched.tickerStep`: slots are
  skipped only at this point). A slot that is being offered stays the offered slot however long `Run` is
  busy: it is handed over late, never replaced, and the slots in between are skipped afterwards.
* `take q`: the `select`. With `s.quit` closed and a slot on offer Go chooses at random: `q` is that choice.
* `done`: `scheduleSlot` returns. The model applies the whole handler at this instant (`Sched.Sys.tick`), and
  the registration goroutine of the slot is spawned with the clock value of this instant (exact when
  `SLOTS_PER_EPOCH ≥ 2`: the only blocking call before the registration test is the resolution of the epoch).
* `emitCoreSlot`: one goroutine per subscriber, spawned in registration order (`subCalls`); what a subscriber
  returns is only logged, and nobody waits for it.
* registrations (`RegS`): the start-up goroutine (`label 0`, spawned when `waitBeaconSync` returns) and one delayed
  goroutine per handled first slot of an epoch whose epoch differs from `submittedRegistrationEpoch`
  (`clock.After(3/4 slot)` or `s.quit`); when it runs it returns if `submittedRegistrationEpoch = label`, else calls
  the beacon node and stores `label` on success. Test and store are separate critical sections.

Not modelled: metrics, tracing, logging; a second `Stop` (close of a closed channel panics in the caller);
cancellation of in-flight beacon-node calls when `Run` returns; `slot duration = 0` / failing `Spec` inside
`newSlotTicker` (the beacon mock's spec is static); a genesis time that moves into the future between
`waitChainStart` and `newSlotTicker` (uint64 wrap of the slot number).
Time unit: nanoseconds on the clock's own axis (`now`, `genesis` absolute); `Sched.Sys` counts from genesis.
-/
import CharonV.Model.Sched

namespace CharonV.SchedRun
open CharonV.Sched

/-- `math.MaxUint64`: initial `submittedRegistrationEpoch`. -/
abbrev maxUint64 : Nat := 18446744073709551615

structure RCfg where
  s       : Cfg
  builder : Bool      -- `builderEnabled`
  nsubs   : Nat       -- number of `SubscribeSlots` callbacks
  deriving Repr

inductive Phase where
  | gCall (i : Nat)
  | gSleep (i : Nat) (untl : Option Nat)
  | sCall (i : Nat)
  | sSleep (i : Nat) (syncing : Bool)
  | tCall
  | idle
  | busy (slot : Nat)
  | returned (err : Bool)
  deriving DecidableEq, Repr

inductive Ticker where
  | off
  | wait (next : Nat)
  | offer (slot : Nat)
  | dead
  deriving DecidableEq, Repr

/-- `Run` has not reached `newSlotTicker` yet. -/
def Phase.pre : Phase → Bool
  | .gCall _ | .gSleep _ _ | .sCall _ | .sSleep _ _ => true
  | _ => false

/-- still inside `waitChainStart`. -/
def Phase.preG : Phase → Bool
  | .gCall _ | .gSleep _ _ => true
  | _ => false

structure Core where
  phase   : Phase := .gCall 0
  now     : Nat := 0
  genesis : Nat := 0            -- the genesis time the ticker was created with
  tk      : Ticker := .off
  sys     : Sys := {}
  stopped : Bool := false
  -- ghost
  gOk     : Bool := false       -- a Genesis answer with `genesis ≤ now` was received by `waitChainStart`
  sOk     : Bool := false       -- a NodeSyncing answer "not syncing" was received
  emitted : List Nat := []      -- slots the ticker put on offer, oldest first
  taken   : List Nat := []      -- slots `Run` received, oldest first
  takenAt : List (Nat × Nat) := []   -- (slot, clock value since genesis when it was received)
  subCalls : List (Nat × Nat) := []  -- (slot, subscriber index): goroutines spawned by `emitCoreSlot`
  afterStop : List Nat := []    -- slots received although `Stop` had been called
  deriving Repr

inductive RegSt where
  | timer (deadline : Nat)   -- waiting in `select { <-s.quit; <-s.clock.After(delay) }` (start-up goroutine: due at once)
  | inflight                 -- inside `eth2Cl.SubmitValidatorRegistrations`
  | fin (ok : Bool)
  | skipped                  -- `getSubmittedRegistrationEpoch() == epoch`: nothing submitted
  | quit
  deriving DecidableEq, Repr

structure Reg where
  label   : Nat              -- the `epoch` argument of `submitValidatorRegistrations`
  delayed : Bool
  slot    : Nat              -- the slot whose handling spawned it (0 for the start-up goroutine)
  st      : RegSt
  deriving DecidableEq, Repr

structure RegS where
  submitted : Nat := maxUint64
  regs      : List Reg := []
  deriving Repr

structure St where
  core : Core := {}
  reg  : RegS := {}
  deriving Repr

inductive Ev where
  | genesis (ans : Option Nat)     -- answer to the pending `Genesis` call; `none`: error
  | syncing (ans : Option Bool)    -- answer to the pending `NodeSyncing` call; `none`: error
  | wake                           -- the pending `clock.Sleep` returns
  | adv (d : Nat)                  -- the clock moves
  | back (d : Nat)                 -- the clock is stepped BACK (wall-clock adjustment); pending timers keep their deadlines
  | tick                           -- the ticker goroutine runs (its timer fired)
  | take (pickQuit : Bool)         -- the `select` of `Run`
  | done                           -- `scheduleSlot` returns
  | stop                           -- `Stop()`
  | regTimer (i : Nat)             -- registration goroutine `i`: its timer fired / it gets to run
  | regQuit (i : Nat)              -- delayed registration goroutine `i` takes the `s.quit` branch
  | regAns (i : Nat) (ok : Bool)   -- the beacon node answers the submission of goroutine `i`
  deriving Repr

def Ev.isReg : Ev → Bool
  | .regTimer _ | .regQuit _ | .regAns _ _ => true
  | _ => false

/-- clock value since the ticker's genesis. -/
def Core.since (c : Core) : Nat := c.now - c.genesis

def Core.ret (c : Core) (err : Bool) : Core := { c with phase := .returned err, tk := .dead }

/-- `emitCoreSlot`: `for _, sub := range s.slotSubs { go ... }`. -/
def subsOf (n slot : Nat) : List (Nat × Nat) := (List.range n).map (fun i => (slot, i))

def coreStep (bn : BN) (cfg : RCfg) (c : Core) : Ev → Core
  | .genesis ans =>
    match c.phase with
    | .gCall i =>
      match ans with
      | none => { c with phase := .gSleep i none }
      | some g => if c.now < g then { c with phase := .gSleep i (some g) }
                  else { c with phase := .sCall 0, gOk := true }
    | .tCall =>
      match ans with
      | none => c.ret true
      | some g => { c with phase := .idle, genesis := g, tk := .wait ((c.now - g) / cfg.s.slotDur),
                           sys := Sys.init cfg.s (c.now - g) }
    | _ => c
  | .syncing ans =>
    match c.phase with
    | .sCall i =>
      match ans with
      | none => { c with phase := .sSleep i false }
      | some true => { c with phase := .sSleep i true }
      | some false => { c with phase := .tCall, sOk := true }
    | _ => c
  | .wake =>
    match c.phase with
    | .gSleep i none => { c with phase := .gCall (i + 1) }
    | .gSleep i (some t) => if t ≤ c.now then { c with phase := .gCall (i + 1) } else c
    | .sSleep i _ => { c with phase := .sCall (i + 1) }
    | _ => c
  | .adv d => { c with now := c.now + d }
  | .back d => { c with now := c.now - d }
  | .tick =>
    match c.tk with
    | .wait n =>
      match tickerStep cfg.s.slotDur c.since n with
      | none => c
      | some (s, _) => { c with tk := .offer s, emitted := c.emitted ++ [s] }
    | _ => c
  | .take q =>
    match c.phase with
    | .idle =>
      if c.stopped && q then c.ret false
      else
        match c.tk with
        | .offer s =>
          { c with phase := .busy s, tk := .wait (s + 1), taken := c.taken ++ [s],
                   takenAt := c.takenAt ++ [(s, c.since)],
                   subCalls := c.subCalls ++ subsOf cfg.nsubs s,
                   afterStop := if c.stopped then c.afterStop ++ [s] else c.afterStop }
        | _ => if c.stopped then c.ret false else c
    | _ => c
  | .done =>
    match c.phase with
    | .busy s => { c with phase := .idle, sys := (Sys.tick bn cfg.s c.sys s (s + 1)).1 }
    | _ => c
  | .stop => { c with stopped := true }
  | .regTimer _ => c
  | .regQuit _ => c
  | .regAns _ _ => c

def setSt (regs : List Reg) (i : Nat) (st : RegSt) : List Reg :=
  match regs[i]? with
  | some r => regs.set i { r with st := st }
  | none => regs

/-- `(slotDuration * 3) / 4`. -/
def regDelay (cfg : RCfg) : Nat := cfg.s.slotDur * 3 / 4

/-- the registration side; `c` is the core state *before* the event. -/
def regStep (cfg : RCfg) (c : Core) (r : RegS) : Ev → RegS
  | .syncing (some false) =>
    match c.phase with
    | .sCall _ => if cfg.builder then { r with regs := r.regs ++ [⟨0, false, 0, .timer 0⟩] } else r
    | _ => r
  | .done =>
    match c.phase with
    | .busy s =>
      if cfg.builder && r.submitted != s / cfg.s.spe && s % cfg.s.spe == 0 then
        { r with regs := r.regs ++ [⟨s / cfg.s.spe, true, s, .timer (c.now + regDelay cfg)⟩] }
      else r
    | _ => r
  | .regTimer i =>
    match r.regs[i]? with
    | some ⟨l, _, _, .timer t⟩ =>
      if t ≤ c.now then
        (if r.submitted == l then { r with regs := setSt r.regs i .skipped }
         else { r with regs := setSt r.regs i .inflight })
      else r
    | _ => r
  | .regQuit i =>
    match r.regs[i]? with
    | some ⟨_, true, _, .timer _⟩ => if c.stopped then { r with regs := setSt r.regs i .quit } else r
    | _ => r
  | .regAns i ok =>
    match r.regs[i]? with
    | some ⟨l, _, _, .inflight⟩ =>
      { regs := setSt r.regs i (.fin ok), submitted := if ok then l else r.submitted }
    | _ => r
  | _ => r

def step (bn : BN) (cfg : RCfg) (x : St) (e : Ev) : St :=
  { core := coreStep bn cfg x.core e, reg := regStep cfg x.core x.reg e }

def run (bn : BN) (cfg : RCfg) (x : St) : List Ev → St
  | [] => x
  | e :: es => run bn cfg (step bn cfg x e) es

def coreRun (bn : BN) (cfg : RCfg) (c : Core) : List Ev → Core
  | [] => c
  | e :: es => coreRun bn cfg (coreStep bn cfg c e) es

/-- `Run` is called at clock value `t0`. -/
def St.init (t0 : Nat) : St := { core := { now := t0 } }

/-- a registration goroutine that reached the beacon node. -/
def Reg.started (r : Reg) : Bool :=
  match r.st with
  | .inflight | .fin _ => true
  | _ => false

/-- labels of the submissions that reached the beacon node. -/
def RegS.calls (r : RegS) : List Nat := (r.regs.filter Reg.started).map Reg.label

end CharonV.SchedRun
