/-
C14 — model of charon's OWN encoding layer (core Lean only):

* `core/ssz.go`: the three versioned SSZ wrappers (`marshalSSZVersioned{Blinded,ValidatorIdx,}To`,
  `unmarshalSSZVersioned{Blinded,ValidatorIdx,}`), the `VersionedAttestation` dispatch with its
  backwards-compatibility fallback, `AttestationData` and `attesterDutySSZ`, byte for byte, over an
  ABSTRACT inner codec (the go-eth2-client SSZ object is an opaque byte string produced by `enc`
  and consumed by `dec`).
* `core/proto.go`: `marshal` / `unmarshal` (SSZ first, JSON fallback) as decision logic including
  a byte-exact model of `bytes.HasPrefix(bytes.TrimSpace(data), "{")`, and the set encoders
  (`ParSignedDataSetToProto/FromProto`, `UnsignedDataSetToProto/FromProto`) as loops over a Go map
  whose iteration order is an explicit oracle (a permutation of the entries).
* `core/consensus/qbft/msg.go` `hashProto` as `hash ∘ deterministic-marshal`.

Layout constants come from `CharonV.Generated.SszWrap` (translator T-sszwrap, regenerated from the
Go source on every check run); `Props/C14.lean` pins the interpreted statement lists.
-/
import CharonV.Generated.SszWrap

namespace CharonV.SszWrap

abbrev Bytes := List UInt8

/-! ### little-endian integers (`ssz.MarshalUint64`, `ssz.WriteOffset`, `ssz.UnmarshallUint64`, `ssz.ReadOffset`) -/

/-- `k` bytes little-endian of `n` (truncating, as Go's `uint32(i)` / `uint64` conversions do). -/
def le : Nat → Nat → Bytes
  | 0, _ => []
  | k + 1, n => UInt8.ofNat (n % 256) :: le k (n / 256)

def leVal : Bytes → Nat
  | [] => 0
  | b :: bs => b.toNat + 256 * leVal bs

/-- Go slice expression `buf[a:b]` (callers guarantee `a ≤ b ≤ len`, as the Go code does). -/
def slice (buf : Bytes) (a b : Nat) : Bytes := (buf.drop a).take (b - a)

/-! ### data versions (`eth2util.DataVersion`, `dataVersionValues`) -/

inductive Ver | phase0 | altair | bellatrix | capella | deneb | electra | fulu
  deriving DecidableEq, Repr, Inhabited

def Ver.all : List Ver := [.phase0, .altair, .bellatrix, .capella, .deneb, .electra, .fulu]

def Ver.name : Ver → String
  | .phase0 => "phase0" | .altair => "altair" | .bellatrix => "bellatrix" | .capella => "capella"
  | .deneb => "deneb" | .electra => "electra" | .fulu => "fulu"

/-- `DataVersion.ToUint64` -/
def Ver.toNat : Ver → Nat
  | .phase0 => 0 | .altair => 1 | .bellatrix => 2 | .capella => 3 | .deneb => 4 | .electra => 5 | .fulu => 6

/-- `eth2util.DataVersionFromUint64`: unknown values are an error. -/
def Ver.ofNat? : Nat → Option Ver
  | 0 => some .phase0 | 1 => some .altair | 2 => some .bellatrix | 3 => some .capella
  | 4 => some .deneb | 5 => some .electra | 6 => some .fulu | _ => none

/-! ### header constants (from the Go source via T-sszwrap) -/

def blindedOff : Nat := CharonV.Generated.SszWrap.versionedBlindedOffset
def versionedOff : Nat := CharonV.Generated.SszWrap.versionedOffset
def valIdxOff : Nat := CharonV.Generated.SszWrap.versionedValIdxOffset

/-! ### abstract inner codec -/

/-- Error of the inner (go-eth2-client) decoder as far as charon's code can tell them apart:
`errors.Is(err, ssz.ErrOffset)` or not. `size` is kept separate only for printing. -/
inductive IErr | offset | size | other
  deriving DecidableEq, Repr

/-- Error of a wrapper decoder, in the order the code checks. -/
inductive WErr
  | size                 -- `len(buf) < header`         → ssz.ErrSize
  | version              -- `DataVersionFromUint64` failed
  | offset               -- offset check failed          → ssz.ErrOffset
  | inner (e : IErr)     -- inner `UnmarshalSSZ(buf[o1:])` failed
  deriving DecidableEq, Repr

/-- `errors.Is(err, ssz.ErrOffset)` on a wrapper error (the wrapper's own offset error or an
inner error that wraps `ssz.ErrOffset`). -/
def WErr.isOffset : WErr → Bool
  | .offset => true
  | .inner .offset => true
  | _ => false

/-- Inner codec family of a blinded-capable type: one codec per (version, blinded). -/
structure CodecB (α : Type) where
  enc : Ver → Bool → α → Bytes
  dec : Ver → Bool → Bytes → Except IErr α

/-- Inner codec family of a versioned type: one codec per version. -/
structure Codec (α : Type) where
  enc : Ver → α → Bytes
  dec : Ver → Bytes → Except IErr α

/-! ### `marshalSSZVersionedBlindedTo` / `unmarshalSSZVersionedBlinded` -/

structure VB (α : Type) where
  ver : Ver
  blinded : Bool
  val : α
  deriving Repr

/-- `ssz.MarshalBool` -/
def boolByte (b : Bool) : UInt8 := if b then 1 else 0

def hdrBlinded (v : Ver) (b : Bool) : Bytes := le 8 v.toNat ++ ([boolByte b] ++ le 4 blindedOff)

def marshalBlinded (c : CodecB α) (x : VB α) : Bytes :=
  hdrBlinded x.ver x.blinded ++ c.enc x.ver x.blinded x.val

def unmarshalBlinded (c : CodecB α) (buf : Bytes) : Except WErr (VB α) :=
  if buf.length < blindedOff then .error .size else
  match Ver.ofNat? (leVal (slice buf 0 8)) with
  | none => .error .version
  | some ver =>
    -- `ssz.UnmarshalBool`: `src[0] == 1`
    let blinded := (slice buf 8 9) == [1]
    let o1 := leVal (slice buf 9 13)
    if blindedOff > o1 ∨ o1 > buf.length then .error .offset else
    match c.dec ver blinded (buf.drop o1) with
    | .error e => .error (.inner e)
    | .ok x => .ok ⟨ver, blinded, x⟩

/-! ### `marshalSSZVersionedTo` / `unmarshalSSZVersioned` -/

structure VV (α : Type) where
  ver : Ver
  val : α
  deriving Repr

def hdrVersioned (v : Ver) : Bytes := le 8 v.toNat ++ le 4 versionedOff

def marshalVersioned (c : Codec α) (x : VV α) : Bytes := hdrVersioned x.ver ++ c.enc x.ver x.val

def unmarshalVersioned (c : Codec α) (buf : Bytes) : Except WErr (VV α) :=
  if buf.length < versionedOff then .error .size else
  match Ver.ofNat? (leVal (slice buf 0 8)) with
  | none => .error .version
  | some ver =>
    let o1 := leVal (slice buf 8 12)
    if versionedOff > o1 ∨ o1 > buf.length then .error .offset else
    match c.dec ver (buf.drop o1) with
    | .error e => .error (.inner e)
    | .ok x => .ok ⟨ver, x⟩

/-! ### `marshalSSZVersionedValidatorIdxTo` / `unmarshalSSZVersionedValidatorIdx` -/

structure VI (α : Type) where
  ver : Ver
  idx : Nat          -- eth2p0.ValidatorIndex (uint64)
  val : α
  deriving Repr

def hdrValIdx (v : Ver) (i : Nat) : Bytes := le 8 v.toNat ++ (le 8 i ++ le 4 valIdxOff)

def marshalValIdx (c : Codec α) (x : VI α) : Bytes := hdrValIdx x.ver x.idx ++ c.enc x.ver x.val

def unmarshalValIdx (c : Codec α) (buf : Bytes) : Except WErr (VI α) :=
  if buf.length < valIdxOff then .error .size else
  match Ver.ofNat? (leVal (slice buf 0 8)) with
  | none => .error .version
  | some ver =>
    let idx := leVal (slice buf 8 16)
    let o1 := leVal (slice buf 16 20)
    -- exact comparison here, unlike the two other wrappers
    if o1 ≠ valIdxOff then .error .offset else
    match c.dec ver (buf.drop o1) with
    | .error e => .error (.inner e)
    | .ok x => .ok ⟨ver, idx, x⟩

/-! ### `VersionedAttestation.MarshalSSZTo` / `UnmarshalSSZ` (dispatch + compatibility fallback) -/

structure VA (α : Type) where
  ver : Ver
  idx : Option Nat   -- `ValidatorIndex *eth2p0.ValidatorIndex`
  val : α
  deriving Repr

def marshalAtt (c : Codec α) (x : VA α) : Bytes :=
  match x.idx with
  | none => marshalVersioned c ⟨x.ver, x.val⟩
  | some i => marshalValIdx c ⟨x.ver, i, x.val⟩

/-- Which attempt produced the error (`"unmarshal VersionedAttestation"` vs `"… without validator index"`). -/
inductive AttErr
  | idx (e : WErr)
  | noidx (e : WErr)
  deriving DecidableEq, Repr

/-- `VersionedAttestation.UnmarshalSSZ`. `strict = false` is the code as it is now (repo commit
2a43df9, D-15 fixed): after ANY failure of the indexed attempt the index-less form is tried; only
if that fails too an error is returned — the first one unless it wraps `ssz.ErrOffset`.
`strict = true` is the pre-fix variant (fallback only on `errors.Is(err, ssz.ErrOffset)`), kept so
that the defect stays stated and proved (`Props/C14.lean`, `prefix_*`). -/
def unmarshalAttG (strict : Bool) (c : Codec α) (buf : Bytes) : Except AttErr (VA α) :=
  match unmarshalValIdx c buf with
  | .ok r => .ok ⟨r.ver, some r.idx, r.val⟩
  | .error e =>
    if strict && !e.isOffset then .error (.idx e) else
    match unmarshalVersioned c buf with
    | .ok r => .ok ⟨r.ver, none, r.val⟩
    | .error e2 => if !e.isOffset then .error (.idx e) else .error (.noidx e2)

def unmarshalAtt (c : Codec α) (buf : Bytes) : Except AttErr (VA α) := unmarshalAttG false c buf

/-- the decoder before commit 2a43df9 -/
def unmarshalAttPrefix (c : Codec α) (buf : Bytes) : Except AttErr (VA α) := unmarshalAttG true c buf

/-! ### `AttestationData` + `attesterDutySSZ` -/

/-- `eth2v1.AttesterDuty` as encoded by `attesterDutySSZ` (PubKey is 48 bytes, six uint64). -/
structure Duty where
  pubkey : Bytes
  slot : Nat
  validatorIndex : Nat
  committeeIndex : Nat
  committeeLength : Nat
  committeesAtSlot : Nat
  validatorCommitteeIndex : Nat
  deriving DecidableEq, Repr

def dutySize : Nat := 48 + 6 * 8

def marshalDuty (d : Duty) : Bytes :=
  d.pubkey ++ (le 8 d.slot ++ (le 8 d.validatorIndex ++ (le 8 d.committeeIndex ++
    (le 8 d.committeeLength ++ (le 8 d.committeesAtSlot ++ le 8 d.validatorCommitteeIndex)))))

/-- `attesterDutySSZ.UnmarshalSSZ`: only a lower bound on the length, trailing bytes ignored. -/
def unmarshalDuty (buf : Bytes) : Option Duty :=
  if buf.length < dutySize then none else
  some { pubkey := slice buf 0 48, slot := leVal (slice buf 48 56),
         validatorIndex := leVal (slice buf 56 64), committeeIndex := leVal (slice buf 64 72),
         committeeLength := leVal (slice buf 72 80), committeesAtSlot := leVal (slice buf 80 88),
         validatorCommitteeIndex := leVal (slice buf 88 96) }

/-- Inner codec of `eth2p0.AttestationData` (fixed size in go-eth2-client; abstract here). -/
structure CodecD (α : Type) where
  enc : α → Bytes
  dec : Bytes → Except IErr α

structure AttData (α : Type) where
  data : α
  duty : Duty
  deriving Repr

inductive ADErr | size | offset0 | offset1 | data (e : IErr) | duty
  deriving DecidableEq, Repr

def attDataHdr : Nat := 4 + 4

def marshalAttData (c : CodecD α) (x : AttData α) : Bytes :=
  le 4 attDataHdr ++ (le 4 (attDataHdr + (c.enc x.data).length) ++ (c.enc x.data ++ marshalDuty x.duty))

def unmarshalAttData (c : CodecD α) (buf : Bytes) : Except ADErr (AttData α) :=
  let size := buf.length
  if size < attDataHdr then .error .size else
  let o0 := leVal (slice buf 0 4)
  if size < o0 ∨ attDataHdr > o0 then .error .offset0 else
  let o1 := leVal (slice buf 4 8)
  if size < o1 ∨ o0 > o1 then .error .offset1 else
  match c.dec (slice buf o0 o1) with
  | .error e => .error (.data e)
  | .ok d =>
    match unmarshalDuty (buf.drop o1) with
    | none => .error .duty
    | some du => .ok ⟨d, du⟩

/-! ### `core/proto.go` `marshal` / `unmarshal`: SSZ first, JSON only behind a `{` -/

/-- Byte length of the white-space rune at the head of `s`, 0 if there is none.
Exactly `unicode.IsSpace` on what Go's strict UTF-8 decoder yields (`bytes.TrimSpace`:
ASCII fast path `\t \n \v \f \r ' '`, then U+0085, U+00A0, U+1680, U+2000–U+200A, U+2028, U+2029,
U+202F, U+205F, U+3000; invalid or over-long sequences decode to U+FFFD, which is not a space). -/
def spaceLen : Bytes → Nat
  | 0x09 :: _ | 0x0A :: _ | 0x0B :: _ | 0x0C :: _ | 0x0D :: _ | 0x20 :: _ => 1
  | 0xC2 :: 0x85 :: _ | 0xC2 :: 0xA0 :: _ => 2
  | 0xE1 :: 0x9A :: 0x80 :: _ => 3
  | 0xE2 :: 0x80 :: c :: _ =>
    if (0x80 ≤ c ∧ c ≤ 0x8A) ∨ c = 0xA8 ∨ c = 0xA9 ∨ c = 0xAF then 3 else 0
  | 0xE2 :: 0x81 :: 0x9F :: _ => 3
  | 0xE3 :: 0x80 :: 0x80 :: _ => 3
  | _ => 0

/-- Left part of `bytes.TrimSpace` (the right part cannot remove a `{`). Fuel = length. -/
def trimLeftFuel : Nat → Bytes → Bytes
  | 0, s => s
  | f + 1, s =>
    match spaceLen s with
    | 0 => s
    | n => trimLeftFuel f (s.drop n)

def trimLeft (s : Bytes) : Bytes := trimLeftFuel s.length s

/-- `bytes.HasPrefix(bytes.TrimSpace(data), []byte("{"))` -/
def hasJsonPrefix (data : Bytes) : Bool :=
  match trimLeft data with
  | 0x7B :: _ => true
  | _ => false

/-- The value passed to `marshal`/`unmarshal`, as far as their control flow depends on it. -/
structure Enc (α : Type) where
  isSSZ : Bool                        -- implements ssz.Marshaler / ssz.Unmarshaler
  sszEnc : α → Bytes
  sszDec : Bytes → Option α
  jsonEnc : α → Bytes
  jsonDec : Bytes → Option α

inductive Outcome (α : Type)
  | sszOk (x : α)
  | sszErr                 -- "unmarshal ssz": JSON was NOT attempted
  | jsonOk (x : α)
  | jsonErr                -- "unmarshal json"
  deriving Repr

/-- `core.marshal` (`enabled` is the package switch `sszMarshallingEnabled`). -/
def marshal (e : Enc α) (enabled : Bool) (x : α) : Bytes :=
  if e.isSSZ && enabled then e.sszEnc x else e.jsonEnc x

def tryJson (e : Enc α) (data : Bytes) : Outcome α :=
  match e.jsonDec data with
  | some x => .jsonOk x
  | none => .jsonErr

/-- `core.unmarshal`. -/
def unmarshal (e : Enc α) (data : Bytes) : Outcome α :=
  if e.isSSZ then
    match e.sszDec data with
    | some x => .sszOk x
    | none => if !hasJsonPrefix data then .sszErr else tryJson e data
  else tryJson e data

/-- JSON decoding is attempted on `data`. -/
def jsonAttempted (e : Enc α) (data : Bytes) : Bool :=
  match unmarshal e data with
  | .jsonOk _ | .jsonErr => true
  | _ => false

/-! ### set encoders: loops over a Go map with an explicit iteration order -/

/-- A Go map as association list; `get` is map lookup (first match; maps built by `put` have
distinct keys). -/
abbrev AMap (κ β : Type) := List (κ × β)

def get [DecidableEq κ] (m : AMap κ β) (k : κ) : Option β :=
  match m with
  | [] => none
  | (k', v) :: r => if k' = k then some v else get r k

/-- Go map assignment `m[k] = v`. -/
def put [DecidableEq κ] (m : AMap κ β) (k : κ) (v : β) : AMap κ β :=
  (k, v) :: m.filter (fun e => !decide (e.1 = k))

/-- `for k, v := range iter { y, err := f(v); if err != nil { return err }; inner[k] = y }`,
`iter` being the entries in the order the Go runtime happens to yield them. -/
def loopSet [DecidableEq κ] (f : β → Option γ) : List (κ × β) → AMap κ γ → Option (AMap κ γ)
  | [], acc => some acc
  | (k, v) :: r, acc =>
    match f v with
    | none => none
    | some y => loopSet f r (put acc k y)

/-- `ParSignedDataSetToProto` / `UnsignedDataSetToProto`. -/
def encodeSet [DecidableEq κ] (enc : β → Option γ) (iter : List (κ × β)) : Option (AMap κ γ) :=
  loopSet enc iter []

/-- `ParSignedDataSetFromProto` / `UnsignedDataSetFromProto`: an empty (or nil) set is an error.
`dec` is the per-entry decoder INCLUDING the structural validation added by repo commit d1a44e9
(`MessageRoot` / `Signature` / `Clone` inside the recover scope): a value that fails it is an error. -/
def decodeSet [DecidableEq κ] (dec : γ → Option β) (iter : List (κ × γ)) : Option (AMap κ β) :=
  if iter.isEmpty then none else loopSet dec iter []

/-! ### `hashProto` -/

/-- `hashProto msg = HashRoot(PutBytes(proto.MarshalOptions{Deterministic: true}.Marshal(msg)))`. -/
def hashProto (ser : AMap κ γ → Bytes) (h : Bytes → Bytes) (m : AMap κ γ) : Bytes := h (ser m)

end CharonV.SszWrap
