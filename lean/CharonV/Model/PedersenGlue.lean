/-
C11 — model of the node-side glue of `dkg/pedersen` around kyber's Pedersen DKG (executable, core
Lean only; compiled into the `drv-pedglue` line driver).

What is modelled, function by function (the code AS IT IS):

* `dkg.go`     : `readBoardChannel` (collect exactly one message per expected peer; duplicates and
                 unexpected peers are skipped; time-out / context), `makeNodes`, the node sort of
                 `RunDKG`, the default threshold, `validateThreshold`, `processKey`.
* `reshare.go` : `validatePubKeyShares`, the restoration of `PublicShares` from the exchange,
                 `restoreDistKeyShare`, `restoreCommits`, `restoreCommitsFromPubShares` (with kyber's
                 `share.RecoverPubPoly`: `xyCommit` = sort by index, skip negative indices, take the
                 first `t`; `lagrangeBasis`; sum of `basis_j · Y_j`), the old / new node
                 classification of `RunReshareDKG`, the compact re-indexing of remove-only
                 operations, `validateReshareNodeCounts`, the "at least one old node remains" check,
                 the default new threshold, what a leaving / joining / staying node does per
                 validator, `generateNonce` (fastssz hasher calls, bit-exact through
                 `Model/SszSchema.lean`).
* `utils.go`   : `keyShareToBLS`, `distKeyShareToValidatorPubKey`.
* `dkg/share/share.go` : `MsgFromShare` (public shares in ascending key order).

kyber's protocol itself is NOT modelled here: its result for a node (`DistKeyShare`: the share
index `I`, the share scalar, the commitments) is an argument (`Spec/Frost.lean` is the algebraic
specification of what it is).

Representation. A G1 point is represented by its discrete logarithm w.r.t. the generator (a `Nat`
below `Fr.r`): the correspondence driver only ever builds points as `s • G` from scalars it knows,
and every operation of the glue on points is linear, so the model computes the scalar of every
resulting point with `Model/Fr.lean` (bit-exact with kyber's / herumi's scalars). Byte strings that
are *meant* to be compressed points are `PB`: the encoding of a point, or junk of some length.
Go maps are association lists; their iteration order is the list order (results that could depend
on it are proved independent of it in `Props/C11Pedersen.lean`).
-/
import CharonV.Model.Fr
import CharonV.Model.SszSchema

namespace CharonV.PedersenGlue

open CharonV.Fr

/-! ## byte strings meant to be compressed G1 points -/

/-- a byte string handed around as a public key / public key share. -/
inductive PB where
  /-- the 48-byte compressed encoding of `s • G` (`s` canonical). -/
  | pt (s : Nat)
  /-- `len` bytes (told apart by `id`) that do not decode to a point. `len = 0`: the empty string. -/
  | junk (id len : Nat)
  /-- `copy(pk[:], b)` of a junk string `b` whose length is not 48: cut or zero-padded to 48 bytes. -/
  | cut (id len : Nat)
  deriving DecidableEq, Repr, Inhabited

def PB.len : PB → Nat
  | .pt _ => 48
  | .junk _ l => l
  | .cut _ _ => 48

/-- `Point.UnmarshalBinary`. -/
def PB.point? : PB → Option Nat
  | .pt s => some s
  | _ => none

/-- `var pk tbls.PublicKey; copy(pk[:], b)`. -/
def PB.copy48 : PB → PB
  | .pt s => .pt s
  | .junk id l => if l = 48 then .junk id 48 else .cut id l
  | .cut id l => .cut id l

/-! ## configuration -/

/-- `cluster.NodeIdx`. -/
structure NodeIdx where
  peerIdx  : Nat
  shareIdx : Nat
  deriving DecidableEq, Repr, Inhabited

/-- `ReshareConfig`. -/
structure Reshare where
  total        : Nat
  newThreshold : Int
  added        : List Nat
  removed      : List Nat
  deriving Repr

/-- `Config` (peers are small numbers; `peerMap` is the Go map `PeerMap`). -/
structure Cfg where
  thisPeer  : Nat
  peerMap   : List (Nat × NodeIdx)
  threshold : Int
  reshare   : Option Reshare := none
  deriving Repr

/-- Go map lookup (first entry wins: a Go map has one entry per key). -/
def lookup {β : Type} (m : List (Nat × β)) (k : Nat) : Option β :=
  (m.find? (·.1 == k)).map (·.2)

/-- `config.PeerMap[pid]` — the zero value for an absent key. -/
def Cfg.nodeIdx (c : Cfg) (pid : Nat) : NodeIdx := (lookup c.peerMap pid).getD ⟨0, 0⟩

/-- `config.PeerIDs()` in the iteration order of the map. -/
def Cfg.peerIDs (c : Cfg) : List Nat := c.peerMap.map (·.1)

inductive Err where
  | readTimeout | readCtx | readBlocked
  | unmarshalNodePub
  | thresholdLow | thresholdHigh
  | unmarshalPubShare | notEnoughShares | noCommits | groupKeyMismatch
  | unmarshalSecret | restoredKeyMismatch
  | insufficientShares
  | shareCount | shareLength
  | removeBelowThreshold | addNoNewNodes
  | reshareNil | addedAndRemoved | notInPeerMap | secretToPub | existingWithoutShares | allRemoved
  | privToPub
  | kyber
  | panic
  deriving DecidableEq, Repr

def Err.str : Err → String
  | .readTimeout => "read-timeout" | .readCtx => "read-ctx" | .readBlocked => "read-blocked"
  | .unmarshalNodePub => "unmarshal-node-pub"
  | .thresholdLow => "threshold-low" | .thresholdHigh => "threshold-high"
  | .unmarshalPubShare => "unmarshal-pubshare" | .notEnoughShares => "not-enough-shares"
  | .noCommits => "no-commits" | .groupKeyMismatch => "group-key-mismatch"
  | .unmarshalSecret => "unmarshal-secret" | .restoredKeyMismatch => "restored-key-mismatch"
  | .insufficientShares => "insufficient-shares"
  | .shareCount => "share-count" | .shareLength => "share-length"
  | .removeBelowThreshold => "remove-below-threshold" | .addNoNewNodes => "add-no-new-nodes"
  | .reshareNil => "reshare-nil" | .addedAndRemoved => "added-and-removed"
  | .notInPeerMap => "not-in-peer-map" | .secretToPub => "secret-to-pub"
  | .existingWithoutShares => "existing-without-shares" | .allRemoved => "all-removed"
  | .privToPub => "priv-to-pub" | .kyber => "kyber" | .panic => "panic"

/-! ## `readBoardChannel` -/

/-- what the `select` of `readBoardChannel` receives next. -/
inductive Ev (M : Type) where
  | msg (m : M)
  | timeout
  | ctxDone
  deriving Repr

inductive Rbc (M : Type) where
  /-- `return msgs, nil`. -/
  | ok (msgs : List M)
  /-- the timer fired: the error names the expected peers nothing was received from. -/
  | timedOut (missing : List Nat) (received : Nat)
  | ctxDone
  /-- the event sequence ended while the loop still waits (the call has not returned). -/
  | blocked (received : Nat)
  deriving Repr

/-- `readBoardChannel(ctx, ch, expected, peerIDFn, timeout)` over the sequence of `select`
outcomes. `msgs` is the slice collected so far; `seen` is exactly the senders of `msgs`. -/
def readBoard {M : Type} (pid : M → Nat) (expected : List Nat) : List (Ev M) → List M → Rbc M
  | [], msgs => if msgs.length < expected.length then .blocked msgs.length else .ok msgs
  | e :: rest, msgs =>
    if msgs.length < expected.length then
      match e with
      | .msg m =>
        if !expected.contains (pid m) then readBoard pid expected rest msgs       -- unexpected peer
        else if (msgs.map pid).contains (pid m) then readBoard pid expected rest msgs  -- duplicate
        else readBoard pid expected rest (msgs ++ [m])
      | .timeout => .timedOut (expected.filter fun p => !(msgs.map pid).contains p) msgs.length
      | .ctxDone => .ctxDone
    else .ok msgs

def Rbc.toExcept {M : Type} : Rbc M → Except Err (List M)
  | .ok msgs => .ok msgs
  | .timedOut _ _ => .error .readTimeout
  | .ctxDone => .error .readCtx
  | .blocked _ => .error .readBlocked

/-! ## `makeNodes`, node order, thresholds -/

/-- `NodePubKeys` as delivered by the board. -/
structure NodePubKeys where
  peer   : Nat
  pub    : PB
  shares : List PB
  deriving Repr, DecidableEq

/-- `kdkg.Node`: index and (discrete logarithm of) the long-term public key. -/
structure Node where
  index : Nat
  pub   : Nat
  deriving Repr, DecidableEq, Inhabited

/-- Go map assignment `m[k] = v`. -/
def mapSet {β : Type} (m : List (Nat × β)) (k : Nat) (v : β) : List (Nat × β) :=
  if m.any (·.1 == k) then m.map fun e => if e.1 == k then (k, v) else e else m ++ [(k, v)]

/-- the loop of `makeNodes` over the collected messages (in arrival order). -/
def makeNodesLoop (c : Cfg) : List NodePubKeys → List Node → List (Nat × List PB) →
    Except Err (List Node × List (Nat × List PB))
  | [], nodes, pks => .ok (nodes, pks)
  | m :: rest, nodes, pks =>
    let index := (c.nodeIdx m.peer).peerIdx
    match m.pub.point? with
    | none => .error .unmarshalNodePub
    | some pub =>
      let pks' := if m.shares.length > 0 then mapSet pks index m.shares else pks
      makeNodesLoop c rest (nodes ++ [⟨index, pub⟩]) pks'

/-- `makeNodes`: read one `NodePubKeys` per peer of the peer map, then build the node list (arrival
order) and the map node index ↦ public key shares (only for peers that sent any). -/
def makeNodes (c : Cfg) (evs : List (Ev NodePubKeys)) : Except Err (List Node × List (Nat × List PB)) :=
  match (readBoard (·.peer) c.peerIDs evs []).toExcept with
  | .error e => .error e
  | .ok msgs => makeNodesLoop c msgs [] []

/-- `slices.SortFunc(nodes, by Index)`. -/
def sortNodes (nodes : List Node) : List Node := nodes.mergeSort fun a b => a.index ≤ b.index

/-- `cluster.Threshold(n)` = ⌈2n/3⌉. -/
def defaultThreshold (n : Nat) : Nat := (2 * n + 2) / 3

/-- `validateThreshold(nodeCount, threshold)`. -/
def validateThreshold (nodeCount : Nat) (threshold : Int) : Except Err Unit :=
  if threshold < 1 then .error .thresholdLow
  else if threshold > nodeCount then .error .thresholdHigh
  else .ok ()

/-- the threshold `RunDKG` hands to kyber: `config.Threshold`, or the default if that is `≤ 0`;
validated against the number of nodes. -/
def dkgThreshold (c : Cfg) (nodes : List Node) : Except Err Nat :=
  let t : Int := if c.threshold ≤ 0 then (defaultThreshold nodes.length : Nat) else c.threshold
  match validateThreshold nodes.length t with
  | .error e => .error e
  | .ok () => .ok t.toNat

/-- `RunDKG` up to the per-validator loop: the sorted node list (kyber's `NewNodes`, the nonce input)
and the threshold. -/
def dkgSetup (c : Cfg) (evs : List (Ev NodePubKeys)) : Except Err (List Node × Nat) :=
  match makeNodes c evs with
  | .error e => .error e
  | .ok (nodes0, _) =>
    let nodes := sortNodes nodes0
    match dkgThreshold c nodes with
    | .error e => .error e
    | .ok t => .ok (nodes, t)

/-! ## `generateNonce` (fastssz hasher; `h` is the 2-to-1 compression function) -/

section Nonce
open CharonV.Ssz

/-- `PutUint32`: 4 bytes little endian, padded to a chunk. The Go code converts with `uint32(..)`. -/
def u32Chunk (n : Nat) : Chunk :=
  let n := n % 4294967296
  mkChunk [UInt8.ofNat (n % 256), UInt8.ofNat (n / 256 % 256), UInt8.ofNat (n / 65536 % 256),
    UInt8.ofNat (n / 16777216 % 256)]

variable (h : Chunk → Chunk → Chunk)

/-- one list element: `PutUint32(node.Index); PutBytes(pk); Merkleize(elemIndx)`. -/
def nonceElem (idx : Nat) (pk : Bytes) : Chunk := merkleize h 0 (u32Chunk idx :: putBytes h pk)

/-- `generateNonce(nodes, iteration)`; a node is (index, marshalled public key). -/
def generateNonce (nodes : List (Nat × Bytes)) (iteration : Nat) : Chunk :=
  let elems := nodes.map fun n => nonceElem h n.1 n.2
  let listRoot := mixin h (merkleize h nodes.length elems) nodes.length
  merkleize h 0 [u32Chunk iteration, listRoot]

end Nonce

/-! ## kyber's `share.RecoverPubPoly` on discrete logarithms -/

/-- `PriPoly.Add` / `PubPoly.Add` (both operands have the same number of coefficients here). -/
def polyAdd (a b : List Nat) : List Nat := List.zipWith add a b

/-- every coefficient times `c`. -/
def polyScale (c : Nat) (p : List Nat) : List Nat := p.map fun a => mul a c

/-- `p.Mul(minusConst(x))`: `p · (X − x)`, coefficients lowest first. -/
def polyMulLin (p : List Nat) (x : Nat) : List Nat :=
  polyAdd (0 :: p) (polyScale (sub 0 x) p ++ [0])

/-- x-coordinate of kyber share index `i`: `SetInt64(i + 1)`. -/
def xOf (i : Nat) : Nat := norm (i + 1)

/-- the polynomial part of `lagrangeBasis(g, i, xs)`: `∏_{m ≠ i} (X − x_m)`. -/
def basisNum (idxs : List Nat) (i : Nat) : List Nat :=
  idxs.foldl (fun b m => if m = i then b else polyMulLin b (xOf m)) [1]

/-- the scalar part of `lagrangeBasis`: `∏_{m ≠ i} (x_i − x_m)⁻¹` (one inversion per factor). -/
def basisDen (idxs : List Nat) (i : Nat) : Nat :=
  idxs.foldl (fun acc m => if m = i then acc else mul acc (inv (sub (xOf i) (xOf m)))) 1

/-- `lagrangeBasis(g, i, xs)`. -/
def lagrangeBasis (idxs : List Nat) (i : Nat) : List Nat := polyScale (basisDen idxs i) (basisNum idxs i)

/-- the accumulation loop of `RecoverPubPoly` over the selected shares `(index, dlog of the share)`:
`Σ_j basis_j · Y_j`; `none` is the nil polynomial of an empty selection. -/
def recoverPubPoly (sel : List (Nat × Nat)) : Option (List Nat) :=
  let idxs := sel.map (·.1)
  sel.foldl (fun acc p =>
    let term := polyScale p.2 (lagrangeBasis idxs p.1)
    match acc with
    | none => some term
    | some a => some (polyAdd a term)) none

/-- `xyCommit(g, shares, t, n)` on shares sorted by index: negative indices are skipped, the loop
stops as soon as `t` shares are taken (never for `t ≤ 0`). -/
def selectShares (t : Int) : List (Int × Nat) → List (Nat × Nat) → List (Nat × Nat)
  | [], acc => acc
  | (i, y) :: rest, acc =>
    if i < 0 then selectShares t rest acc
    else
      let acc' := acc ++ [(i.toNat, y)]
      if (acc'.length : Int) = t then acc' else selectShares t rest acc'

/-- `sort.Sort(byIndexPub(..))`. -/
def sortByIndex {β : Type} (m : List (Int × β)) : List (Int × β) := m.mergeSort fun a b => a.1 ≤ b.1

/-- `restoreCommitsFromPubShares(pubSharesBytes, threshold, expectedValidatorPubKey)`; the result
is the list of the discrete logarithms of the restored commitments. -/
def restoreCommitsFromPubShares (m : List (Int × PB)) (threshold : Int) (expected : Option PB) :
    Except Err (List Nat) :=
  -- every entry is unmarshalled first (map order; any failure is the same error)
  match m.mapM (fun e => e.2.point?.map fun s => (e.1, s)) with
  | none => .error .unmarshalPubShare
  | some pts =>
    let sel := selectShares threshold (sortByIndex pts) []
    if (sel.length : Int) < threshold then .error .notEnoughShares
    else match recoverPubPoly sel with
      | none => .error .panic            -- `pubPoly.Info()` on the nil polynomial
      | some commits =>
        match expected with
        | none => .ok commits
        | some e =>
          match commits with
          | [] => .error .noCommits
          | c0 :: _ => if PB.pt c0 = e then .ok commits else .error .groupKeyMismatch

/-- `restoreCommits(publicShares, shareNum, threshold, expectedValidatorPubKey)`. -/
def restoreCommits (publicShares : List (Nat × List PB)) (shareNum : Nat) (threshold : Int)
    (expected : Option PB) : Except Err (List Nat) :=
  if publicShares.any (fun e => shareNum ≥ e.2.length) then .error .insufficientShares
  else
    restoreCommitsFromPubShares
      (publicShares.map fun e => ((e.1 : Int), e.2.getD shareNum default)) threshold expected

/-! ## shares -/

/-- `share.Share`; `publicShares` is the Go map share index ↦ public key. -/
structure Share where
  pubKey       : PB
  secret       : Nat
  publicShares : List (Nat × PB)
  deriving Repr, DecidableEq

/-- `kdkg.DistKeyShare`: `Share.I`, `Share.V`, `Commits` (discrete logarithms). -/
structure DistKeyShare where
  idx     : Nat
  v       : Nat
  commits : List Nat
  deriving Repr, DecidableEq

/-- `keyShareToBLS`: the share scalar as `tbls.PrivateKey` and its public key (herumi's
`GetSafePublicKey` refuses the zero secret). -/
def keyShareToBLS (k : DistKeyShare) : Except Err (Nat × PB) :=
  if norm k.v = 0 then .error .privToPub else .ok (norm k.v, .pt (norm k.v))

/-- `distKeyShareToValidatorPubKey`: `Commits[0]` (index panic on no commitments). -/
def distKeyShareToValidatorPubKey (k : DistKeyShare) : Except Err PB :=
  match k.commits with
  | [] => .error .panic
  | c0 :: _ => .ok (.pt c0)

/-- `restoreDistKeyShare(keyShare, threshold, nodeIdx)`. -/
def restoreDistKeyShare (s : Share) (threshold : Int) (nodeIdx : Nat) : Except Err DistKeyShare :=
  let m : List (Int × PB) := s.publicShares.map fun e => ((e.1 : Int) - 1, e.2)
  match restoreCommitsFromPubShares m threshold none with
  | .error e => .error e
  | .ok commits =>
    if s.secret ≥ r then .error .unmarshalSecret
    else
      let dks : DistKeyShare := ⟨nodeIdx, s.secret, commits⟩
      match distKeyShareToValidatorPubKey dks with
      | .error e => .error e
      | .ok pk => if pk = s.pubKey then .ok dks else .error .restoredKeyMismatch

/-- `ValidatorPubKeyShare` as delivered by the board. -/
structure ValPubKeyShare where
  peer : Nat
  key  : PB
  deriving Repr, DecidableEq

/-- ascending, de-duplicated keys (`slices.Sort(oldShareIndices)`; the map assignment in the second
loop makes repeated keys harmless). -/
def sortedKeys (ks : List Nat) : List Nat := (ks.mergeSort fun a b => a ≤ b).eraseDups

/-- the two loops of `processKey` after the collection: file every non-empty key under the sender's
share index (a later message of the same share index overwrites), then build `PublicShares`. -/
def publicSharesOf (c : Cfg) (msgs : List ValPubKeyShare) : List (Nat × PB) :=
  let live := msgs.filter fun m => m.key.len ≠ 0
  let rev : List (Nat × PB) := live.foldl (fun acc m => mapSet acc (c.nodeIdx m.peer).shareIdx m.key) []
  (sortedKeys (live.map fun m => (c.nodeIdx m.peer).shareIdx)).map fun k =>
    (k, ((lookup rev k).getD (.junk 0 0)).copy48)

/-- `processKey(ctx, config, board, key)`: `own` is what the node broadcasts (returned for the
driver), `evs` what its collection loop then receives. -/
def processKey (c : Cfg) (k : DistKeyShare) (evs : List (Ev ValPubKeyShare)) : Except Err Share :=
  match keyShareToBLS k with
  | .error e => .error e
  | .ok (sk, _) =>
    match distKeyShareToValidatorPubKey k with
    | .error e => .error e
    | .ok vpk =>
      match (readBoard (·.peer) c.peerIDs evs []).toExcept with
      | .error e => .error e
      | .ok msgs => .ok ⟨vpk, sk, publicSharesOf c msgs⟩

/-- the public key share `processKey` broadcasts before collecting. -/
def ownBroadcast (k : DistKeyShare) : Option PB := match keyShareToBLS k with
  | .ok (_, pk) => some pk
  | .error _ => none

/-- `share.MsgFromShare(s).PubShares`: the public shares in ascending key order. -/
def msgPubShares (s : Share) : List PB :=
  (sortedKeys (s.publicShares.map (·.1))).map fun k => (lookup s.publicShares k).getD (.junk 0 0)

/-! ## `RunReshareDKG`: before the protocol runs -/

/-- `validatePubKeyShares(pubKeyShares, totalShares)` (map order = list order). -/
def validatePubKeyShares : List (Nat × List PB) → Nat → Except Err Unit
  | [], _ => .ok ()
  | (_, pks) :: rest, total =>
    if pks.length ≠ total then .error .shareCount
    else if pks.any (fun pk => pk.len ≠ 48) then .error .shareLength
    else validatePubKeyShares rest total

/-- `validateReshareNodeCounts(oldNodesCount, newNodesCount, oldThreshold, reshare)`. -/
def validateReshareNodeCounts (oldCount newCount : Nat) (oldThreshold : Int) (rs : Reshare) :
    Except Err Unit :=
  if rs.removed.length > 0 ∧ (oldCount : Int) < oldThreshold then .error .removeBelowThreshold
  else if rs.added.length > 0 ∧ newCount ≤ oldCount then .error .addNoNewNodes
  else .ok ()

/-- is the node with index `idx` the node of one of the listed peers (that are in the peer map)? -/
def listedAt (c : Cfg) (peers : List Nat) (idx : Nat) : Bool :=
  peers.any fun p => match lookup c.peerMap p with
    | some ni => ni.peerIdx == idx
    | none => false

/-- "Restore pubkey shares from the exchange": `PublicShares` of the node's `i`-th share is rebuilt
from what the nodes (in sorted order) sent; `none` is the index panic `pubKeyShares[nodeIdx][i]`
for `i` beyond what a node sent. -/
def restorePublicShares (nodes : List Node) (pks : List (Nat × List PB)) (i : Nat) :
    Option (List (Nat × PB)) :=
  nodes.foldl (fun acc node =>
    match acc with
    | none => none
    | some ps =>
      match lookup pks node.index with
      | none => some ps
      | some sent =>
        if sent.length > 0 then
          (if i < sent.length then some (mapSet ps (node.index + 1) (sent.getD i default).copy48) else none)
        else some ps) (some [])

/-- what `RunReshareDKG` has established when the per-validator loop starts. -/
structure Setup where
  nodes         : List Node               -- all participating nodes, sorted (the nonce input)
  pubKeyShares  : List (Nat × List PB)
  distKeyShares : List DistKeyShare       -- this node's restored shares (empty for a joining node)
  oldNodes      : List Node
  newNodes      : List Node
  thisIsOld     : Bool
  thisIsRemoved : Bool
  thisIsAdded   : Bool
  newThreshold  : Nat
  deriving Repr

/-- the classification loop: old nodes = not newly added, new nodes = not being removed. -/
def classify (c : Cfg) (rs : Reshare) (nodes : List Node) : List Node × List Node :=
  (nodes.filter fun n => !listedAt c rs.added n.index, nodes.filter fun n => !listedAt c rs.removed n.index)

/-- remove-only operations re-index the new nodes compactly `0, 1, 2, …`. -/
def compactIfRemoveOnly (rs : Reshare) (newNodes : List Node) : List Node :=
  if rs.removed.length > 0 ∧ rs.added.length = 0 then
    (newNodes.zipIdx).map fun p => ({ p.1 with index := p.2 } : Node)
  else newNodes

/-- number of old nodes whose index occurs among the (possibly re-indexed) new nodes. -/
def oldNodesRemaining (oldNodes newNodes : List Node) : Nat :=
  (oldNodes.filter fun o => newNodes.any fun n => o.index == n.index).length

/-- `RunReshareDKG` up to the per-validator loop. `shares` are the node's current shares
(`PubKey`, `SecretShare`; their `PublicShares` are overwritten), `evs` what the node's collection of
`NodePubKeys` receives (its own broadcast included, wherever the caller puts it). -/
def reshareSetup (c : Cfg) (shares : List Share) (evs : List (Ev NodePubKeys)) : Except Err Setup :=
  match c.reshare with
  | none => .error .reshareNil
  | some rs =>
    if rs.added.any (fun a => rs.removed.contains a) then .error .addedAndRemoved
    else match lookup c.peerMap c.thisPeer with
    | none => .error .notInPeerMap
    | some thisIdx =>
      let thisNodeIndex := thisIdx.peerIdx
      if shares.any (fun s => s.secret = 0 ∨ s.secret ≥ r) then .error .secretToPub
      else match makeNodes c evs with
      | .error e => .error e
      | .ok (nodes0, pks) =>
        let nodes := sortNodes nodes0
        match validatePubKeyShares pks rs.total with
        | .error e => .error e
        | .ok () =>
          -- first loop: restore PublicShares of every share (index panic beyond what a node sent)
          match (shares.zipIdx).mapM (fun si => (restorePublicShares nodes pks si.2).map fun ps =>
              ({ si.1 with publicShares := ps } : Share)) with
          | none => .error .panic
          | some shares' =>
          -- second loop: restore the DistKeyShares
          match shares'.mapM (fun s => restoreDistKeyShare s c.threshold thisNodeIndex) with
          | .error e => .error e
          | .ok dks =>
            let (oldNodes, newNodes0) := classify c rs nodes
            let thisIsRemoved := listedAt c rs.removed thisNodeIndex && nodes.any (·.index == thisNodeIndex)
            let thisIsAdded := listedAt c rs.added thisNodeIndex && nodes.any (·.index == thisNodeIndex)
            let newNodes := compactIfRemoveOnly rs newNodes0
            match validateReshareNodeCounts oldNodes.length newNodes.length c.threshold rs with
            | .error e => .error e
            | .ok () =>
              if rs.added.length > 0 ∧ !thisIsAdded ∧ dks.length = 0 then .error .existingWithoutShares
              else if rs.removed.length > 0 ∧ oldNodesRemaining oldNodes newNodes = 0 then .error .allRemoved
              else
                let t' : Int := if rs.newThreshold ≤ 0 then (defaultThreshold newNodes.length : Nat)
                  else rs.newThreshold
                match validateThreshold newNodes.length t' with
                | .error e => .error e
                | .ok () =>
                  .ok ⟨nodes, pks, dks, oldNodes, newNodes, dks.length > 0, thisIsRemoved, thisIsAdded,
                    t'.toNat⟩

/-- what the node hands to kyber for validator `shareNum`: its restored share, or (a node without
shares) the commitments restored from the exchanged public key shares, checked against the expected
validator key if the caller supplied one for this position. -/
inductive KyberInput where
  | share (d : DistKeyShare)
  | coeffs (cs : List Nat)
  deriving Repr, DecidableEq

def kyberInput (c : Cfg) (s : Setup) (expected : List PB) (shareNum : Nat) : Except Err KyberInput :=
  if s.distKeyShares.length > 0 then
    match s.distKeyShares[shareNum]? with
    | some d => .ok (.share d)
    | none => .error .panic             -- `distKeyShares[shareNum]` out of range
  else
    match restoreCommits s.pubKeyShares shareNum c.threshold expected[shareNum]? with
    | .error e => .error e
    | .ok cs => .ok (.coeffs cs)

/-- what the node does with kyber's result for one validator: a node being removed broadcasts the
empty key and collects (no share, kyber's error is not even looked at); every other node fails on a
kyber error and otherwise runs `processKey`. -/
def afterProtocol (c : Cfg) (s : Setup) (res : Option DistKeyShare) (evs : List (Ev ValPubKeyShare)) :
    Except Err (Option Share) :=
  if s.thisIsRemoved then
    match (readBoard (·.peer) c.peerIDs evs []).toExcept with
    | .error e => .error e
    | .ok _ => .ok none
  else match res with
    | none => .error .kyber
    | some k => (processKey c k evs).map some

end CharonV.PedersenGlue
