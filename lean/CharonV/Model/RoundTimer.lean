/-
Model of `core/consensus/timer/roundtimer.go` — executable, core Lean only.

Time unit: nanoseconds (`time.Duration`), as `Nat`. Absolute instants are nanoseconds after an
arbitrary base instant `B` (the correspondence driver starts its fake clock at `B`); `genesis`
is `none` for the zero `time.Time` (`genesisTime.IsZero()`), `some g` for `B + g`.

One `Timer(round)` call of a round timer is one atomic step (`timerCall`): the increasing and the
linear type hold no state; the eager-double-linear type holds `firstDeadlines` (a Go map
`round → time.Time`, written only when the round has no entry yet — modelled as an association
list that is only ever extended in front by rounds it does not contain) under a mutex.

Inputs of a call that are not part of the timer object:
* `now`  — `t.clock.Now()` (read twice by the eager type; the same value under a fake clock; under
           the real clock the two reads differ by the few instructions between them — abstracted),
* `pt`   — `featureset.Enabled(featureset.ProposalTimeout)`, a process-global flag that is read at
           every call (so it is a per-call input here, not a field of the configuration).

Result of a call: the absolute deadline and the duration handed to `clock.NewTimer`, i.e. the
time until the returned channel fires. A non-positive Go duration fires at once (both for
`time.NewTimer` and the clockwork fake clock), hence the truncated subtraction `deadline - now`.

Not modelled: `int64` overflow (`slotDuration * slot` stays far below 2^63 ns for real chains:
12 s slots overflow after 7.6e8 slots ≈ 290 years), negative rounds / negative slot durations
(QBFT rounds start at 1; the slot duration comes from the beacon spec), the `stop` function.
-/
namespace CharonV.RoundTimer

/-! ### constants (`const (...)` block of roundtimer.go) -/

def ms  : Nat := 1000000
def sec : Nat := 1000000000

/-- `IncRoundStart = time.Millisecond * 750` -/
def incRoundStart : Nat := 750 * ms
/-- `IncRoundIncrease = time.Millisecond * 250` -/
def incRoundIncrease : Nat := 250 * ms
/-- `LinearRoundInc = time.Second` -/
def linearRoundInc : Nat := sec
/-- `ProposalRoundExtra = time.Millisecond * 500` -/
def proposalRoundExtra : Nat := 500 * ms

/-! ### duty types (`core.DutyType` numbers that the timers distinguish) -/

def dutyProposer : Nat := 1
def dutyAttester : Nat := 2
def dutyAggregator : Nat := 9
def dutySyncContribution : Nat := 12

/-! ### pure timeout functions -/

/-- `increasingRoundTimeout` -/
def increasingRoundTimeout (round : Nat) : Nat := incRoundStart + round * incRoundIncrease

/-- `linearRoundTimeout` -/
def linearRoundTimeout (round : Nat) : Nat := round * linearRoundInc

/-- `proposalRoundTimeout` -/
def proposalRoundTimeout (round : Nat) : Nat := linearRoundTimeout round + proposalRoundExtra

/-- `getDutyStartDelayWithDuration` -/
def dutyStartDelay (dutyType slotDur : Nat) : Nat :=
  if dutyType = dutyAttester then slotDur / 3
  else if dutyType = dutyAggregator ∨ dutyType = dutySyncContribution then (2 * slotDur) / 3
  else 0

/-! ### timer objects -/

/-- the three implementations of `RoundTimer` -/
inductive Kind where
  | inc      -- `increasingRoundTimer`,        `Type() = "inc"`
  | eager    -- `doubleEagerLinearRoundTimer`, `Type() = "eager_dlinear"`
  | linear   -- `linearRoundTimer`,            `Type() = "linear"`
  deriving DecidableEq, Repr

/-- the immutable fields of a timer object -/
structure Cfg where
  kind     : Kind
  dutyType : Nat            -- `duty.Type`
  slot     : Nat            -- `duty.Slot`
  genesis  : Option Nat     -- `genesisTime` (`none` = zero value); only the eager type has it
  slotDur  : Nat            -- `slotDuration` (0 = not given)
  deriving Repr

/-- the mutable part: `firstDeadlines` (empty and unused for the stateless types) -/
structure State where
  first : List (Nat × Nat) := []
  deriving Repr

/-- `t.firstDeadlines[round]` -/
def lookup (round : Nat) : List (Nat × Nat) → Option Nat
  | [] => none
  | (r, d) :: rest => if r = round then some d else lookup round rest

/-- result of one `Timer(round)` call -/
structure Fire where
  deadline : Nat   -- absolute instant at which the channel fires if that lies in the future
  dur      : Nat   -- duration until the channel fires, counted from the call (0 = at once)
  deriving DecidableEq, Repr

/-- `increasingRoundTimer.Timer`: the timeout chosen for the round -/
def incTimeout (dutyType : Nat) (pt : Bool) (round : Nat) : Nat :=
  if pt ∧ dutyType = dutyProposer ∧ round = 1 then proposalRoundTimeout round
  else increasingRoundTimeout round

/-- `linearRoundTimer.Timer`: the `switch` -/
def linTimeout (dutyType : Nat) (pt : Bool) (round : Nat) : Nat :=
  if pt ∧ dutyType = dutyProposer ∧ round = 1 then proposalRoundTimeout round
  else if round = 1 then sec
  else (200 * (round - 1) + 200) * ms

/-- `doubleEagerLinearRoundTimer.Timer`: the timeout chosen for the round -/
def eagerTimeout (dutyType : Nat) (pt : Bool) (round : Nat) : Nat :=
  if pt ∧ dutyType = dutyProposer then proposalRoundTimeout round
  else linearRoundTimeout round

/-- nominal timeout of a round for a timer object (what the three `Timer` methods compute first) -/
def timeoutOf (c : Cfg) (pt : Bool) (round : Nat) : Nat :=
  match c.kind with
  | .inc => incTimeout c.dutyType pt round
  | .eager => eagerTimeout c.dutyType pt round
  | .linear => linTimeout c.dutyType pt round

/-- `dutyStart` of the eager type when genesis time and slot duration are known -/
def dutyStart (c : Cfg) (g : Nat) : Nat :=
  g + c.slotDur * c.slot + dutyStartDelay c.dutyType c.slotDur

/-- deadline stored by the *first* `Timer(round)` call of an eager timer -/
def eagerFirstDeadline (c : Cfg) (pt : Bool) (now round : Nat) : Nat :=
  match c.genesis with
  | some g =>
    if c.slotDur > 0 then dutyStart c g + eagerTimeout c.dutyType pt round
    else now + eagerTimeout c.dutyType pt round
  | none => now + eagerTimeout c.dutyType pt round

/-- one `Timer(round)` call at clock `now` with the ProposalTimeout feature being `pt`. -/
def timerCall (c : Cfg) (pt : Bool) (s : State) (now round : Nat) : State × Fire :=
  match c.kind with
  | .inc =>
    let t := incTimeout c.dutyType pt round
    (s, { deadline := now + t, dur := t })
  | .linear =>
    let t := linTimeout c.dutyType pt round
    (s, { deadline := now + t, dur := t })
  | .eager =>
    let t := eagerTimeout c.dutyType pt round
    match lookup round s.first with
    | some first =>
      let dl := first + t
      (s, { deadline := dl, dur := dl - now })
    | none =>
      let dl := eagerFirstDeadline c pt now round
      ({ first := (round, dl) :: s.first }, { deadline := dl, dur := dl - now })

/-- a call: feature flag, clock value, round -/
structure Call where
  pt    : Bool
  now   : Nat
  round : Nat
  deriving Repr

/-- state after a sequence of calls on one timer object -/
def run (c : Cfg) (s : State) : List Call → State
  | [] => s
  | k :: ks => run c (timerCall c k.pt s k.now k.round).1 ks

/-- states a timer object can be in when every call saw the same feature flag `pt` -/
inductive Reach (c : Cfg) (pt : Bool) : State → Prop where
  | init : Reach c pt {}
  | call {s : State} (now round : Nat) : Reach c pt s → Reach c pt (timerCall c pt s now round).1

/-! ### `GetRoundTimerFunc`: which implementation a duty gets -/

/-- `GetRoundTimerFunc(...)(duty)` as a function of the features `linear`, `eager_double_linear`
and the duty type. (Only the eager type built here carries genesis time and slot duration.) -/
def selectKind (linear eager : Bool) (dutyType : Nat) : Kind :=
  if linear then
    if dutyType = dutyProposer then .linear
    else if eager then .eager
    else .inc
  else if eager then .eager
  else .inc

/-- `Type()` string -/
def Kind.name : Kind → String
  | .inc => "inc" | .eager => "eager_dlinear" | .linear => "linear"

/-- `Type.Eager()`: `strings.Contains(string(t), "eager")` -/
def Kind.isEager : Kind → Bool
  | .eager => true | _ => false

end CharonV.RoundTimer
