/-
Model of `core/scheduler/scheduler.go` + `core/scheduler/offset.go` — executable, core Lean only.

What is mirrored (function by function):

* `Scheduler` state: `resolvedEpoch` (`math.MaxInt64` = nothing resolved), `duties`
  (`map[core.Duty]core.DutyDefinitionSet`), `dutiesByEpoch` (`map[uint64][]core.Duty`).
  Go maps are used only through lookup / insert / delete, so they are association lists with
  unique keys (`AMap`); a definition set keeps its pubkeys in insertion order (irrelevant in Go).
* the beacon node (the `eth2wrap.Client` the scheduler talks to: `CompleteValidators`,
  `AttesterDutiesCache`, `ProposerDutiesCache`, `SyncCommDutiesCache`) is an oracle `BN`: the
  `k`-th call to an endpoint returns an error (`none`) or a list whose entries may be nil
  pointers (`none`).  The call counters `nv na np ns` are ghost state.
* `resolveActiveValidators` (`activeVals`), `resolveDuties`, `resolveAttDuties`, `resolveProDuties`,
  `resolveSyncCommDuties` (their loops share one shape, `resolveLoop`: skip earlier slots, skip
  validators that are not active cluster validators, error on a pubkey mismatch with everything
  stored so far kept; the attester loop stores the aggregator definition only when the attester
  definition was newly set, `attBody`), `setDutyDefinition` (first wins), `trimDuties`
  (`trimBack`: `epoch - 3` on uint64), `HandleChainReorgEvent`, `scheduleSlot` (`preResolve`:
  resolve when `resolvedEpoch != epoch`, with retry at the next slot as a consequence; `trigLoop`:
  loop over `core.AllDutyTypes()`; the next epoch is resolved *inside* that loop, once per duty
  type that has a definition set in the last slot of an epoch — so not at all when that slot has
  no duty), `delaySlotOffset` + `slotOffsets` (`notBefore`), `newSlotTicker` (`tickerStep`, at
  most two emissions per clock advance; `Sys.pump`).

Not modelled: goroutine timing of the asynchronous trigger (`delayFunc` is the identity here:
the trigger carries its not-before instant), builder registrations, metrics, the
uint64 overflow (slots < 2^63). The `FetchAttOnBlock*` feature flags (off by default) only change the
attester deadline here (`notBefore`); the head-event path they enable (`HandleHeadEvent`,
`eventTriggeredAttestations`, `waitForEarlyFetchOrTimeout`, `trimEventTriggeredAttestations`) is
modelled on top of this file in `Model/SchedHead.lean`.
Time unit: nanoseconds since genesis.
-/
namespace CharonV.Sched

/-! ### association lists used as Go maps -/

abbrev AMap (κ ν : Type) := List (κ × ν)

namespace AMap
variable {κ ν : Type} [DecidableEq κ]

def get? : AMap κ ν → κ → Option ν
  | [], _ => none
  | (k', v) :: m, k => if k' = k then some v else get? m k

def del : AMap κ ν → κ → AMap κ ν
  | [], _ => []
  | (k', v) :: m, k => if k' = k then del m k else (k', v) :: del m k

def set (m : AMap κ ν) (k : κ) (v : ν) : AMap κ ν := (k, v) :: del m k

end AMap

/-! ### data -/

/-- `math.MaxInt64`: the value of `resolvedEpoch` while no epoch is resolved. -/
abbrev maxInt64 : Nat := 9223372036854775807

structure Duty where
  slot : Nat
  ty   : Nat
  deriving DecidableEq, Repr

/-- `core.DutyType` codes of the duties the scheduler itself resolves. -/
abbrev tyProposer : Nat := 1
abbrev tyAttester : Nat := 2
abbrev tyAggregator : Nat := 9
abbrev tySyncContribution : Nat := 12

/-- `core.AllDutyTypes()`: `DutyUnknown+1 .. dutySentinel-1`. -/
def allDutyTypes : List Nat := [1, 2, 3, 4, 5, 6, 7, 8, 9, 10, 11, 12, 13]

/-- one entry of the `CompleteValidators` answer: map key, pubkey, `Status.IsActive()`,
`Validator.ActivationEpoch`. -/
structure Val where
  idx      : Nat
  pk       : Nat
  active   : Bool
  actEpoch : Nat
  deriving DecidableEq, Repr

/-- `eth2v1.AttesterDuty` (`tag` stands for the committee fields). -/
structure AttDuty where
  vidx : Nat
  pk   : Nat
  slot : Nat
  tag  : Nat
  deriving DecidableEq, Repr

/-- `eth2v1.ProposerDuty`. -/
structure ProDuty where
  vidx : Nat
  pk   : Nat
  slot : Nat
  deriving DecidableEq, Repr

/-- `eth2v1.SyncCommitteeDuty` (`tag` stands for `ValidatorSyncCommitteeIndices`). -/
structure SyncDuty where
  vidx : Nat
  pk   : Nat
  tag  : Nat
  deriving DecidableEq, Repr

/-- `core.DutyDefinition`. -/
inductive Def where
  | att (a : AttDuty)
  | pro (p : ProDuty)
  | sync (d : SyncDuty)
  deriving DecidableEq, Repr

/-- `core.DutyDefinitionSet` (pubkey ↦ definition). -/
abbrev DefSet := List (Nat × Def)

/-- The beacon node as seen by the scheduler. First argument: how many calls were made to that
endpoint before (so every call may answer differently); `vals` additionally receives the epoch
being resolved (the Go call has no such parameter; an oracle may ignore it). -/
structure BN where
  vals : Nat → Nat → Option (List (Option Val))
  att  : Nat → Nat → List Nat → Option (List (Option AttDuty))
  pro  : Nat → Nat → List Nat → Option (List (Option ProDuty))
  sync : Nat → Nat → List Nat → Option (List (Option SyncDuty))

structure Cfg where
  spe     : Nat            -- SLOTS_PER_EPOCH
  slotDur : Nat            -- SECONDS_PER_SLOT in ns
  reorgEnabled : Bool      -- featureset.SSEReorgDuties
  fetchAttOnBlock : Bool := false            -- featureset.FetchAttOnBlock (alpha, off by default)
  fetchAttOnBlockWithDelay : Bool := false   -- featureset.FetchAttOnBlockWithDelay (alpha, off by default)
  fetchOnlyRegistered : Bool := true         -- `RegisterFetcherFetchOnly` was called (core.Wire always does)
  deriving Repr

/-- `featureset.Enabled(FetchAttOnBlock) || featureset.Enabled(FetchAttOnBlockWithDelay)`: the test
used by `HandleHeadEvent`, the attester trigger goroutine of `scheduleSlot` and `trimDuties`. -/
def earlyFetchOn (cfg : Cfg) : Bool := cfg.fetchAttOnBlock || cfg.fetchAttOnBlockWithDelay

/-- `300 * time.Millisecond` in ns. -/
abbrev delay300 : Nat := 300000000

structure State where
  resolvedEpoch : Nat := maxInt64
  duties        : AMap Duty DefSet := []
  dutiesByEpoch : AMap Nat (List Duty) := []
  nv : Nat := 0
  na : Nat := 0
  np : Nat := 0
  ns : Nat := 0
  deriving Repr

/-- a triggered duty: what a `SubscribeDuties` callback receives, plus the instant handed to
`delayFunc` (the trigger happens when that channel fires, i.e. not before `nb`). -/
structure Trigger where
  duty : Duty
  defs : DefSet
  nb   : Nat
  deriving DecidableEq, Repr

/-! ### `offset.go` -/

/-- `fraction(x, y)(total) = (total * x) / y`. -/
def fraction (x y total : Nat) : Nat := (total * x) / y

/-- `slotOffsets[ty]` applied to the slot duration; `none`: no entry, `delaySlotOffset` returns at once. -/
def slotOffset (ty dur : Nat) : Option Nat :=
  if ty = tyAttester then some (fraction 1 3 dur)
  else if ty = tyAggregator then some (fraction 2 3 dur)
  else if ty = tySyncContribution then some (fraction 2 3 dur)
  else none

/-- `slot.Time.Add(offset)`: the deadline `delaySlotOffset` hands to `delayFunc`; for the attester
duty with a `FetchAttOnBlock*` flag on it is the `fallbackDeadline` of `waitForEarlyFetchOrTimeout`
(same offset, plus 300 ms iff `FetchAttOnBlockWithDelay` is on). -/
def notBefore (cfg : Cfg) (slot ty : Nat) : Nat :=
  slot * cfg.slotDur + (slotOffset ty cfg.slotDur).getD 0 +
    (if ty = tyAttester ∧ cfg.fetchAttOnBlockWithDelay = true then delay300 else 0)

/-! ### map access -/

/-- `s.duties[duty]` with the zero value (no set) as `[]`. -/
def defsOf (s : State) (d : Duty) : DefSet := (AMap.get? s.duties d).getD []

/-- `s.dutiesByEpoch[epoch]`. -/
def byEp (s : State) (e : Nat) : List Duty := (AMap.get? s.dutiesByEpoch e).getD []

def hasPk (ds : DefSet) (pk : Nat) : Bool := ds.any (fun p => p.1 == pk)

/-- `setDutyDefinition`: first definition for a pubkey wins; returns whether it was set. -/
def setDef (s : State) (d : Duty) (ep pk : Nat) (df : Def) : State × Bool :=
  if hasPk (defsOf s d) pk then (s, false)
  else ({ s with duties := AMap.set s.duties d (defsOf s d ++ [(pk, df)]),
                 dutiesByEpoch := AMap.set s.dutiesByEpoch ep (byEp s ep ++ [d]) }, true)

/-- `trimDuties(epoch)`. -/
def trim (s : State) (ep : Nat) : State :=
  if (byEp s ep).isEmpty then s
  else { s with duties := (byEp s ep).foldl AMap.del s.duties,
                dutiesByEpoch := AMap.del s.dutiesByEpoch ep }

/-- `trimDuties(slot.Epoch() - trimEpochOffset)` on uint64: below epoch 3 the subtraction wraps
to a value that is never a key. -/
def trimBack (s : State) (epoch : Nat) : State := if 3 ≤ epoch then trim s (epoch - 3) else s

/-! ### resolving duties -/

/-- `resolveActiveValidators`: error on a failed call or a nil entry; keeps validators that are
active or whose activation epoch is the epoch being resolved. -/
def activeVals (ans : Option (List (Option Val))) (epoch : Nat) : Option (List Val) :=
  match ans with
  | none => none
  | some l =>
    if l.any Option.isNone then none
    else some ((l.filterMap id).filter (fun v => v.active || v.actEpoch == epoch))

/-- `validators.PubKeyFromIndex`. -/
def pubKeyFromIndex (vals : List Val) (i : Nat) : Option Nat :=
  (vals.find? (fun v => v.idx == i)).map (fun v => v.pk)

/-- stable insertion by slot (what `slices.SortFunc` does for ≤ 12 elements). -/
def insBySlot (a : AttDuty) : List AttDuty → List AttDuty
  | [] => [a]
  | b :: bs => if a.slot < b.slot then a :: b :: bs else b :: insBySlot a bs

def sortBySlot (l : List AttDuty) : List AttDuty := l.foldl (fun acc a => insBySlot a acc) []

/-- The common shape of the loops in `resolveAttDuties`, `resolveProDuties` and
`resolveSyncCommDuties` over the beacon node's answer: skip duties of earlier slots (`skip`), skip
(with a warning) validators that are not among the active cluster validators, fail on a pubkey that
differs from the validator's (what was stored before the error persists), otherwise store (`body`). -/
def resolveLoop {α : Type} (skip : α → Bool) (vidx pkOf : α → Nat) (body : State → α → Nat → State)
    (vals : List Val) : List α → State → State × Bool
  | [], s => (s, true)
  | a :: rest, s =>
    if skip a then resolveLoop skip vidx pkOf body vals rest s
    else
      match pubKeyFromIndex vals (vidx a) with
      | none => resolveLoop skip vidx pkOf body vals rest s
      | some pk =>
        if pkOf a ≠ pk then (s, false)
        else resolveLoop skip vidx pkOf body vals rest (body s a pk)

/-- what one iteration of the `resolveAttDuties` loop stores: the attester definition and, only
if that was newly set, the aggregator definition. -/
def attBody (s : State) (a : AttDuty) (epoch pk : Nat) : State :=
  let r := setDef s ⟨a.slot, tyAttester⟩ epoch pk (.att a)
  if r.2 then (setDef r.1 ⟨a.slot, tyAggregator⟩ epoch pk (.att a)).1 else r.1

/-- loop of `resolveAttDuties` (state changes made before an error persist). -/
def attLoop (slot epoch : Nat) (vals : List Val) : List AttDuty → State → State × Bool :=
  resolveLoop (fun a => decide (a.slot < slot)) (fun a => a.vidx) (fun a => a.pk)
    (fun s a pk => attBody s a epoch pk) vals

def resolveAtt (bn : BN) (cfg : Cfg) (s : State) (slot : Nat) (vals : List Val) : State × Bool :=
  let epoch := slot / cfg.spe
  let s1 := { s with na := s.na + 1 }
  match bn.att s.na epoch (vals.map (fun v => v.idx)) with
  | none => (s1, false)
  | some l =>
    if l.any Option.isNone then (s1, false)
    else attLoop slot epoch vals (sortBySlot (l.filterMap id)) s1

def proLoop (slot epoch : Nat) (vals : List Val) : List ProDuty → State → State × Bool :=
  resolveLoop (fun p => decide (p.slot < slot)) (fun p => p.vidx) (fun p => p.pk)
    (fun s p pk => (setDef s ⟨p.slot, tyProposer⟩ epoch pk (.pro p)).1) vals

def resolvePro (bn : BN) (cfg : Cfg) (s : State) (slot : Nat) (vals : List Val) : State × Bool :=
  let epoch := slot / cfg.spe
  let s1 := { s with np := s.np + 1 }
  match bn.pro s.np epoch (vals.map (fun v => v.idx)) with
  | none => (s1, false)
  | some l =>
    if l.any Option.isNone then (s1, false)
    else proLoop slot epoch vals (l.filterMap id) s1

/-- `for sl := startSlot; sl.Epoch() == currEpoch; sl = sl.Next()`: the slots from `slot` to the
end of its epoch (all of them lie in `[slot, slot + spe)`). -/
def syncSlots (slot spe : Nat) : List Nat :=
  (List.range' slot spe).filter (fun sl => sl / spe == slot / spe)

def setSyncDefs (epoch pk : Nat) (d : SyncDuty) (sls : List Nat) (s : State) : State :=
  sls.foldl (fun st sl => (setDef st ⟨sl, tySyncContribution⟩ epoch pk (.sync d)).1) s

def syncLoop (slot epoch spe : Nat) (vals : List Val) : List SyncDuty → State → State × Bool :=
  resolveLoop (fun _ => false) (fun d => d.vidx) (fun d => d.pk)
    (fun s d pk => setSyncDefs epoch pk d (syncSlots slot spe) s) vals

def resolveSync (bn : BN) (cfg : Cfg) (s : State) (slot : Nat) (vals : List Val) : State × Bool :=
  let epoch := slot / cfg.spe
  let s1 := { s with ns := s.ns + 1 }
  match bn.sync s.ns epoch (vals.map (fun v => v.idx)) with
  | none => (s1, false)
  | some l =>
    if l.any Option.isNone then (s1, false)
    else syncLoop slot epoch cfg.spe vals (l.filterMap id) s1

/-- `resolveDuties(ctx, slot)` (the returned error is only logged by the callers). -/
def resolveDuties (bn : BN) (cfg : Cfg) (s : State) (slot : Nat) : State :=
  let epoch := slot / cfg.spe
  let s1 := { s with nv := s.nv + 1 }
  match activeVals (bn.vals s.nv epoch) epoch with
  | none => s1
  | some vals =>
    if vals.isEmpty then { s1 with resolvedEpoch := epoch }
    else
      let r2 := resolveAtt bn cfg s1 slot vals
      if !r2.2 then r2.1 else
      let r3 := resolvePro bn cfg r2.1 slot vals
      if !r3.2 then r3.1 else
      let r4 := resolveSync bn cfg r3.1 slot vals
      if !r4.2 then r4.1 else
      trimBack { r4.1 with resolvedEpoch := epoch } epoch

/-! ### `scheduleSlot` and the reorg handler -/

/-- `slot.LastInEpoch()`. -/
def lastInEpoch (cfg : Cfg) (slot : Nat) : Bool := slot % cfg.spe == cfg.spe - 1

/-- the `for _, dutyType := range core.AllDutyTypes()` loop of `scheduleSlot`. -/
def trigLoop (bn : BN) (cfg : Cfg) (slot : Nat) : List Nat → State → State × List Trigger
  | [], s => (s, [])
  | ty :: tys, s =>
    match AMap.get? s.duties ⟨slot, ty⟩ with
    | none => trigLoop bn cfg slot tys s
    | some ds =>
      let s' := if lastInEpoch cfg slot then resolveDuties bn cfg s (slot + 1) else s
      let r := trigLoop bn cfg slot tys s'
      (r.1, ⟨⟨slot, ty⟩, ds, notBefore cfg slot ty⟩ :: r.2)

/-- first statement of `scheduleSlot`: `if s.getResolvedEpoch() != slot.Epoch() { s.resolveDuties(ctx, slot) }`. -/
def preResolve (bn : BN) (cfg : Cfg) (s : State) (slot : Nat) : State :=
  if s.resolvedEpoch ≠ slot / cfg.spe then resolveDuties bn cfg s slot else s

/-- `scheduleSlot(ctx, slot)`; output: the duties handed to the trigger goroutines. -/
def scheduleSlot (bn : BN) (cfg : Cfg) (s : State) (slot : Nat) : State × List Trigger :=
  trigLoop bn cfg slot allDutyTypes (preResolve bn cfg s slot)

/-- `HandleChainReorgEvent(ctx, epoch)`. -/
def reorg (cfg : Cfg) (s : State) (ep : Nat) : State :=
  if cfg.reorgEnabled then
    if ep < s.resolvedEpoch then { trim s s.resolvedEpoch with resolvedEpoch := maxInt64 } else s
  else s

/-! ### slot ticker and the whole system -/

/-- One iteration of the `newSlotTicker` goroutine at clock value `now`, `next` being the slot it
waits for: `none` when that slot has not started; otherwise the emitted slot (the current slot
when `now` is past the start of `next + 1`: skipped slots) and the slot waited for afterwards. -/
def tickerStep (dur now next : Nat) : Option (Nat × Nat) :=
  if now < next * dur then none
  else
    let s := if (next + 1) * dur < now then now / dur else next
    some (s, s + 1)

/-- Scheduler + ticker + clock. `hist`/`ticked` are ghost histories (oldest first). -/
structure Sys where
  st     : State := {}
  now    : Nat := 0
  next   : Nat := 0
  hist   : List Trigger := []
  ticked : List Nat := []
  deriving Repr

/-- the state in which `Run` creates the ticker at clock value `t0`. -/
def Sys.init (cfg : Cfg) (t0 : Nat) : Sys := { now := t0, next := t0 / cfg.slotDur }

inductive Ev where
  | adv (d : Nat)        -- the clock moves forward by `d` ns (`d = 0`: the ticker just runs)
  | reorg (ep : Nat)     -- SSE chain-reorg event
  deriving Repr

/-- one slot received from the ticker and handled by `Run`. -/
def Sys.tick (bn : BN) (cfg : Cfg) (y : Sys) (slot next' : Nat) : Sys × List Trigger :=
  let r := scheduleSlot bn cfg y.st slot
  ({ y with st := r.1, next := next', hist := y.hist ++ r.2, ticked := y.ticked ++ [slot] }, r.2)

/-- the ticker goroutine runs until it blocks (at most `fuel` emissions; two suffice). -/
def Sys.pump (bn : BN) (cfg : Cfg) : Nat → Sys → Sys × List (Nat × List Trigger)
  | 0, y => (y, [])
  | fuel + 1, y =>
    match tickerStep cfg.slotDur y.now y.next with
    | none => (y, [])
    | some (slot, next') =>
      let r := Sys.tick bn cfg y slot next'
      let r' := Sys.pump bn cfg fuel r.1
      (r'.1, (slot, r.2) :: r'.2)

def Sys.step (bn : BN) (cfg : Cfg) (y : Sys) : Ev → Sys × List (Nat × List Trigger)
  | .adv d => Sys.pump bn cfg 3 { y with now := y.now + d }
  | .reorg ep => ({ y with st := reorg cfg y.st ep }, [])

def Sys.run (bn : BN) (cfg : Cfg) (y : Sys) : List Ev → Sys
  | [] => y
  | e :: es => Sys.run bn cfg (Sys.step bn cfg y e).1 es

end CharonV.Sched
