/-
C12 — model of the per-version JSON codecs of cluster definitions and locks (`cluster/definition.go`,
`lock.go`, `distvalidator.go`, `operator.go`, `deposit.go`, `registration.go`, `helpers.go`) as TRANSFER
LISTS: translator T-jsonmap (`harness/cmd/trans-jsonmap`) reads the bodies of every
`marshal…V1x…` / `unmarshal…V1x…` function and of the nested conversions they call and emits, per codec
function, one `Row` per leaf of its JSON struct (`Generated/ClusterJson.lean`). This file gives those
rows a meaning. Core Lean only; compiled into the `drv-jsonmap` line driver.

* A record is a finite map from interned tag paths to abstract values. A leaf below `k` list levels
  (`operators[].address`: k = 1, `distributed_validators[].public_shares[]`: k = 2) is held as a COLUMN:
  `k` nested lists of leaf values, in element order.
* `MVal` in-memory values (Go `string` / `int` / `uint` / `bool` / `[]byte` / `time.Time`), `JVal` JSON
  tokens (string, number, quoted number of the `,string` tag, boolean, the base64 string of a Go
  `[]byte` field held abstractly as `.b64 bytes`, array, absent key / `null`).
* `encLeaf` / `decLeaf`: what `encoding/json` does for the JSON struct field type (`JKind`) after the
  Go-level conversion (`Conv`) the codec function applies:
    identity         `string`, `int`, `uint`, `bool`; `[]byte` -> base64; `[]byte` -> `ethHex`
    `ethHex`         `to0xHex` on encode ("" for empty, else "0x" + lower-case hex), on decode
                     `hex.DecodeString(strings.TrimPrefix(s, "0x"))`: upper case and a missing prefix are accepted
    `toHex`/`fromHex n`   `to0xHex(b)` into a JSON string / `from0xHex(s, n)`: "" gives nil, else exactly n bytes
    `unixOf`/`timeOf`     `int(t.Unix())` / `time.Unix(int64(x), 0)`: second resolution
    `const k` / `mustBe k`  the encoder writes a constant, the decoder rejects everything else and stores nothing
    `zero` / `mustBeEmpty`  the encoder never sets the field, the decoder rejects every non-empty value
    `computed`       the encoder writes a value it recomputes (config / definition / lock hash), not the field
* list shapes: `common` (`Definition.LegacyValidatorAddresses`: the one common element) / `repeat cnt`
  (`repeatVAddrs(x, num_validators)`), `first` (`firstDepositDataOrDefault`) / `single` (`[]DepositData{x}`).
* `encode` / `decodeField` interpret a row list; `pairOk` is the decidable condition under which they are
  mutually inverse field by field (`Props/C12JsonMap.lean`), `TableOk` the condition on a whole table.
-/
import CharonV.Model.SszSchema

namespace CharonV.JsonMap
open CharonV.Ssz (Bytes hexOf unhex)

/-- JSON encoding of a JSON-struct leaf, by its Go type (and `,string` tag). -/
inductive JKind | str | int | uint | bool | b64 | ethHex | intStr | embed
deriving DecidableEq, Repr

/-- Go type of an in-memory leaf. -/
inductive MKind | str | int | uint | bool | bytes | time | embed
deriving DecidableEq, Repr

inductive Conv
  | id | toHex | fromHex (n : Nat) | unixOf | timeOf
  | const (k : Int) | mustBe (k : Int) | zero | mustBeEmpty | ignored | computed | embed
deriving DecidableEq, Repr

inductive Shape | plain | common | repeat (cnt : Nat) | first | single
deriving DecidableEq, Repr

/-- conditions under which a decoder rejects the file (besides leaf decoding errors). -/
inductive Guard
  /-- `len(list) != count`: `a` is a leaf directly under the list, `b` the count leaf. -/
  | lenEq (a b : Nat)
  /-- `deposit.VerifyDepositAmounts(amounts, compounding)`; `none` = `false`. -/
  | depositAmounts (a : Nat) (b : Option Nat)
  | zero (a : Nat)
  | empty (a : Nat)
deriving DecidableEq, Repr

/-- one leaf of the JSON struct of a codec function. -/
structure Row where
  /-- JSON tag path (interned). -/
  jid : Nat
  /-- list levels above the JSON leaf. -/
  jd : Nat
  jk : JKind
  om : Bool
  /-- tag path of the in-memory field (0 = none). -/
  mid : Nat
  conv : Conv
  shape : Shape
deriving DecidableEq, Repr

structure Codec where
  fn : String
  /-- the JSON struct type the function marshals / unmarshals. -/
  js : String
  rows : List Row
  guards : List Guard
deriving Repr

structure Table where
  versions : List String
  paths : List String
  defEnc : List (String × Codec)
  defDec : List (String × Codec)
  lockEnc : List (String × Codec)
  lockDec : List (String × Codec)
  memDef : List (Nat × MKind)
  memLock : List (Nat × MKind)

/-! ## values -/

inductive MVal
  | str (s : Bytes)
  | int (i : Int)
  | bool (b : Bool)
  | bytes (b : Bytes)
  /-- Unix seconds and nanoseconds of a `time.Time`. -/
  | time (sec : Int) (nsec : Nat)
  | list (xs : List MVal)
deriving Repr, Inhabited

inductive JVal
  | str (s : Bytes)
  | num (i : Int)
  | numStr (i : Int)
  | bool (b : Bool)
  /-- the JSON string `encoding/json` writes for a Go `[]byte` (standard base64), held abstractly. -/
  | b64 (b : Bytes)
  | arr (xs : List JVal)
  /-- every occurrence of the leaf holds the number `k` (constant written by an encoder). -/
  | all (k : Int)
  /-- key omitted (`omitempty`) or `null`. -/
  | absent
deriving Repr, Inhabited

abbrev MRec := Nat → MVal
abbrev JRec := Nat → JVal

/-! ## leaves -/

/-- `strings.TrimPrefix(s, "0x")`. -/
def trim0x : Bytes → Bytes
  | 48 :: 120 :: r => r
  | s => s

/-- `hex.DecodeString(strings.TrimPrefix(s, "0x"))`. -/
def decHex (s : Bytes) : Option Bytes := unhex (trim0x s)

def encLeaf (jk : JKind) (c : Conv) (om : Bool) (v : MVal) : JVal :=
  match c, jk, v with
  | .id, .str, .str s => if om && s.isEmpty then .absent else .str s
  | .id, .int, .int i => .num i
  | .id, .uint, .int i => .num i
  | .id, .intStr, .int i => .numStr i
  | .id, .bool, .bool b => .bool b
  | .id, .b64, .bytes b => if om && b.isEmpty then .absent else .b64 b
  | .id, .ethHex, .bytes b => if om && b.isEmpty then .absent else .str (hexOf b)
  | .toHex, .str, .bytes b => if om && b.isEmpty then .absent else .str (hexOf b)
  | .unixOf, .int, .time s _ => .num s
  | _, _, _ => .absent

def decLeaf (jk : JKind) (c : Conv) (j : JVal) : Option MVal :=
  match c, jk, j with
  | .id, .str, .str s => some (.str s)
  | .id, .str, .absent => some (.str [])
  | .id, .int, .num i => some (.int i)
  | .id, .int, .absent => some (.int 0)
  | .id, .uint, .num i => if i < 0 then none else some (.int i)
  | .id, .uint, .absent => some (.int 0)
  | .id, .intStr, .numStr i => some (.int i)
  | .id, .intStr, .absent => some (.int 0)
  | .id, .bool, .bool b => some (.bool b)
  | .id, .bool, .absent => some (.bool false)
  | .id, .b64, .b64 b => some (.bytes b)
  | .id, .b64, .absent => some (.bytes [])
  | .id, .ethHex, .str s => (decHex s).map .bytes
  | .id, .ethHex, .absent => some (.bytes [])
  | .fromHex n, .str, .str s =>
    if s.isEmpty then some (.bytes [])
    else match decHex s with
      | some b => if b.length = n then some (.bytes b) else none
      | none => none
  | .fromHex _, .str, .absent => some (.bytes [])
  | .timeOf, .int, .num i => some (.time i 0)
  | _, _, _ => none

/-- the decoder conversion that undoes an encoder conversion. -/
def invConv : Conv → Conv → Bool
  | .id, .id => true
  | .toHex, .fromHex _ => true
  | .unixOf, .timeOf => true
  | .computed, .id => true
  | _, _ => false

/-- DOMAIN of a leaf conversion pair: the in-memory values `v` with `dec (enc v) = v`.
identity: every value of the Go type (`uint`: non-negative); `toHex`/`fromHex n`: the empty byte string
and every byte string of exactly `n` bytes (others are REJECTED by the decoder); `unixOf`/`timeOf`:
whole seconds. -/
def leafDom (jk : JKind) (ce cd : Conv) (v : MVal) : Bool :=
  match ce, cd, jk, v with
  | .id, .id, .str, .str _ => true
  | .id, .id, .int, .int _ => true
  | .id, .id, .uint, .int i => decide (0 ≤ i)
  | .id, .id, .intStr, .int _ => true
  | .id, .id, .bool, .bool _ => true
  | .id, .id, .b64, .bytes _ => true
  | .id, .id, .ethHex, .bytes _ => true
  | .toHex, .fromHex n, .str, .bytes b => b.isEmpty || decide (b.length = n)
  | .unixOf, .timeOf, .int, .time _ ns => decide (ns = 0)
  | _, _, _, _ => false

/-- Go zero value of the in-memory leaf behind a JSON leaf (`firstDepositDataOrDefault` of an empty list). -/
def zeroM (jk : JKind) (c : Conv) : MVal :=
  match c, jk with
  | .id, .str => .str []
  | .id, .int | .id, .uint | .id, .intStr => .int 0
  | .id, .bool => .bool false
  | .unixOf, _ | .timeOf, _ => .time (-62135596800) 0
  | _, _ => .bytes []

/-! ## columns -/

def liftEnc (f : MVal → JVal) : Nat → MVal → JVal
  | 0, v => f v
  | d+1, .list xs => .arr (xs.map (liftEnc f d))
  | _+1, _ => .absent

def optList {α} : List (Option α) → Option (List α)
  | [] => some []
  | none :: _ => none
  | some x :: r => (optList r).map (x :: ·)

def liftDec (g : JVal → Option MVal) : Nat → JVal → Option MVal
  | 0, j => g j
  | d+1, .arr xs => (optList (xs.map (liftDec g d))).map .list
  | _+1, .absent => some (.list [])
  | _+1, _ => none

def encShape (s : Shape) (z : MVal) (f : MVal → JVal) (v : MVal) : JVal :=
  match s, v with
  | .plain, v => f v
  | .common, .list xs => f (xs.headD (.str []))
  | .first, .list xs => f (xs.headD z)
  | _, _ => .absent

def decShape (s : Shape) (n : Nat) (g : JVal → Option MVal) (j : JVal) : Option MVal :=
  match s with
  | .plain => g j
  | .repeat _ => (g j).map (fun x => .list (List.replicate n x))
  | .single => (g j).map (fun x => .list [x])
  | _ => none

/-! ## records -/

def findJ (rows : List Row) (j : Nat) : Option Row := rows.find? (fun r => r.jid == j)
def findM (rows : List Row) (p : Nat) : Option Row := rows.find? (fun r => r.mid == p)

/-- JSON value an encoder writes for one row. `hs` gives the recomputed values of `computed` rows. -/
def encRow (r : Row) (hs : MRec) (m : MRec) : JVal :=
  match r.conv with
  | .zero => .absent
  | .const k => .all k
  | .computed => liftEnc (encLeaf r.jk .id r.om) r.jd (hs r.mid)
  | c => liftEnc (encShape r.shape (zeroM r.jk c) (encLeaf r.jk c r.om)) r.jd (m r.mid)

def encode (rows : List Row) (hs : MRec) (m : MRec) : JRec :=
  fun j => match findJ rows j with
    | some r => encRow r hs m
    | none => .absent

/-- `for range n`: no iteration for a negative count. -/
def cntOf (j : JRec) : Shape → Nat
  | .repeat c => match j c with
    | .num i => i.toNat
    | _ => 0
  | _ => 0

def decRow (r : Row) (j : JRec) : Option MVal :=
  liftDec (decShape r.shape (cntOf j r.shape) (decLeaf r.jk r.conv)) r.jd (j r.jid)

/-- value a decoder stores into the in-memory field `p` (`none`: `p` is not written, or the file is rejected). -/
def decodeField (rows : List Row) (j : JRec) (p : Nat) : Option MVal :=
  match findM rows p with
  | some r => decRow r j
  | none => none

/-- guard rows: the decoder stores nothing and rejects every value but the default. -/
def guardAccepts (r : Row) (j : JVal) : Bool :=
  match r.conv, j with
  | .mustBe k, .all k' => k == k'
  | .mustBe _, .absent => true
  | .mustBeEmpty, .absent => true
  | .ignored, _ => true
  | _, _ => false

/-- strings of a column of strings. -/
def strsOf : List MVal → Option (List Bytes)
  | [] => some []
  | .str s :: r => (strsOf r).map (s :: ·)
  | _ :: _ => none

/-- `Definition.LegacyValidatorAddresses` returns an error: two different elements. -/
def commonFails (v : MVal) : Bool :=
  match v with
  | .list xs => match strsOf xs with
    | some (s :: r) => !(r.all (· == s))
    | _ => false
  | _ => false

/-- the encoder returns an error (only `marshalDefinitionV1x0or1` … `V1x4`: multiple validator addresses). -/
def encodeFails (rows : List Row) (m : MRec) : Bool :=
  rows.any (fun r => r.shape == .common && commonFails (m r.mid))

/-- outer length of a column. -/
def JVal.len : JVal → Nat
  | .arr xs => xs.length
  | _ => 0

/-- the length guards of a decoder hold (`VerifyDepositAmounts` is not modelled: see the registry). -/
def guardsHold (gs : List Guard) (j : JRec) : Bool :=
  gs.all (fun g => match g with
    | .lenEq a b => (match j b with
      | .num i => decide (((j a).len : Int) = i)
      | _ => false)
    | _ => true)

/-- the decoder accepts the file: every guard row accepts, every other row decodes, the length guards hold. -/
def accepts (c : Codec) (rows : List Row) (j : JRec) : Bool :=
  rows.all (fun r => if r.mid == 0 then guardAccepts r (j r.jid) else (decRow r j).isSome) && guardsHold c.guards j

/-! ## the decidable conditions -/

def shapeOk (enc : List Row) (re rd : Row) : Bool :=
  match re.shape, rd.shape with
  | .plain, .plain => true
  | .common, .repeat c =>
    re.jd == 0 && re.jk == .str && re.conv == .id &&
    (match findJ enc c with
     | some rc => rc.conv == .id && rc.jk == .int && rc.jd == 0 && rc.shape == .plain && rc.mid != 0
     | none => false)
  | .first, .single => re.conv != .computed
  | _, _ => false

/-- the decoder row `rd` undoes the encoder row of the same JSON leaf. -/
def fieldOk (enc : List Row) (rd : Row) : Bool :=
  match findJ enc rd.jid with
  | some re =>
    re.mid == rd.mid && re.jk == rd.jk && re.jd == rd.jd && re.om == rd.om &&
    invConv re.conv rd.conv && shapeOk enc re rd
  | none => false

/-- a guard row of the decoder matches a row of the encoder that always writes the accepted default. -/
def guardRowOk (enc : List Row) (rd : Row) : Bool :=
  match findJ enc rd.jid with
  | some re => re.mid == 0 && re.jk == rd.jk && re.jd == rd.jd &&
    (match re.conv, rd.conv with
     | .const k, .mustBe k' => k == k'
     | .zero, .mustBeEmpty => re.om
     | _, _ => false)
  | none => false

def nodupNat : List Nat → Bool
  | [] => true
  | x :: r => !r.contains x && nodupNat r

/-- encoder and decoder row lists of one version are mutually inverse. -/
def pairOk (enc dec : List Row) : Bool :=
  nodupNat (enc.map (·.jid)) && nodupNat (dec.map (·.jid)) &&
  nodupNat ((dec.filter (·.mid != 0)).map (·.mid)) &&
  nodupNat ((enc.filter (·.mid != 0)).map (·.mid)) &&
  enc.all (fun re => (dec.map (·.jid)).contains re.jid) &&
  dec.all (fun rd => (enc.map (·.jid)).contains rd.jid) &&
  dec.all (fun rd => if rd.mid == 0 then guardRowOk enc rd else fieldOk enc rd)

/-! ## version dispatch and composition of the lock codec with the embedded definition codec -/

/-- all codec functions a dispatcher lists for version `v`. -/
def lookupAll (d : List (String × Codec)) (v : String) : List Codec :=
  (d.filter (fun p => p.1 == v)).map (·.2)

/-- id of `cluster_definition.<path i>`: the definition's paths are shifted by `embedBase`. -/
def embedBase : Nat := 1000

def shiftShape : Shape → Shape
  | .repeat c => .repeat (c + embedBase)
  | s => s

def shiftRow (r : Row) : Row :=
  { r with jid := r.jid + embedBase, mid := if r.mid == 0 then 0 else r.mid + embedBase, shape := shiftShape r.shape }

/-- rows of a lock codec with the `embed` row replaced by the definition codec's rows of the same version. -/
def compose (lock defn : List Row) : List Row :=
  lock.flatMap (fun r => if r.conv == .embed then defn.map shiftRow else [r])

def pathName (t : Table) (i : Nat) : String :=
  if i ≥ embedBase then "cluster_definition." ++ t.paths.getD (i - embedBase) "" else t.paths.getD i ""

structure VersionRows where
  defEnc : Codec
  defDec : Codec
  lockEnc : Codec
  lockDec : Codec

/-- the four codec functions of version `v` — `none` unless every dispatcher lists EXACTLY one. -/
def versionRows (t : Table) (v : String) : Option VersionRows :=
  match lookupAll t.defEnc v, lookupAll t.defDec v, lookupAll t.lockEnc v, lookupAll t.lockDec v with
  | [a], [b], [c], [d] => some ⟨a, b, c, d⟩
  | _, _, _, _ => none

def lockEncRows (r : VersionRows) : List Row := compose r.lockEnc.rows r.defEnc.rows
def lockDecRows (r : VersionRows) : List Row := compose r.lockDec.rows r.defDec.rows

/-- no `embed` row outside a lock codec, exactly one inside. -/
def embedOk (r : VersionRows) : Bool :=
  r.defEnc.rows.all (·.conv != .embed) && r.defDec.rows.all (·.conv != .embed) &&
  (r.lockEnc.rows.filter (·.conv == .embed)).length == 1 && (r.lockDec.rows.filter (·.conv == .embed)).length == 1 &&
  (r.lockEnc.rows ++ r.lockDec.rows ++ r.defEnc.rows ++ r.defDec.rows).all (fun x => x.jid < embedBase && x.mid < embedBase)

def versionOk (t : Table) (v : String) : Bool :=
  match versionRows t v with
  | some r =>
    r.defEnc.js == r.defDec.js && r.lockEnc.js == r.lockDec.js && embedOk r &&
    pairOk r.defEnc.rows r.defDec.rows && pairOk (lockEncRows r) (lockDecRows r)
  | none => false

/-- the whole table: every supported version has exactly one encoder and one decoder per artifact, both
use the same JSON struct, and their row lists are mutually inverse; no dispatcher lists a version that
is not supported. -/
def TableOk (t : Table) : Bool :=
  t.versions.all (versionOk t) &&
  (t.defEnc ++ t.defDec ++ t.lockEnc ++ t.lockDec).all (fun p => t.versions.contains p.1)

/-- in-memory fields a decoder writes. -/
def fieldSet (dec : List Row) : List Nat := (dec.filter (·.mid != 0)).map (·.mid)

end CharonV.JsonMap
