/-
C18 — isolation of values passed between workflow components.

A Lean model cannot see Go memory. What it can do is state precisely what "every hand-off point
clones" buys: values are trees over abstract *cells with identities*; the heap maps a cell to its
mutable payload (the scalar content stored at that location: the bytes of a slice's backing array,
the fields of a pointed-to struct, the entries of a map); a holder (the caller that built a value,
a store's kept copy, a reader, a subscriber) owns a root. A component *port* (hand-off point:
store input, query answer, subscriber fan-out per subscriber) is either `clone` (fresh cells for
the whole reachable tree, payloads copied) or `share` (the same root is handed out).

The classification of the real ports (the port table below) is NOT proved here: it is established
dynamically (rows of consensus, parsigex and the broadcaster excepted: they marshal to the wire and are
listed only so that the wiring graph is covered) by `harness/cmd/drive-alias` (reflection walk over the real Go values handed out by
the real components), which executes the same op stream as this model and is diffed per op.

Trees are forests in first-child / next-sibling form (`node cell kids sibs`), so a value with
several top-level locations (a map with several entries) is one `Tree`.

Core Lean only (imported by the compiled driver).
-/
namespace CharonV.Heap

abbrev Cell := Nat

/-- a value: forest over cells (first child, next sibling). -/
inductive Tree where
  | nil
  | node (cell : Cell) (kids : Tree) (sibs : Tree)
deriving DecidableEq, Repr, Inhabited

/-- an observable value: what a holder sees when it reads its tree through the heap
(payloads only; cell identities = addresses are not observable). -/
inductive VTree where
  | nil
  | node (payload : Nat) (kids : VTree) (sibs : VTree)
deriving DecidableEq, Repr, Inhabited

/-- the heap: payload stored at each cell. -/
abbrev Heap := Cell → Nat

namespace Tree

/-- the reachable cells, preorder. -/
def cells : Tree → List Cell
  | .nil => []
  | .node c k s => c :: (k.cells ++ s.cells)

def size : Tree → Nat
  | .nil => 0
  | .node _ k s => 1 + k.size + s.size

end Tree

/-- read a value through the heap. -/
def read (h : Heap) : Tree → VTree
  | .nil => .nil
  | .node c k s => .node (h c) (read h k) (read h s)

/-- `mutate cell newPayload`. -/
def set (h : Heap) (c : Cell) (p : Nat) : Heap := fun x => if x = c then p else h x

/-- mutate every cell of a list. -/
def setAll (h : Heap) (cs : List Cell) (p : Nat) : Heap := fun x => if x ∈ cs then p else h x

/-- result of an allocation: the new tree, the new heap, the next fresh cell. -/
structure Alloc where
  tree : Tree
  heap : Heap
  next : Nat

/-- `clone`: fresh cells `n, n+1, …` (preorder) for the whole reachable tree, payloads copied. -/
def clone (h : Heap) (n : Nat) : Tree → Alloc
  | .nil => ⟨.nil, h, n⟩
  | .node c k s =>
    let h1 := set h n (h c)
    let rk := clone h1 (n + 1) k
    let rs := clone rk.heap rk.next s
    ⟨.node n rk.tree rs.tree, rs.heap, rs.next⟩

/-- `share`: the same root is handed out (no allocation). -/
def share (h : Heap) (n : Nat) (t : Tree) : Alloc := ⟨t, h, n⟩

/-- a brand-new value of a given shape (cells of `shape` are ignored, payload `p` everywhere). -/
def fresh (h : Heap) (n : Nat) (p : Nat) : Tree → Alloc
  | .nil => ⟨.nil, h, n⟩
  | .node _ k s =>
    let h1 := set h n p
    let rk := fresh h1 (n + 1) p k
    let rs := fresh rk.heap rk.next p s
    ⟨.node n rk.tree rs.tree, rs.heap, rs.next⟩

/-! ### ports and pipeline runs -/

inductive Mode where
  | clone
  | share
deriving DecidableEq, Repr, Inhabited

abbrev Holder := Nat
/-- a port is named `component.method`, e.g. `dutydb.AwaitAttestation`. -/
abbrev Port := String

/-- one operation of a pipeline run. -/
inductive Op where
  /-- a holder builds a brand-new value of the given shape. -/
  | alloc (h : Holder) (shape : Tree)
  /-- the value of `src` is handed through `port` and arrives at `dst`
      (store: dst = the component's kept copy; read / subscribe-deliver: dst = reader / subscriber;
      read-again = another `pass` through the same port). -/
  | pass (port : Port) (src dst : Holder)
  /-- holder `h` mutates the `i`-th cell reachable from its value (index mod size). -/
  | mutCell (h : Holder) (i : Nat) (p : Nat)
  /-- holder `h` mutates every cell reachable from its value. -/
  | mutAll (h : Holder) (p : Nat)
  /-- holder `h` lets go of its value. -/
  | drop (h : Holder)
deriving Repr, Inhabited

structure State where
  heap : Heap := fun _ => 0
  next : Nat := 0
  holders : List (Holder × Tree) := []

def init : State := {}

def lookup (g : Holder) : List (Holder × Tree) → Option Tree
  | [] => none
  | (h, t) :: r => if h = g then some t else lookup g r

def erase (g : Holder) : List (Holder × Tree) → List (Holder × Tree)
  | [] => []
  | (h, t) :: r => if h = g then erase g r else (h, t) :: erase g r

def bind (s : State) (g : Holder) (a : Alloc) : State :=
  { heap := a.heap, next := a.next, holders := (g, a.tree) :: erase g s.holders }

/-- one step under a port table `tbl`. Ops on unknown holders are no-ops. -/
def step (tbl : Port → Mode) (s : State) : Op → State
  | .alloc g shape => bind s g (fresh s.heap s.next 0 shape)
  | .pass port src dst =>
    match lookup src s.holders with
    | none => s
    | some t =>
      match tbl port with
      | .clone => bind s dst (clone s.heap s.next t)
      | .share => bind s dst (share s.heap s.next t)
  | .mutCell g i p =>
    match lookup g s.holders with
    | none => s
    | some t =>
      match t.cells[i % t.cells.length]? with
      | none => s
      | some c => { s with heap := set s.heap c p }
  | .mutAll g p =>
    match lookup g s.holders with
    | none => s
    | some t => { s with heap := setAll s.heap t.cells p }
  | .drop g => { s with holders := erase g s.holders }

def run (tbl : Port → Mode) (s : State) (ops : List Op) : State := ops.foldl (step tbl) s

/-- what holder `g` observes. -/
def observe (s : State) (g : Holder) : Option VTree := (lookup g s.holders).map (read s.heap)

/-- the port an op goes through, if any. -/
def Op.port? : Op → Option Port
  | .pass p _ _ => some p
  | _ => none

/-- `op` writes holder `g`'s own value: `g` (re)binds, mutates or drops its value itself. -/
def Op.targets : Op → Holder → Bool
  | .alloc h _, g => h == g
  | .pass _ _ dst, g => dst == g
  | .mutCell h _ _, g => h == g
  | .mutAll h _, g => h == g
  | .drop h, g => h == g

/-- two holders share memory. -/
def sharesMem (a b : Tree) : Bool := a.cells.any (fun c => b.cells.contains c)

/-! ### the port table of the implementation (validated dynamically by `drive-alias`)

One row per hand-off point: `(component, method, mode)`. The component names are the parameter
names of `core.Wire`; `ports_cover_wire` (Props/C18) checks that both ends of every edge of the
generated wiring graph have a row. Rows that are not ends of a `Wire` edge are the internal
hand-off points of a component (what it keeps, what it returns to its caller). -/

/-- proposed fixes (fixes/C18-*.diff); one switch per patch so the table can be flipped when a
patch is applied to the tree. -/
structure Fixes where
  /-- fixes/C18-dutydb-await-clone.diff hunk AwaitAttestation -/
  awaitAttClone : Bool := false
  /-- … hunk AwaitProposal -/
  awaitProClone : Bool := false
  /-- … hunk AwaitSyncContribution -/
  awaitContribClone : Bool := false
  /-- fixes/C18-scheduler-clone-resolved.diff (scheduler keeps the slice the beacon client returned) -/
  schedResolveClone : Bool := false
  /-- D-8 (property C20 owns the fix): the eth2wrap duties cache clones what it files and what it answers -/
  cacheClone : Bool := false
deriving DecidableEq, Repr

/-- the tree as it is. FLIP the switches of the patches that have been applied to /repo. -/
def implFixes : Fixes := { awaitAttClone := true, awaitProClone := true, awaitContribClone := true, schedResolveClone := true, cacheClone := true }  -- applied in /repo: 0823825, 4f5804c

def allFixes : Fixes := ⟨true, true, true, true, true⟩

def modeIf (b : Bool) : Mode := if b then .clone else .share

def portTable (fx : Fixes) : List (String × String × Mode) := [
  -- every Clone() method of package core (all UnsignedData / SignedData / DutyDefinition
  -- implementations × versions, ParSignedData and the four set types)
  ("core", "Clone", .clone),
  -- eth2wrap duties cache (not a parameter of Wire: it is the beacon client of the scheduler and of
  -- validatorapi in production): files shallow copies of the beacon node's answer, answers every caller
  -- with fresh duty structs that carry the filed index slices and the filed metadata map
  ("cache", "fetchSyncDuties", modeIf fx.cacheClone),
  ("cache", "fetchAttesterDuties", .clone),
  ("cache", "fetchProposerDuties", .clone),
  ("cache", "SyncCommDutiesCache", modeIf fx.cacheClone),
  ("cache", "AttesterDutiesCache", modeIf fx.cacheClone),
  ("cache", "ProposerDutiesCache", modeIf fx.cacheClone),
  -- scheduler
  -- input from the beacon client (eth2wrap duties cache): the duty structs are copied by value …
  ("sched", "resolveAttDuties", .clone),          -- … AttesterDuty has no nested reference
  ("sched", "resolveProDuties", .clone),          -- … ProposerDuty has no nested reference
  ("sched", "resolveSyncCommDuties", modeIf fx.schedResolveClone), -- … SyncCommitteeDuty keeps the client's index slice
  ("sched", "SubscribeDuties", .clone),           -- fan-out: defSet.Clone() per subscriber
  ("sched", "GetDutyDefinition", .clone),         -- query answer: defSet.Clone()
  ("sched", "RegisterFetcherFetchOnly", .clone),  -- HandleHeadEvent: defSet.Clone()
  -- fetcher
  ("fetch", "Fetch", .clone),                     -- input: builds new unsigned data (struct copies of BN answers)
  ("fetch", "FetchOnly", .clone),                 -- input: same, result kept in attDataCache
  ("fetch", "Subscribe", .clone),                 -- fan-out: unsignedSet.Clone() per subscriber
  ("fetch", "RegisterAggSigDB", .clone),          -- uses aggsigdb answer by value (signature bytes copied into array)
  ("fetch", "RegisterAwaitAttData", .clone),      -- uses dutydb answer read-only (hash tree root)
  -- consensus (outside the anchors: marshals to protobuf / unmarshals; listed for the wiring graph)
  ("cons", "Participate", .clone),
  ("cons", "Propose", .clone),
  ("cons", "Subscribe", .clone),
  -- dutydb
  ("dutyDB", "Store", .clone),                    -- input: unsignedData.Clone() before storing
  ("dutyDB", "AwaitProposal", modeIf fx.awaitProClone),            -- D-7: hands out the stored pointer
  ("dutyDB", "AwaitAttestation", modeIf fx.awaitAttClone),         -- D-7
  ("dutyDB", "AwaitSyncContribution", modeIf fx.awaitContribClone),-- D-7
  ("dutyDB", "AwaitAggAttestation", .clone),      -- value.Clone() before returning
  ("dutyDB", "PubKeyByAttestation", .clone),      -- returns a string (immutable)
  -- validatorapi
  -- Register* rows: the registering component calls the registered query inside one request and passes
  -- the answer on to exactly one receiver (the validator client) without keeping it: no second holder
  -- arises at this end; the hand-off that matters is the queried store's row (dutyDB.Await*, aggSigDB.Await).
  -- validatorapi.Proposal additionally WRITES into the answer it got (ConsensusValue, ExecutionValue):
  -- harmless iff dutyDB.AwaitProposal clones (driver op `passw`).
  ("vapi", "RegisterAwaitProposal", .clone),
  ("vapi", "RegisterAwaitAttestation", .clone),
  ("vapi", "RegisterAwaitSyncContribution", .clone),
  ("vapi", "RegisterGetDutyDefinition", .clone),
  ("vapi", "RegisterPubKeyByAttestation", .clone),
  ("vapi", "RegisterAwaitAggAttestation", .clone),
  ("vapi", "RegisterAwaitAggSigDB", .clone),
  ("vapi", "Subscribe", .clone),                  -- fan-out: set.Clone() in the wrapper of every subscriber
  ("vapi", "Submit", .clone),                     -- input: request objects converted to core types (shallow), then cloned per subscriber
  -- parsigdb
  ("parSigDB", "StoreInternal", .clone),          -- input: value.Clone() before storing
  ("parSigDB", "StoreExternal", .clone),
  ("parSigDB", "SubscribeInternal", .clone),      -- fan-out: signedSet.Clone() per subscriber
  ("parSigDB", "SubscribeThreshold", .clone),     -- fan-out: clone(output) per subscriber
  -- parsigex (outside the anchors: libp2p marshal/unmarshal)
  ("parSigEx", "Broadcast", .clone),
  ("parSigEx", "Subscribe", .clone),
  -- sigagg
  ("sigAgg", "Aggregate", .clone),                -- input: SetSignature returns a copy
  ("sigAgg", "Subscribe", .clone),                -- fan-out: output.Clone() per subscriber
  -- aggsigdb (both implementations)
  ("aggSigDB", "Store", .clone),                  -- input: data.Clone() before storing
  ("aggSigDB", "Await", .clone),                  -- query answer: value.Clone()
  -- broadcaster (sink)
  ("bcast", "Broadcast", .clone)
]

def portName (c m : String) : Port := c ++ "." ++ m

/-- mode of a port; a port without a row is treated as `share` (nothing is claimed for it). -/
def modeOf (tbl : List (String × String × Mode)) (p : Port) : Mode :=
  match tbl.find? (fun r => portName r.1 r.2.1 == p) with
  | some r => r.2.2
  | none => .share

def hasPort (tbl : List (String × String × Mode)) (c m : String) : Bool :=
  tbl.any (fun r => r.1 == c && r.2.1 == m)

/-- both ends of a wiring edge `(producer, subscribeMethod, consumer, consumerMethod)` are classified. -/
def edgeCovered (tbl : List (String × String × Mode)) (e : String × String × String × String) : Bool :=
  hasPort tbl e.1 e.2.1 && hasPort tbl e.2.2.1 e.2.2.2

end CharonV.Heap
