/-
Model of `provide` / `submit` in `app/eth2wrap/eth2wrap.go` over `app/forkjoin/forkjoin.go`
(`forkjoin.New` with `WithoutFailFast()` and `WithWorkers(len(clients))`) — executable, core Lean only.

A call is a *scenario* (the primary and the fallback nodes, each with the outcome its request will
have and whether its worker honours the worker context) and a list of *events* in the order in
which they happen, as chosen by the environment:

* `rel fb i` — node `i` of the primaries (`fb = false`) / fallbacks (`fb = true`) completes its
               request; its `forkjoin.Result` is the next one received by `for res := range join()`
               (forkjoin's result channel is unbuffered and there is one worker per node, so
               results are received in completion order, whatever the order of the nodes);
* `cancel`   — the caller's context is cancelled.

Nodes that never occur in the event list are hung. The model consumes events until `provide`
returns; the number of events consumed tells which completions the call waited for.

Correspondence with the Go code (`runForkJoin`):

* `pending`   — inputs forked and not yet received from `join()`.
* `last`      — `nokResp` (the last received result that was an error or not successful).
* `cancelled` — `ctx.Err() != nil`.
* receiving a result: `if ctx.Err() != nil {return ctx.Err()} else if res.Err == nil && isSuccessFunc(res.Output) {return res.Output}`;
  `nokResp = res`; when the channel is closed (all results received): `return nokResp.Output, nokResp.Err`.
* cancelling: forkjoin's worker context is a child of the caller's; a pending worker that honours
  it returns `context.Canceled`, which is the next result received, hence `ctx.Err()` is returned.
* after the primaries: `if err != nil && len(fallbacks) != 0 && (isTimeoutError(err) || isSyncingError(err) || isBadGateway(err)) {return runForkJoin(fallbacks)}`.
-/
namespace CharonV.Provide

/-- what a node's request ends with. `nok`: no error, but `isSuccessFunc` rejects the output. -/
inductive Outcome where
  | ok | nok | timeout | syncing | badgw | other
  deriving DecidableEq, Repr

structure Node where
  out : Outcome
  hon : Bool      -- the node's worker returns when its context is cancelled
  deriving DecidableEq, Repr

structure Scen where
  prim : List Node
  fb   : List Node
  sf   : Bool     -- an `isSuccessFunc` is given (otherwise every error-free output is a success)
  deriving DecidableEq, Repr

inductive Ev where
  | rel (fb : Bool) (i : Nat)
  | cancel
  deriving DecidableEq, Repr

inductive Res where
  /-- `(output of node i, nil)`, accepted by `isSuccessFunc` -/
  | okFrom (fb : Bool) (i : Nat)
  /-- `(output of node i, nil)` although `isSuccessFunc` rejected it: every node was rejected or
  failed and node `i`'s was the last result -/
  | nokFrom (fb : Bool) (i : Nat)
  /-- `(zero-ish output, error of node i)` -/
  | errFrom (fb : Bool) (i : Nat) (cls : Outcome)
  /-- `(zero, ctx.Err())` -/
  | ctxErr
  /-- `errors.New("bug: no forkjoin results")` (no primary nodes) -/
  | bug
  /-- the call has not returned after all events -/
  | stuck
  deriving DecidableEq, Repr

structure St where
  fbStage   : Bool
  pending   : List Nat
  last      : Option (Nat × Outcome)
  cancelled : Bool
  deriving DecidableEq, Repr

def nodes (sc : Scen) (fb : Bool) : List Node := if fb then sc.fb else sc.prim

/-- the result counts as a success: `res.Err == nil && isSuccessFunc(res.Output)`. -/
def isOk (sc : Scen) (o : Outcome) : Bool :=
  match o with
  | .ok => true
  | .nok => !sc.sf
  | _ => false

/-- `isTimeoutError(err) || isSyncingError(err) || isBadGateway(err)`. -/
def unavailable (o : Outcome) : Bool :=
  match o with
  | .timeout | .syncing | .badgw => true
  | _ => false

def initSt (n : Nat) (fb : Bool) : St :=
  { fbStage := fb, pending := List.range n, last := none, cancelled := false }

/-- what `runForkJoin` returns when the result channel is closed. -/
def groupEnd (fb : Bool) (last : Option (Nat × Outcome)) : Res :=
  match last with
  | none => .bug
  | some (i, .nok) => .nokFrom fb i
  | some (i, .ok) => .nokFrom fb i   -- unreachable: an `ok` result returns at once
  | some (i, c) => .errFrom fb i c

/-- after `runForkJoin(clients)` returned `r`: consult the fallbacks or return `r`. -/
def afterPrimaries (sc : Scen) (r : Res) : St ⊕ Res :=
  match r with
  | .errFrom _ _ c =>
    if !sc.fb.isEmpty && unavailable c then .inl (initSt sc.fb.length true) else .inr r
  | _ => .inr r

/-- a group (`runForkJoin`) returned `r` in stage `fb`. -/
def groupReturn (sc : Scen) (fb : Bool) (r : Res) : St ⊕ Res :=
  if fb then .inr r else afterPrimaries sc r

def stepEv (sc : Scen) (st : St) : Ev → St ⊕ Res
  | .cancel =>
    if st.cancelled then .inl st
    else if st.pending.any (fun i => match (nodes sc st.fbStage)[i]? with
                                     | some n => n.hon | none => false)
    then
      -- a pending worker returns `context.Canceled`; the loop sees `ctx.Err() != nil`.
      -- (`context canceled` is in none of the fallback classes, so this is final also for the primaries.)
      .inr .ctxErr
    else .inl { st with cancelled := true }
  | .rel fb i =>
    if fb != st.fbStage || !st.pending.contains i then .inl st   -- no effect on this call
    else
      match (nodes sc fb)[i]? with
      | none => .inl st
      | some n =>
        if st.cancelled then .inr .ctxErr
        else if isOk sc n.out then .inr (.okFrom fb i)
        else
          let pend := st.pending.erase i
          if pend.isEmpty then groupReturn sc fb (groupEnd fb (some (i, n.out)))
          else .inl { st with pending := pend, last := some (i, n.out) }

/-- consume events until the call returns; second component: number of events consumed. -/
def go (sc : Scen) : St → List Ev → Nat → Res × Nat
  | _, [], n => (.stuck, n)
  | st, e :: es, n =>
    match stepEv sc st e with
    | .inl st' => go sc st' es (n + 1)
    | .inr r => (r, n + 1)

/-- `provide(ctx, clients, fallbacks, work, isSuccessFunc, selector)`. -/
def provide (sc : Scen) (evs : List Ev) : Res × Nat :=
  if sc.prim.isEmpty then (.bug, 0) else go sc (initSt sc.prim.length false) evs 0

/-- what a `submit` caller can see of a result: success or the error. -/
def eraseOutput : Res → Res
  | .okFrom _ _ => .okFrom false 0
  | .nokFrom _ _ => .okFrom false 0
  | r => r

/-- `submit(ctx, clients, fallbacks, work, selector)`: `provide` with the empty result type and no
`isSuccessFunc`; the caller only sees the error. -/
def submit (sc : Scen) (evs : List Ev) : Res × Nat :=
  let r := provide { sc with sf := false } evs
  (eraseOutput r.1, r.2)

/-- did the call consult the fallback nodes? (`usingFallbackGauge.Set(1)`) -/
def goFb (sc : Scen) : St → List Ev → Bool
  | st, [] => st.fbStage
  | st, e :: es =>
    match stepEv sc st e with
    | .inl st' => goFb sc st' es
    | .inr _ => st.fbStage

def usedFallback (sc : Scen) (evs : List Ev) : Bool :=
  if sc.prim.isEmpty then false else goFb sc (initSt sc.prim.length false) evs

end CharonV.Provide
