/-
Executable model of the asynchronous retry layer of the duty pipeline (C01): `app/retry/retry.go`
(`Retryer.DoAsync`, `startAsync` / `endAsync`, `Shutdown`, `isTemporaryBeaconErr`, the nominal backoff
of `delayForIteration`) and of which edges `core.WithAsyncRetry` (core/retry.go) wraps. Core Lean only.

One `Retryer` with any number of `DoAsync` calls. The environment is the op list: it starts calls, makes
the wrapped function of a call return (any outcome script), fires a call's backoff timer, lets a call's
duty deadline pass, cancels the caller's context, calls `Shutdown` and cancels `Shutdown`'s own context —
in ANY order (this over-approximates every clock: a clock decides only WHEN timers fire and deadlines pass).

DoAsync (one goroutine per call), as the code is:
  startAsync(label): under the mutex, refused when the shutdown channel is closed, else active[label]++
  ctx := asyncCtx (NOT the caller's context) + the duty deadline from ctxTimeoutFunc
  for i := 0; ; i++ {
    err := fn(ctx)                         -- attempt i; attempt 0 runs unconditionally, also with an expired ctx
    err == nil                  -> return
    !ctxErr && !netErr && !temp -> return  (permanent)
    if ctx.Err() == nil { timer := backoff(i); select { timer.C | ctx.Done() | shutdown -> return } }
    asyncCtx.Err() != nil -> return ; ctx.Err() != nil -> return
  }
  deferred: endAsync(label): active[label]--, deleted at 0
Shutdown(ctx): under the mutex close(shutdown); asyncCancel(); poll `len(active) > 0` every 100 ms until it is
  empty or ctx is done. close + cancel are ONE step here (the window between them is a few instructions wide and
  cannot be driven from outside; what it could add is a retry attempt that starts after the channel was closed
  and is then waited for like any other attempt).
-/
namespace CharonV.Retry

/-! ### error classification -/

/-- `strings.Contains(s, pat)` on character lists. -/
def hasSub (pat : List Char) : List Char → Bool
  | [] => pat.isEmpty
  | c :: cs => pat.isPrefixOf (c :: cs) || hasSub pat cs

/-- `isTemporaryBeaconErr`: the three substrings. -/
def isTemporaryBeaconErr (msg : String) : Bool :=
  hasSub "future".toList msg.toList || hasSub "current or previous".toList msg.toList ||
    hasSub "retryable".toList msg.toList

/-- what one run of the wrapped function returned: nil, or an error described by what DoAsync looks at
(`errors.As(err, &net.Error)`, `errors.Is(err, context.Canceled | DeadlineExceeded)`, `err.Error()`). -/
inductive Outcome where
  | ok
  | err (isNet isCtx : Bool) (msg : String)
  deriving DecidableEq, Repr

/-- the error is retried (`isCtxErr || isNetErr || isTempErr`). -/
def Outcome.retryable : Outcome → Bool
  | .ok => false
  | .err n c m => c || n || isTemporaryBeaconErr m

/-- a permanent error: an error that is not retried. -/
def Outcome.permanent (o : Outcome) : Bool := o != .ok && !o.retryable

/-! ### nominal backoff (`expbackoff.Backoff(backoffConfig, i)` without jitter), in microseconds -/

def baseDelayUs : Nat := 250000
def maxDelayUs : Nat := 12000000

/-- BaseDelay * 1.6^i capped at MaxDelay (exact rational arithmetic, rounded down to a microsecond). -/
def nominalDelayUs (i : Nat) : Nat := min (baseDelayUs * 16 ^ i / 10 ^ i) maxDelayUs

/-- rounded to the nearest millisecond (what the stream compares). -/
def nominalDelayMs (i : Nat) : Nat := (nominalDelayUs i + 500) / 1000

/-! ### the machine -/

inductive Phase where
  | inflight   -- the wrapped function is running
  | backoff    -- waiting in the select after a retryable error
  | done       -- DoAsync returned (endAsync done), or was refused by startAsync
  deriving DecidableEq, Repr

structure Call where
  label   : Nat                   -- path.Join(topic, name), as an index
  hasDl   : Bool                  -- ctxTimeoutFunc attached a deadline
  expired : Bool                  -- ctx.Err() != nil for the call's context (deadline passed, or shutdown)
  phase   : Phase
  hist    : List Outcome := []    -- outcomes of the finished attempts, newest first
  dropped : Bool := false         -- refused by startAsync
  deriving Repr

structure State where
  ids       : List Nat := []                       -- calls in the order DoAsync was entered
  calls     : Nat → Option Call := fun _ => none
  active    : Nat → Nat := fun _ => 0              -- `active` map: label ↦ count (absent = 0)
  shutdown  : Bool := false                        -- shutdown channel closed and asyncCtx cancelled
  sdWaiting : Bool := false                        -- Shutdown was called and has not returned

inductive Op where
  | call (id label : Nat) (hasDl pre : Bool)   -- `go DoAsync(...)`; pre: the deadline has passed already
  | ret (id : Nat) (o : Outcome)               -- the running attempt of the call returns `o`
  | fire (id : Nat)                            -- the call's backoff timer fires
  | expire (id : Nat)                          -- the call's duty deadline passes
  | pcancel (id : Nat)                         -- the caller's (parent) context is cancelled
  | shutdown
  | sdcancel                                   -- Shutdown's own context is done
  deriving Repr

inductive Ev where
  | start (id i : Nat) (ctxExpired : Bool)     -- attempt i of the call enters the wrapped function
  | backoff (id i : Nat)                       -- backoffFunc(i) was called, the call waits
  | returned (id : Nat)                        -- DoAsync returned
  | dropped (id : Nat)                         -- startAsync refused the call
  | sdReturned (timeout : Bool)                -- Shutdown returned (timeout: because its context was done)
  deriving DecidableEq, Repr

def upd (s : State) (id : Nat) (c : Call) : State :=
  { s with calls := fun j => if j = id then some c else s.calls j }

/-- the call's goroutine leaves DoAsync: endAsync. -/
def finish (s : State) (id : Nat) (c : Call) : State :=
  { s with calls := fun j => if j = id then some { c with phase := .done } else s.calls j,
           active := fun l => if l = c.label then s.active l - 1 else s.active l }

def isBackoff (oc : Option Call) : Bool :=
  match oc with
  | some c => c.phase == .backoff
  | none => false

/-- `len(r.active) > 0`. -/
def someActive (s : State) : Bool :=
  s.ids.any fun id => match s.calls id with
    | some c => decide (0 < s.active c.label)
    | none => false

/-- what Shutdown's close + cancel does to one call: its context is cancelled; a call waiting in the
select leaves through the shutdown branch. -/
def sdCall (c : Call) : Call :=
  if c.phase = .backoff then { c with expired := true, phase := .done } else { c with expired := true }

def backoffWith (oc : Option Call) (l : Nat) : Bool :=
  match oc with
  | some c => c.phase == .backoff && c.label == l
  | none => false

/-- the state after Shutdown's close + cancel: every context is cancelled, the waiting calls have left
(one endAsync each). -/
def sdState (s : State) : State :=
  { s with shutdown := true, sdWaiting := true,
           calls := fun j => (s.calls j).map sdCall,
           active := fun l => s.active l - s.ids.countP (fun id => backoffWith (s.calls id) l) }

def core (s : State) : Op → State × List Ev
  | .call id label dl pre =>
    match s.calls id with
    | some _ => (s, [])
    | none =>
      if s.shutdown then
        ({ s with ids := s.ids ++ [id],
                  calls := fun j => if j = id then
                    some { label := label, hasDl := dl, expired := true, phase := .done, dropped := true }
                    else s.calls j }, [.dropped id])
      else
        ({ s with ids := s.ids ++ [id],
                  calls := fun j => if j = id then
                    some { label := label, hasDl := dl, expired := dl && pre, phase := .inflight }
                    else s.calls j,
                  active := fun l => if l = label then s.active l + 1 else s.active l },
         [.start id 0 (dl && pre)])
  | .ret id o =>
    match s.calls id with
    | none => (s, [])
    | some c =>
      if c.phase = .inflight then
        let c' := { c with hist := o :: c.hist }
        if o = .ok then (finish s id c', [.returned id])
        else if o.retryable = false then (finish s id c', [.returned id])
        else if c.expired = false then (upd s id { c' with phase := .backoff }, [.backoff id c.hist.length])
        else (finish s id c', [.returned id])
      else (s, [])
  | .fire id =>
    match s.calls id with
    | none => (s, [])
    | some c =>
      if c.phase = .backoff then
        if s.shutdown then (finish s id c, [.returned id])          -- asyncCtx.Err() != nil
        else if c.expired then (finish s id c, [.returned id])      -- ctx.Err() != nil
        else (upd s id { c with phase := .inflight }, [.start id c.hist.length false])
      else (s, [])
  | .expire id =>
    match s.calls id with
    | none => (s, [])
    | some c =>
      if c.hasDl = true ∧ c.expired = false then
        if c.phase = .backoff then (finish s id { c with expired := true }, [.returned id])
        else if c.phase = .inflight then (upd s id { c with expired := true }, [])
        else (s, [])
      else (s, [])
  | .pcancel _ => (s, [])
  | .shutdown =>
    if s.shutdown then (s, []) else
    (sdState s,
     (s.ids.filter (fun id => isBackoff (s.calls id))).map .returned)
  | .sdcancel =>
    if s.sdWaiting then ({ s with sdWaiting := false }, [.sdReturned true]) else (s, [])

/-- Shutdown's polling loop: it returns as soon as no call is active. -/
def settle (p : State × List Ev) : State × List Ev :=
  if p.1.sdWaiting = true ∧ someActive p.1 = false then
    ({ p.1 with sdWaiting := false }, p.2 ++ [.sdReturned false])
  else p

def step (s : State) (o : Op) : State × List Ev := settle (core s o)

def init : State := {}

def run (s : State) : List Op → State
  | [] => s
  | o :: os => run (step s o).1 os

/-- all events of a run, in order. -/
def trace (s : State) : List Op → List Ev
  | [] => []
  | o :: os => (step s o).2 ++ trace (step s o).1 os

/-- number of attempts of the call started so far. -/
def attemptsOf (s : State) (id : Nat) : Nat :=
  match s.calls id with
  | some c => c.hist.length + (if c.phase = .inflight then 1 else 0)
  | none => 0

/-! ### which edges of `core.Wire` are wrapped (core/retry.go, `WithAsyncRetry`) -/

/-- (wireFuncs field, topic, name) in source order: these inputs become `go retryer.DoAsync(...)` + `return nil`. -/
def wrappedEdges : List (String × String × String) :=
  [("FetcherFetch", "fetcher", "fetch"),
   ("ConsensusParticipate", "consensus", "participate"),
   ("ConsensusPropose", "consensus", "propose"),
   ("ParSigExBroadcast", "parsigex", "broadcast"),
   ("BroadcasterBroadcast", "bcast", "broadcast")]

/-- component inputs that `Wire` subscribes and `WithAsyncRetry` leaves alone: called inline, once, by the
producer, their error returned to it. -/
def syncEdges : List String :=
  ["FetcherFetchOnly", "DutyDBStore", "ParSigDBStoreInternal", "ParSigDBStoreExternal", "SigAggAggregate",
   "AggSigDBStore"]

/-! ### a call through a wrapped edge (core/retry.go)

`w.X = func(ctx, duty, set) error { go retryer.DoAsync(ctx, duty, topic, name, func(ctx) error { return
clone.X(ctx, duty, set) }); return nil }`: one DoAsync call under the edge's label whose deadline is the duty's;
every attempt invokes the inner function with the pair (duty, set) the closure captured. -/

structure WCall where
  edge : Nat      -- index into `wrappedEdges`
  duty : Nat
  set  : Nat
  deriving DecidableEq, Repr

/-- the retryer op a call of a wrapped edge is. -/
def WCall.op (id : Nat) (w : WCall) : Op := .call id w.edge true false

/-- the invocations of the inner functions (edge, duty, set) that a list of events amounts to, given which
wrapped call each retryer call is: one per attempt start, with the pair captured by THAT call. -/
def invocations (cap : Nat → Option WCall) (evs : List Ev) : List WCall :=
  evs.filterMap fun e => match e with
    | .start id _ _ => cap id
    | _ => none

end CharonV.Retry
