import CharonV.Generated.QbftConst
/-
Model of the wire-message admission path of `core/consensus/qbft`:

* `qbft.go`  `(*Consensus).handle`, `verifyMsg`, `verifyMsgLimits`, `valuesByHash`, `getRecvBuffer`,
             `getInstanceIO`, `leader`
* `msg.go`   `newMsg`, `toHash32`, `verifyMsgSig` (symbolic), the `Msg` accessors
* `core/gater.go` `NewDutyGater`
* `core/consensus/instance/instance_io.go` (`RecvBufferSize`, `MarkProposed`, `MarkParticipated`, `MaybeStart`)

Cryptography is symbolic (`Crypto`): `digest` is `hashProto` of the message with the signature
cleared, `recover` is `k1util.Recover`, `unmarshalAny`/`hashInner` are `anypb.UnmarshalNew` and
`hashProto` of a value. Nothing is assumed about them here; theorems take injectivity /
unforgeability as hypotheses.

Limits, buffer size and the type-validity bounds come from `CharonV.Generated.QbftConst`
(extracted from the Go source on every check run).  Core Lean only.
-/
namespace CharonV.QbftWire

open CharonV.Generated

abbrev Key    := Nat   -- a secp256k1 public key
abbrev SigB   := Nat   -- signature bytes
abbrev Val    := Nat   -- one `anypb.Any` of `QBFTConsensusMsg.values`
abbrev Inner  := Nat   -- the proto message inside an `Any`
abbrev Hash   := Nat   -- a non-zero 32-byte hash

/-- Raw content of a `bytes` hash field. `toHash32` only distinguishes "32 bytes and not all zero"
(`ok h`) from everything else (`other id`: nil, wrong length, 32 zero bytes). -/
inductive HBytes where
  | other (id : Nat)
  | ok (h : Hash)
  deriving DecidableEq, Repr

/-- `toHash32` -/
def toHash32 : HBytes → Option Hash
  | .ok h => some h
  | .other _ => none

/-- `pbv1.Duty` (with the bytes of unknown proto fields, which the signature covers). -/
structure DutyPb where
  slot : Nat
  type : Int
  unknown : Nat := 0
  deriving DecidableEq, Repr

/-- `core.Duty` -/
structure Duty where
  slot : Nat
  type : Int
  deriving DecidableEq, Repr

/-- `core.DutyFromProto` -/
def dutyFromProto (d : DutyPb) : Duty := { slot := d.slot, type := d.type }

/-- Every field of `pbv1.QBFTMsg` except `signature`: exactly what `signMsg`/`verifyMsgSig` hash
(clone, `Signature = nil`, deterministic marshal, ssz root). -/
structure Fields where
  type : Int
  duty : Option DutyPb
  peerIdx : Int
  round : Int
  preparedRound : Int
  valueHash : HBytes
  preparedValueHash : HBytes
  unknown : Nat := 0
  deriving DecidableEq, Repr

/-- `pbv1.QBFTMsg`; `sig = none` is a nil/empty signature field. -/
structure Core where
  fields : Fields
  sig : Option SigB
  deriving DecidableEq, Repr

/-- `pbv1.QBFTConsensusMsg` -/
structure Wire where
  main : Option Core
  just : List Core
  values : List Val
  deriving DecidableEq, Repr

/-- Symbolic cryptography / serialisation. `Digest` is the type of signed digests (the 32-byte ssz
root of the deterministic marshalling of a `QBFTMsg` without signature); it is left abstract. -/
structure Crypto where
  Digest : Type
  digest : Fields → Digest
  recover : Digest → SigB → Option Key      -- `none`: `k1util.Recover` returned an error
  unmarshalAny : Val → Option Inner         -- `none`: `UnmarshalNew` failed
  hashInner : Inner → Option Hash           -- `none`: `hashProto` failed (inner is itself an `Any`)

/-- recomputed hash of a wire value, as in `valuesByHash`. -/
def valHash (C : Crypto) (v : Val) : Option Hash := (C.unmarshalAny v).bind C.hashInner

/-- `MsgType.Valid` -/
def msgTypeValid (t : Int) : Bool := decide (t > QbftConst.msgTypeLo) && decide (t < QbftConst.msgTypeHi)

/-- `DutyType.Valid` -/
def dutyTypeValid (t : Int) : Bool := decide (t > QbftConst.dutyTypeLo) && decide (t < QbftConst.dutyTypeHi)

/-- `pubkeys[idx]` for the map built by `NewConsensus` (`keys[int64(i)] = pk` for the i-th peer). -/
def lookupKey (keys : List Key) (idx : Int) : Option Key :=
  if idx < 0 then none else keys[idx.toNat]?

/-- error classes of `verifyMsg` in source order. -/
inductive VErr where
  | invalid | type | dutyType | round | preparedRound | peerIdx | sigEmpty | sigErr | sigWrong
  deriving DecidableEq, Repr

/-- `verifyMsg` (with `verifyMsgSig` inlined); `none` = nil error. -/
def verifyMsg (C : Crypto) (keys : List Key) : Option Core → Option VErr
  | none => some .invalid
  | some c =>
    match c.fields.duty with
    | none => some .invalid
    | some d =>
      if !msgTypeValid c.fields.type then some .type
      else if !dutyTypeValid d.type then some .dutyType
      else if c.fields.round ≤ 0 then some .round
      else if c.fields.preparedRound < 0 then some .preparedRound
      else match lookupKey keys c.fields.peerIdx with
        | none => some .peerIdx
        | some pk =>
          match c.sig with
          | none => some .sigEmpty
          | some s =>
            match C.recover (C.digest c.fields) s with
            | none => some .sigErr
            | some k => if k = pk then none else some .sigWrong

inductive Reason where
  | invalid                 -- request is not a (non-nil) QBFTConsensusMsg
  | main (e : VErr)         -- verifyMsg of the main message
  | gater                   -- "invalid duty"
  | tooManyJust
  | tooManyValues
  | cancelledJust           -- ctx done inside the justification loop
  | just (e : VErr)         -- "invalid justification"
  | justDuty                -- "qbft justification duty differs from message duty"
  | values                  -- valuesByHash failed
  | noValue                 -- "value hash not found in values"
  | noPreparedValue         -- "prepared value hash not found in values"
  | cancelled               -- ctx done after newMsg
  | expired                 -- "duty expired or exempt"
  | timeout                 -- receive buffer full until ctx is done
  deriving DecidableEq, Repr

/-- `verifyMsgLimits`; `nodes = len(c.pubkeys)`. -/
def verifyMsgLimits (w : Wire) (nodes : Nat) : Option Reason :=
  let maxJust := QbftConst.maxJustFactor * nodes
  if w.just.length > maxJust then some .tooManyJust
  else
    let maxValues := QbftConst.maxValuesFactor * (w.just.length + QbftConst.maxValuesOffset)
    if w.values.length > maxValues then some .tooManyValues else none

/-- Go map `map[[32]byte]*anypb.Any` as an association list, most recent binding first. -/
abbrev VMap := List (Hash × Val)

def VMap.get (m : VMap) (h : Hash) : Option Val :=
  match m with
  | [] => none
  | (h', v) :: rest => if h' = h then some v else VMap.get rest h

/-- `valuesByHash`: `resp[hash] = v` for every value in order (a later value with the same hash
replaces an earlier one); fails on the first value that does not unmarshal / hash. -/
def valuesByHash (C : Crypto) : List Val → VMap → Option VMap
  | [], acc => some acc
  | v :: vs, acc =>
    match valHash C v with
    | none => none
    | some h => valuesByHash C vs ((h, v) :: acc)

/-- What the `qbft.Msg` accessors return for one message (`none` hash = Go zero value `[32]byte{}`). -/
structure CoreView where
  type : Int
  duty : Duty
  source : Int
  round : Int
  value : Option Hash
  preparedRound : Int
  preparedValue : Option Hash
  deriving DecidableEq, Repr

/-- `Msg`: main message, `Justification()` (each built by `newMsg(j, nil, values)`), shared `Values()`. -/
structure MsgView where
  core : CoreView
  just : List CoreView
  values : VMap
  deriving DecidableEq, Repr

def zeroDuty : Duty := { slot := 0, type := 0 }

def coreView (c : Core) : CoreView :=
  { type := c.fields.type
    duty := match c.fields.duty with | some d => dutyFromProto d | none => zeroDuty
    source := c.fields.peerIdx
    round := c.fields.round
    value := toHash32 c.fields.valueHash
    preparedRound := c.fields.preparedRound
    preparedValue := toHash32 c.fields.preparedValueHash }

/-- the two presence checks of `newMsg` for one proto message. -/
def checkRefs (vals : VMap) (c : Core) : Option Reason :=
  match toHash32 c.fields.valueHash with
  | some h =>
    if (vals.get h).isNone then some .noValue
    else match toHash32 c.fields.preparedValueHash with
      | some p => if (vals.get p).isNone then some .noPreparedValue else none
      | none => none
  | none =>
    match toHash32 c.fields.preparedValueHash with
    | some p => if (vals.get p).isNone then some .noPreparedValue else none
    | none => none

def checkRefsList (vals : VMap) : List Core → Option Reason
  | [] => none
  | j :: js => match checkRefs vals j with
    | some r => some r
    | none => checkRefsList vals js

/-- `newMsg(pbMsg, justification, values)` for a non-nil `pbMsg`. -/
def newMsg (c : Core) (just : List Core) (vals : VMap) : Except Reason MsgView :=
  match checkRefs vals c with
  | some r => .error r
  | none =>
    match checkRefsList vals just with
    | some r => .error r
    | none => .ok { core := coreView c, just := just.map coreView, values := vals }

/-- `core.DeadlineStatus` as answered by `deadliner.Add`. -/
inductive Status where
  | scheduled | expired | exempt
  deriving DecidableEq, Repr

/-- Everything `handle` reads from its environment for one call. -/
structure Env where
  gater : Duty → Bool        -- `c.gaterFunc`
  dl : Duty → Status         -- answer of `c.deadliner.Add(duty)` at this moment
  ctxDone : Bool := false    -- the receive context is already cancelled when `handle` is entered

/-- the justification loop of `handle`. -/
def checkJust (C : Crypto) (keys : List Key) (ctxDone : Bool) (duty : Duty) : List Core → Option Reason
  | [] => none
  | j :: js =>
    if ctxDone then some .cancelledJust
    else match verifyMsg C keys (some j) with
      | some e => some (.just e)
      | none =>
        if (coreView j).duty ≠ duty then some .justDuty
        else checkJust C keys ctxDone duty js

/-- The stateless part of `handle`: everything up to and including the `deadliner.Add` verdict. -/
def validate (C : Crypto) (keys : List Key) (env : Env) : Option Wire → Except Reason (Duty × MsgView)
  | none => .error .invalid
  | some w =>
    match verifyMsg C keys w.main with
    | some e => .error (.main e)
    | none =>
      match w.main with
      | none => .error (.main .invalid)      -- unreachable: verifyMsg rejects a nil message
      | some c =>
        let duty := (coreView c).duty
        if !env.gater duty then .error .gater
        else match verifyMsgLimits w keys.length with
          | some r => .error r
          | none =>
            match checkJust C keys env.ctxDone duty w.just with
            | some r => .error r
            | none =>
              match valuesByHash C w.values [] with
              | none => .error .values
              | some vals =>
                match newMsg c w.just vals with
                | .error r => .error r
                | .ok m =>
                  if env.ctxDone then .error .cancelled
                  else match env.dl duty with
                    | .expired => .error .expired
                    | .exempt => .error .expired
                    | .scheduled => .ok (duty, m)

/-- `instance.IO[Msg]` (the parts that matter here). -/
structure Inst where
  duty : Duty
  buf : List MsgView := []         -- RecvBuffer, FIFO
  proposed : Bool := false
  participated : Bool := false
  running : Bool := false
  deriving DecidableEq, Repr

structure State where
  insts : List Inst := []          -- `c.mutable.instances`
  dlSet : List Duty := []          -- duties the deadliner scheduled because of `handle`
  deriving DecidableEq, Repr

def State.find (s : State) (d : Duty) : Option Inst := s.insts.find? (fun i => i.duty = d)

def State.bufLen (s : State) (d : Duty) : Nat :=
  match s.find d with | some i => i.buf.length | none => 0

/-- replace (or append) the instance of duty `i.duty`. -/
def setInst (insts : List Inst) (i : Inst) : List Inst :=
  match insts with
  | [] => [i]
  | x :: xs => if x.duty = i.duty then i :: xs else x :: setInst xs i

/-- `getInstanceIO` / `getRecvBuffer`: existing instance or a fresh one. -/
def State.getOrNew (s : State) (d : Duty) : Inst :=
  match s.find d with | some i => i | none => { duty := d }

def addDuty (l : List Duty) (d : Duty) : List Duty := if l.contains d then l else l ++ [d]

inductive Result where
  | accept (m : MsgView)
  | reject (r : Reason)
  deriving DecidableEq, Repr

/-- `handle`. `cap` is `instance.RecvBufferSize`. A full buffer makes the real call block until its
context is done and then fail with "timeout enqueuing receive buffer". -/
def handle (C : Crypto) (keys : List Key) (cap : Nat) (env : Env) (s : State) (req : Option Wire) : State × Result :=
  match validate C keys env req with
  | .error r => (s, .reject r)
  | .ok (duty, m) =>
    let dlSet := addDuty s.dlSet duty                               -- deadliner.Add answered "scheduled"
    let inst := s.getOrNew duty                                     -- getRecvBuffer (creates the IO if missing)
    if inst.buf.length < cap then
      ({ insts := setInst s.insts { inst with buf := inst.buf ++ [m] }, dlSet := dlSet }, .accept m)
    else
      ({ insts := setInst s.insts inst, dlSet := dlSet }, .reject .timeout)

/-- One call of `handle` as seen by the network. -/
structure Op where
  env : Env
  req : Option Wire

def run (C : Crypto) (keys : List Key) (cap : Nat) (s : State) : List Op → State
  | [] => s
  | o :: os => run C keys cap (handle C keys cap o.env s o.req).1 os

/-! ### decision, gater, leader, instance flags -/

/-- `Decide` callback of `newDefinition`: `qcommit[0].Values()[valueHash]`. -/
def decideValue (qcommit0 : MsgView) (h : Hash) : Option Val := qcommit0.values.get h

/-- `core.NewDutyGater` with `slotsPerEpoch`, the current epoch and `allowedFutureEpochs`. -/
def dutyGater (spe curEpoch allowed : Nat) (d : Duty) : Bool :=
  dutyTypeValid d.type && decide (d.slot / spe ≤ curEpoch + allowed)

/-- `leader` (Go `%` truncates toward zero). -/
def leader (d : Duty) (round : Int) (nodes : Nat) : Int :=
  Int.tmod ((d.slot : Int) + d.type + round) (nodes : Int)

/-- `MarkProposed` / `MarkParticipated` / `MaybeStart` on `getInstanceIO(duty)`: returns whether the
compare-and-swap succeeded. -/
inductive Flag where | proposed | participated | running
  deriving DecidableEq, Repr

def mark (s : State) (d : Duty) (f : Flag) : State × Bool :=
  let i := s.getOrNew d
  let (i', ok) : Inst × Bool := match f with
    | .proposed => ({ i with proposed := true }, !i.proposed)
    | .participated => ({ i with participated := true }, !i.participated)
    | .running => ({ i with running := true }, !i.running)
  ({ s with insts := setInst s.insts i' }, ok)

end CharonV.QbftWire
