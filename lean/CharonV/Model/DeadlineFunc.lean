/-
Model of `core.NewDutyDeadlineFunc` (core/deadline.go): deadline of a duty as an offset from
genesis, in nanoseconds. `slotNs` = slot duration, `spe` = slots per epoch.
Duty types by number (core/types.go): 1 proposer, 2 attester, 3 signature, 4 exit,
5 builder_proposer, 6 builder_registration, 7 randao, 8 prepare_aggregator, 9 aggregator,
10 sync_message, 11 prepare_sync_contribution, 12 sync_contribution, 13 info_sync.
-/
namespace CharonV.Deadliner

/-- `marginFactor` -/
def marginFactor : Nat := 12

/-- duration after slot start (without margin); `none` = the duty never expires. -/
def dutyDuration (slotNs spe ty : Nat) : Option Nat :=
  if ty = 4 ∨ ty = 6 then none                         -- exit, builder registration
  else if ty = 1 ∨ ty = 7 then some (slotNs / 3)        -- proposer, randao
  else if ty = 10 ∨ ty = 12 then some slotNs            -- sync message, sync contribution
  else if ty = 2 ∨ ty = 9 then some (spe * slotNs)      -- attester, aggregator
  else if ty = 8 ∨ ty = 11 then some (2 * spe * slotNs) -- prepare aggregator / sync contribution
  else some slotNs

def dutyDeadline (slotNs spe : Nat) (slot ty : Nat) : Option Nat :=
  (dutyDuration slotNs spe ty).map (fun dur => slot * slotNs + (dur + slotNs / marginFactor))

end CharonV.Deadliner
