/-
Model of `core/dutydb/memory.go` (`MemDB`) — executable, core Lean only.

Every public method of `MemDB` holds `db.mu` for its whole state transition, so every concurrent
history is a sequence of the atomic operations below (the linearisation is the lock order):

* `store duty exempt set` — one complete `Store` call. `set` lists the `core.UnsignedDataSet` in the
  order in which Go's map iteration visits it (the oracle: every order is a possible input).
* `await k`               — the locked part of `AwaitAttestation`, `AwaitProposal`, `AwaitAggAttestation`,
  `AwaitSyncContribution`: append the query, run `resolve*QueriesUnsafe` of that kind.
* `cancel q`              — the caller's context is cancelled and the `Await*` call returned
  (its `cancel` channel is closed; the entry stays in the slice until the next resolve drops it).
* `expire d notify`       — environment (deadliner): duty `d` has expired; from now on
  `deadliner.Add d` answers `DeadlineExpired`; with `notify` the duty is also queued on `C()`.
  The store consumes `C()` only at the end of a later `Store` call that got that far.
* `pubkey slot comm val`  — `PubKeyByAttestation`.

Representation (isomorphic to the Go state, chosen so that all five maps share lemmas):

* `kv`   — the five maps `attDuties`, `proDuties`, `aggDuties`, `contribDuties`, `attPubKeys` as
           one association list over the tagged key type `Key` (the constructors keep the maps
           disjoint). First match wins; inserts happen only for absent keys.
* `idx`  — `attKeysBySlot`, `aggKeysBySlot`, `contribKeysBySlot` flattened to (index duty, key)
           pairs; `attKeysBySlot[s]` is the sublist with first component `⟨s, attester⟩`, etc.
* `pend` — the four query slices merged (the per-kind order is the sublist order).
* `expired`, `chan` — the deadliner as the store sees it.
* `answers`, `hist` — ghost: every answer ever given (blocking or immediate, incl. pubkeys), and
           every (key, value) ever written into a map.

What is stored per kind, and what the clash check compares (`Chk`):
  attestation  key (data.slot, duty.committeeIndex)        value = full `AttestationData`, compared
               in full (`String()`); second key (data.slot, 0) compared on source/target only
  pubkey       key (data.slot, committeeIndex | 0, validatorIndex)   compared in full
  proposal     key slot               value (block root, rest); compared: block root
  aggregate    key (slot, data root, committee)   value = the aggregate (bits, signature: `pay`);
               compared: data root — which is part of the key, so the comparison cannot fail, and
               the stored value is REPLACED (`db.aggDuties[key] = provided`)           [D-4]
  contribution key (slot, subcommittee, block root)   value compared in full (hash tree root)
All keys are derived from the DATUM's slot; the index of attestation keys uses the datum's
`AttesterDuty.Slot`; the expired check and deletion use the slot of the `core.Duty`.     [D-5]

`Cfg` carries one switch per proposed fix (both `false` = the code as it is):
  `keepFirstAgg` — /verif/fixes/C06-agg-keep-first.diff  (drop the replacing assignment)
  `checkSlot`    — /verif/fixes/C06-slot-check.diff      (refuse data whose slot ≠ duty slot)
-/
namespace CharonV.DutyDB

inductive Kind where
  | att | pro | agg | con | pk
  deriving DecidableEq, Repr

/-- `core.DutyType` as far as `Store` and `deleteDutyUnsafe` distinguish it. -/
inductive DType where
  | proposer | builder | attester | aggregator | sync | other
  deriving DecidableEq, Repr

structure Duty where
  slot : Nat
  type : DType
  deriving DecidableEq, Repr

def Kind.dtype : Kind → DType
  | .att => .attester | .pk => .attester | .pro => .proposer | .agg => .aggregator | .con => .sync

/-- the query/map kind handled by a `Store` of this duty type (`none`: error before any effect). -/
def DType.kind? : DType → Option Kind
  | .proposer => some .pro | .attester => some .att | .aggregator => some .agg | .sync => some .con
  | .builder => none | .other => none

/-- `eth2p0.AttestationData`; `src`/`tgt` stand for the source/target checkpoints. -/
structure AttData where
  slot : Nat
  index : Nat
  head : Nat
  src : Nat
  tgt : Nat
  deriving DecidableEq, Repr

inductive Key where
  | att (slot comm : Nat)
  | pro (slot : Nat)
  | agg (slot root comm : Nat)
  | con (slot sub root : Nat)
  | pk  (slot comm val : Nat)
  deriving DecidableEq, Repr

def Key.kind : Key → Kind
  | .att .. => .att | .pro .. => .pro | .agg .. => .agg | .con .. => .con | .pk .. => .pk

def Key.slot : Key → Nat
  | .att s _ => s | .pro s => s | .agg s _ _ => s | .con s _ _ => s | .pk s _ _ => s

/-- the duty a key belongs to: (the key's slot, the duty type of its kind). -/
def Key.duty (k : Key) : Duty := ⟨k.slot, k.kind.dtype⟩

inductive Val where
  | att (d : AttData)
  | pro (root pay : Nat)
  | agg (pay : Nat)
  | con (pay : Nat)
  | pk (p : Nat)
  deriving DecidableEq, Repr

/-- one entry of an attester `UnsignedDataSet`: map key `pk`, `core.AttestationData{Data, Duty}`. -/
structure AttDatum where
  pk : Nat
  data : AttData
  dutySlot : Nat   -- Duty.Slot (eth2v1.AttesterDuty)
  comm : Nat       -- Duty.CommitteeIndex
  val : Nat        -- Duty.ValidatorIndex
  deriving DecidableEq, Repr

structure ProDatum where
  slot : Nat
  root : Nat
  pay : Nat
  deriving DecidableEq, Repr

structure AggDatum where
  slot : Nat
  root : Nat
  comm : Nat
  pay : Nat
  deriving DecidableEq, Repr

structure ConDatum where
  slot : Nat
  sub : Nat
  root : Nat
  pay : Nat
  deriving DecidableEq, Repr

/-- the dynamic type of one `core.UnsignedData` value (`con`: `SyncContributions`, or a single
`SyncContribution` as a one-element list). -/
inductive Datum where
  | att (d : AttDatum)
  | pro (d : ProDatum)
  | agg (d : AggDatum)
  | con (ds : List ConDatum)
  deriving DecidableEq, Repr

inductive Err where
  | expired | len | deprecated | unsupported | invalid | slot
  | clashPk | clashAtt | clashSrc | clashTgt | clashPro | clashCon
  | unknownDuty
  deriving DecidableEq, Repr

/-- which comparison guards a write to an occupied key. -/
inductive Chk where
  | pk | attFull | attWeak | pro | agg | con
  deriving DecidableEq, Repr

/-- the clash check: `some e` = the store returns error `e` without writing. -/
def clash : Chk → Val → Val → Option Err
  | .pk, old, new => if old = new then none else some .clashPk
  | .attFull, old, new => if old = new then none else some .clashAtt
  | .attWeak, .att o, .att n =>
    if o.src ≠ n.src then some .clashSrc else if o.tgt ≠ n.tgt then some .clashTgt else none
  | .attWeak, _, _ => none
  | .pro, .pro r _, .pro r' _ => if r = r' then none else some .clashPro
  | .pro, _, _ => none
  | .agg, _, _ => none  -- compares the data root, which is part of the key: can never fail
  | .con, old, new => if old = new then none else some .clashCon

/-- one guarded map write `m[key] = val` (+ `append(keysBySlot[ik.slot], key)` when inserted). -/
structure Write where
  key : Key
  val : Val
  chk : Chk
  ik : Option Duty
  deriving DecidableEq, Repr

structure Cfg where
  keepFirstAgg : Bool := false
  checkSlot : Bool := false
  deriving DecidableEq, Repr

def Cfg.asIs : Cfg := {}
def Cfg.fixed : Cfg := ⟨true, true⟩

structure Query where
  qid : Nat
  key : Key
  cancelled : Bool
  deriving DecidableEq, Repr

structure State where
  kv : List (Key × Val) := []
  idx : List (Duty × Key) := []
  pend : List Query := []
  expired : List Duty := []
  chan : List Duty := []
  nextQ : Nat := 0
  answers : List (Key × Val) := []
  hist : List (Key × Val) := []
  deriving Repr

inductive Op where
  | store (duty : Duty) (exempt : Bool) (set : List Datum)
  | await (k : Key)
  | cancel (q : Nat)
  | expire (d : Duty) (notify : Bool)
  | pubkey (slot comm val : Nat)
  deriving Repr

inductive Res where
  | ok | err (e : Err) | qid (n : Nat) | found (v : Val) | notFound | none | bad
  deriving DecidableEq, Repr

structure Out where
  res : Res
  /-- queries answered inside this operation: (query id, key, value), in slice order. -/
  resolved : List (Nat × Key × Val) := []
  deriving DecidableEq, Repr

/-! ### maps -/

def lookup (k : Key) : List (Key × Val) → Option Val
  | [] => none
  | e :: r => if e.1 = k then some e.2 else lookup k r

/-- overwrite the value of the (first) entry with key `k`. -/
def replace (k : Key) (v : Val) : List (Key × Val) → List (Key × Val)
  | [] => []
  | e :: r => if e.1 = k then (k, v) :: r else e :: replace k v r

def eraseKeys (ks : List Key) (kv : List (Key × Val)) : List (Key × Val) :=
  kv.filter (fun e => !(ks.contains e.1))

/-! ### `store*Unsafe`: a datum is a short list of guarded writes -/

/-- `storeAttestationUnsafe`: pubkey and data under the duty's committee index, then both again
under committee index 0 (the latter with the source/target-only comparison). -/
def attWrites (d : AttDatum) : List Write :=
  [ ⟨.pk d.data.slot d.comm d.val, .pk d.pk, .pk, some ⟨d.dutySlot, .attester⟩⟩,
    ⟨.att d.data.slot d.comm, .att d.data, .attFull, none⟩,
    ⟨.pk d.data.slot 0 d.val, .pk d.pk, .pk, some ⟨d.dutySlot, .attester⟩⟩,
    ⟨.att d.data.slot 0, .att d.data, .attWeak, none⟩ ]

def proWrite (d : ProDatum) : Write := ⟨.pro d.slot, .pro d.root d.pay, .pro, none⟩

def aggWrite (d : AggDatum) : Write :=
  ⟨.agg d.slot d.root d.comm, .agg d.pay, .agg, some ⟨d.slot, .aggregator⟩⟩

def conWrite (d : ConDatum) : Write :=
  ⟨.con d.slot d.sub d.root, .con d.pay, .con, some ⟨d.slot, .sync⟩⟩

/-- `storeSyncContributionUnsafe`: entries in slice order, stop at the first refused one. -/
def planCon (cfg : Cfg) (slot : Nat) : List ConDatum → List Write × Option Err
  | [] => ([], none)
  | c :: cs =>
    if cfg.checkSlot && c.slot != slot then ([], some .slot)
    else (conWrite c :: (planCon cfg slot cs).1, (planCon cfg slot cs).2)

/-- The writes one set entry causes, and the error (type assertion failed / slot check of the
proposed fix) that ends the call after them. Does not depend on the state. -/
def plan (cfg : Cfg) (duty : Duty) (dat : Datum) : List Write × Option Err :=
  match duty.type, dat with
  | .attester, .att d =>
    if cfg.checkSlot && (d.data.slot != duty.slot || d.dutySlot != duty.slot) then ([], some .slot)
    else (attWrites d, none)
  | .proposer, .pro d =>
    if cfg.checkSlot && d.slot != duty.slot then ([], some .slot) else ([proWrite d], none)
  | .aggregator, .agg d =>
    if cfg.checkSlot && d.slot != duty.slot then ([], some .slot) else ([aggWrite d], none)
  | .sync, .con ds => planCon cfg duty.slot ds
  | _, _ => ([], some .invalid)

/-- the loop over the set (in iteration order), flattened: all writes up to the first planned error. -/
def planSet (cfg : Cfg) (duty : Duty) : List Datum → List Write × Option Err
  | [] => ([], none)
  | d :: ds =>
    match (plan cfg duty d).2 with
    | some e => ((plan cfg duty d).1, some e)
    | none => ((plan cfg duty d).1 ++ (planSet cfg duty ds).1, (planSet cfg duty ds).2)

/-- one guarded write. On a clash nothing changes and the error is returned. -/
def applyWrite (cfg : Cfg) (s : State) (w : Write) : State × Option Err :=
  match lookup w.key s.kv with
  | some old =>
    match clash w.chk old w.val with
    | some e => (s, some e)
    | none =>
      if w.chk = .agg ∧ cfg.keepFirstAgg = false then
        ({ s with kv := replace w.key w.val s.kv, hist := (w.key, w.val) :: s.hist }, none)
      else (s, none)
  | none =>
    ({ s with kv := (w.key, w.val) :: s.kv,
              idx := match w.ik with
                     | some d => (d, w.key) :: s.idx
                     | none => s.idx,
              hist := (w.key, w.val) :: s.hist }, none)

/-- early return on the first error; the writes before it stay. -/
def applyWrites (cfg : Cfg) (s : State) : List Write → State × Option Err
  | [] => (s, none)
  | w :: ws =>
    match (applyWrite cfg s w).2 with
    | some e => ((applyWrite cfg s w).1, some e)
    | none => applyWrites cfg (applyWrite cfg s w).1 ws

def storeSet (cfg : Cfg) (s : State) (duty : Duty) (set : List Datum) : State × Option Err :=
  match (applyWrites cfg s (planSet cfg duty set).1).2 with
  | some e => ((applyWrites cfg s (planSet cfg duty set).1).1, some e)
  | none => ((applyWrites cfg s (planSet cfg duty set).1).1, (planSet cfg duty set).2)

/-! ### `resolve*QueriesUnsafe` -/

/-- the value a pending query of kind `kd` is answered with now (`none`: not answered). -/
def Query.answer (kd : Kind) (kv : List (Key × Val)) (q : Query) : Option (Nat × Key × Val) :=
  if q.key.kind = kd ∧ q.cancelled = false then (lookup q.key kv).map (fun v => (q.qid, q.key, v))
  else none

/-- stays in the slice: other kind, or uncancelled with absent key (cancelled ones are dropped). -/
def Query.keep (kd : Kind) (kv : List (Key × Val)) (q : Query) : Bool :=
  if q.key.kind = kd then (!q.cancelled && (lookup q.key kv).isNone) else true

def resolve (kd : Kind) (s : State) : State × List (Nat × Key × Val) :=
  ({ s with pend := s.pend.filter (Query.keep kd s.kv),
            answers := (s.pend.filterMap (Query.answer kd s.kv)).map (fun a => a.2) ++ s.answers },
   s.pend.filterMap (Query.answer kd s.kv))

/-! ### `deleteDutyUnsafe` and the drain loop at the end of `Store` -/

def idxKeys (d : Duty) (idx : List (Duty × Key)) : List Key :=
  (idx.filter (fun e => e.1 = d)).map (fun e => e.2)

/-- `attKey{Slot: key.Slot, CommIdx: key.CommIdx}` of a pubkey key. -/
def attOf : Key → Key
  | .pk s c _ => .att s c
  | k => k

def delKeys (d : Duty) (idx : List (Duty × Key)) : List Key :=
  match d.type with
  | .proposer => [.pro d.slot]
  | .attester => idxKeys d idx ++ (idxKeys d idx).map attOf
  | .aggregator => idxKeys d idx
  | .sync => idxKeys d idx
  | .builder => []
  | .other => []

def deleteDuty (s : State) (d : Duty) : State × Option Err :=
  match d.type with
  | .builder => (s, some .deprecated)
  | .other => (s, some .unknownDuty)
  | _ => ({ s with kv := eraseKeys (delKeys d s.idx) s.kv,
                   idx := s.idx.filter (fun e => !(e.1 = d)) }, none)

/-- receive from `deadliner.C()` until it is empty; a delete error ends the call (the received
duty is consumed, the rest stays queued). -/
def drain (s : State) : List Duty → State × Option Err
  | [] => ({ s with chan := [] }, none)
  | d :: ds =>
    match (deleteDuty s d).2 with
    | some e => ({ (deleteDuty s d).1 with chan := ds }, some e)
    | none => drain (deleteDuty s d).1 ds

/-! ### operations -/

def storeOp (cfg : Cfg) (s : State) (duty : Duty) (exempt : Bool) (set : List Datum) : State × Out :=
  -- `deadliner.Add(duty)`: expired or exempt
  if exempt = true ∨ duty ∈ s.expired then (s, ⟨.err .expired, []⟩)
  else
    match duty.type.kind? with
    | none => (s, ⟨.err (if duty.type = .builder then .deprecated else .unsupported), []⟩)
    | some kd =>
      if duty.type = .proposer ∧ set.length > 1 then (s, ⟨.err .len, []⟩)
      else
        match (storeSet cfg s duty set).2 with
        | some e => ((storeSet cfg s duty set).1, ⟨.err e, []⟩)   -- no resolve, no drain
        | none =>
          let r := resolve kd (storeSet cfg s duty set).1
          match (drain r.1 r.1.chan).2 with
          | some e => ((drain r.1 r.1.chan).1, ⟨.err e, r.2⟩)
          | none => ((drain r.1 r.1.chan).1, ⟨.ok, r.2⟩)

def awaitOp (s : State) (k : Key) : State × Out :=
  if k.kind = .pk then (s, ⟨.bad, []⟩)
  else
    let r := resolve k.kind { s with pend := s.pend ++ [⟨s.nextQ, k, false⟩], nextQ := s.nextQ + 1 }
    (r.1, ⟨.qid s.nextQ, r.2⟩)

def step (cfg : Cfg) (s : State) : Op → State × Out
  | .store duty exempt set => storeOp cfg s duty exempt set
  | .await k => awaitOp s k
  | .cancel q =>
    ({ s with pend := s.pend.map (fun x => if x.qid = q then { x with cancelled := true } else x) },
     ⟨.none, []⟩)
  | .expire d notify =>
    ({ s with expired := d :: s.expired, chan := if notify then s.chan ++ [d] else s.chan }, ⟨.none, []⟩)
  | .pubkey sl c v =>
    match lookup (.pk sl c v) s.kv with
    | some x => ({ s with answers := (.pk sl c v, x) :: s.answers }, ⟨.found x, []⟩)
    | none => (s, ⟨.notFound, []⟩)

def run (cfg : Cfg) (s : State) : List Op → State
  | [] => s
  | op :: ops => run cfg (step cfg s op).1 ops

/-! ### well-formed input: the datum's slot is the duty's slot (hypothesis of the `_partial` theorems) -/

def Datum.slotOK (duty : Duty) : Datum → Bool
  | .att d => d.data.slot == duty.slot && d.dutySlot == duty.slot
  | .pro d => d.slot == duty.slot
  | .agg d => d.slot == duty.slot
  | .con ds => ds.all (fun c => c.slot == duty.slot)

def Op.slotOK : Op → Bool
  | .store duty _ set => set.all (Datum.slotOK duty)
  | _ => true

end CharonV.DutyDB
