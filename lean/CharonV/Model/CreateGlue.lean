/-
Model of the glue of `charon create cluster` (`cmd/createcluster.go`) and of `charon combine`
(`cmd/combine/combine.go`, with `KeyFiles.SequencedKeys` of `eth2util/keystore/load.go` and the lock
checks of `cluster/lock.go` that `cluster.LoadClusterLock` applies). Core Lean only; executable — the
line driver `Driver/CreateGlue.lean` runs it.

Conventions

* A Go `map[K]V` is an association list (`get?` lookup, `put` is `m[k] = v`).
* Cryptography is a record of functions `Crypto` (secret ↦ public key, sign, verify, threshold split
  with its randomness as an argument, Lagrange recovery of secrets and of public keys, plain
  aggregation, the signing-root hashes and the lock hash). The line driver instantiates it
  symbolically, `Proofs/CreateGlue.lean` algebraically over `Spec/Tbls`. Nothing in the model looks
  into a key or a signature except through this record and `=`.
* Node `i` (0-based, directory `node<i>`) holds share index `i+1`.
* Addresses, gas limit, amounts (Gwei), timestamps are `Nat`s; a deposit message is (validator key,
  withdrawal address, amount), a registration message (validator key, fee recipient, gas limit,
  timestamp); network, fork version and the compounding flag are constants of a run (part of the
  signing-root functions).
* File system: `runCreate` returns the TRACE of completed writes (in order) and the result; an
  oracle `io : Step → Bool` decides which write fails. `combine` reads directories given as values.
* Keystore encryption is outside the model: a keystore file is its secret (`decrypt (encrypt x) = x`
  is the checked assumption `keystore:roundtrip` of the stream).

What is mirrored (function by function)

  cobra `PreRunE` of `newCreateClusterCmd`  → `preRun`
  `deposit.VerifyDepositAmounts`            → `verifyDepositAmounts`
  `validateCreateConfig`, `detectNodeDirs`  → `validateCreateConfig`
  `validateDef`                             → `validateDef` (threshold check of repair 5f2f8be: switch `Fixes.defThreshold`)
  `getKeys` with `checkUniqueKeys`          → `planKeys` (repair c6adf89: switch `Fixes.uniqueKeys`)
  `validateAddresses`, `safeThreshold`, `newDefFromConfig` (+ the checks of `cluster.NewDefinition`)
                                            → `validateAddresses`, `safeThreshold`, `newDefFromConfig`
  `runCreateCluster` up to `getTSSShares`   → `plan` (`planKeys`, `planDef`, `planTail`)
  `getTSSShares`                            → `shareArray`, `tssShares`
  `deposit.DedupAmounts`                    → `dedupAmounts`
  `signDepositDatas`, `createDepositDatas`  → `signDepositDatas`, `createDepositDatas`
  `signValidatorRegistrations`, `createValidatorRegistrations`
                                            → `signRegs`, `createRegs`
  `getValidators`                           → `getValidators`
  `aggSign`                                 → `aggSign`
  `writeKeysToDisk` / `writeKeysToKeymanager` → `nodeSecrets`, `keySteps`, `kmSteps`
  lock assembly, `SetLockHash`, JSON form per version (`distValidatorsToV1x6/7/8OrLater`)
                                            → `projectValidator`, `mkLock`
  `deposit.WriteClusterDepositDataFiles`, `writeLock`, rest of `runCreateCluster`
                                            → `runCreate`
  `Lock.VerifyHashes` + `Lock.VerifySignatures` (`verifySharesReconstruct`, `parsePubShares`,
  `verifyBuilderRegistrations`, `verifyNodeSignatures`), `cluster.LoadClusterLock`
                                            → `verifyLock`, `loadClusterLock`
  `loadManifest`                            → `loadManifest`
  `KeyFiles.SequencedKeys`                  → `sequencedKeys`
  `shareIdxByPubkeys`                       → `pubkMap`, `idxShares`
  `Combine`                                 → `combineOne`, `combine`
-/
namespace CharonV.CreateGlue

/-! ### Go maps, sorting -/

section Maps
variable {K V : Type} [DecidableEq K]

def get? : List (K × V) → K → Option V
  | [], _ => none
  | (k', v) :: r, k => if k' = k then some v else get? r k

def put : List (K × V) → K → V → List (K × V)
  | [], k, v => [(k, v)]
  | (k', v') :: r, k, v => if k' = k then (k, v) :: r else (k', v') :: put r k v

end Maps

def insertSorted (x : Nat) : List Nat → List Nat
  | [] => [x]
  | y :: ys => if x ≤ y then x :: y :: ys else y :: insertSorted x ys

/-- `slices.Sort`. -/
def sortNat (xs : List Nat) : List Nat := xs.foldr insertSorted []

/-- the loop of `deposit.DedupAmounts`: an amount is kept the first time it is seen (`used` map). -/
def dedupFirst : List Nat → List Nat → List Nat
  | [], _ => []
  | a :: r, used => if a ∈ used then dedupFirst r used else a :: dedupFirst r (a :: used)

/-- `deposit.DedupAmounts`: first occurrences, then ascending. -/
def dedupAmounts (xs : List Nat) : List Nat := sortNat (dedupFirst xs [])

/-! ### Data -/

structure DepositMsg (PK : Type) where
  pubKey : PK
  wd     : Nat
  amount : Nat
  deriving DecidableEq, Repr

structure RegMsg (PK : Type) where
  pubKey : PK
  fee    : Nat
  gas    : Nat
  ts     : Nat
  deriving DecidableEq, Repr

/-- `eth2p0.DepositData` / `cluster.DepositData`. -/
structure DepositData (PK Sig : Type) where
  pubKey : PK
  wd     : Nat
  amount : Nat
  sig    : Sig
  deriving DecidableEq, Repr

/-- `core.VersionedSignedValidatorRegistration` / `cluster.BuilderRegistration`. -/
structure Registration (PK Sig : Type) where
  pubKey : PK
  fee    : Nat
  gas    : Nat
  ts     : Nat
  sig    : Sig
  deriving DecidableEq, Repr

/-- `cluster.DistValidator`; `reg = none` is the zero `BuilderRegistration{}`. -/
structure DistValidator (PK Sig : Type) where
  pubKey    : PK
  pubShares : List PK
  deposits  : List (DepositData PK Sig)
  reg       : Option (Registration PK Sig)
  deriving DecidableEq, Repr

/-- `cluster.Lock` as it is in `cluster-lock.json`. `uuid` stands for everything of the definition
that identifies the cluster and is not listed (uuid, name, timestamp, operator ENRs, fork version);
`defOk` for "the definition's own hashes and signatures verify" (cluster/definition.go, C12 proper). -/
structure Lock (PK Sig M : Type) where
  minor         : Nat                        -- definition version `v1.<minor>`
  defOk         : Bool
  uuid          : Nat
  numOperators  : Nat
  threshold     : Nat
  numValidators : Nat
  fees          : List Nat                   -- `Definition.FeeRecipientAddresses()`
  validators    : List (DistValidator PK Sig)
  hash          : M                          -- `LockHash`
  sigAgg        : Option Sig                 -- `SignatureAggregate` (none = empty)
  nodeSigs      : List Bool                  -- per entry of `NodeSignatures`: is it operator `idx`'s signature over `LockHash`
  deriving DecidableEq, Repr

/-- the cryptographic operations the glue calls. `R` is the randomness of one `ThresholdSplit`. -/
structure Crypto (PK SK Sig M R : Type) where
  pub         : SK → PK                                      -- `tbls.SecretToPublicKey`
  sign        : SK → M → Sig                                 -- `tbls.Sign`
  verify      : PK → M → Sig → Bool                          -- `tbls.Verify`
  split       : SK → R → Nat → Nat → Option (List (Nat × SK))  -- `tbls.ThresholdSplit(secret, total, threshold)`
  recover     : List (Nat × SK) → Option SK                  -- `tbls.RecoverSecret`
  recoverPub  : List (Nat × PK) → Option PK                  -- `tbls.RecoverPubkey`
  aggregate   : List Sig → Sig                               -- `tbls.Aggregate`
  verifyAgg   : List PK → Sig → M → Bool                     -- `tbls.VerifyAggregate`
  depositRoot : DepositMsg PK → M                            -- `deposit.GetMessageSigningRoot`
  regRoot     : RegMsg PK → M                                -- `registration.GetMessageSigningRoot`
  /-- `hashLock` of a lock with these definition parameters and validators (as the version hashes them). -/
  lockHash    : Nat → Nat → Nat → Nat → Nat → List Nat → List (DistValidator PK Sig) → M

/-- one write (or keymanager request) of `runCreateCluster`. -/
inductive Step where
  | p2p (i : Nat)                 -- `p2p.NewSavedPrivKey(node<i>)`
  | keys (i : Nat)                -- `CreateValidatorKeysDir` + `keystore.StoreKeys[Insecure]` for node `i`
  | kmPing (i : Nat)              -- `keymanager.VerifyConnection` of node `i`'s keymanager
  | kmImport (i : Nat)            -- `ImportKeystores` to node `i`'s keymanager
  | dep (amount : Nat) (i : Nat)  -- `deposit.WriteDepositDataFile` of one amount into node `i`
  | lock (i : Nat)                -- `os.WriteFile(node<i>/cluster-lock.json)`
  deriving DecidableEq, Repr

inductive Err where
  | thresholdLow | thresholdHigh                                    -- cobra `PreRunE`
  | defLoad                                                         -- `loadDefinition`
  | missingNodes | network | existingNodeDir | kmTokens
  | amountSmall | amountLarge | amountSum
  | kmAddr | numValsWithSplit | missingNumVals | tooFewNodes | protocol   -- `validateCreateConfig`
  | splitDir | keysLoad | dupKey                                    -- `getKeys` (`dupKey`: `checkUniqueKeys`, fix c6adf89)
  | defNoValidators | defThreshold | kmCount | insecureMainnet | noName | defVerify | wdAddr   -- `validateDef` (`defThreshold`: fix 5f2f8be)
  | feeCount | wdCount | defAddrCount | gasUnset                    -- `validateAddresses`, `cluster.NewDefinition`
  | keyCount                                                        -- "number of keys read from disk differs from cluster definition"
  | split                                                           -- `tbls.ThresholdSplit`
  | io (s : Step)                                                   -- a write / keymanager request failed
  | wdLen | noAmounts | feeLen                                      -- `createDepositDatas`, `createValidatorRegistrations`
  | noreg | nodd | panic                                            -- `getValidators`
  deriving DecidableEq, Repr

/-- what was written, in order. -/
inductive Write (PK SK Sig M : Type) where
  | p2p (i : Nat)
  | ping (i : Nat)                                           -- nothing is written
  | keys (i : Nat) (secrets : List SK)                       -- keystore `k` of node `i` holds `secrets[k]`
  | kmImport (i : Nat) (secrets : List SK)
  | dep (amount : Nat) (i : Nat) (entries : List (DepositData PK Sig))
  | lock (i : Nat) (l : Lock PK Sig M)

/-! ### Configuration and validation -/

def oneEth : Nat := 1000000000
def minDepositAmount : Nat := oneEth
def defaultDepositAmount : Nat := 32 * oneEth
def maxDepositAmount (compounding : Bool) : Nat := if compounding then 2048 * oneEth else 32 * oneEth
def defaultGasLimit : Nat := 30000000
def minNodes : Nat := 3
def minThreshold : Nat := 2

/-- `deposit.EthsToGweis`. -/
def ethsToGweis (eths : List Nat) : List Nat := eths.map (oneEth * ·)

/-- `deposit.DefaultDepositAmounts`. -/
def defaultDepositAmounts (compounding : Bool) : List Nat :=
  if compounding then [minDepositAmount, 8 * oneEth, 32 * oneEth, 256 * oneEth] else [minDepositAmount, defaultDepositAmount]

/-- loop of `deposit.VerifyDepositAmounts`: the first offending amount decides the error. -/
def verifyAmountsLoop (maxAmount : Nat) : List Nat → Nat → Except Err Nat
  | [], sum => .ok sum
  | a :: r, sum =>
    if a < minDepositAmount then .error .amountSmall
    else if a > maxAmount then .error .amountLarge
    else verifyAmountsLoop maxAmount r (sum + a)

/-- `deposit.VerifyDepositAmounts`. -/
def verifyDepositAmounts (amounts : List Nat) (compounding : Bool) : Except Err Unit :=
  if amounts.isEmpty then .ok ()
  else match verifyAmountsLoop (maxDepositAmount compounding) amounts 0 with
    | .error e => .error e
    | .ok sum => if sum < defaultDepositAmount then .error .amountSum else .ok ()

/-- `clusterConfig` (the fields the decisions depend on). -/
structure Config where
  defFile       : Bool := false        -- `--definition-file` given
  numNodes      : Nat := 0
  threshold     : Nat := 0
  thresholdFlag : Bool := false        -- `--threshold` given on the command line (cobra `Changed`)
  fees          : List Nat := []       -- `--fee-recipient-addresses`
  wds           : List Nat := []       -- `--withdrawal-addresses`
  networkOk     : Bool := true         -- `validateNetworkConfig` passes
  numDVs        : Nat := 0
  amountsEth    : List Nat := []       -- `--deposit-amounts`
  splitKeys     : Bool := false
  splitDirSet   : Bool := false        -- `--split-keys-dir` non-empty
  insecure      : Bool := false
  kmAddrs       : List Bool := []      -- per `--keymanager-addresses` entry: does it parse as a request URI
  kmTokens      : Nat := 0             -- number of `--keymanager-auth-tokens`
  protocolOk    : Bool := true         -- empty or supported `--consensus-protocol`
  gas           : Nat := 60000000      -- `--target-gas-limit`
  compounding   : Bool := false
  deriving Repr

/-- the definition read from `--definition-file` (the fields the decisions depend on). -/
structure Definition where
  loadOk        : Bool := true         -- the file is read, is JSON of a supported version, `VerifySignatures`, `VerifyHashes` (`loadDefinition`)
  nameSet       : Bool := true
  numValidators : Nat := 0
  threshold     : Nat := 0
  numOperators  : Nat := 0
  fees          : List Nat := []       -- `def.FeeRecipientAddresses()`
  wds           : List Nat := []       -- `def.WithdrawalAddresses()`
  amounts       : List Nat := []       -- `def.DepositAmounts` (Gwei)
  gas           : Nat := 0
  compounding   : Bool := false
  minor         : Nat := 11
  networkKnown  : Bool := true         -- `eth2util.ForkVersionToNetwork` succeeds (then the network is valid)
  mainOrGnosis  : Bool := false
  protocolOk    : Bool := true
  wdAddrsOk     : Bool := true         -- `validateWithdrawalAddrs`
  deriving Repr

/-- the checks of `Definition.UnmarshalJSON` (`unmarshalDefinitionV1x5to7` / `V1x8` / `V1x9` / `V1x10to11`):
one address pair per validator; from v1.8 on `deposit.VerifyDepositAmounts` (compounding from v1.10 on). -/
def defUnmarshalOk (d : Definition) : Bool :=
  d.wds.length == d.numValidators && d.fees.length == d.numValidators &&
  (if d.minor ≥ 8 then
     (match verifyDepositAmounts d.amounts (decide (d.minor ≥ 10) && d.compounding) with
      | .ok () => true
      | .error _ => false)
   else true)

/-- version of a definition made by `newDefFromConfig` (`cluster.currentVersion` = v1.11.0). -/
def currentMinor : Nat := 11

/-- what `runCreateCluster` reads besides its configuration. -/
structure Env (SK : Type) where
  existingLock : Nat → Bool                 -- `node<i>/cluster-lock.json` exists (`detectNodeDirs`)
  loadKeys     : Bool → Option (List SK)    -- `getKeys(dir, useSequencedKeys)`: none = error
  fresh        : Nat → SK                   -- the `k`-th `tbls.GenerateSecretKey()`

/-- cobra `PreRunE`. -/
def preRun (c : Config) : Except Err Unit :=
  if c.thresholdFlag then
    if c.threshold < minThreshold then .error .thresholdLow
    else if c.threshold > c.numNodes then .error .thresholdHigh
    else .ok ()
  else .ok ()

/-- `validateCreateConfig` (with `detectNodeDirs`); `c.numNodes` already overridden from the definition. -/
def validateCreateConfig (c : Config) (existingLock : Nat → Bool) : Except Err Unit :=
  if c.numNodes == 0 && !c.defFile then .error .missingNodes
  else if !c.networkOk then .error .network
  else if (List.range c.numNodes).any existingLock then .error .existingNodeDir
  else if c.kmAddrs.length != c.kmTokens then .error .kmTokens
  else match (if c.amountsEth.isEmpty then Except.ok () else verifyDepositAmounts (ethsToGweis c.amountsEth) c.compounding) with
    | .error e => .error e
    | .ok () =>
      if !c.kmAddrs.all id then .error .kmAddr
      else if c.splitKeys && c.numDVs != 0 then .error .numValsWithSplit
      else if !c.splitKeys && c.numDVs == 0 && !c.defFile then .error .missingNumVals
      else if c.numNodes < minNodes then .error .tooFewNodes
      else if !c.protocolOk then .error .protocol
      else .ok ()

/-- Repairs made to `cmd/createcluster.go` after this model found the defects; `true` (default) = the code as it is
now, `false` = the code before the repair (kept for the witnesses).
* `defThreshold` (5f2f8be): `validateDef` rejects `threshold < 2` or `threshold > len(operators)`.
* `uniqueKeys` (c6adf89): `getKeys` rejects a split-keys directory that holds a key twice (`checkUniqueKeys`). -/
structure Fixes where
  defThreshold : Bool := true
  uniqueKeys   : Bool := true
  deriving Repr

/-- `validateDef`. -/
def validateDef (fx : Fixes) (insecure : Bool) (kmAddrs : Nat) (d : Definition) : Except Err Unit :=
  if d.numValidators == 0 then .error .defNoValidators
  else if d.numOperators < minNodes then .error .tooFewNodes
  else if fx.defThreshold && (decide (d.threshold < minThreshold) || decide (d.threshold > d.numOperators)) then .error .defThreshold
  else if kmAddrs > 0 && kmAddrs != d.numOperators then .error .kmCount
  else match (if d.amounts.isEmpty then Except.ok () else verifyDepositAmounts d.amounts d.compounding) with
    | .error e => .error e
    | .ok () =>
      if !d.networkKnown then .error .network
      else if insecure && d.mainOrGnosis then .error .insecureMainnet
      else if !d.nameSet then .error .noName
      else if !d.loadOk then .error .defVerify
      else if !d.protocolOk then .error .protocol
      else if !d.wdAddrsOk then .error .wdAddr
      else .ok ()

/-- `cluster.Threshold`: `ceil(2n/3)`. -/
def clusterThreshold (n : Nat) : Nat := (2 * n + 2) / 3

/-- `safeThreshold`. -/
def safeThreshold (numNodes threshold : Nat) : Nat :=
  if threshold == 0 then clusterThreshold numNodes else threshold

/-- one list of `validateAddresses`: a single address is repeated for every validator. -/
def fillAddrs (numVals : Nat) (addrs : List Nat) : List Nat :=
  match addrs with
  | [a] => a :: List.replicate (numVals - 1) a
  | _ => addrs

/-- `validateAddresses`. -/
def validateAddresses (numVals : Nat) (fees wds : List Nat) : Except Err (List Nat × List Nat) :=
  if fees.length != numVals && fees.length != 1 then .error .feeCount
  else if wds.length != numVals && wds.length != 1 then .error .wdCount
  else .ok (fillAddrs numVals fees, fillAddrs numVals wds)

/-- what `runCreateCluster` has decided when it starts to generate key shares. -/
structure Plan (SK : Type) where
  n             : Nat                  -- `len(def.Operators)`
  t             : Nat                  -- `def.Threshold`
  numValidators : Nat                  -- `def.NumValidators`
  fees          : List Nat
  wds           : List Nat
  amounts       : List Nat             -- `depositAmounts` (Gwei, defaults filled in, not yet deduplicated)
  gas           : Nat                  -- `conf.TargetGasLimit`
  minor         : Nat
  secrets       : List SK
  useNow        : Bool                 -- `conf.SplitKeys`: registrations carry the current time
  keysToDisk    : Bool                 -- `len(conf.KeymanagerAddrs) == 0`

/-- `hasDistinctAddrs`. -/
def hasDistinctAddrs (addrs : List Nat) : Bool :=
  match addrs with
  | [] => false
  | a :: _ => addrs.any (· != a)

section Plan
variable {SK : Type} [DecidableEq SK]

/-- `getKeys` as `runCreateCluster` calls it (no keys without `--split-existing-keys`); `checkUniqueKeys` on both
loader paths. -/
def planKeys (fx : Fixes) (c : Config) (d : Definition) (env : Env SK) : Except Err (List SK) :=
  let useSeq := if c.defFile then hasDistinctAddrs d.wds || hasDistinctAddrs d.fees
                else decide (c.wds.length > 1) || decide (c.fees.length > 1)
  if c.splitKeys then
    (if !c.splitDirSet then .error .splitDir
     else match env.loadKeys useSeq with
       | none => .error .keysLoad
       | some ks => if fx.uniqueKeys && !decide ks.Nodup then .error .dupKey else .ok ks)
  else .ok []

/-- the definition: validated from the file, or made from the flags (`numKeys` keys were read).
Result: operators, threshold, validators, fee recipients, withdrawal addresses, amounts, gas limit, compounding, version. -/
def planDef (fx : Fixes) (c : Config) (d : Definition) (numKeys : Nat) :
    Except Err (Nat × Nat × Nat × List Nat × List Nat × List Nat × Nat × Bool × Nat) :=
  let numDVs := if c.splitKeys then numKeys else c.numDVs
  if c.defFile then
    (match validateDef fx c.insecure c.kmAddrs.length d with
     | .error e => .error e
     | .ok () => .ok (d.numOperators, d.threshold, d.numValidators, d.fees, d.wds, d.amounts, d.gas, d.compounding, d.minor))
  else
    (match validateAddresses numDVs c.fees c.wds with
     | .error e => .error e
     | .ok (fees, wds) =>
       if fees.length != numDVs || wds.length != numDVs then .error .defAddrCount   -- `cluster.NewDefinition`
       else if c.gas == 0 then .error .gasUnset
       else .ok (c.numNodes, safeThreshold c.numNodes c.threshold, numDVs, fees, wds,
                 ethsToGweis c.amountsEth, c.gas, c.compounding, currentMinor))

/-- the tail: default amounts, fresh keys if none were read, the key count check. -/
def planTail (c : Config) (env : Env SK) (secrets0 : List SK)
    (r : Nat × Nat × Nat × List Nat × List Nat × List Nat × Nat × Bool × Nat) : Except Err (Plan SK) :=
  match r with
  | (n, t, nv, fees, wds, amounts0, gas, compounding, minor) =>
    let amounts := if amounts0.isEmpty then defaultDepositAmounts compounding else amounts0
    let secrets := if secrets0.isEmpty then (List.range nv).map env.fresh else secrets0
    if secrets.length != nv then .error .keyCount
    else .ok { n, t, numValidators := nv, fees, wds, amounts, gas, minor, secrets,
               useNow := c.splitKeys, keysToDisk := c.kmAddrs.isEmpty }

/-- `runCreateCluster` from its first line up to (not including) `getTSSShares`. -/
def plan (fx : Fixes) (c0 : Config) (d : Definition) (env : Env SK) : Except Err (Plan SK) :=
  match preRun c0 with
  | .error e => .error e
  | .ok () =>
  if c0.defFile && (!d.loadOk || !defUnmarshalOk d || d.numValidators == 0) then .error .defLoad else
  let c : Config := if c0.defFile then { c0 with numNodes := d.numOperators, threshold := d.threshold } else c0
  match validateCreateConfig c env.existingLock with
  | .error e => .error e
  | .ok () =>
  match planKeys fx c d env with
  | .error e => .error e
  | .ok secrets0 =>
  match planDef fx c d secrets0.length with
  | .error e => .error e
  | .ok r => planTail c env secrets0 r

end Plan

/-! ### Key shares, deposit data, registrations, validators, lock -/

section Glue
variable {PK SK Sig M R : Type} [DecidableEq PK] [Inhabited SK]

/-- `getTSSShares`, inner loop: `secretSet[i-1] = shares[i]` for `i = 1..len(shares)`. -/
def shareArray (m : List (Nat × SK)) : List SK :=
  (List.range m.length).map fun i => (get? m (i + 1)).getD default

/-- `getTSSShares`: the `k`-th secret is split with randomness `rand k`; the first error ends it. -/
def tssSharesFrom (C : Crypto PK SK Sig M R) (rand : Nat → R) (n t : Nat) : Nat → List SK → Option (List (List SK))
  | _, [] => some []
  | k, s :: rest =>
    match C.split s (rand k) n t with
    | none => none
    | some m =>
      match tssSharesFrom C rand n t (k + 1) rest with
      | none => none
      | some r => some (shareArray m :: r)

def tssShares (C : Crypto PK SK Sig M R) (rand : Nat → R) (n t : Nat) (secrets : List SK) :
    Option (List PK × List (List SK)) :=
  (tssSharesFrom C rand n t 0 secrets).map fun sets => (secrets.map C.pub, sets)

/-- `signDepositDatas`: per amount, one entry per secret in the order of `secrets`. -/
def signDepositDatas (C : Crypto PK SK Sig M R) (secrets : List SK) (wds : List Nat) (amounts : List Nat) :
    Except Err (List (List (DepositData PK Sig))) :=
  if secrets.length != wds.length then .error .wdLen
  else if amounts.isEmpty then .error .noAmounts
  else .ok (amounts.map fun a => (secrets.zip wds).map fun sw =>
    let msg : DepositMsg PK := ⟨C.pub sw.1, sw.2, a⟩
    ⟨msg.pubKey, msg.wd, msg.amount, C.sign sw.1 (C.depositRoot msg)⟩)

/-- `createDepositDatas`. -/
def createDepositDatas (C : Crypto PK SK Sig M R) (wds : List Nat) (secrets : List SK) (amounts : List Nat) :
    Except Err (List (List (DepositData PK Sig))) :=
  if secrets.length != wds.length then .error .wdLen
  else if amounts.isEmpty then .error .noAmounts
  else signDepositDatas C secrets wds (dedupAmounts amounts)

/-- `signValidatorRegistrations`: `clock k` is the timestamp of the `k`-th registration
(`time.Now()` in split mode, else the genesis time of the fork version). -/
def signRegsFrom (C : Crypto PK SK Sig M R) (gas : Nat) (clock : Nat → Nat) : Nat → List (SK × Nat) → List (Registration PK Sig)
  | _, [] => []
  | k, (s, fee) :: rest =>
    let msg : RegMsg PK := ⟨C.pub s, fee, gas, clock k⟩
    ⟨msg.pubKey, msg.fee, msg.gas, msg.ts, C.sign s (C.regRoot msg)⟩ :: signRegsFrom C gas clock (k + 1) rest

def signRegs (C : Crypto PK SK Sig M R) (secrets : List SK) (fees : List Nat) (gas : Nat) (clock : Nat → Nat) :
    Except Err (List (Registration PK Sig)) :=
  if secrets.length != fees.length then .error .feeLen
  else .ok (signRegsFrom C gas clock 0 (secrets.zip fees))

/-- `createValidatorRegistrations`: gas limit 0 becomes the default. -/
def createRegs (C : Crypto PK SK Sig M R) (fees : List Nat) (secrets : List SK) (gas : Nat) (clock : Nat → Nat) :
    Except Err (List (Registration PK Sig)) :=
  if fees.length != secrets.length then .error .feeLen
  else signRegs C secrets fees (if gas == 0 then defaultGasLimit else gas) clock

/-- `for i, reg := range valRegs { … break }`: the first registration of that key. -/
def findReg (pk : PK) : List (Registration PK Sig) → Option (Registration PK Sig)
  | [] => none
  | r :: rest => if r.pubKey = pk then some r else findReg pk rest

/-- `depositDatasMap[pk]`: the entries of that key, amount-major. -/
def depositsFor (pk : PK) (depositDatas : List (List (DepositData PK Sig))) : List (DepositData PK Sig) :=
  depositDatas.flatten.filter (fun dd => decide (dd.pubKey = pk))

/-- `getValidators`: `idx` is the position in `dvsPubkeys`. -/
def getValidatorsFrom (C : Crypto PK SK Sig M R) (shareSets : List (List SK))
    (depositDatas : List (List (DepositData PK Sig))) (valRegs : List (Registration PK Sig)) :
    Nat → List PK → Except Err (List (DistValidator PK Sig))
  | _, [] => .ok []
  | idx, dv :: rest =>
    match shareSets[idx]? with
    | none => .error .panic                        -- `dvPrivShares[idx]` out of range
    | some privShares =>
      match findReg dv valRegs with
      | none => .error .noreg
      | some reg =>
        match depositsFor dv depositDatas with
        | [] => .error .nodd                       -- the key is in the map iff an entry was appended
        | dds =>
          match getValidatorsFrom C shareSets depositDatas valRegs (idx + 1) rest with
          | .error e => .error e
          | .ok r => .ok (⟨dv, privShares.map C.pub, dds, some reg⟩ :: r)

def getValidators (C : Crypto PK SK Sig M R) (pubkeys : List PK) (shareSets : List (List SK))
    (depositDatas : List (List (DepositData PK Sig))) (valRegs : List (Registration PK Sig)) :
    Except Err (List (DistValidator PK Sig)) :=
  getValidatorsFrom C shareSets depositDatas valRegs 0 pubkeys

/-- `aggSign`: every share of every validator (validator-major) signs the message; plain aggregate. -/
def aggSign (C : Crypto PK SK Sig M R) (shareSets : List (List SK)) (msg : M) : Sig :=
  C.aggregate (shareSets.flatten.map fun sk => C.sign sk msg)

/-- `writeKeysToDisk` / `writeKeysToKeymanager`: node `i` gets `shares[i]` of every validator, in
validator order (`shares[i]` out of range would panic: `default`). -/
def nodeSecrets (shareSets : List (List SK)) (i : Nat) : List SK :=
  shareSets.map fun shares => (shares[i]?).getD default

/-- what the JSON form of a lock of version `v1.<minor>` keeps of a validator
(`distValidatorsToV1x2to5` / `V1x6` / `V1x7` / `V1x8OrLater`). -/
def projectValidator (minor : Nat) (v : DistValidator PK Sig) : DistValidator PK Sig :=
  { v with
    deposits := if minor ≥ 8 then v.deposits else if minor ≥ 6 then v.deposits.take 1 else [],
    reg := if minor ≥ 7 then v.reg else none }

/-- lock assembly: `Lock{Definition, Validators}`, `SetLockHash`, `aggSign`, one node signature per
operator key, as `writeLock` marshals it for the definition's version. -/
def mkLock (C : Crypto PK SK Sig M R) (p : Plan SK) (uuid : Nat) (vals : List (DistValidator PK Sig))
    (shareSets : List (List SK)) : Lock PK Sig M :=
  let pv := vals.map (projectValidator p.minor)
  let hash := C.lockHash p.minor uuid p.n p.t p.numValidators p.fees pv
  { minor := p.minor, defOk := true, uuid := uuid, numOperators := p.n, threshold := p.t,
    numValidators := p.numValidators, fees := p.fees, validators := pv, hash := hash,
    sigAgg := some (aggSign C shareSets hash),
    nodeSigs := if p.minor ≥ 7 then List.replicate p.n true else [] }

/-! ### `runCreateCluster` with its writes -/

/-- sequential writes: the first failing step ends the sequence. -/
def writeSeq (io : Step → Bool) : List (Step × Write PK SK Sig M) → List (Write PK SK Sig M) × Option Step
  | [] => ([], none)
  | (s, w) :: rest =>
    if io s then
      let r := writeSeq io rest
      (w :: r.1, r.2)
    else ([], some s)

def p2pSteps (n : Nat) : List (Step × Write PK SK Sig M) :=
  (List.range n).map fun i => (.p2p i, .p2p i)

def keySteps (n : Nat) (shareSets : List (List SK)) : List (Step × Write PK SK Sig M) :=
  (List.range n).map fun i => (.keys i, .keys i (nodeSecrets shareSets i))

/-- `writeKeysToKeymanager`: every keymanager is pinged first, then one import per node. -/
def kmSteps (n : Nat) (shareSets : List (List SK)) : List (Step × Write PK SK Sig M) :=
  ((List.range n).map fun i => ((.kmPing i, .ping i) : Step × Write PK SK Sig M)) ++
  (List.range n).map fun i => (.kmImport i, .kmImport i (nodeSecrets shareSets i))

/-- `deposit.WriteClusterDepositDataFiles`: amount-major, node-minor. -/
def depSteps (n : Nat) (depositDatas : List (List (DepositData PK Sig))) : List (Step × Write PK SK Sig M) :=
  depositDatas.flatMap fun dd =>
    let a := (dd.head?.map (·.amount)).getD 0
    (List.range n).map fun i => (.dep a i, .dep a i dd)

def lockSteps (n : Nat) (l : Lock PK Sig M) : List (Step × Write PK SK Sig M) :=
  (List.range n).map fun i => (.lock i, .lock i l)

/-- `runCreateCluster` from `getTSSShares` on: the trace of completed writes and the result. -/
def runCreate (C : Crypto PK SK Sig M R) (p : Plan SK) (rand : Nat → R) (uuid : Nat) (clock : Nat → Nat)
    (io : Step → Bool) : List (Write PK SK Sig M) × Except Err (Lock PK Sig M) :=
  match tssShares C rand p.n p.t p.secrets with
  | none => ([], .error .split)
  | some (pubkeys, shareSets) =>
    let w1 := writeSeq io (p2pSteps (PK := PK) (SK := SK) (Sig := Sig) (M := M) p.n)
    match w1.2 with
    | some s => (w1.1, .error (.io s))
    | none =>
      let w2 := writeSeq io (if p.keysToDisk then keySteps p.n shareSets else kmSteps p.n shareSets)
      match w2.2 with
      | some s => (w1.1 ++ w2.1, .error (.io s))
      | none =>
        match createDepositDatas C p.wds p.secrets p.amounts with
        | .error e => (w1.1 ++ w2.1, .error e)
        | .ok depositDatas =>
          let w3 := writeSeq io (depSteps p.n depositDatas)
          match w3.2 with
          | some s => (w1.1 ++ w2.1 ++ w3.1, .error (.io s))
          | none =>
            match createRegs C p.fees p.secrets p.gas clock with
            | .error e => (w1.1 ++ w2.1 ++ w3.1, .error e)
            | .ok valRegs =>
              match getValidators C pubkeys shareSets depositDatas valRegs with
              | .error e => (w1.1 ++ w2.1 ++ w3.1, .error e)
              | .ok vals =>
                let lock := mkLock C p uuid vals shareSets
                let w4 := writeSeq io (lockSteps p.n lock)
                match w4.2 with
                | some s => (w1.1 ++ w2.1 ++ w3.1 ++ w4.1, .error (.io s))
                | none => (w1.1 ++ w2.1 ++ w3.1 ++ w4.1, .ok lock)

/-! ### What `cluster.LoadClusterLock` checks -/

variable [DecidableEq Sig] [DecidableEq M]

/-- `subset[i+1] = shares[i]`. -/
def indexed (l : List PK) : List (Nat × PK) := l.zipIdx.map fun e => (e.2 + 1, e.1)

/-- `verifySharesReconstruct`. -/
def sharesReconstruct (C : Crypto PK SK Sig M R) (dvKey : PK) (shares : List PK) (t : Nat) : Bool :=
  if t < 1 || t > shares.length then false
  else
    C.recoverPub (indexed (shares.take t)) == some dvKey &&
    (List.range' t (shares.length - t)).all fun i =>
      match shares[i]? with
      | none => false
      | some sh => C.recoverPub (indexed (shares.take (t - 1)) ++ [(i + 1, sh)]) == some dvKey

/-- `verifyBuilderRegistrations` for validator `i`. -/
def verifyReg (C : Crypto PK SK Sig M R) (minor : Nat) (fee : Option Nat) (v : DistValidator PK Sig) : Bool :=
  match v.reg with
  | none => decide (minor < 7)                       -- "missing validator registration" from v1.7 on
  | some reg =>
    if minor < 7 then false                          -- "unexpected validator registration"
    else match fee with
      | none => false                                -- `feeRecipientAddrs[i]` out of range
      | some f =>
        decide (reg.fee = f) && decide (reg.pubKey = v.pubKey) &&
        C.verify v.pubKey (C.regRoot ⟨v.pubKey, f, reg.gas, reg.ts⟩) reg.sig

/-- `verifyNodeSignatures`. -/
def verifyNodeSigs (minor numOperators : Nat) (nodeSigs : List Bool) : Bool :=
  if minor < 7 then nodeSigs.isEmpty
  else nodeSigs.length == numOperators && nodeSigs.all id

/-- `Lock.VerifyHashes` and `Lock.VerifySignatures`. -/
def verifyLock (C : Crypto PK SK Sig M R) (l : Lock PK Sig M) : Bool :=
  l.defOk && l.validators.length == l.numValidators &&
  decide (l.hash = C.lockHash l.minor l.uuid l.numOperators l.threshold l.numValidators l.fees l.validators) &&
  match l.sigAgg with
  | none => decide (l.minor ≤ 1)                     -- v1.0 / v1.1: nothing else is checked
  | some sig =>
    l.validators.all (fun v => v.pubShares.length == l.numOperators) &&
    decide (l.validators.map (·.pubKey)).Nodup &&
    l.validators.all (fun v => decide v.pubShares.Nodup && sharesReconstruct C v.pubKey v.pubShares l.threshold) &&
    C.verifyAgg (l.validators.flatMap (·.pubShares)) sig l.hash &&
    (l.validators.zipIdx.all fun e => verifyReg C l.minor l.fees[e.2]? e.1) &&
    verifyNodeSigs l.minor l.numOperators l.nodeSigs

/-- `cluster.LoadClusterLock(path, noVerify)`: `none` = error; `file = none` = unreadable / not JSON. -/
def loadClusterLock (C : Crypto PK SK Sig M R) (noverify : Bool) (file : Option (Lock PK Sig M)) : Option (Lock PK Sig M) :=
  match file with
  | none => none
  | some l => if noverify || verifyLock C l then some l else none

/-! ### `charon combine` -/

/-- `keystore.KeyFile`: `index = none` is `FileIndex = -1`. -/
structure KeyFile (SK : Type) where
  index  : Option Nat
  secret : SK

/-- one entry of the input directory. -/
structure Dir (PK SK Sig M : Type) where
  isDir   : Bool := true
  hasKeys : Bool := true                         -- `os.ReadDir(<dir>/validator_keys)` succeeds
  lock    : Option (Lock PK Sig M)               -- `cluster-lock.json` parsed (none: missing / unreadable)
  files   : Option (List (KeyFile SK))           -- `keystore.LoadFilesUnordered` (none: no keystore, undecryptable, …); any order

inductive CErr where
  | manifestLoad     -- "manifest load error"
  | lockMismatch     -- "mismatching last mutation hash"
  | noManifest       -- "no manifest file found"
  | loadKeys         -- "load private key share"
  | sequence         -- "order private key shares"
  | insufficient     -- "insufficient private key shares found for validator"
  | panic            -- `lock.Validators[valIndex]` out of range
  | notFound         -- "secret key share not found"
  | recover          -- "recover private key share"
  | keyMismatch      -- "unexpected resulting combined validator public key"
  | exists           -- "refusing to overwrite existing private key share"
  deriving DecidableEq, Repr

/-- `loadManifest`: entries in `os.ReadDir` order; the LAST lock is returned. -/
def loadManifest (C : Crypto PK SK Sig M R) (noverify : Bool) :
    List (Dir PK SK Sig M) → Option (Lock PK Sig M) → List (Dir PK SK Sig M) →
    Except CErr (Lock PK Sig M × List (Dir PK SK Sig M))
  | [], none, _ => .error .noManifest
  | [], some l, acc => .ok (l, acc)
  | d :: rest, last, acc =>
    if !d.isDir || !d.hasKeys then loadManifest C noverify rest last acc
    else
      match loadClusterLock C noverify d.lock with
      | none => .error .manifestLoad
      | some cl =>
        if !noverify && (match last with | some l => decide (l.hash ≠ cl.hash) | none => false) then .error .lockMismatch
        else loadManifest C noverify rest (some cl) (acc ++ [d])

/-- `KeyFiles.SequencedKeys`: an error iff a file has no index, an index `≥ len`, or two files share
an index; else slot `i` holds the key of the file with index `i`. -/
def sequencedKeys (files : List (KeyFile SK)) : Option (List SK) :=
  if files.all (fun f => match f.index with | some i => decide (i < files.length) | none => false) &&
     decide (files.map (·.index)).Nodup then
    some ((List.range files.length).map fun i =>
      ((files.find? fun f => f.index == some i).map (·.secret)).getD default)
  else none

/-- the loop over `possibleKeyPaths`: per directory its keys in file-index order. -/
def loadAllKeys : List (Dir PK SK Sig M) → Except CErr (List (List SK))
  | [] => .ok []
  | d :: rest =>
    match d.files with
    | none => .error .loadKeys
    | some [] => .error .loadKeys            -- `LoadFilesUnordered`: "no keys found"
    | some files =>
      match sequencedKeys files with
      | none => .error .sequence
      | some secrets =>
        match loadAllKeys rest with
        | .error e => .error e
        | .ok r => .ok (secrets :: r)

/-- `privkeys[valIdx]`: the keys with file index `valIdx`, in directory order. -/
def pkSet (perDir : List (List SK)) (valIdx : Nat) : List SK := perDir.filterMap (·[valIdx]?)

/-- `len(privkeys)`: the file indices are `0..len-1` in every directory. -/
def numKeyIdx (perDir : List (List SK)) : Nat := perDir.foldl (fun m l => max m l.length) 0

/-- `pubkMap` of `shareIdxByPubkeys`: public share ↦ peer index + 1 (a later equal share overwrites). -/
def pubkMap (pubShares : List PK) : List (PK × Nat) :=
  pubShares.zipIdx.foldl (fun m e => put m e.1 (e.2 + 1)) []

/-- second loop of `shareIdxByPubkeys`; `none` = "secret key share not found". -/
def idxShares (C : Crypto PK SK Sig M R) (m : List (PK × Nat)) : List SK → List (Nat × SK) → Option (List (Nat × SK))
  | [], acc => some acc
  | s :: r, acc =>
    match get? m (C.pub s) with
    | none => none
    | some i => idxShares C m r (put acc i s)

/-- one iteration of `for valIdx := range len(privkeys)`. -/
def combineOne (C : Crypto PK SK Sig M R) (lock : Lock PK Sig M) (valIdx : Nat) (set : List SK) : Except CErr SK :=
  if set.length < lock.threshold then .error .insufficient
  else
    match lock.validators[valIdx]? with
    | none => .error .panic
    | some val =>
      match idxShares C (pubkMap val.pubShares) set [] with
      | none => .error .notFound
      | some shares =>
        match C.recover shares with
        | none => .error .recover
        | some secret => if C.pub secret = val.pubKey then .ok secret else .error .keyMismatch

def combineLoop (C : Crypto PK SK Sig M R) (lock : Lock PK Sig M) (perDir : List (List SK)) : List Nat → Except CErr (List SK)
  | [] => .ok []
  | valIdx :: rest =>
    match combineOne C lock valIdx (pkSet perDir valIdx) with
    | .error e => .error e
    | .ok secret =>
      match combineLoop C lock perDir rest with
      | .error e => .error e
      | .ok r => .ok (secret :: r)

/-- `Combine`: `.ok secrets` = the keystores written to the output directory (keystore `k` holds
`secrets[k]`); every `.error` is returned before anything is written or removed. `outHasKeystore0`:
`<output>/keystore-0.json` exists. -/
def combine (C : Crypto PK SK Sig M R) (noverify force : Bool) (dirs : List (Dir PK SK Sig M))
    (outHasKeystore0 : Bool) : Except CErr (List SK) :=
  match loadManifest C noverify dirs none [] with
  | .error e => .error e
  | .ok (lock, paths) =>
    match loadAllKeys paths with
    | .error e => .error e
    | .ok perDir =>
      match combineLoop C lock perDir (List.range (numKeyIdx perDir)) with
      | .error e => .error e
      | .ok secrets => if outHasKeystore0 && !force then .error .exists else .ok secrets

/-- `node<i>/cluster-lock.json` after the writes `ws`. -/
def traceLock (ws : List (Write PK SK Sig M)) (i : Nat) : Option (Lock PK Sig M) :=
  ws.findSome? fun w => match w with
    | .lock j l => if j = i then some l else none
    | _ => none

/-- the keystores of `node<i>/validator_keys` after the writes `ws`. -/
def traceKeys (ws : List (Write PK SK Sig M)) (i : Nat) : Option (List SK) :=
  ws.findSome? fun w => match w with
    | .keys j s => if j = i then some s else none
    | _ => none

/-- the cluster directory as `combine` sees it after the writes `ws`: `node0 … node<n-1>`; a node
without `validator_keys` is skipped by `loadManifest`, an empty `validator_keys` has "no keys". -/
def diskDirs (n : Nat) (ws : List (Write PK SK Sig M)) : List (Dir PK SK Sig M) :=
  (List.range n).map fun i =>
    { isDir := true, hasKeys := (traceKeys ws i).isSome, lock := traceLock ws i,
      files := match traceKeys ws i with
        | none => none
        | some [] => none
        | some s => some (s.zipIdx.map fun e => ⟨some e.2, e.1⟩) }

/-- the node directory `create cluster` leaves for node `i` once everything is written. -/
def createdDir (l : Lock PK Sig M) (secrets : List SK) (order : List Nat) : Dir PK SK Sig M :=
  { lock := some l, files := some (order.map fun k => ⟨some k, (secrets[k]?).getD default⟩) }

end Glue

end CharonV.CreateGlue
