import CharonV.Model.QbftWire
/-
Model of the per-instance consensus transport of `core/consensus/qbft`:

* `transport.go`  `newTransport`, `setValues`, `getValue`, `Broadcast` (hash collection, the value
                  look-ups with the one-shot poll of `valueCh`, `createMsg` with `signMsg`, the
                  self-delivery goroutine, the hand-over to the broadcaster), `ProcessReceives`
                  (`setValues`, forwarding into the instance buffer), `createMsg`
* `msg.go`        `newMsg` (through `QbftWire.newMsg`, keeping the protos), `ToConsensusMsg`,
                  the accessors `Value()`, `PreparedValue()`, `Msg()`, `Values()`
* `qbft.go`       the `Decide` callback of `newDefinition` (`qcommit[0].Values()[valueHash]`,
                  `UnmarshalNew`, `decideCallback`, the subscribers)

It composes with `Model/QbftWire.lean` (same `Crypto`, `Core`, `VMap`, `toHash32`, `checkRefs`,
`newMsg`, `valuesByHash`): `admitMsg` is the tail of `handle` (valuesByHash + newMsg) that builds the
`Msg` which `handle` puts into the outer buffer and `ProcessReceives` takes out of it.

Values and hashes are symbolic ids; nothing is assumed about `Crypto` here. Signing is the
symbolic `sign : Digest → SigB`. Goroutines: the self-delivery goroutine of every successful
`Broadcast` is parked on the unbuffered inner buffer (`pending`) until the reader (qbft.Run) takes
it (`Ev.selfDeliver i`, any order); `ProcessReceives` handles one message at a time (`Ev.receive`:
`setValues`, then the reader takes it). Core Lean only.
-/
namespace CharonV.Transport

open CharonV.QbftWire

/-- `Msg` of msg.go: the signed proto, `justificationProtos`, the shared `values` map. `valueHash` /
`preparedValueHash` are functions of the proto (`newMsg` is the only constructor). -/
structure TMsg where
  pb : Core
  just : List Core
  values : VMap
  deriving DecidableEq, Repr

/-- `Msg.Value()` (`none` = the zero hash) -/
def TMsg.value (m : TMsg) : Option Hash := toHash32 m.pb.fields.valueHash

/-- `Msg.PreparedValue()` -/
def TMsg.preparedValue (m : TMsg) : Option Hash := toHash32 m.pb.fields.preparedValueHash

/-- what the `qbft.Msg` accessors show (the `MsgView` of `Model/QbftWire.lean`). -/
def TMsg.view (m : TMsg) : MsgView :=
  { core := coreView m.pb, just := m.just.map coreView, values := m.values }

/-- `newMsg(pbMsg, justification, values)` keeping the protos. -/
def newTMsg (c : Core) (just : List Core) (vals : VMap) : Except Reason TMsg :=
  match QbftWire.newMsg c just vals with
  | .error r => .error r
  | .ok _ => .ok { pb := c, just := just, values := vals }

/-- the tail of `handle`: `valuesByHash(pbMsg.GetValues())` then `newMsg`. -/
def admitMsg (C : Crypto) (c : Core) (just : List Core) (wireVals : List Val) : Except Reason TMsg :=
  match valuesByHash C wireVals [] with
  | none => .error .values
  | some vals => newTMsg c just vals

/-- the bindings of a Go map given as shadowing association list: first binding per key. -/
def entries : VMap → List Hash → VMap
  | [], _ => []
  | (h, v) :: rest, seen => if seen.contains h then entries rest seen else (h, v) :: entries rest (h :: seen)

/-- `ToConsensusMsg`: the values of the map (Go iterates in arbitrary order; the model lists them
oldest binding first). -/
def TMsg.wire (m : TMsg) : Wire :=
  { main := some m.pb, just := m.just, values := ((entries m.values []).map (·.2)).reverse }

/-- bytes written by `vHash[:]` for a `[32]byte`: always 32 bytes, all zero for the zero hash. -/
def hbytes : Option Hash → HBytes
  | none => .other 0
  | some h => .ok h

/-- arguments of `transport.Broadcast` (`none` hash = `[32]byte{}`). -/
structure BArgs where
  type : Int
  duty : Duty
  peerIdx : Int
  round : Int
  value : Option Hash
  pr : Int
  pvalue : Option Hash
  just : List TMsg
  deriving DecidableEq, Repr

/-- the `pbv1.QBFTMsg` of `createMsg` before signing (`core.DutyToProto`). -/
def fieldsOf (a : BArgs) : Fields :=
  { type := a.type, duty := some { slot := a.duty.slot, type := a.duty.type }, peerIdx := a.peerIdx,
    round := a.round, preparedRound := a.pr, valueHash := hbytes a.value,
    preparedValueHash := hbytes a.pvalue }

/-- "Get all hashes": value, prepared value, then both of every justification in order. -/
def hashesOf (a : BArgs) : List (Option Hash) :=
  a.value :: a.pvalue :: a.just.flatMap (fun j => [j.value, j.preparedValue])

structure State where
  cache : VMap := []                    -- `t.values`
  valueCh : List (Hash × Val) := []     -- unread `instance.ValueWithHash` pairs (value already any-wrapped)
  pending : List TMsg := []             -- own messages parked in the self-delivery goroutines
  sent : List TMsg := []                -- handed to the broadcaster, oldest first
  selfDelivered : List TMsg := []       -- own messages the reader took from the inner buffer
  delivered : List TMsg := []           -- everything the reader took from the inner buffer, oldest first
  deriving DecidableEq, Repr

/-- `getValue`: poll `valueCh` once (a read pair is cached under its precomputed hash, replacing any
entry), then look the hash up. -/
def getValue (s : State) (h : Hash) : State × Option Val :=
  let s' := match s.valueCh with
    | [] => s
    | (ph, pv) :: rest => { s with cache := (ph, pv) :: s.cache, valueCh := rest }
  (s', s'.cache.get h)

/-- the loop "Get values by their hashes if not zero"; `none` = `getValue` failed ("unknown value").
The state changes of the polls made so far persist. -/
def collect : State → List (Option Hash) → VMap → State × Option VMap
  | s, [], acc => (s, some acc)
  | s, none :: rest, acc => collect s rest acc
  | s, some h :: rest, acc =>
    if (acc.get h).isSome then collect s rest acc
    else
      match getValue s h with
      | (s', none) => (s', none)
      | (s', some v) => collect s' rest ((h, v) :: acc)

/-- `createMsg`: sign, take the protos of the justifications ("nested justifications are ignored"),
`newMsg`. -/
def createMsg (C : Crypto) (sign : C.Digest → SigB) (a : BArgs) (vals : VMap) : Except Reason TMsg :=
  let f := fieldsOf a
  newTMsg { fields := f, sig := some (sign (C.digest f)) } (a.just.map (·.pb)) vals

inductive BErr where
  | unknownValue          -- `getValue`: "unknown value"
  | create (r : Reason)   -- `createMsg` / `newMsg` failed
  deriving DecidableEq, Repr

/-- `Broadcast`. On success the message is parked for self-delivery and handed to the broadcaster
(whose own error, if any, is returned to the caller after both happened). -/
def broadcast (C : Crypto) (sign : C.Digest → SigB) (s : State) (a : BArgs) : State × Except BErr TMsg :=
  match collect s (hashesOf a) [] with
  | (s', none) => (s', .error .unknownValue)
  | (s', some vals) =>
    match createMsg C sign a vals with
    | .error r => (s', .error (.create r))
    | .ok m => ({ s' with pending := s'.pending ++ [m], sent := s'.sent ++ [m] }, .ok m)

/-- `setValues`: `maps.Copy(t.values, msg.Values())`. -/
def setValues (s : State) (m : TMsg) : State := { s with cache := m.values ++ s.cache }

/-- one round of `ProcessReceives` with the reader taking the message. -/
def receive (s : State) (m : TMsg) : State :=
  let s' := setValues s m
  { s' with delivered := s'.delivered ++ [m] }

/-- the reader takes the `i`-th parked own message. -/
def selfDeliver (s : State) (i : Nat) : State :=
  match s.pending[i]? with
  | none => s
  | some m => { s with pending := s.pending.eraseIdx i, selfDelivered := s.selfDelivered ++ [m],
                       delivered := s.delivered ++ [m] }

/-- `propose` feeding `inst.ValueCh` (value any-wrapped here instead of in `getValue`). -/
def propose (s : State) (h : Hash) (v : Val) : State := { s with valueCh := s.valueCh ++ [(h, v)] }

inductive Ev where
  | propose (h : Hash) (v : Val)
  | broadcast (a : BArgs)
  | selfDeliver (i : Nat)
  | receive (m : TMsg)
  deriving Repr

def step (C : Crypto) (sign : C.Digest → SigB) (s : State) : Ev → State
  | .propose h v => propose s h v
  | .broadcast a => (broadcast C sign s a).1
  | .selfDeliver i => selfDeliver s i
  | .receive m => receive s m

def run (C : Crypto) (sign : C.Digest → SigB) (s : State) : List Ev → State
  | [] => s
  | e :: es => run C sign (step C sign s e) es

/-- `Decide` callback: `qcommit[0].Values()[valueHash]` then `UnmarshalNew`; `none` = an error is
logged and neither `decideCallback` nor any subscriber is called. -/
def decideOut (C : Crypto) (qcommit0 : TMsg) (h : Option Hash) : Option Inner :=
  match h with
  | none => none                           -- the zero hash is never a key of a values map
  | some h => (decideValue qcommit0.view h).bind C.unmarshalAny

end CharonV.Transport
