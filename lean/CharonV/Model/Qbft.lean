/-
Implementation model of `core/qbft/qbft.go` (`Run` and all its helpers) — executable, core Lean only.

One `NodeState` mirrors the closure state of one `Run` call; `step` mirrors one iteration of
its event loop (plus `start` for the code before the loop). Values are `Nat` (0 = Go zero value),
message types are numbered as in Go (1 PRE-PREPARE … 5 DECIDED), upon-rules likewise (1…8).

Faithfulness notes (each is exercised by the correspondence driver `drive-qbft`):
* Justifications are lists of *cores* (messages without attachments): the production transport
  drops nested justifications (`createMsg`: "nested justifications are ignored") and every use of
  a justification list inside `Run` reads top-level fields only.
* Go map iteration order is an explicit oracle: `srcOrd` orders the sources of `buffer` in
  `flatten`; `pqPerm` orders the candidate quorums of `getPrepareQuorums`. Theorems hold for
  every oracle; the driver searches the oracle space for Go's observed output.
* `Compare` is a parameter of the `recv` event: `.ok`, `.fail` (errCompare) or `.timeout`
  (the round timer fired while `compare` was blocked).
* Panics tagged "bug:" are `Out.bug` outputs.
-/
namespace CharonV.Qbft

/-! ### Messages -/

structure Core where
  typ   : Nat
  src   : Nat
  round : Nat
  value : Nat
  pr    : Nat
  pv    : Nat
  deriving DecidableEq, Repr, Inhabited

structure Msg where
  core : Core
  just : List Core := []
  deriving DecidableEq, Repr, Inhabited

def tPrePrepare : Nat := 1
def tPrepare : Nat := 2
def tCommit : Nat := 3
def tRoundChange : Nat := 4
def tDecided : Nat := 5

-- upon rules (UponRule iota order)
def uNothing : Nat := 0
def uJustifiedPrePrepare : Nat := 1
def uQuorumPrepares : Nat := 2
def uQuorumCommits : Nat := 3
def uUnjustQuorumRoundChanges : Nat := 4
def uFPlus1RoundChanges : Nat := 5
def uQuorumRoundChanges : Nat := 6
def uJustifiedDecided : Nat := 7
def uRoundTimeout : Nat := 8

def maxDecidedResends : Nat := 16

structure Def where
  nodes  : Nat
  fifo   : Nat
  leader : Nat → Nat      -- `IsLeader(instance, round, p)` ⇔ `leader round = p`

/-- `Definition.Quorum`: `ceil(2n/3)`. -/
def Def.quorum (d : Def) : Nat := (2 * d.nodes + 2) / 3
/-- `Definition.Faulty`: `floor((n-1)/3)`. -/
def Def.faulty (d : Def) : Nat := (d.nodes - 1) / 3

structure Oracle where
  srcOrd : List Nat := []   -- preferred order of buffer sources (others follow in stored order)
  pqPerm : Nat := 0         -- index of the permutation applied to the candidate prepare quorums
  deriving Repr

inductive CmpOut where
  | ok | fail | timeout
  deriving DecidableEq, Repr

inductive Event where
  | start
  | input (v : Nat)
  | recv (m : Msg) (c : CmpOut)
  | timeout
  deriving Repr

inductive Out where
  | bcast (typ round value pr pv : Nat) (just : List Core)
  | decide (value round : Nat) (qcommit : List Core)
  | unjust (m : Core)
  | rule (r : Nat) (round : Nat)                 -- LogUponRule (rule, current round before handling)
  | roundChange (old new rule : Nat)             -- LogRoundChange
  | newTimer (round : Nat)
  | stopTimer
  | bug (what : String)
  | exit (what : String)                         -- Run returned an error
  deriving Repr

structure NodeState where
  proc     : Nat
  round    : Nat := 1
  inputValue : Nat := 0
  inputDone  : Bool := false              -- inputValueCh was set to nil
  ppjCache : Option (List Core) := none
  preparedRound : Nat := 0
  preparedValue : Nat := 0
  compareFailureRound : Nat := 0
  preparedJust : List Core := []
  qCommit  : List Core := []
  qCommitValue : Nat := 0
  buffer   : List (Nat × List Msg) := []  -- source ↦ FIFO (oldest first); list order = first insertion
  dedup    : List (Nat × Nat) := []       -- (rule, round)
  resends  : List (Nat × Nat × Nat) := [] -- source ↦ (highest round, count)
  timerOn  : Bool := false
  started  : Bool := false                -- `Run` was called (the code before the loop has run)
  dead     : Bool := false                -- Run returned
  deriving Repr

/-! ### Helpers (one per Go function) -/

/-- optional filter: `some v` rejects everything different from `v`. -/
def optNe (o : Option Nat) (x : Nat) : Bool :=
  match o with
  | some v => x != v
  | none => false

/-- `uniqSource` + `filterMsgs`: first message per source matching type, round and the optional
value / pr / pv filters, in list order. -/
def filterMsgs (msgs : List Core) (typ round : Nat) (value pr pv : Option Nat) : List Core :=
  let rec go (seen : List Nat) : List Core → List Core
    | [] => []
    | m :: ms =>
      if m.typ ≠ typ ∨ m.round ≠ round then go seen ms
      else if optNe value m.value then go seen ms
      else if optNe pv m.pv then go seen ms
      else if optNe pr m.pr then go seen ms
      else if m.src ∈ seen then go seen ms
      else m :: go (m.src :: seen) ms
  go [] msgs

def filterByRoundAndValue (msgs : List Core) (typ round value : Nat) : List Core :=
  filterMsgs msgs typ round (some value) none none

def filterRoundChange (msgs : List Core) (round : Nat) : List Core :=
  filterMsgs msgs tRoundChange round none none none

/-- order the buffer's sources: those named by the oracle first (in oracle order), rest as stored. -/
def orderBuffer (srcOrd : List Nat) (buf : List (Nat × List Msg)) : List (Nat × List Msg) :=
  let first := srcOrd.filterMap (fun s => buf.find? (fun e => e.1 == s))
  let rest := buf.filter (fun e => !(srcOrd.contains e.1))
  first ++ rest

/-- `flatten`: every buffered message followed by its justification cores. -/
def flatten (srcOrd : List Nat) (buf : List (Nat × List Msg)) : List Core :=
  (orderBuffer srcOrd buf).flatMap (fun e => e.2.flatMap (fun m => m.core :: m.just))

/-- `bufferMsg`. -/
def bufferMsg (fifo : Nat) (buf : List (Nat × List Msg)) (m : Msg) : List (Nat × List Msg) :=
  let trim (l : List Msg) : List Msg := if l.length > fifo then l.drop (l.length - fifo) else l
  if buf.any (fun e => e.1 == m.core.src) then
    buf.map (fun e => if e.1 == m.core.src then (e.1, trim (e.2 ++ [m])) else e)
  else buf ++ [(m.core.src, trim [m])]

/-- `isJustifiedRoundChange`. -/
def isJustifiedRoundChange (d : Def) (m : Msg) : Bool :=
  let prepares := m.just
  let pr := m.core.pr
  let pv := m.core.pv
  if prepares.isEmpty then pr == 0 && pv == 0
  else if prepares.length < d.quorum then false
  else
    let rec go (seen : List Nat) : List Core → Bool
      | [] => true
      | p :: ps =>
        if p.src ∈ seen then false
        else if p.typ ≠ tPrepare then false
        else if p.round ≠ pr then false
        else if p.value ≠ pv then false
        else go (p.src :: seen) ps
    go [] prepares

/-- `isJustifiedDecided`. -/
def isJustifiedDecided (d : Def) (m : Msg) : Bool :=
  decide ((filterMsgs m.just tCommit m.core.round (some m.core.value) none none).length ≥ d.quorum)

/-- `getSingleJustifiedPrPv`: (pr, pv, ok). -/
def getSingleJustifiedPrPv (d : Def) (msgs : List Core) : Nat × Nat × Bool :=
  let rec go (seen : List Nat) (pr pv count : Nat) : List Core → Nat × Nat × Bool
    | [] => (pr, pv, decide (count ≥ d.quorum))
    | m :: ms =>
      if m.typ ≠ tPrepare then go seen pr pv count ms
      else if m.src ∈ seen then (0, 0, false)
      else if count = 0 then go (m.src :: seen) m.round m.value 1 ms
      else if pr ≠ m.round ∨ pv ≠ m.value then (0, 0, false)
      else go (m.src :: seen) pr pv (count + 1) ms
  go [] 0 0 0 msgs

/-- `containsJustifiedQrc`: (pv, ok). -/
def containsJustifiedQrc (d : Def) (just : List Core) (round : Nat) : Nat × Bool :=
  let qrc := filterRoundChange just round
  if qrc.length < d.quorum then (0, false)
  else if qrc.all (fun rc => rc.pr == 0 && rc.pv == 0) then (0, true)
  else
    let r := getSingleJustifiedPrPv d just
    if !r.2.2 then (0, false)
    else if qrc.any (fun rc => decide (rc.pr > r.1)) then (0, false)
    else (r.2.1, qrc.any (fun rc => rc.pr == r.1 && rc.pv == r.2.1))

/-- `isJustifiedPrePrepare`. -/
def isJustifiedPrePrepare (d : Def) (m : Msg) (compareFailureRound : Nat) : Bool :=
  if d.leader m.core.round ≠ m.core.src then false
  else if m.core.value = 0 then false
  else if m.core.round = 1 ∨ m.core.round = compareFailureRound + 1 then true
  else
    let r := containsJustifiedQrc d m.just m.core.round
    if !r.2 then false
    else if r.1 = 0 then true
    else m.core.value == r.1

/-- `isJustified`: `none` = panic "bug: invalid message type". -/
def isJustified (d : Def) (m : Msg) (compareFailureRound : Nat) : Option Bool :=
  if m.core.typ = tPrePrepare then some (isJustifiedPrePrepare d m compareFailureRound)
  else if m.core.typ = tPrepare ∨ m.core.typ = tCommit then some true
  else if m.core.typ = tRoundChange then some (isJustifiedRoundChange d m)
  else if m.core.typ = tDecided then some (isJustifiedDecided d m)
  else none

/-- `quorumNullPrepared`. -/
def quorumNullPrepared (d : Def) (all : List Core) (round : Nat) : List Core × Bool :=
  let j := filterMsgs all tRoundChange round none (some 0) (some 0)
  (j, decide (j.length ≥ d.quorum))

/-- insert or replace by key -/
def upsert {α β : Type} [BEq α] (l : List (α × β)) (k : α) (v : β) : List (α × β) :=
  if l.any (fun e => e.1 == k) then l.map (fun e => if e.1 == k then (k, v) else e) else l ++ [(k, v)]

/-- k-th permutation of a list (factorial number system), by structural recursion on fuel. -/
def permKAux {α : Type} : Nat → Nat → List α → List α
  | 0, _, l => l
  | fuel + 1, k, l =>
    match l with
    | [] => []
    | _ =>
      let n := l.length
      let i := k % n
      match l[i]? with
      | none => l
      | some y => y :: permKAux fuel (k / n) (l.eraseIdx i)

def permK {α : Type} (k : Nat) (l : List α) : List α := permKAux l.length k l

/-- `getPrepareQuorums`: per (round,value) the last PREPARE per source; sets with ≥ quorum sources.
Order of sets (Go map order) = canonical first-appearance order permuted by the oracle. -/
def getPrepareQuorums (d : Def) (pqPerm : Nat) (all : List Core) : List (List Core) :=
  let sets : List ((Nat × Nat) × List (Nat × Core)) :=
    all.foldl (fun acc m =>
      if m.typ ≠ tPrepare then acc
      else
        let key := (m.round, m.value)
        let cur := match acc.find? (fun e => e.1 == key) with
                   | some e => e.2
                   | none => []
        upsert acc key (upsert cur m.src m)) []
  let qs := (sets.filter (fun e => decide (e.2.length ≥ d.quorum))).map (fun e => e.2.map (·.2))
  permK pqPerm qs

/-- `getJustifiedQrc`. -/
def getJustifiedQrc (d : Def) (pqPerm : Nat) (all : List Core) (round : Nat) : Option (List Core) :=
  -- `quorumNullPrepared`
  let qn := filterMsgs all tRoundChange round none (some 0) (some 0)
  if qn.length ≥ d.quorum then some qn
  else
    let roundChanges := filterRoundChange all round
    let rec tryQ : List (List Core) → Option (List Core)
      | [] => none
      | prepares :: rest =>
        match prepares with
        | [] => tryQ rest
        | p0 :: _ =>
          let pr := p0.round
          let pv := p0.value
          -- uniq is re-checked although filterRoundChange already made sources unique
          let qrc := roundChanges.filter (fun rc => decide (rc.pr ≤ pr))
          let has := qrc.any (fun rc => rc.pr == pr && rc.pv == pv)
          if qrc.length ≥ d.quorum ∧ has then some (qrc ++ prepares) else tryQ rest
    tryQ (getPrepareQuorums d pqPerm all)

/-- `getFPlus1RoundChanges`. -/
def getFPlus1RoundChanges (d : Def) (all : List Core) (round : Nat) : Option (List Core) :=
  let rec go (hi : List (Nat × Core)) : List Core → List (Nat × Core)
    | [] => hi
    | m :: ms =>
      if m.typ ≠ tRoundChange then go hi ms
      else if m.round ≤ round then go hi ms
      else
        match hi.find? (fun e => e.1 == m.src) with
        | some e => if e.2.round > m.round then go hi ms
                    else
                      let hi' := upsert hi m.src m
                      if hi'.length = d.faulty + 1 then hi' else go hi' ms
        | none =>
          let hi' := upsert hi m.src m
          if hi'.length = d.faulty + 1 then hi' else go hi' ms
  let hi := go [] all
  if hi.length < d.faulty + 1 then none else some (hi.map (·.2))

/-- `nextMinRound`: `none` = one of its "bug:" panics. -/
def nextMinRound (d : Def) (frc : List Core) (round : Nat) : Option Nat :=
  if frc.length < d.faulty + 1 then none
  else if frc.any (fun m => m.typ ≠ tRoundChange || decide (m.round ≤ round)) then none
  else
    match frc with
    | [] => none          -- MaxInt64 in Go; unreachable since faulty+1 ≥ 1
    | m :: ms => some (ms.foldl (fun acc x => if acc > x.round then x.round else acc) m.round)

/-- `classify`: (rule, justification); `none` = panic. -/
def classify (d : Def) (o : Oracle) (round proc : Nat) (buf : List (Nat × List Msg)) (m : Msg) :
    Option (Nat × List Core) :=
  let c := m.core
  if c.typ = tDecided then some (uJustifiedDecided, m.just)
  else if c.typ = tPrePrepare then
    if c.round < round then some (uNothing, []) else some (uJustifiedPrePrepare, [])
  else if c.typ = tPrepare then
    if c.round ≠ round then some (uNothing, [])
    else
      let prepares := filterByRoundAndValue (flatten o.srcOrd buf) tPrepare c.round c.value
      if prepares.length ≥ d.quorum then some (uQuorumPrepares, prepares) else some (uNothing, [])
  else if c.typ = tCommit then
    if c.round ≠ round then some (uNothing, [])
    else
      let commits := filterByRoundAndValue (flatten o.srcOrd buf) tCommit c.round c.value
      if commits.length ≥ d.quorum then some (uQuorumCommits, commits) else some (uNothing, [])
  else if c.typ = tRoundChange then
    if c.round < round then some (uNothing, [])
    else
      let all := flatten o.srcOrd buf
      if c.round > round then
        match getFPlus1RoundChanges d all round with
        | some frc => some (uFPlus1RoundChanges, frc)
        | none => some (uNothing, [])
      else if (filterRoundChange all c.round).length < d.quorum then some (uNothing, [])
      else
        match getJustifiedQrc d o.pqPerm all c.round with
        | none => some (uUnjustQuorumRoundChanges, [])
        | some qrc => if d.leader c.round ≠ proc then some (uNothing, []) else some (uQuorumRoundChanges, qrc)
  else none

/-! ### The event loop -/

/-- `changeRound`: returns the new state and the `LogRoundChange` output (if any). -/
def changeRound (s : NodeState) (newRound rule : Nat) : NodeState × List Out :=
  if s.round = newRound then (s, [])
  else ({ s with round := newRound, dedup := [], ppjCache := none }, [.roundChange s.round newRound rule])

def bcastMsg (s : NodeState) (typ value : Nat) (just : List Core) : Out :=
  .bcast typ s.round value 0 0 just

def bcastRoundChange (s : NodeState) : Out :=
  .bcast tRoundChange s.round 0 s.preparedRound s.preparedValue s.preparedJust

/-- `broadcastOwnPrePrepare` (the "bug:" panics: justification is never nil in the model; cache set). -/
def bcastOwnPrePrepare (s : NodeState) (just : List Core) : NodeState × List Out :=
  if s.ppjCache.isSome then (s, [.bug "justification cache must be nil"])
  else if s.inputValue = 0 then ({ s with ppjCache := some just }, [])
  else (s, [bcastMsg s tPrePrepare s.inputValue just])

/-- (highest round, count) of DECIDED resends triggered by `src` so far. -/
def resendOf (s : NodeState) (src : Nat) : Nat × Nat :=
  match s.resends.find? (fun e => e.1 == src) with
  | some e => e.2
  | none => (0, 0)

/-- `allowDecidedResend`. -/
def allowDecidedResend (s : NodeState) (src round : Nat) : NodeState × Bool :=
  let rc := resendOf s src
  if round ≤ rc.1 ∨ rc.2 ≥ maxDecidedResends then (s, false)
  else ({ s with resends := upsert s.resends src (round, rc.2 + 1) }, true)

/-- restart the round timer: `stopTimer(); timerChan, stopTimer = d.NewTimer(round)`. -/
def restartTimer (s : NodeState) : NodeState × List Out :=
  ({ s with timerOn := true }, [.stopTimer, .newTimer s.round])

/-- `UponJustifiedPrePrepare` branch (after the dedup check recorded the rule in `s1`).
`stopTimer(); timerChan, stopTimer = d.NewTimer(round)` is the pair `[.stopTimer, .newTimer _]`. -/
def onPrePrepare (s1 : NodeState) (m : Msg) (cmp : CmpOut) : NodeState × List Out :=
  let c2 := changeRound s1 m.core.round uJustifiedPrePrepare
  -- re-record after the round-change wipe to prevent equivocation; restart the timer
  let s4 : NodeState :=
    { c2.1 with
        dedup := if c2.1.dedup.contains (uJustifiedPrePrepare, m.core.round) then c2.1.dedup
                 else (uJustifiedPrePrepare, m.core.round) :: c2.1.dedup,
        timerOn := true }
  let o4 : List Out := [.stopTimer, .newTimer s4.round]
  match cmp with
  | .ok => (s4, c2.2 ++ o4 ++ [bcastMsg s4 tPrepare m.core.value []])
  | .fail => ({ s4 with compareFailureRound := m.core.round }, c2.2 ++ o4)
  | .timeout =>
    let c5 := changeRound s4 (s4.round + 1) uRoundTimeout
    let s6 : NodeState := { c5.1 with timerOn := true }
    (s6, c2.2 ++ o4 ++ c5.2 ++ [.stopTimer, .newTimer s6.round] ++ [bcastRoundChange s6])

/-- `UponQuorumPrepares` branch. -/
def onQuorumPrepares (s1 : NodeState) (m : Msg) (just : List Core) : NodeState × List Out :=
  let s2 : NodeState :=
    { s1 with preparedRound := s1.round, preparedValue := m.core.value, preparedJust := just }
  (s2, [bcastMsg s2 tCommit s2.preparedValue []])

/-- `UponQuorumCommits` / `UponJustifiedDecided` branch. -/
def onDecide (s1 : NodeState) (m : Msg) (rule : Nat) (just : List Core) : NodeState × List Out :=
  let c2 := changeRound s1 m.core.round rule
  let s3 : NodeState := { c2.1 with qCommit := just, qCommitValue := m.core.value, timerOn := false }
  (s3, c2.2 ++ [.stopTimer, .decide m.core.value m.core.round just])

/-- `UponFPlus1RoundChanges` branch. -/
def onFPlus1 (d : Def) (s1 : NodeState) (just : List Core) : NodeState × List Out :=
  match nextMinRound d just s1.round with
  | none => (s1, [.bug "nextMinRound"])
  | some nr =>
    let c2 := changeRound s1 nr uFPlus1RoundChanges
    let s3 : NodeState := { c2.1 with timerOn := true }
    (s3, c2.2 ++ [.stopTimer, .newTimer s3.round] ++ [bcastRoundChange s3])

/-- `UponQuorumRoundChanges` branch. -/
def onQuorumRoundChanges (d : Def) (s1 : NodeState) (just : List Core) : NodeState × List Out :=
  let r := getSingleJustifiedPrPv d just
  if r.2.2 = true ∧ s1.compareFailureRound ≠ r.1 then
    (s1, [bcastMsg s1 tPrePrepare r.2.1 just])
  else bcastOwnPrePrepare s1 just

/-- message handling once consensus is decided: rate-limited DECIDED resend. -/
def onRecvDecided (s : NodeState) (m : Msg) : NodeState × List Out :=
  if m.core.src ≠ s.proc ∧ m.core.typ = tRoundChange then
    let r := allowDecidedResend s m.core.src m.core.round
    if r.2 then (r.1, [bcastMsg r.1 tDecided r.1.qCommitValue r.1.qCommit]) else (r.1, [])
  else (s, [])

/-- dispatch on the classified rule (`s1` already carries the dedup record). -/
def onRule (d : Def) (s1 : NodeState) (m : Msg) (cmp : CmpOut) (rule : Nat) (just : List Core) :
    NodeState × List Out :=
  if rule = uJustifiedPrePrepare then onPrePrepare s1 m cmp
  else if rule = uQuorumPrepares then onQuorumPrepares s1 m just
  else if rule = uQuorumCommits ∨ rule = uJustifiedDecided then onDecide s1 m rule just
  else if rule = uFPlus1RoundChanges then onFPlus1 d s1 just
  else if rule = uQuorumRoundChanges then onQuorumRoundChanges d s1 just
  else if rule = uUnjustQuorumRoundChanges then (s1, [])
  else (s1, [.bug "invalid rule"])

/-- a justified message: buffer, classify, dedup, dispatch. -/
def onRecvJustified (d : Def) (o : Oracle) (s : NodeState) (m : Msg) (cmp : CmpOut) : NodeState × List Out :=
  let s0 := { s with buffer := bufferMsg d.fifo s.buffer m }
  match classify d o s0.round s0.proc s0.buffer m with
  | none => (s0, [.bug "invalid type"])
  | some (rule, just) =>
    if rule = uNothing then (s0, [])
    else if s0.dedup.contains (rule, m.core.round) then (s0, [])
    else
      let s1 := { s0 with dedup := (rule, m.core.round) :: s0.dedup }
      let r := onRule d s1 m cmp rule just
      (r.1, Out.rule rule s1.round :: r.2)

def onTimeout (s : NodeState) : NodeState × List Out :=
  if !s.timerOn then (s, []) else   -- timerChan = nil after a decision
  let c1 := changeRound s (s.round + 1) uRoundTimeout
  let s2 : NodeState := { c1.1 with timerOn := true }
  (s2, c1.2 ++ [.stopTimer, .newTimer s2.round] ++ [bcastRoundChange s2])

def onInput (s : NodeState) (v : Nat) : NodeState × List Out :=
  if s.inputDone then (s, [])   -- channel is nil: the send would never be received
  else if v = 0 then ({ s with dead := true, inputValue := 0 }, [.exit "zero input value not supported"])
  else
    let s1 := { s with inputValue := v, inputDone := true }
    (s1, match s.ppjCache with
         | some j => [bcastMsg s1 tPrePrepare v j]
         | none => [])

def onStart (d : Def) (s : NodeState) : NodeState × List Out :=
  -- Algorithm 1:11 (round = 1)
  let r := if d.leader s.round = s.proc then bcastOwnPrePrepare s [] else (s, [])
  ({ r.1 with timerOn := true }, r.2 ++ [.newTimer r.1.round])

def stepCore (d : Def) (o : Oracle) (s : NodeState) (e : Event) : NodeState × List Out :=
  match e with
  | .start => onStart d s
  | .input v => onInput s v
  | .timeout => onTimeout s
  | .recv m cmp =>
    if !s.qCommit.isEmpty then onRecvDecided s m
    else
    match isJustified d m s.compareFailureRound with
    | none => (s, [.bug "invalid message type"])
    | some false => (s, [.unjust m.core])
    | some true => onRecvJustified d o s m cmp

def Out.isBug : Out → Bool
  | .bug _ => true
  | _ => false

/-- One iteration of `Run`'s loop. A "bug:" panic makes `Run` return (sanity-check error). -/
def Event.isStart : Event → Bool
  | .start => true
  | _ => false

def step (d : Def) (o : Oracle) (s : NodeState) (e : Event) : NodeState × List Out :=
  if s.dead then (s, []) else
  -- `start` happens exactly once and first; nothing is received before `Run` is called
  if s.started == e.isStart then (s, []) else
  let (s', outs) := stepCore d o { s with started := true } e
  if outs.any Out.isBug then ({ s' with dead := true }, outs) else (s', outs)

def run (d : Def) (o : Oracle) (s : NodeState) : List Event → NodeState × List Out
  | [] => (s, [])
  | e :: es =>
    let (s1, o1) := step d o s e
    let (s2, o2) := run d o s1 es
    (s2, o1 ++ o2)

end CharonV.Qbft
