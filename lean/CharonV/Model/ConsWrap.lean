import CharonV.Model.QbftWire
/-
Model of the consensus *wrapper* of `core/consensus/qbft/qbft.go` outside `handle`:

* `Propose` / `ProposePriority` → `propose`, `Participate`, `runInstance` (up to the call of `qbft.Run`
  and from its return on), `getInstanceIO` / `getRecvBuffer` / `deleteInstanceIO`,
* `core/consensus/instance/instance_io.go` (`MarkProposed`, `MarkParticipated`, `MaybeStart`, `ValueCh`,
  `HashCh`, `ErrCh`),
* the `Decide` callback of `newDefinition` (decided hash → `qcommit[0].Values()[hash]` →
  `UnmarshalNew` → `decideCallback` → every subscriber), `Subscribe` / `SubscribePriority`.

`qbft.Run` itself (C02–C04) is not modelled here: what it does appears as the environment ops
`decide` (Run calls the `Decide` callback) and `ends` (Run returns). Calls that block in production
(`Propose`/`Participate` inside `runInstance`, `Propose` waiting on `ErrCh`) are split into the
call step (output `blocked`) and the later `ends` step that makes them return.

Production runs these entry points concurrently; every shared access is a CAS on an atomic flag
or happens under `c.mutable`'s mutex, so an execution is a linearisation of the steps below.
Core Lean only.
-/
namespace CharonV.ConsWrap

open CharonV.QbftWire

inductive Caller where
  | propose | participate
  deriving DecidableEq, Repr

/-- what a `Propose` / `Participate` call returns. -/
inductive Ret where
  | ok
  | alreadyProposed        -- "already proposed"
  | alreadyParticipated    -- "already participated"
  | hashErr                -- `hashProto(value)` failed
  | chanFull               -- "input channel full"
  | timeout                -- "consensus timeout" (Run returned without a decision)
  deriving DecidableEq, Repr

/-- `instance.IO[Msg]` as long as it is in `c.mutable.instances`. -/
structure IOSt where
  duty : Duty
  proposed : Bool := false
  participated : Bool := false
  running : Bool := false
  recv : Nat := 0                          -- messages in the outer receive buffer
  value : Option (Hash × Inner) := none    -- `ValueCh` / `HashCh` (filled together by `propose`)
  errCh : Option Ret := none               -- `ErrCh` (capacity 1)
  deriving DecidableEq, Repr

/-- one invocation of `qbft.Run` (entered by `runInstance`). -/
structure RunSt where
  duty : Duty
  starter : Caller
  live : Bool := true              -- `Run` has not returned yet
  waiter : Bool := false           -- a `Propose` call is blocked on this run's `ErrCh`
  decideCalled : Bool := false     -- `Run` has invoked the `Decide` callback
  decided : Bool := false          -- `decideCallback` ran (`decided = true`, context cancelled)
  attached : Bool := true          -- the IO it was started on is still in the instances map
  deriving DecidableEq, Repr

structure State where
  ios : List IOSt := []
  runs : List RunSt := []
  expired : List Duty := []        -- duties the deadliner has emitted on `C()`
  deriving DecidableEq, Repr

structure Cfg where
  subs : Nat                       -- number of registered subscribers (`c.subs`)
  participateEnabled : Bool        -- `featureset.Enabled(featureset.ConsensusParticipate)`

inductive Op where
  | propose (d : Duty) (p : Inner) (dl : Status)   -- `dl`: what `deadliner.Add(d)` would answer now
  | participate (d : Duty) (dl : Status)
  | message (d : Duty)             -- `handle` accepted a peer message for `d` (C05): `getRecvBuffer(d) <- msg`
  | decide (d : Duty) (h : Hash) (vals : VMap)   -- the live run of `d` calls `Decide(d, h, qcommit)`, `qcommit[0].Values() = vals`
  | ends (d : Duty)                -- the live run of `d` returns
  | expire (d : Duty)              -- the deadliner emits `d`: `deleteInstanceIO(d)`

inductive Out where
  | runStarted (d : Duty)                   -- `qbft.Run` entered
  | skipped (d : Duty)                      -- "Skipping consensus for expired/exempt duty"
  | ret (who : Caller) (d : Duty) (r : Ret) -- a call returns
  | blocked (who : Caller) (d : Duty)       -- a call blocks (inside `Run`, or on `ErrCh`)
  | subCall (i : Nat) (d : Duty) (x : Inner)  -- subscriber `i` is called with `(d, x)`
  deriving DecidableEq, Repr

def findIO (s : State) (d : Duty) : Option IOSt := s.ios.find? (fun i => i.duty = d)

/-- `getInstanceIO` / `getRecvBuffer`: the duty's IO, created if missing. -/
def getIO (s : State) (d : Duty) : IOSt :=
  match findIO s d with | some i => i | none => { duty := d }

def setIO (ios : List IOSt) (i : IOSt) : List IOSt :=
  match ios with
  | [] => [i]
  | x :: xs => if x.duty = i.duty then i :: xs else x :: setIO xs i

def liveRun (s : State) (d : Duty) : Option RunSt := s.runs.find? (fun r => r.duty = d && r.live)

def setRun (runs : List RunSt) (d : Duty) (f : RunSt → RunSt) : List RunSt :=
  runs.map (fun r => if r.duty = d && r.live then f r else r)

/-- the deadliner refuses a duty it has already emitted (C16 `late_add_refused`). -/
def dlStatus (s : State) (d : Duty) (dl : Status) : Status :=
  if s.expired.contains d then .expired else dl

/-- `runInstance` up to `qbft.Run`, called by `who` after a successful `MaybeStart` on `io`
(`io.running` is already set). -/
def runInstance (s : State) (io : IOSt) (who : Caller) (dl : Status) : State × List Out :=
  match dlStatus s io.duty dl with
  | .scheduled =>
    ({ s with ios := setIO s.ios io, runs := s.runs ++ [{ duty := io.duty, starter := who }] },
     [.runStarted io.duty, .blocked who io.duty])
  | _ =>
    -- returns nil at once; the deferred `inst.ErrCh <- err` leaves nil in the channel
    ({ s with ios := setIO s.ios { io with errCh := some .ok } }, [.skipped io.duty, .ret who io.duty .ok])

/-- `DutyAggregator` = 9, `DutySyncContribution` = 12: "No consensus participate for potential
no-op aggregation duties". -/
def noParticipate (d : Duty) : Bool := d.type == 9 || d.type == 12

def subCalls (n : Nat) (d : Duty) (x : Inner) : List Out := (List.range n).map (fun i => .subCall i d x)

def step (C : Crypto) (cfg : Cfg) (s : State) : Op → State × List Out
  | .propose d p dl =>
    match C.hashInner p with
    | none => (s, [.ret .propose d .hashErr])
    | some h =>
      let io := getIO s d
      if io.proposed then ({ s with ios := setIO s.ios io }, [.ret .propose d .alreadyProposed])
      else
        let io := { io with proposed := true }
        if io.value.isSome then ({ s with ios := setIO s.ios io }, [.ret .propose d .chanFull])
        else
          let io := { io with value := some (h, p) }
          if io.running then
            -- MaybeStart fails: `return <-inst.ErrCh`
            match io.errCh with
            | some r => ({ s with ios := setIO s.ios { io with errCh := none } }, [.ret .propose d r])
            | none =>
              ({ s with ios := setIO s.ios io, runs := setRun s.runs d (fun r => { r with waiter := true }) },
               [.blocked .propose d])
          else runInstance s { io with running := true } .propose dl
  | .participate d dl =>
    if noParticipate d || !cfg.participateEnabled then (s, [.ret .participate d .ok])
    else
      let io := getIO s d
      if io.participated then ({ s with ios := setIO s.ios io }, [.ret .participate d .alreadyParticipated])
      else
        let io := { io with participated := true }
        if io.running then ({ s with ios := setIO s.ios io }, [.ret .participate d .ok])
        else runInstance s { io with running := true } .participate dl
  | .message d =>
    -- `handle` rejects expired duties before touching the instances (C05)
    if s.expired.contains d then (s, [])
    else
      let io := getIO s d
      ({ s with ios := setIO s.ios { io with recv := io.recv + 1 } }, [])
  | .decide d h vals =>
    match liveRun s d with
    | none => (s, [])
    | some r =>
      if r.decideCalled then (s, [])      -- `qbft.Run` calls `Decide` at most once (C03 `decide_once`)
      else
        match vals.get h with      -- `msg.Values()[valueHash]` (`QbftWire.decideValue`)
        | none => ({ s with runs := setRun s.runs d (fun r => { r with decideCalled := true }) }, [])
        | some v =>
          match C.unmarshalAny v with
          | none => ({ s with runs := setRun s.runs d (fun r => { r with decideCalled := true }) }, [])
          | some x =>
            ({ s with runs := setRun s.runs d (fun r => { r with decideCalled := true, decided := true }) },
             subCalls cfg.subs d x)
  | .ends d =>
    match liveRun s d with
    | none => (s, [])
    | some r =>
      let res : Ret := if r.decided then .ok else .timeout
      let runs := setRun s.runs d (fun r => { r with live := false, waiter := false })
      let outs := [Out.ret r.starter d res] ++ (if r.waiter then [Out.ret .propose d res] else [])
      if r.attached && !r.waiter then
        match findIO s d with
        | some io => ({ s with ios := setIO s.ios { io with errCh := some res }, runs := runs }, outs)
        | none => ({ s with runs := runs }, outs)
      else ({ s with runs := runs }, outs)
  | .expire d =>
    ({ ios := s.ios.filter (fun i => i.duty ≠ d)
       runs := s.runs.map (fun r => if r.duty = d then { r with attached := false } else r)
       expired := if s.expired.contains d then s.expired else s.expired ++ [d] }, [])

/-- all outputs of a history, in order. -/
def trace (C : Crypto) (cfg : Cfg) : State → List Op → State × List Out
  | s, [] => (s, [])
  | s, o :: os =>
    let (s1, out1) := step C cfg s o
    let (s2, out2) := trace C cfg s1 os
    (s2, out1 ++ out2)

end CharonV.ConsWrap
