/-
C11 — model of the protocol-level glue of the cluster-changing ceremonies (executable, core Lean
only; compiled into the `drv-reshare` line driver).

What is modelled (the code AS IT IS):

* `dkg/protocol.go`               : the prefix of `RunProtocol` that decides who takes part and under
                                    which indices: `protocol.GetPeers`, `verifyPeerDuplicates`,
                                    `p2p.VerifyP2PKey` (first thing `setupP2P` does), `buildPeerMap`,
                                    `ThisNodeIdx = PeerMap[thisPeerID]`, `PostInit`, `Steps`.
* `dkg/protocol_reshare.go`       : `GetPeers`, `PostInit` (pedersen config), `Steps`.
* `dkg/protocol_addoperators.go`  : `GetPeers` (lock peers ++ new), `PostInit` (`AddedPeers` = the peer ids
                                    behind the lock's operators), `Steps` (threshold kept, `allENRs`).
* `dkg/protocol_removeoperators.go`: `GetPeers` (participating list in ITS order, else the operators
                                    that stay), `PostInit` (threshold arithmetic on `len(oldENRs)`, old /
                                    new peer ids, the pedersen peer map = ORIGINAL indices of the
                                    participating operators, `ThisNodeIdx`, who gets an exchanger),
                                    `Steps` (a removed participant only reshares).
* `dkg/protocol_replaceoperator.go`: `GetPeers` (new operator AT the position of the old one),
                                    `PostInit` (`AddedPeers = [new]`, `RemovedPeers = [old]`; the old
                                    operator is NOT in the peer map), `Steps`.
* `dkg/protocolsteps.go`          : what `updateLockProtocolStep` takes from the protocol (operator
                                    list, threshold; `threshold <= 0` keeps the lock's) and from the shares
                                    (`MsgFromShare`: public shares ascending by FILING key).
* the prefix of `pedersen.RunReshareDKG` (`dkg/pedersen/reshare.go`) on the configuration the
  protocol built: REUSED from `Model/PedersenGlue.lean` (`classify`, `listedAt`,
  `compactIfRemoveOnly`, `validateReshareNodeCounts`, `oldNodesRemaining`, `validateThreshold`,
  `defaultThreshold`), composed here for ALL nodes of a ceremony at once.

Operators / peers are natural numbers (an ENR and the libp2p peer id derived from it are one
identity). kyber's protocol is not modelled: `Spec/Frost.lean` (`reshareShare`, `resharePoly`) is its
algebraic specification; this model says at WHICH points old shares are contributed and new shares are
evaluated, and how the new lock is put together (`Props/C11Reshare.lean` ties the two).
-/
import CharonV.Model.PedersenGlue

namespace CharonV.ReshareProto

open CharonV.PedersenGlue

/-- what the protocols read of `cluster.Lock`. -/
structure Lock where
  ops       : List Nat     -- operators (ENR = peer id), lock order
  threshold : Nat
  numVals   : Nat
  deriving Repr, DecidableEq

/-- the four ceremonies with their configuration (`ReshareConfig`, `AddOperatorsConfig`,
`RemoveOperatorsConfig`, `ReplaceOperatorConfig`). -/
inductive Kind where
  | reshare
  | add (new : List Nat)
  | remove (removing participating : List Nat) (newT : Int)
  | replace (old new : Nat)
  deriving Repr, DecidableEq

inductive PErr where
  | participatingNotFound | oldNotFound | duplicatePeer | unknownKey | newThresholdInvalid
  deriving Repr, DecidableEq

def PErr.str : PErr → String
  | .participatingNotFound => "participating-not-found"
  | .oldNotFound => "old-not-found"
  | .duplicatePeer => "duplicate-peer"
  | .unknownKey => "unknown-key"
  | .newThresholdInvalid => "new-threshold-invalid"

/-- `cluster.Threshold(nodes)` on a Go `int`: `int(math.Ceil(float64(2*nodes)/3))`. -/
def thresholdInt (n : Int) : Int := -((-(2 * n)) / 3)

/-- `protocol.GetPeers(lock)`. -/
def getPeers : Kind → Lock → Except PErr (List Nat)
  | .reshare, l => .ok l.ops
  | .add new, l => .ok (l.ops ++ new)
  | .remove removing part _, l =>
    if part.length > 0 then
      (if part.all (fun e => l.ops.contains e) then .ok part else .error .participatingNotFound)
    else .ok (l.ops.filter fun o => !removing.contains o)
  | .replace old new, l =>
    match l.ops.idxOf? old with
    | none => .error .oldNotFound
    | some i => .ok (l.ops.set i new)

/-- `buildPeerMap` from position `i` on: `PeerIdx` = position, `ShareIdx` = position + 1. -/
def peerMapFrom : Nat → List Nat → List (Nat × NodeIdx)
  | _, [] => []
  | i, p :: ps => (p, ⟨i, i + 1⟩) :: peerMapFrom (i + 1) ps

/-- `buildPeerMap(peers)`. -/
def buildPeerMap (peers : List Nat) : List (Nat × NodeIdx) := peerMapFrom 0 peers

/-- Go map read with the zero value for an absent key. -/
def idxOfPeer (m : List (Nat × NodeIdx)) (p : Nat) : NodeIdx := (lookup m p).getD ⟨0, 0⟩

inductive Step where
  | reshare | updateLock | nodeSigs | write | noop | ignoreSigs
  deriving Repr, DecidableEq

def Step.letter : Step → String
  | .reshare => "R" | .updateLock => "U" | .nodeSigs => "N" | .write => "W" | .noop => "-" | .ignoreSigs => "I"

def fullSteps : List Step := [.reshare, .updateLock, .nodeSigs, .write]
def leavingSteps : List Step := [.reshare, .noop, .ignoreSigs, .noop]

/-- what one node has decided when the steps start. -/
structure Plan where
  peers     : List Nat               -- `GetPeers`
  peerMap   : List (Nat × NodeIdx)   -- `RunProtocol`'s `buildPeerMap(peers)`
  thisIdx   : NodeIdx                -- `pctx.ThisNodeIdx` after `PostInit` (signs the lock hash with `shareIdx`)
  exchanger : Bool                   -- `pctx.SigExchanger != nil`
  cfg       : Cfg                    -- the `pedersen.Config`
  steps     : List Step
  operators : List Nat               -- handed to `updateLockProtocolStep` (`[]` = keep the lock's)
  threshold : Int                    -- handed to `updateLockProtocolStep` (`<= 0` = keep the lock's)
  deriving Repr

def mkCfg (this : Nat) (pm : List (Nat × NodeIdx)) (l : Lock) (newT : Int) (added removed : List Nat) : Cfg :=
  { thisPeer := this, peerMap := pm, threshold := l.threshold,
    reshare := some { total := l.numVals, newThreshold := newT, added := added, removed := removed } }

/-- `PostInit` + `Steps` of the four protocols on what `RunProtocol` prepared. -/
def postInit (k : Kind) (l : Lock) (this : Nat) (peers : List Nat) : Except PErr Plan :=
  let pm := buildPeerMap peers
  let thisIdx := idxOfPeer pm this
  match k with
  | .reshare =>
    .ok ⟨peers, pm, thisIdx, true, mkCfg this pm l l.threshold [] [], fullSteps, [], 0⟩
  | .add new =>
    .ok ⟨peers, pm, thisIdx, true, mkCfg this pm l l.threshold (peers.drop l.ops.length) [], fullSteps,
      l.ops ++ new, l.threshold⟩
  | .replace old _ =>
    let i := (l.ops.idxOf? old).getD 0
    .ok ⟨peers, pm, thisIdx, true, mkCfg this pm l l.threshold [peers.getD i 0] [l.ops.getD i 0], fullSteps,
      peers, l.threshold⟩
  | .remove removing _ newT =>
    let newN : Int := (l.ops.length : Int) - (removing.length : Int)
    let dflt := thresholdInt newN
    if newT ≠ 0 ∧ (newT ≥ newN ∨ newT < dflt) then .error .newThresholdInvalid
    else
      let nt : Int := if newT ≠ 0 then newT else dflt
      let oldPeers := l.ops.filter fun o => removing.contains o
      let newPeers := l.ops.filter fun o => !removing.contains o
      let oldNode := removing.contains this && l.ops.contains this
      let pedMap := (buildPeerMap l.ops).filter fun e => peers.contains e.1
      let thisIdx' : NodeIdx :=
        if oldNode then thisIdx else ⟨newPeers.idxOf this, (idxOfPeer pedMap this).shareIdx⟩
      .ok ⟨peers, pm, thisIdx', !oldNode, mkCfg this pedMap l nt [] oldPeers,
        if oldNode then leavingSteps else fullSteps, newPeers, nt⟩

/-- `RunProtocol` up to the first step, on one node. -/
def plan (k : Kind) (l : Lock) (this : Nat) : Except PErr Plan :=
  match getPeers k l with
  | .error e => .error e
  | .ok peers =>
    if ¬ peers.Nodup then .error .duplicatePeer
    else if !peers.contains this then .error .unknownKey
    else postInit k l this peers

/-! ## the ceremony as a whole -/

/-- the `kdkg.Node`s of the reshare: one per entry of the pedersen peer map (`makeNodes` gives node
`PeerMap[peer].PeerIdx`); `pub` carries the peer's identity (the long-term key is per peer).
`RunReshareDKG` sorts them by index: the maps the protocols build list the peers by ascending
`PeerIdx` already (`Proofs/ReshareProto.lean` `pedNodes_sorted`). -/
def pedNodes (c : Cfg) : List Node := c.peerMap.map fun e => ⟨e.2.peerIdx, e.1⟩

/-- result of the classification of `RunReshareDKG`: kyber's `OldNodes` / `NewNodes` and the new
threshold. -/
structure Roles where
  oldNodes : List Node
  newNodes : List Node
  newT     : Nat
  deriving Repr

/-- `RunReshareDKG` from the classification loop to the start of the per-validator loop (checks in
the order of the code), for the nodes of `c`. -/
def pedRoles (c : Cfg) : Except Err Roles :=
  match c.reshare with
  | none => .error .reshareNil
  | some rs =>
    if rs.added.any (fun a => rs.removed.contains a) then .error .addedAndRemoved
    else
      let cl := classify c rs (pedNodes c)
      let newNodes := compactIfRemoveOnly rs cl.2
      match validateReshareNodeCounts cl.1.length newNodes.length c.threshold rs with
      | .error e => .error e
      | .ok () =>
        if rs.removed.length > 0 ∧ oldNodesRemaining cl.1 newNodes = 0 then .error .allRemoved
        else
          let t' : Int := if rs.newThreshold ≤ 0 then ((defaultThreshold newNodes.length : Nat) : Int)
            else rs.newThreshold
          match validateThreshold newNodes.length t' with
          | .error e => .error e
          | .ok () => .ok ⟨cl.1, newNodes, t'.toNat⟩

/-- the point at which `peer`'s share lies / is evaluated (`kdkg.Node.Index + 1`). -/
def pointOf (nodes : List Node) (peer : Nat) : Option Nat :=
  (nodes.find? fun n => n.pub == peer).map fun n => n.index + 1

/-- insertion into a list sorted by key (`slices.Sort` over the keys of a Go map: a later entry of
the same key would have overwritten the earlier one; keys are distinct here). -/
def insertKeyed (x : Nat × Nat) : List (Nat × Nat) → List (Nat × Nat)
  | [] => [x]
  | y :: ys => if x.1 < y.1 then x :: y :: ys else y :: insertKeyed x ys

def sortKeyed (l : List (Nat × Nat)) : List (Nat × Nat) := l.foldr insertKeyed []

/-- `processKey` files the new public share of `peer` under `config.PeerMap[peer].ShareIdx`;
`share.MsgFromShare` lists the public shares by ascending key: the peers in the order in which the
new lock lists their public shares. -/
def filedOrder (c : Cfg) (newNodes : List Node) : List Nat :=
  (sortKeyed (newNodes.map fun n => ((c.nodeIdx n.pub).shareIdx, n.pub))).map (·.2)

/-- `updateLockProtocolStep`: the operator list of the new lock. -/
def newOperators (l : Lock) (p : Plan) : List Nat := if p.operators.isEmpty then l.ops else p.operators

/-- `updateLockProtocolStep`: the threshold of the new lock. -/
def newLockThreshold (l : Lock) (p : Plan) : Nat := if p.threshold > 0 then p.threshold.toNat else l.threshold

/-- what a successful ceremony leaves behind. -/
structure Outcome where
  ops       : List Nat          -- operators of the new lock
  threshold : Nat               -- threshold of the new lock
  roles     : Roles             -- kyber's node sets and the degree bound of the new polynomial
  filed     : List Nat          -- peers in the order of the new lock's public shares
  writers   : List Nat          -- participants that write artifacts
  deriving Repr

inductive CErr where
  | plan (e : PErr)
  | ped (e : Err)
  | exchangeStalls        -- an operator of the new lock does not take part: the lock-hash exchange never completes
  | nodeSigOrder          -- node signatures come in participant order, `VerifySignatures` wants operator order
  | noPeers
  deriving Repr

/-- the ceremony run by ALL peers `GetPeers` names. -/
def ceremony (k : Kind) (l : Lock) : Except CErr Outcome :=
  match getPeers k l with
  | .error e => .error (.plan e)
  | .ok peers =>
    match peers with
    | [] => .error .noPeers
    | p0 :: _ =>
      match peers.mapM (fun p => plan k l p) with
      | .error e => .error (.plan e)
      | .ok plans =>
        match plan k l p0 with
        | .error e => .error (.plan e)
        | .ok pl =>
          match pedRoles pl.cfg with
          | .error e => .error (.ped e)
          | .ok roles =>
            let ops' := newOperators l pl
            if ops'.any (fun o => !peers.contains o) then .error .exchangeStalls
            -- `nodeSigBcast` keeps one slot per entry of `pctx.Peers` (removed participants' slots are
            -- dropped): `lock.NodeSignatures` is in PARTICIPANT order, `Lock.VerifySignatures` checks
            -- signature `i` against operator `i` of the new lock (`updateNodeSignaturesProtocolStep` fails)
            else if peers.filter (fun p => ops'.contains p) ≠ ops' then .error .nodeSigOrder
            else
              .ok ⟨ops', newLockThreshold l pl, roles, filedOrder pl.cfg roles.newNodes,
                (plans.filter fun q => q.steps.contains .write).map fun q => q.cfg.thisPeer⟩

end CharonV.ReshareProto
