/-
Model of `core/parsigdb/memory.go` (`MemDB.StoreInternal`, `StoreExternal`, `store`,
`getThresholdMatching`, `trackExemptUnsafe`, `evictExemptShareEntryUnsafe`, `Trim`) —
executable, core Lean only.

Correspondence with the Go code

* Go maps are total functions with a default (`entries k = []` is "key absent": the code only
  ever looks at `len(db.entries[k])`, and deletes a key exactly when its list becomes empty).
* `db.mu` is taken per *entry* (`store`), not per batch, so a `StoreExternal` call is a sequence
  of atomic steps that may interleave with other calls:
    `begin c duty status batch internal`  — `deadliner.Add(duty)` answered `status`; the order of
                                            `batch` is the order in which Go's `range signedSet`
                                            will visit the map (oracle);
    `step c o`                            — one loop iteration: `SyncSubcommitteeIndex`, `store`
                                            (atomic under `db.mu`) and `getThresholdMatching` on
                                            the copy returned by `store` (`o` = iteration order of
                                            the `sigsByMsgRoot` map);
    `finish c cbErr`                      — after the loop: `len(output) == 0 → return`, else call
                                            the threshold subscribers with `output`; for
                                            `StoreInternal` then the internal subscribers;
    `trim d`                              — one iteration of `Trim` for a duty emitted by the
                                            deadliner.
* `pend` holds the `output` maps of all calls in flight (tagged with the call id); `trace` is the
  list of (validator, partials) pairs ever handed to the threshold subscribers.
* Two behaviours are definition parameters so that the model can follow the code:
    `continueOnError = false` — the code as it is: a per-entry error returns immediately, the
        collected `output` is dropped (defect D-1); `true` — proposed fix: remember the first
        error, keep going, fire the subscribers, return the first error;
    `newRootOnly = false` — the code as it is: `getThresholdMatching` returns *any* root group of
        size exactly `threshold`, also one that reached it long ago (a later partial with another
        root re-triggers it); `true` — proposed fix: only the group of the partial just stored.
  `codeContinueOnError` / `codeNewRootOnly` say which variant the Go tree currently has; the
  correspondence driver uses them.
* Ghost state (never read by the modelled code): `acc` (every partial ever accepted per key),
  `evictions` (number of exempt evictions so far), `trimmed` (duties trimmed so far).

A partial signature is `(share, root, sig)`: `root` stands for `MessageRoot()` of the unsigned
data, `sig` for everything else that `parSignedDataEqual` (JSON equality) can see.
-/
namespace CharonV.ParSigDB

/-- which variant `/repo/core/parsigdb/memory.go` currently implements (flip after a `fix:`). -/
def codeContinueOnError : Bool := true
def codeNewRootOnly : Bool := true

structure PSig where
  share : Nat
  root  : Nat
  sig   : Nat
  deriving DecidableEq, Repr

structure Duty where
  slot : Nat
  typ  : Nat
  deriving DecidableEq, Repr

/-- `core.DutySignature` -/
def dutySignature : Nat := 3

structure Key where
  duty : Duty
  pk   : Nat
  sub  : Nat
  deriving DecidableEq, Repr

/-- `exemptEntryKey` -/
structure ExKey where
  share : Nat
  pk    : Nat
  typ   : Nat
  deriving DecidableEq, Repr

structure Cfg where
  threshold       : Nat
  cap             : Nat := 10      -- `maxExemptEntriesPerShare`
  continueOnError : Bool := false
  newRootOnly     : Bool := false
  deriving Repr

/-- one element of a `ParSignedDataSet`; `sub = none` ⇔ `SyncSubcommitteeIndex` fails for it. -/
structure Entry where
  pk  : Nat
  sig : PSig
  sub : Option Nat
  deriving DecidableEq, Repr

inductive Err where
  | mismatch   -- "mismatching partial signed data"
  | subcomm    -- "signed data is not a sync-committee aggregator duty"
  | cb         -- error returned by a threshold subscriber
  deriving DecidableEq, Repr

inductive Status where
  | expired | scheduled | exempt
  deriving DecidableEq, Repr

/-- one (validator ↦ partials) pair of an `output` map. -/
structure Trigger where
  key     : Key
  payload : List PSig
  deriving DecidableEq, Repr

/-- local variables of a `StoreExternal` call in flight. -/
structure Call where
  duty     : Duty
  exempt   : Bool
  rest     : List Entry          -- entries the `range` loop has not visited yet
  err      : Option Err          -- first per-entry error (only used with `continueOnError`)
  internal : Bool                -- called through `StoreInternal`
  deriving Repr

def upd {α β : Type} [DecidableEq α] (f : α → β) (a : α) (b : β) : α → β :=
  fun x => if x = a then b else f x

structure State where
  entries    : Key → List PSig := fun _ => []
  keysByDuty : Duty → List Key := fun _ => []
  exempt     : ExKey → List Key := fun _ => []
  calls      : Nat → Option Call := fun _ => none
  pend       : List (Nat × Trigger) := []
  trace      : List Trigger := []
  acc        : Key → List PSig := fun _ => []
  evictions  : Nat := 0
  trimmed    : List Duty := []

inductive Op where
  | begin (c : Nat) (duty : Duty) (st : Status) (batch : List Entry) (internal : Bool)
  | step (c : Nat) (o : Nat)
  | finish (c : Nat) (cbErr : Bool)
  | trim (d : Duty)
  deriving Repr

inductive Out where
  | none
  /-- the call returned `err`; `cb` = what the threshold subscribers were handed in this call,
  `isub` = the internal subscribers were called. -/
  | ret (err : Option Err) (cb : List Trigger) (isub : Bool)
  deriving Repr

/-! ### `getThresholdMatching` -/

/-- first-appearance de-duplication (the key set of `sigsByMsgRoot`; its iteration order is the
oracle `o`). -/
def dedup : List Nat → List Nat
  | [] => []
  | x :: xs => x :: (dedup xs).filter (fun y => y != x)

def rootGroup (sigs : List PSig) (r : Nat) : List PSig := sigs.filter (fun p => p.root == r)

def getThresholdMatching (cfg : Cfg) (typ : Nat) (sigs : List PSig) (o : Nat) : Option (List PSig) :=
  if sigs.length < cfg.threshold then none
  else if typ = dutySignature then
    (if sigs.length = cfg.threshold then some sigs else none)
  else if cfg.newRootOnly then
    -- proposed fix: only the root of the partial just appended can have *reached* the threshold
    match sigs.getLast? with
    | none => none
    | some v =>
      let g := rootGroup sigs v.root
      if g.length = cfg.threshold then some g else none
  else
    -- `for _, set := range sigsByMsgRoot { if len(set) == threshold { return set } }`
    let cands := (dedup (sigs.map (·.root))).filter (fun r => (rootGroup sigs r).length == cfg.threshold)
    match cands[o % cands.length]? with
    | none => none
    | some r => some (rootGroup sigs r)

/-! ### `store` (atomic under `db.mu`) -/

inductive StoreRes where
  | stored (sigs : List PSig)
  | dup
  | mismatch
  deriving Repr

/-- `trackExemptUnsafe` + `evictExemptShareEntryUnsafe` -/
def trackExempt (cfg : Cfg) (s : State) (k : Key) (share : Nat) : State :=
  let ek : ExKey := ⟨share, k.pk, k.duty.typ⟩
  let stored := s.exempt ek ++ [k]
  if cfg.cap < stored.length then
    match stored with
    | [] => s
    | k0 :: rest =>
      { s with entries := upd s.entries k0 ((s.entries k0).filter (fun x => x.share != share)),
               exempt := upd s.exempt ek rest,
               evictions := s.evictions + 1 }
  else { s with exempt := upd s.exempt ek stored }

def store (cfg : Cfg) (s : State) (k : Key) (v : PSig) (exempt : Bool) : State × StoreRes :=
  match (s.entries k).find? (fun x => x.share == v.share) with
  | some x => if x = v then (s, .dup) else (s, .mismatch)
  | none =>
    let old := s.entries k
    let s1 : State := { s with entries := upd s.entries k (old ++ [v]),
                               acc := upd s.acc k (s.acc k ++ [v]) }
    let s2 : State :=
      if exempt then trackExempt cfg s1 k v.share
      else if old.isEmpty then
        { s1 with keysByDuty := upd s1.keysByDuty k.duty (s1.keysByDuty k.duty ++ [k]) }
      else s1
    (s2, .stored (s2.entries k))

/-! ### the step function -/

def pendOf (s : State) (c : Nat) : List Trigger := (s.pend.filter (fun x => x.1 == c)).map (·.2)

/-- a per-entry error in call `c` (`cl` with the failing entry already removed from `rest`). -/
def failEntry (cfg : Cfg) (s : State) (c : Nat) (cl : Call) (e : Err) : State × Out :=
  if cfg.continueOnError then
    ({ s with calls := upd s.calls c (some { cl with err := cl.err.orElse (fun _ => some e) }) }, .none)
  else
    -- `return err`: the call is over, its `output` is garbage
    ({ s with calls := upd s.calls c none, pend := s.pend.filter (fun x => x.1 != c) },
     .ret (some e) [] false)

def step (cfg : Cfg) (s : State) : Op → State × Out
  | .begin c duty st batch internal =>
    if (s.calls c).isSome || !(decide ((batch.map (·.pk)).Nodup)) then (s, .none)
    else
      match st with
      | .expired => (s, .ret none [] internal)   -- dropped; `StoreInternal` still calls its subscribers
      | _ =>
        ({ s with calls := upd s.calls c (some { duty := duty, exempt := decide (st = .exempt),
                                                  rest := batch, err := none, internal := internal }) },
         .none)
  | .step c o =>
    match s.calls c with
    | none => (s, .none)
    | some cl =>
      match cl.rest with
      | [] => (s, .none)
      | e :: rest =>
        let cl' := { cl with rest := rest }
        match e.sub with
        | none => failEntry cfg s c cl' .subcomm
        | some sub =>
          let k : Key := ⟨cl.duty, e.pk, sub⟩
          match store cfg s k e.sig cl.exempt with
          | (_, .mismatch) => failEntry cfg s c cl' .mismatch
          | (_, .dup) => ({ s with calls := upd s.calls c (some cl') }, .none)
          | (s1, .stored sigs) =>
            match getThresholdMatching cfg cl.duty.typ sigs o with
            | none => ({ s1 with calls := upd s1.calls c (some cl') }, .none)
            | some g => ({ s1 with calls := upd s1.calls c (some cl'),
                                    pend := s1.pend ++ [(c, ⟨k, g⟩)] }, .none)
  | .finish c cbErr =>
    match s.calls c with
    | none => (s, .none)
    | some cl =>
      if !cl.rest.isEmpty then (s, .none)
      else
        let mine := pendOf s c
        let s' := { s with calls := upd s.calls c none,
                           pend := s.pend.filter (fun x => x.1 != c),
                           trace := s.trace ++ mine }
        -- `len(output) == 0 → return`; a subscriber error is returned at once
        let err := if !mine.isEmpty && cbErr then some Err.cb else cl.err
        (s', .ret err mine (cl.internal && err.isNone))
  | .trim d =>
    ({ s with entries := fun k => if k ∈ s.keysByDuty d then [] else s.entries k,
              keysByDuty := upd s.keysByDuty d [],
              trimmed := d :: s.trimmed }, .none)

def run (cfg : Cfg) (s : State) : List Op → State
  | [] => s
  | op :: ops => run cfg (step cfg s op).1 ops

/-- a complete, uninterrupted `StoreExternal`/`StoreInternal` call as an op list. -/
def callOps (c : Nat) (duty : Duty) (st : Status) (batch : List Entry) (internal : Bool)
    (o : Nat) (cbErr : Bool) : List Op :=
  [.begin c duty st batch internal] ++ batch.map (fun _ => Op.step c o) ++ [.finish c cbErr]

/-- run a list of ops and return the last `ret` output seen (what the call returned). -/
def runOut (cfg : Cfg) : State → List Op → Option Out → State × Option Out
  | s, [], r => (s, r)
  | s, op :: ops, r =>
    let (s', o) := step cfg s op
    runOut cfg s' ops (match o with | .none => r | x => some x)

end CharonV.ParSigDB
