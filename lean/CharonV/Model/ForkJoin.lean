/-
Model of `app/forkjoin/forkjoin.go` (`New` with `WithWorkers`, `WithInputBuffer`, `WithoutFailFast`,
`WithWaitOnCancel`; `Fork`, `Join`, the cancel func, `Results.Flatten`, `NewWithInputs`) — an executable
small-step model, core Lean only.

The Go code, goroutine by goroutine, and the event of the model that stands for each atomic piece:

* caller, `fork(i)`: `wg.Add(1); select {case input <- i: added; case <-rootCtx.Done():}; if !added {wg.Done()}`
    - `Ev.fork i pick`   the call. The send is ready at once iff the buffer has room (`queue.length < inputBuf`);
                         then the input is queued — unless `rootCtx` is done as well, in which case Go's `select`
                         picks one of the two ready cases at random (`pick = false`: the `Done` case, nothing is
                         queued). No room: the caller blocks (`blocked := some i`) until a worker receives
                         (`Ev.take`, which moves the blocked input into the channel), `rootCtx` is done
                         (`Ev.forkAbort`) or `Join` closes the channel under it (the blocked `Fork` panics).
                         After `Join` the send panics (send on closed channel) — unless `rootCtx` is done and the
                         `select` picks that case.
* worker (one of `workers`), `for in := range input { if workCtx.Err() != nil { enqueue(in, zero, workCtx.Err()); continue };
  out, err := work(workCtx, in); if failFast && err != nil { cancelWorkers() }; enqueue(in, out, err) }`
    - `Ev.take w`        idle worker `w` receives the oldest input; if the worker context is cancelled it does not call
                         `work` but enqueues `(in, zero, workCtx.Err())` (a *skip* result) and stays idle;
    - `Ev.complete w out err`  the work function of running worker `w` returns `(out, err)` (the answer is the
                         environment's: any value at any time); fail-fast: the first error cancels the worker context;
    - `Ev.abort w`       the work function of running worker `w` honours its context (`Cfg.hon input`), the context is
                         cancelled, it returns `(zero, ctx.Err())`.
  **`enqueue` starts a goroutine per result** (`go func() { select { case results <- r: case <-dropOutput: }; wg.Done() }()`):
  a worker never waits for the consumer, and results of one worker are *not* sent in the order it produced them
  — whichever blocked sender the consumer's receive is matched with. `senders` is the list of these goroutines
  (oldest first);
    - `Ev.deliver k`     the consumer receives the result held by sender `k` (the consumer reads; a consumer that
                         has stopped reading is a schedule without `deliver`);
    - `Ev.drop k`        after `cancel()` (`dropOutput` closed) sender `k` takes the drop case.
* caller, `join()`: `close(input); go func() { wg.Wait(); close(results); close(done) }()`
    - `Ev.join`          second `Join` panics (close of closed channel);
    - `Ev.close`         the shutdown goroutine: enabled when joined and the wait group is zero.
* caller, `cancel()`: `close(dropOutput); cancelWorkers(); if waitOnCancel { <-done }`
    - `Ev.cancel`        a second call panics (close of closed channel — although it is handed out as a
                         `context.CancelFunc`); with `WithWaitOnCancel` the caller waits for `close(done)`
                         (`cancelWaiting`), which only the shutdown goroutine started by `Join` performs.
* `Ev.rootCancel dl`   the caller's context is cancelled (`dl`: its deadline expires): the worker context is its
                       child.

A send on the closed `results` channel would panic the process: the model records it in the ghost flag `bug`.
Ghost logs (`forked`, `completed`, `received`, `dropped`, `Result.src`) record history for the theorems; they do not
influence any step.

Every event is total: an event that is not enabled in a state leaves it unchanged (`Out.notEnabled`), so "every
schedule" is "every list of events".
-/
namespace CharonV.ForkJoin

/-- error classes as `Flatten` sees them: `nil`, an error for which `errors.Is(err, context.Canceled)` holds,
`context.DeadlineExceeded` (a worker context whose parent's deadline expired), any other error. -/
inductive ErrC where
  | nil | fail | canc | dl
  deriving DecidableEq, Repr

/-- ghost: how a result came about. -/
inductive Src where
  | work   -- the work function returned it
  | abort  -- the work function returned `ctx.Err()` because its context was cancelled
  | skip   -- the work function was never called (`workCtx.Err() != nil` when the input was received)
  deriving DecidableEq, Repr

structure Result where
  input : Nat
  out   : Nat      -- 0 is the zero value of the output type
  err   : ErrC
  src   : Src
  deriving DecidableEq, Repr

inductive WSt where
  | idle                 -- in `for in := range input` (or returned from it)
  | running (i : Nat)    -- inside `work(workCtx, i)`
  deriving DecidableEq, Repr

structure Cfg where
  workers      : Nat
  inputBuf     : Nat
  failFast     : Bool
  waitOnCancel : Bool
  /-- the work function returns when its context is cancelled (per input) -/
  hon          : Nat → Bool

structure St where
  queue         : List Nat          -- the buffered `input` channel
  blocked       : Option Nat        -- a `Fork` call blocked in its `select`
  ws            : List WSt
  senders       : List Result       -- `enqueue` goroutines blocked in their `select`, oldest first
  wg            : Nat
  joined        : Bool              -- `input` closed, shutdown goroutine started
  ctxErr        : ErrC              -- `workCtx.Err()`
  rootErr       : ErrC              -- `rootCtx.Err()`
  dropClosed    : Bool              -- `dropOutput` closed (`cancel()` was called)
  closed        : Bool              -- `results` and `done` closed
  cancelWaiting : Bool              -- a `cancel()` call is blocked in `<-done`
  bug           : Bool              -- ghost: a sender hit the closed `results` channel
  forked        : List Nat          -- ghost: inputs accepted by the `input` channel, in order
  completed     : List Result       -- ghost: results in the order their `enqueue` was called
  received      : List Result       -- ghost: results in the order the consumer received them
  dropped       : List Result       -- ghost: results dropped after `cancel()`
  deriving DecidableEq, Repr

inductive Ev where
  | fork (i : Nat) (pick : Bool)
  | forkAbort
  | take (w : Nat)
  | complete (w : Nat) (out : Nat) (err : ErrC)
  | abort (w : Nat)
  | deliver (k : Nat)
  | drop (k : Nat)
  | join
  | close
  | cancel
  | rootCancel (dl : Bool)
  deriving DecidableEq, Repr

inductive Out where
  | ok
  | notEnabled
  | forkBlocked
  | forkDropped           -- `Fork` returned through `<-rootCtx.Done()`; nothing queued
  | panicForkAfterJoin    -- send on closed channel
  | panicBlockedFork      -- `Join` closed the channel under a blocked `Fork`
  | panicDoubleJoin       -- close of closed channel
  | panicDoubleCancel     -- close of closed channel
  | cancelWaits           -- `cancel()` blocks in `<-done`
  | bugSendOnClosed       -- a sender goroutine panics: send on closed channel
  deriving DecidableEq, Repr

def init (cfg : Cfg) : St :=
  { queue := [], blocked := none, ws := List.replicate cfg.workers .idle, senders := [], wg := 0,
    joined := false, ctxErr := .nil, rootErr := .nil, dropClosed := false, closed := false,
    cancelWaiting := false, bug := false, forked := [], completed := [], received := [], dropped := [] }

/-- inputs whose work function is running. -/
def runningOf : List WSt → List Nat
  | [] => []
  | .idle :: ws => runningOf ws
  | .running i :: ws => i :: runningOf ws

def blockedN (st : St) : Nat := if st.blocked.isSome then 1 else 0

/-- `enqueue(in, out, err)`: one more sender goroutine. -/
def enqueue (st : St) (r : Result) : St :=
  { st with senders := st.senders ++ [r], completed := st.completed ++ [r] }

/-- a worker has received input `i`. -/
def received1 (st : St) (w i : Nat) : St :=
  if st.ctxErr ≠ .nil then enqueue st ⟨i, 0, st.ctxErr, .skip⟩
  else { st with ws := st.ws.set w (.running i) }

def step (cfg : Cfg) (st : St) : Ev → St × Out
  | .fork i pick =>
    if st.blocked.isSome then (st, .notEnabled)          -- the caller is inside `Fork`
    else if st.joined then
      if st.rootErr ≠ .nil ∧ pick = false then (st, .forkDropped) else (st, .panicForkAfterJoin)
    else if st.queue.length < cfg.inputBuf then
      if st.rootErr ≠ .nil ∧ pick = false then (st, .forkDropped)
      else ({ st with queue := st.queue ++ [i], wg := st.wg + 1, forked := st.forked ++ [i] }, .ok)
    else ({ st with blocked := some i, wg := st.wg + 1 }, .forkBlocked)
  | .forkAbort =>
    match st.blocked with
    | some _ => if st.rootErr ≠ .nil then ({ st with blocked := none, wg := st.wg - 1 }, .forkDropped)
                else (st, .notEnabled)
    | none => (st, .notEnabled)
  | .take w =>
    match st.ws[w]? with
    | some .idle =>
      match st.queue with
      | i :: rest =>
        -- the receive makes room: a blocked `Fork` completes its send
        let st1 := match st.blocked with
          | some j => { st with queue := rest ++ [j], blocked := none, forked := st.forked ++ [j] }
          | none => { st with queue := rest }
        (received1 st1 w i, .ok)
      | [] =>
        match st.blocked with
        | some j => (received1 { st with blocked := none, forked := st.forked ++ [j] } w j, .ok)   -- direct hand-over
        | none => (st, .notEnabled)
    | _ => (st, .notEnabled)
  | .complete w out err =>
    match st.ws[w]? with
    | some (.running i) =>
      let ctx := if cfg.failFast ∧ err ≠ .nil ∧ st.ctxErr = .nil then ErrC.canc else st.ctxErr
      (enqueue { st with ws := st.ws.set w .idle, ctxErr := ctx } ⟨i, out, err, .work⟩, .ok)
    | _ => (st, .notEnabled)
  | .abort w =>
    match st.ws[w]? with
    | some (.running i) =>
      if cfg.hon i = true ∧ st.ctxErr ≠ .nil then
        (enqueue { st with ws := st.ws.set w .idle } ⟨i, 0, st.ctxErr, .abort⟩, .ok)
      else (st, .notEnabled)
    | _ => (st, .notEnabled)
  | .deliver k =>
    match st.senders[k]? with
    | some r =>
      if st.closed then ({ st with bug := true }, .bugSendOnClosed)
      else ({ st with senders := st.senders.eraseIdx k, received := st.received ++ [r], wg := st.wg - 1 }, .ok)
    | none => (st, .notEnabled)
  | .drop k =>
    match st.senders[k]? with
    | some r =>
      if st.dropClosed then
        ({ st with senders := st.senders.eraseIdx k, dropped := st.dropped ++ [r], wg := st.wg - 1 }, .ok)
      else (st, .notEnabled)
    | none => (st, .notEnabled)
  | .join =>
    if st.joined then (st, .panicDoubleJoin)
    else
      match st.blocked with
      | some _ => ({ st with joined := true, blocked := none, wg := st.wg - 1 }, .panicBlockedFork)
      | none => ({ st with joined := true }, .ok)
  | .close =>
    if st.joined ∧ st.wg = 0 ∧ st.closed = false then
      ({ st with closed := true, cancelWaiting := false, bug := st.bug || !st.senders.isEmpty }, .ok)
    else (st, .notEnabled)
  | .cancel =>
    if st.dropClosed then (st, .panicDoubleCancel)
    else
      let ctx := if st.ctxErr = .nil then ErrC.canc else st.ctxErr
      let wait := cfg.waitOnCancel && !st.closed
      ({ st with dropClosed := true, ctxErr := ctx, cancelWaiting := wait }, if wait then .cancelWaits else .ok)
  | .rootCancel dl =>
    if st.rootErr ≠ .nil then (st, .notEnabled)
    else
      let e := if dl then ErrC.dl else ErrC.canc
      ({ st with rootErr := e, ctxErr := if st.ctxErr = .nil then e else st.ctxErr }, .ok)

def run (cfg : Cfg) (st : St) (evs : List Ev) : St :=
  evs.foldl (fun s e => (step cfg s e).1) st

/-- the event is enabled in the state (it is not a no-op and not a panic of the caller). -/
def enabled (cfg : Cfg) (st : St) (e : Ev) : Bool :=
  match (step cfg st e).2 with
  | .ok | .forkBlocked | .forkDropped | .cancelWaits => true
  | _ => false

/-! ### `Results.Flatten` -/

structure FlatAcc where
  ctxErr   : ErrC
  otherErr : ErrC
  resp     : List Nat
  deriving DecidableEq, Repr

/-- one iteration of `for result := range r`. -/
def flattenStep (a : FlatAcc) (r : Result) : FlatAcc :=
  let a := { a with resp := a.resp ++ [r.out] }
  if r.err = .nil then a
  else
    let a := if r.err = .canc ∧ a.ctxErr = .nil then { a with ctxErr := r.err } else a
    if r.err ≠ .canc ∧ a.otherErr = .nil then { a with otherErr := r.err } else a

/-- `Results.Flatten()` over the results received until the channel closed. -/
def flatten (rs : List Result) : List Nat × ErrC :=
  let a := rs.foldl flattenStep ⟨.nil, .nil, []⟩
  if a.otherErr ≠ .nil then (a.resp, a.otherErr)
  else if a.ctxErr ≠ .nil then (a.resp, a.ctxErr)
  else (a.resp, .nil)

/-! ### measure of outstanding work -/

/-- every progress event (`take`, `complete`, `abort`, `deliver`, `drop`, `close`) decreases it. -/
def measure (st : St) : Nat :=
  3 * (st.queue.length + blockedN st) + 2 * (runningOf st.ws).length + st.senders.length
    + (if st.closed then 0 else 1)

def isProgress : Ev → Bool
  | .take _ | .complete _ _ _ | .abort _ | .deliver _ | .drop _ | .close => true
  | _ => false

/-- progress events that need neither the consumer nor the environment's work functions. -/
def isInternal : Ev → Bool
  | .take _ | .abort _ | .drop _ | .close => true
  | _ => false

/-! ### `NewWithInputs` -/

/-- what the caller of `Fork` has handed over so far: accepted inputs, then the one a blocked `Fork` holds. -/
def handedOver (st : St) : List Nat := st.forked ++ st.blocked.toList

/-- a run of `NewWithInputs(ctx, work, inputs, opts...)` = `New`, `Fork` for every input, `Join`: the caller forks
the remaining inputs one by one — a `Fork` call is made only when the previous one has returned
(`blocked = none`) — and then joins; in between, the workers, work functions, senders and a consumer do whatever
they can (any progress events). `NwiRun cfg st rest st'`: from `st` with `rest` still to fork, `st'` is the state
in which `NewWithInputs` returns. -/
inductive NwiRun (cfg : Cfg) : St → List Nat → St → Prop where
  | env {st st' : St} {rest : List Nat} (e : Ev) (hp : isProgress e = true) :
      NwiRun cfg (step cfg st e).1 rest st' → NwiRun cfg st rest st'
  | fork {st st' : St} {i : Nat} {rest : List Nat} (hb : st.blocked = none) :
      NwiRun cfg (step cfg st (.fork i true)).1 rest st' → NwiRun cfg st (i :: rest) st'
  | join {st : St} (hb : st.blocked = none) : NwiRun cfg st [] (step cfg st .join).1

end CharonV.ForkJoin
