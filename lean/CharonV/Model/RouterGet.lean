/-
Model of the RESPONSE (GET) side of the validator API — executable, core Lean only.

* `core/validatorapi/router.go`: `proposeBlockV3` + `createProposeBlockResponse` (the four response
  headers, the per-fork blinded / full switch, the nil checks), `aggregateAttestation` +
  `createAggregateAttestation`, `attestationData`, `getValidators` / `getValidator` +
  `getValidatorIDs` / `getQueryArrayParameter` / `getValidatorIDsFromJSON` / `getValidatorsByID`,
  `proposerDuties` / `attesterDuties` / `syncCommitteeDuties` with
  `getExecutionOptimisticFromMetadata` / `getDependentRootFromMetadata`, `uintQuery` / `uintParam`
  (`strconv.ParseUint(s, 10, 64)`), `writeResponse` / `writeError` (status of an error that is not an
  `apiError`: 500; a handler panic: recovered by net/http, connection closed).
* `core/validatorapi/validatorapi.go`: the non-cryptographic decisions of `Component.Proposal`
  (`getProposerPubkey`, subscribers in order with early return, `awaitProposalFunc(ctx, slot)`,
  the two values overwritten with 1, no look at graffiti / builder boost factor / the served slot).
* `core/types.go` `PubKey.Bytes` (length 98, `hex.DecodeString(k[2:])` — the first two characters
  are not looked at).

The content of a block / attestation is symbolic: an object identity (`Nat`) tagged with the Go type
it is encoded as (`WireType`). What the code decides is modelled line by line: which field of the
versioned answer is put into `data`, which strings go into the headers, what happens to a nil
answer, which ids are read as public keys and which as indices.
-/
namespace CharonV.RouterGet

/-! ### versions -/

inductive Fork where
  | phase0 | altair | bellatrix | capella | deneb | electra | fulu
  deriving DecidableEq, Repr

def Fork.all : List Fork := [.phase0, .altair, .bellatrix, .capella, .deneb, .electra, .fulu]

/-- `spec.DataVersion` is a `uint64`: 0 is `DataVersionUnknown`, 1 … 7 the forks. -/
def Fork.raw : Fork → Nat
  | .phase0 => 1 | .altair => 2 | .bellatrix => 3 | .capella => 4 | .deneb => 5 | .electra => 6
  | .fulu => 7

def Fork.ofRaw : Nat → Option Fork
  | 1 => some .phase0 | 2 => some .altair | 3 => some .bellatrix | 4 => some .capella
  | 5 => some .deneb | 6 => some .electra | 7 => some .fulu | _ => none

def Fork.name : Fork → String
  | .phase0 => "phase0" | .altair => "altair" | .bellatrix => "bellatrix" | .capella => "capella"
  | .deneb => "deneb" | .electra => "electra" | .fulu => "fulu"

/-- what `DataVersion.String()` can return. -/
inductive VerName where
  | unknown | fork (f : Fork)
  deriving DecidableEq, Repr

/-- `DataVersion.String()`: `"unknown"` for 0 and for everything beyond the table. -/
def versionString (v : Nat) : VerName :=
  match Fork.ofRaw v with
  | some f => .fork f
  | none => .unknown

/-! ### wire types -/

/-- the Go type a `data` field is encoded as / decoded into. -/
inductive WireType where
  | p0Block | altBlock | belBlock | belBlind | capBlock | capBlind | denContents | denBlind
  | elContents | elBlind | fuContents
  | p0Att | elAtt
  deriving DecidableEq, Repr

/-- type of the full-block field of `eth2api.VersionedProposal`. -/
def fullType : Fork → WireType
  | .phase0 => .p0Block | .altair => .altBlock | .bellatrix => .belBlock | .capella => .capBlock
  | .deneb => .denContents | .electra => .elContents | .fulu => .fuContents

/-- type of the blinded field (`FuluBlinded` is an `apiv1electra.BlindedBeaconBlock`); phase0 and
altair have none. -/
def blindType : Fork → Option WireType
  | .phase0 | .altair => none
  | .bellatrix => some .belBlind | .capella => some .capBlind | .deneb => some .denBlind
  | .electra => some .elBlind | .fulu => some .elBlind

/-- type of the per-fork field of `spec.VersionedAttestation`. -/
def attType : Fork → WireType
  | .electra | .fulu => .elAtt
  | _ => .p0Att

/-- a symbolic object: identity + the type it is encoded as. -/
structure Payload where
  ty : WireType
  id : Nat
  deriving DecidableEq, Repr

/-! ### answers of the `Handler` -/

/-- what a `Handler` method returning `(*eth2api.Response[*T], error)` can answer. -/
inductive Ans (α : Type) where
  | err                -- `(_, err)` with a non-nil error (never an `apiError`: the type is unexported)
  | nilResp            -- `(nil, nil)`
  | nilData            -- `(&Response{Data: nil}, nil)`
  | panics             -- the method itself panics
  | data (a : α)
  deriving Repr

inductive Status where
  | ok200
  | param400      -- missing / invalid path or query parameter
  | empty400      -- "empty request body"
  | json400       -- "failed parsing json request body"
  | notFound404
  | ise500        -- any error that is not an apiError
  | panic         -- the handler goroutine panicked: connection closed without a response
  deriving DecidableEq, Repr

/-! ### `GET /eth/v3/validator/blocks/{slot}` -/

/-- `eth2api.VersionedProposal`; `none` is a nil pointer. -/
structure Proposal where
  version   : Nat
  blinded   : Bool
  execValue : Option Nat
  consValue : Option Nat
  full      : Fork → Option Nat
  blind     : Fork → Option Nat    -- never read for phase0 / altair (no such field)

/-- the field the `switch proposal.Version` / `if proposal.Blinded` selects. -/
def Proposal.served (p : Proposal) : Option Payload :=
  match Fork.ofRaw p.version with
  | none => none
  | some f =>
    if p.blinded then
      match blindType f with
      | none => none
      | some ty => (p.blind f).map (fun id => ⟨ty, id⟩)
    else (p.full f).map (fun id => ⟨fullType f, id⟩)

/-- `createProposeBlockResponse`: `none` is any of its errors ("invalid blinded block", "no … block",
"invalid block"). The version string of the body is the case's own constant. -/
def createProposeBlockResponse (p : Proposal) : Option (VerName × Payload) :=
  match Fork.ofRaw p.version with
  | none => none
  | some f =>
    if p.blinded then
      match blindType f with
      | none => none
      | some ty =>
        match p.blind f with
        | none => none
        | some id => some (.fork f, ⟨ty, id⟩)
    else
      match p.full f with
      | none => none
      | some id => some (.fork f, ⟨fullType f, id⟩)

/-- the 200 answer: four headers and the body. `*big.Int.String()` of a nil pointer is `"<nil>"`
(`none`). -/
structure PropResp where
  hVersion : VerName
  hBlinded : Bool
  hExec    : Option Nat
  hCons    : Option Nat
  bVersion : VerName
  bBlinded : Bool
  bExec    : Option Nat
  bCons    : Option Nat
  data     : Payload
  deriving DecidableEq, Repr

/-- `proposeBlockV3` after `getProposeBlockParams`. `eth2Resp.Data` of a nil response and
`proposal.Version` of nil data are nil dereferences. -/
def proposeBlockV3 (paramsOk : Bool) (ans : Ans Proposal) : Status × Option PropResp :=
  if !paramsOk then (.param400, none) else
  match ans with
  | .err => (.ise500, none)
  | .nilResp => (.panic, none)
  | .nilData => (.panic, none)
  | .panics => (.panic, none)
  | .data p =>
    match createProposeBlockResponse p with
    | none => (.ise500, none)
    | some (v, pl) =>
      (.ok200, some ⟨versionString p.version, p.blinded, p.execValue, p.consValue,
                     v, p.blinded, p.execValue, p.consValue, pl⟩)

/-- the type a validator client decodes `data` into, from the two headers. -/
def expectedType (v : VerName) (blinded : Bool) : Option WireType :=
  match v with
  | .unknown => none
  | .fork f => if blinded then blindType f else some (fullType f)

/-- a validator client that decodes the body by the headers: the object it gets (`none`: the body is
not of the type the headers announce). -/
def vcDecode (r : PropResp) : Option Payload :=
  if expectedType r.hVersion r.hBlinded = some r.data.ty then some r.data else none

/-! ### `Component.Proposal` -/

/-- `awaitProposalFunc(ctx, slot)`. -/
inductive StoreAns where
  | err | nil | prop (p : Proposal)

structure CompEnv where
  defs   : Nat → Option Nat     -- `dutyDefFunc(proposer duty of slot)`: error, or the size of the set
  nsub   : Nat
  failAt : Option Nat           -- the subscriber call (0-based) that returns an error
  store  : Nat → StoreAns

/-- subscriber calls made before the loop ends or returns. -/
def subCalls (nsub : Nat) (failAt : Option Nat) : Nat × Bool :=
  match failAt with
  | some k => if k < nsub then (k + 1, true) else (nsub, false)
  | none => (nsub, false)

/-- `Component.Proposal` (randao verification: `CharonV.Router.servePropose`): answer and number of
subscriber calls. A nil proposal from the store is dereferenced (`proposal.ConsensusValue = …`). -/
def componentProposal (e : CompEnv) (slot : Nat) : Ans Proposal × Nat :=
  match e.defs slot with
  | none => (.err, 0)
  | some n =>
    if n ≠ 1 then (.err, 0) else
    let sc := subCalls e.nsub e.failAt
    if sc.2 then (.err, sc.1) else
    match e.store slot with
    | .err => (.err, sc.1)
    | .nil => (.panics, sc.1)
    | .prop p => (.data { p with consValue := some 1, execValue := some 1 }, sc.1)

/-- the endpoint with the real Component behind it (`builderEnabled` only sets a
`BuilderBoostFactor` that the Component never reads). -/
def serveProposal (e : CompEnv) (_builderEnabled : Bool) (paramsOk : Bool) (slot : Nat) :
    Status × Option PropResp × Nat :=
  if !paramsOk then (.param400, none, 0) else
  let c := componentProposal e slot
  let r := proposeBlockV3 true c.1
  (r.1, r.2, c.2)

/-! ### `GET /eth/v2/validator/aggregate_attestation` -/

structure AggAtt where
  version : Nat
  field   : Fork → Option Nat

def AggAtt.served (a : AggAtt) : Option Payload :=
  match Fork.ofRaw a.version with
  | none => none
  | some f => (a.field f).map (fun id => ⟨attType f, id⟩)

/-- `createAggregateAttestation`. -/
def createAggregateAttestation (a : AggAtt) : Option (VerName × Payload) :=
  match Fork.ofRaw a.version with
  | none => none
  | some f =>
    match a.field f with
    | none => none
    | some id => some (versionString a.version, ⟨attType f, id⟩)

structure AggResp where
  hVersion : VerName
  bVersion : VerName
  data     : Payload
  deriving DecidableEq, Repr

def aggregateAttestation (paramsOk : Bool) (ans : Ans AggAtt) : Status × Option AggResp :=
  if !paramsOk then (.param400, none) else
  match ans with
  | .err => (.ise500, none)
  | .nilResp => (.panic, none)
  | .nilData => (.panic, none)     -- `data.Version` of a nil pointer
  | .panics => (.panic, none)
  | .data a =>
    match createAggregateAttestation a with
    | none => (.ise500, none)
    | some (v, pl) => (.ok200, some ⟨versionString a.version, v, pl⟩)

def vcDecodeAgg (r : AggResp) : Option Payload :=
  match r.hVersion with
  | .unknown => none
  | .fork f => if attType f = r.data.ty then some r.data else none

/-! ### unsigned integers in paths and queries -/

def digitVal (c : Char) : Option Nat :=
  if '0' ≤ c ∧ c ≤ '9' then some (c.toNat - 48) else none

/-- `l.mapM f` for `Option`, written out (order and length visible to the proofs). -/
def mapOpt {α β : Type} (f : α → Option β) : List α → Option (List β)
  | [] => some []
  | a :: as =>
    match f a, mapOpt f as with
    | some b, some bs => some (b :: bs)
    | _, _ => none

def decValue (ds : List Nat) : Nat := ds.foldl (fun a d => 10 * a + d) 0

/-- `strconv.ParseUint(s, 10, 64)`: one or more ASCII digits, nothing else (no sign, no `_`, no
`0x`), value below 2^64. -/
def parseUint (s : List Char) : Option Nat :=
  match s with
  | [] => none
  | _ =>
    match mapOpt digitVal s with
    | none => none
    | some ds => if decValue ds < 2 ^ 64 then some (decValue ds) else none

/-- `uintQuery` / `uintParam`: `none` the parameter is absent. -/
def uintQuery (q : Option (List Char)) : Except Status Nat :=
  match q with
  | none => .error .param400
  | some s =>
    match parseUint s with
    | none => .error .param400
    | some n => .ok n

/-! ### `GET /eth/v1/validator/attestation_data` -/

/-- status, body (`some none`: `{"data":null}`), the arguments the Handler saw. -/
def attestationData (slotQ ciQ : Option (List Char)) (h : Nat → Nat → Ans Nat) :
    Status × Option (Option Nat) × Option (Nat × Nat) :=
  match uintQuery slotQ with
  | .error s => (s, none, none)
  | .ok slot =>
    match uintQuery ciQ with
    | .error s => (s, none, none)
    | .ok ci =>
      match h slot ci with
      | .err => (.ise500, none, some (slot, ci))
      | .nilResp => (.panic, none, some (slot, ci))
      | .panics => (.panic, none, some (slot, ci))
      | .nilData => (.ok200, some none, some (slot, ci))     -- answered 200 with `"data":null`
      | .data id => (.ok200, some (some id), some (slot, ci))

/-- the aggregate endpoint with its parameters: `slot`, then `attestation_data_root` (abstract:
`rootOk`), then `committee_index`. -/
def aggregateEndpoint (slotQ : Option (List Char)) (rootOk : Bool) (ciQ : Option (List Char))
    (h : Nat → Nat → Ans AggAtt) : Status × Option AggResp × Option (Nat × Nat) :=
  match uintQuery slotQ with
  | .error s => (s, none, none)
  | .ok slot =>
    if !rootOk then (.param400, none, none) else
    match uintQuery ciQ with
    | .error s => (s, none, none)
    | .ok ci =>
      let r := aggregateAttestation true (h slot ci)
      (r.1, r.2, some (slot, ci))

/-! ### validator ids -/

def isHex (c : Char) : Bool :=
  ('0' ≤ c ∧ c ≤ '9') || ('a' ≤ c ∧ c ≤ 'f') || ('A' ≤ c ∧ c ≤ 'F')

def lowerAscii (c : Char) : Char := if 'A' ≤ c ∧ c ≤ 'Z' then Char.ofNat (c.toNat + 32) else c

/-- `core.PubKey(id).Bytes()` then `tblsconv.PubkeyFromBytes`: the id has 98 characters and
everything after the first two is hex (the first two are cut off unseen). The key is given as its 96
lower-case hex digits. ASCII ids only (`len` counts bytes). -/
def parsePubkey (s : List Char) : Option (List Char) :=
  if s.length = 98 ∧ (s.drop 2).all isHex then some ((s.drop 2).map lowerAscii) else none

inductive Ids where
  | pubkeys (ks : List (List Char))
  | indices (is : List Nat)
  | error
  deriving DecidableEq, Repr

def has0x (s : List Char) : Bool := s.take 2 == ['0', 'x']

/-- the id parsing of `getValidatorsByID`: the FIRST id decides how ALL ids are read. -/
def classifyIds (ids : List (List Char)) : Ids :=
  match ids with
  | [] => .indices []
  | first :: _ =>
    if has0x first then
      match mapOpt parsePubkey ids with
      | some ks => .pubkeys ks
      | none => .error
    else
      match mapOpt parseUint ids with
      | some is => .indices is
      | none => .error

/-- `strings.Split(csv, ",")`. -/
def splitComma : List Char → List (List Char)
  | [] => [[]]
  | c :: cs =>
    if c = ',' then [] :: splitComma cs
    else match splitComma cs with
      | [] => [[c]]
      | h :: t => (c :: h) :: t

def isSpace (c : Char) : Bool :=
  c = ' ' || c = '\t' || c = '\n' || c = '\r' || c.toNat = 11 || c.toNat = 12

/-- `strings.TrimSpace` on ASCII. -/
def trimSpace (s : List Char) : List Char :=
  ((s.dropWhile isSpace).reverse.dropWhile isSpace).reverse

/-- `getQueryArrayParameter(query, "id")`: every value of the parameter, split at commas, trimmed. -/
def queryIds (csvs : List (List Char)) : List (List Char) :=
  csvs.flatMap (fun csv => (splitComma csv).map trimSpace)

/-- the request body of `POST …/validators` as `getValidatorIDsFromJSON` reads it. -/
inductive BodyIds where
  | empty                              -- zero-length body
  | fail                               -- `json.Unmarshal` error
  | ok (ids : List (List Char))        -- the `ids` member (absent / null: `[]`), NOT trimmed
  deriving DecidableEq, Repr

/-- what the `Handler` is asked. -/
structure ValReq where
  state : String
  ids   : Ids
  deriving DecidableEq, Repr

/-- the Handler's map `index → *Validator`: its size and whether a value is nil. -/
structure ValAns where
  n      : Nat
  hasNil : Bool
  deriving DecidableEq, Repr

/-- `getValidatorsByID`: status, number of validators, what the Handler saw. -/
def getValidatorsByID (state : String) (ids : List (List Char)) (h : ValReq → Ans ValAns) :
    Status × Nat × Option ValReq :=
  match classifyIds ids with
  | .error => (.ise500, 0, none)
  | cls =>
    let rq : ValReq := ⟨state, cls⟩
    match h rq with
    | .err => (.ise500, 0, some rq)
    | .nilResp => (.panic, 0, some rq)
    | .panics => (.panic, 0, some rq)
    | .nilData => (.ok200, 0, some rq)       -- a nil map has no entries
    | .data a => if a.hasNil then (.panic, 0, some rq) else (.ok200, a.n, some rq)

/-- `getValidators`: the body is consulted only if the query names no id. -/
def getValidators (state : String) (csvs : List (List Char)) (body : BodyIds)
    (h : ValReq → Ans ValAns) : Status × Nat × Option ValReq :=
  let q := queryIds csvs
  if q.isEmpty then
    match body with
    | .empty => getValidatorsByID state [] h
    | .fail => (.ise500, 0, none)
    | .ok ids => getValidatorsByID state ids h
  else getValidatorsByID state q h

/-- `getValidator`: the path segment is the single id (not split, not trimmed). -/
def getValidator (state : String) (id : List Char) (h : ValReq → Ans ValAns) :
    Status × Nat × Option ValReq :=
  match getValidatorsByID state [id] h with
  | (.ok200, n, rq) =>
    if n = 0 then (.notFound404, 0, rq) else if n ≠ 1 then (.ise500, 0, rq) else (.ok200, 1, rq)
  | r => r

/-! ### duties -/

inductive MetaEO where
  | tt | ff | malformed | missing
  deriving DecidableEq, Repr

inductive MetaDR where
  | root (r : Nat) | malformed | missing
  deriving DecidableEq, Repr

/-- `eth2Resp.Metadata`. -/
inductive Meta where
  | nil
  | map (eo : MetaEO) (dr : MetaDR)
  deriving DecidableEq, Repr

/-- `getExecutionOptimisticFromMetadata`: `none` an error. -/
def getExecutionOptimistic : Meta → Option Bool
  | .nil => some false
  | .map .tt _ => some true
  | .map .ff _ => some false
  | .map _ _ => none

/-- `getDependentRootFromMetadata`: the zero root for nil metadata. -/
def getDependentRoot : Meta → Option Nat
  | .nil => some 0
  | .map _ (.root r) => some r
  | .map _ _ => none

inductive DutyKind where
  | proposerV1 | proposerV2 | attester | sync
  deriving DecidableEq, Repr

def DutyKind.hasBody : DutyKind → Bool
  | .attester | .sync => true
  | _ => false

/-- the request body of the attester / sync duties endpoints as `unmarshal` + `valIndexesJSON` read it. -/
inductive BodyIdx where
  | empty | fail | ok (is : List Nat)
  deriving DecidableEq, Repr

structure DutyAns where
  n    : Nat          -- number of duties in `Data`
  md   : Meta
  deriving DecidableEq, Repr

structure DutyResp where
  eo : Bool
  dr : Option Nat     -- `none`: the response type has no `dependent_root`
  n  : Nat            -- the `data` array (never null)
  deriving DecidableEq, Repr

/-- what the Handler saw: epoch and indices (`none`: `Indices: nil` of the proposer endpoints). -/
abbrev DutySeen := Nat × Option (List Nat)

def dutiesAnswer (k : DutyKind) (seen : DutySeen) (ans : Ans DutyAns) :
    Status × Option DutyResp × Option DutySeen :=
  match ans with
  | .err => (.ise500, none, some seen)
  | .nilResp => (.panic, none, some seen)
  | .panics => (.panic, none, some seen)
  | .nilData => (.panic, none, some seen)   -- not an answer of this shape (Data is a slice); unused
  | .data a =>
    if k = .sync then (.ok200, some ⟨false, none, a.n⟩, some seen)
    else
      match getExecutionOptimistic a.md with
      | none => (.ise500, none, some seen)
      | some eo =>
        match getDependentRoot a.md with
        | none => (.ise500, none, some seen)
        | some dr => (.ok200, some ⟨eo, some dr, a.n⟩, some seen)

/-- `proposerDuties` / `attesterDuties` / `syncCommitteeDuties`. -/
def duties (k : DutyKind) (epochP : List Char) (body : BodyIdx) (h : DutySeen → Ans DutyAns) :
    Status × Option DutyResp × Option DutySeen :=
  match parseUint epochP with
  | none => (.param400, none, none)
  | some epoch =>
    if k.hasBody then
      match body with
      | .empty => (.empty400, none, none)
      | .fail => (.json400, none, none)
      | .ok is => dutiesAnswer k (epoch, some is) (h (epoch, some is))
    else dutiesAnswer k (epoch, none) (h (epoch, none))

end CharonV.RouterGet
