/-
Model of `core/aggsigdb` — executable, core Lean only.

Two implementations of the same store are modelled, each as a small-step machine whose events
are the atomic steps of the Go code; theorems quantify over every finite event sequence, which
covers every interleaving of readers, writers, cancellations and expiries.

Shared
* `Key`   — `memDBKey{duty, pubKey, subcommIdx}`; `Val` — a stored `core.SignedData`, compared
            the way `dataEqual` does (JSON bytes), i.e. values are identities.
* `Data`  — the `data` map as an association list (insert only when absent, so no duplicates).
            `keysByDuty` is an index of `data` by `key.duty` (the driver checks on the real code
            after every op that the index lists exactly the stored keys), so expiry of a duty
            is modelled as removing every entry whose key has that duty.
* `Entry` — one element of the `SignedDataSet` handed to `Store`; the *list order* of a set is
            Go's map-iteration order (an oracle: theorems hold for every order).
* `subIdx`— `core.SyncSubcommitteeIndex`.
* `put`   — the body shared by `MemDB.execCommand` and `MemDBV2.store`.

V1 (`memory.go`, actor): the `Run` goroutine owns all state; its `select` processes one
`writeCommand` (`cmd`: `execCommand` then `processBlockedQueries`), one `readQuery` (`query`) or
one expiry at a time. `cancel r` is reader `r`'s `Await` returning on its context (closing the
query's `cancel` channel); `stop` is `Run` returning (closing `quit`).

V2 (`memory_v2.go`, mutex): `store` is a whole `Store` call (it holds the write lock);
a reader is at `pc = query` (about to run `query()` under the read lock) or `pc = wait` (in the
`select` on `notify`). `notify` has capacity one: `token` says whether it holds a value, `wake r`
is reader `r` receiving it. The parameter `bc` (broadcast) selects the notification scheme:
`false` = the code as it is (one-slot channel, sent to only when the whole `Store` succeeded),
`true` = the proposed fix `fixes/C17-v2-broadcast.diff` (every `Store` that got past the
closed/context check wakes *all* waiting readers when it returns).
-/
namespace CharonV.AggSigDB

structure Duty where
  slot : Nat
  ty   : Nat
  deriving DecidableEq, Repr

structure Key where
  duty : Duty
  pk   : Nat
  sub  : Nat
  deriving DecidableEq, Repr

abbrev Val := Nat
abbrev Rid := Nat

/-- One `(pubKey, data)` pair of a `SignedDataSet`. `dsub` is the subcommittee index carried by
the data when it is sync-aggregator data (`SyncCommitteeSelection`, `SignedSyncContributionAndProof`),
`none` for every other data type. -/
structure Entry where
  pk   : Nat
  dsub : Option Nat
  val  : Val
  deriving DecidableEq, Repr

inductive Err where
  | mismatch | notSync | stopped
  deriving DecidableEq, Repr

/-- `core.IsSyncSubcommitteeDuty`: DutyPrepareSyncContribution = 11, DutySyncContribution = 12. -/
def isSyncSub (ty : Nat) : Bool := ty == 11 || ty == 12

/-- `core.SyncSubcommitteeIndex` (`none` = error "not a sync-committee aggregator duty"). -/
def subIdx (ty : Nat) (dsub : Option Nat) : Option Nat :=
  if isSyncSub ty then dsub else some 0

abbrev Data := List (Key × Val)

def lookup (k : Key) : Data → Option Val
  | [] => none
  | (k', v) :: rest => if k' = k then some v else lookup k rest

/-- deadline expiry of duty `d`: delete every key indexed under `d`. -/
def expireDuty (d : Duty) (m : Data) : Data := m.filter (fun kv => !decide (kv.1.duty = d))

/-- `execCommand` / `MemDBV2.store`: an existing entry is compared (`dataEqual`), never replaced. -/
def put (m : Data) (k : Key) (v : Val) : Data × Option Err :=
  match lookup k m with
  | some e => if e = v then (m, none) else (m, some .mismatch)
  | none => (m ++ [(k, v)], none)

/-- An answer: reader `rid`'s `Await` for `key` was handed `val`. -/
abbrev Answer := Rid × Key × Val

/-! ## V1: `MemDB` -/

/-- one element of `blockedQueries`; `cancelled` = its `cancel` channel is closed. -/
structure Query where
  rid : Rid
  key : Key
  cancelled : Bool
  deriving DecidableEq, Repr

structure V1 where
  data     : Data := []
  blocked  : List Query := []
  answered : List Answer := []   -- ghost: every value ever sent on a query's response channel
  stopped  : Bool := false
  deriving DecidableEq, Repr

inductive Ev1 where
  | cmd (k : Key) (v : Val)
  | query (r : Rid) (k : Key)
  | cancel (r : Rid)
  | expire (d : Duty)
  | stop
  deriving Repr

/-- `processBlockedQueries`: queries kept. -/
def keepQ (m : Data) (qs : List Query) : List Query :=
  qs.filter (fun q => !q.cancelled && (lookup q.key m).isNone)

/-- `processBlockedQueries`: queries answered. -/
def answerQ (m : Data) (qs : List Query) : List Answer :=
  qs.filterMap (fun q => if q.cancelled then none else (lookup q.key m).map (fun v => (q.rid, q.key, v)))

def V1.step (s : V1) : Ev1 → V1 × Option Err
  | .cmd k v =>
    if s.stopped then (s, some .stopped) else
    let r := put s.data k v
    ({ s with data := r.1, blocked := keepQ r.1 s.blocked,
              answered := s.answered ++ answerQ r.1 s.blocked }, r.2)
  | .query r k =>
    if s.stopped then (s, some .stopped) else
    match lookup k s.data with
    | some v => ({ s with answered := s.answered ++ [(r, k, v)] }, none)
    | none => ({ s with blocked := s.blocked ++ [⟨r, k, false⟩] }, none)
  | .cancel r =>
    ({ s with blocked := s.blocked.map (fun q => if q.rid = r then { q with cancelled := true } else q) }, none)
  | .expire d =>
    if s.stopped then (s, none) else ({ s with data := expireDuty d s.data }, none)
  | .stop => ({ s with stopped := true }, none)

def V1.run (s : V1) : List Ev1 → V1
  | [] => s
  | e :: es => V1.run (s.step e).1 es

/-- blocked queries whose reader is still inside `Await`. -/
def V1.live (s : V1) : List Query :=
  if s.stopped then [] else s.blocked.filter (fun q => !q.cancelled)

/-- A whole `MemDB.Store` call with no other goroutine interleaving (used by the lock-step
driver; in general the `cmd` events of one `Store` interleave with other events, which the
theorems cover because they quantify over all event sequences). Third component: number of
`deadliner.Add` calls made. -/
def V1.storeSet (s : V1) (d : Duty) : List Entry → V1 × Option Err × Nat
  | [] => (s, none, 0)
  | e :: es =>
    match subIdx d.ty e.dsub with
    | none => (s, some .notSync, 0)
    | some sub =>
      let r := s.step (.cmd ⟨d, e.pk, sub⟩ e.val)
      match r.2 with
      | some .stopped => (r.1, some .stopped, 0)
      | some err => (r.1, some err, 1)
      | none =>
        let r2 := V1.storeSet r.1 d es
        (r2.1, r2.2.1, r2.2.2 + 1)

/-! ## V2: `MemDBV2` -/

inductive PC where
  | query | wait
  deriving DecidableEq, Repr

structure Reader where
  rid : Rid
  key : Key
  pc  : PC
  deriving DecidableEq, Repr

structure V2 where
  data     : Data := []
  readers  : List Reader := []   -- Await calls in flight; waiting ones in the order they parked
  token    : Bool := false       -- `notify` holds a value (one-slot scheme only)
  answered : List Answer := []   -- ghost: every value ever returned by `query()`
  stopped  : Bool := false
  deriving DecidableEq, Repr

inductive Ev2 where
  | store (d : Duty) (es : List Entry)
  | await (r : Rid) (k : Key)
  | runQuery (r : Rid)
  | wake (r : Rid)
  | cancel (r : Rid)
  | expire (d : Duty)
  | stop
  deriving Repr

/-- the loop of `MemDBV2.Store` (early return on the first error; entries stored before it stay).
Third component: number of `deadliner.Add` calls made. -/
def putAll (m : Data) (d : Duty) : List Entry → Data × Option Err × Nat
  | [] => (m, none, 0)
  | e :: es =>
    match subIdx d.ty e.dsub with
    | none => (m, some .notSync, 0)
    | some sub =>
      let r := put m ⟨d, e.pk, sub⟩ e.val
      match r.2 with
      | some err => (r.1, some err, 1)
      | none =>
        let r2 := putAll r.1 d es
        (r2.1, r2.2.1, r2.2.2 + 1)

def wakeAll (rs : List Reader) : List Reader := rs.map (fun x => { x with pc := .query })

def isAt (r : Rid) (pc : PC) (x : Reader) : Bool := decide (x.rid = r) && decide (x.pc = pc)

def V2.step (bc : Bool) (s : V2) : Ev2 → V2 × Option Err
  | .store d es =>
    if s.stopped then (s, some .stopped) else
    let r := putAll s.data d es
    if bc then ({ s with data := r.1, readers := wakeAll s.readers }, r.2.1)
    else ({ s with data := r.1, token := s.token || r.2.1.isNone }, r.2.1)
  | .await r k =>
    if s.stopped then (s, some .stopped) else
    if s.readers.any (fun x => decide (x.rid = r)) then (s, none) else
    ({ s with readers := s.readers ++ [⟨r, k, .query⟩] }, none)
  | .runQuery r =>
    let hits := s.readers.filter (isAt r .query)
    ({ s with
        readers := s.readers.filter (fun x => !isAt r .query x) ++
                   (hits.filter (fun x => (lookup x.key s.data).isNone)).map (fun x => { x with pc := .wait }),
        answered := s.answered ++ hits.filterMap (fun x => (lookup x.key s.data).map (fun v => (x.rid, x.key, v))) },
     none)
  | .wake r =>
    if !bc && s.token && s.readers.any (isAt r .wait) then
      ({ s with token := false,
                readers := s.readers.map (fun x => if isAt r .wait x then { x with pc := .query } else x) }, none)
    else (s, none)
  | .cancel r => ({ s with readers := s.readers.filter (fun x => !decide (x.rid = r)) }, none)
  | .expire d =>
    if s.stopped then (s, none) else ({ s with data := expireDuty d s.data }, none)
  | .stop => ({ s with stopped := true, readers := [] }, none)

def V2.run (bc : Bool) (s : V2) : List Ev2 → V2
  | [] => s
  | e :: es => V2.run bc (V2.step bc s e).1 es

/-- The notification scheme of the `MemDBV2` that is in /repo now: `false` = one-slot channel
(defect D-6). Flip to `true` once `fixes/C17-v2-broadcast.diff` is applied; the driver and the
"current implementation" corollaries in `Props/C17.lean` follow this constant. -/
def implBroadcast : Bool := true

/-- Run the readers of a V2 state until none can move (what the lock-step driver observes after
each operation). Among several waiting readers the one-slot token goes to the first in the list
(the Go runtime serves a channel's receivers in the order they parked). -/
def V2.settle (bc : Bool) : Nat → V2 → V2
  | 0, s => s
  | fuel + 1, s =>
    match s.readers.find? (fun x => decide (x.pc = .query)) with
    | some x => V2.settle bc fuel (V2.step bc s (.runQuery x.rid)).1
    | none =>
      if !bc && s.token then
        match s.readers.find? (fun x => decide (x.pc = .wait)) with
        | some x => V2.settle bc fuel (V2.step bc s (.wake x.rid)).1
        | none => s
      else s

end CharonV.AggSigDB
