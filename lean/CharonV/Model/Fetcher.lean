/-
Model of `core/fetcher/fetcher.go` — executable, core Lean only.

The fetcher is the first hop of the duty pipeline: the scheduler hands it a duty and the duty definition
set, it asks the beacon node (and, for some duties, the aggregate-signature store and the duty store) for the
*candidate data* of every validator and hands a private copy of the resulting set to every subscriber
(consensus). Everything it talks to is an oracle here: every answer of the beacon node, of the registered
`aggSigDBFunc` / `awaitAttDataFunc` and of every subscriber is an arbitrary parameter.

Correspondence with the Go code:

* `Def`           a `core.DutyDefinition`: `AttesterDefinition` (committee index, committee length, validator
                  index), `ProposerDefinition`, `SyncCommitteeDefinition` (`ValidatorSyncCommitteeIndices`).
                  A `core.DutyDefinitionSet` is a `List (PK × Def)` IN THE ORDER Go's `range` VISITS THE MAP —
                  the order is an oracle: every theorem holds for every order.
* `Env`           the oracles. Every call has a position `n` (the number of oracle calls made before it in the
                  same `Fetch` / `FetchOnly`), so an answer may depend on the query AND on when it is asked.
                  `spec` = `eth2Cl.Spec` (the four keys the code reads, each possibly missing / of the wrong
                  type), `attData` = `AttestationData` (of the client scoped to `addr`; `addr = 0` is the
                  unscoped client), `aggAtt` = `AggregateAttestation`, `proposal` = `Proposal`, `contrib` =
                  `SyncCommitteeContribution`, `aggSig` = the function given to `RegisterAggSigDB`, `await` = the
                  function given to `RegisterAwaitAttData`. Answers: an error, a nil `Data` / nil value, or data.
* `Content`       what a memory cell holds: the id of the datum it was filled with, `aux` (attestation data:
                  its beacon block root; aggregate attestation: the hash tree root of its `Data`), `bad` (the
                  value cannot be SSZ-marshalled, `Clone()` fails), `dirty` (somebody scribbled over the cell
                  after it was filled).
* `UVal`/`USet`   a `core.UnsignedData` / `core.UnsignedDataSet` IN MEMORY: the cells it reaches. The code builds
                  its values as struct copies of the beacon node's response objects (`Data: *eth2AttData`,
                  `VersionedAttestation: *aggAtt`, `VersionedProposal: *proposal`,
                  `SyncCommitteeContribution: *contribution`): the copy shares every nested pointer / slice
                  with the response object, which the model renders as "is the same cell". Only scalars copied
                  by value (`BeaconBlockRoot`, the `AttesterDuty`) are fields of the `UVal` itself.
* `loopG`         the `for pubkey, def := range defSet` loop shared by the four `fetch*Data` functions;
                  `attOne`, `aggOne`, `propOne`, `syncOne` are their bodies; `LSt.dc` is `dataByCommIdx` /
                  `aggAttByCommIdx` / `contribByKey`.
* `isAttAgg`, `isSyncAgg`   `eth2exp.IsAttAggregator` / `IsSyncCommAggregator`: the first eight bytes (little
                  endian) of the SHA-256 of the selection proof are a parameter `h` of the aggsigdb answer; the
                  modulo arithmetic — including its divisions by zero — is modelled.
* `cloneSet`      `UnsignedDataSet.Clone()`: fresh cells for every entry (SSZ marshal / unmarshal: `relabel`), contents
                  copied (`copyCells`).
* `deliver`, `fanout`   the `for _, sub := range f.subs` loop of `Fetch`: clone, call, stop at the first error. A
                  hostile subscriber (`Cfg.hostile`) scribbles over everything it was handed inside the callback.
* `fetch`, `fetchOnly`, `reorg`   `Fetch`, `FetchOnly`, `HandleChainReorg`; `St.cache` is `attDataCache`.
* `St.bn`         the cells of the response objects the beacon node handed out (it may keep and scribble over
                  them: op `bnScribble`); `St.held` what every subscriber was handed (op `subScribble`).
* `Cfg.cloneOnCache`  switch of the proposed hardening `/verif/fixes/C18-fetcher-early-cache-clone.diff`
                  (`FetchOnly` stores a clone); `false` is the code as it is.
* `step`/`run`/`outs`  the harness: sequences of `Fetch`, `FetchOnly`, `HandleChainReorg` and of writes by the holders of
                  memory the fetcher touched; `stepQ true` / `outsQ true` is the same run in which the beacon node never
                  writes into a response object (the reference run of `beacon_node_cannot_interfere_fixed`).
-/
namespace CharonV.Fetcher

abbrev PK := Nat
abbrev Cell := Nat

/-! ### values -/

structure Content where
  id    : Nat
  aux   : Nat
  bad   : Bool
  dirty : Bool
  deriving DecidableEq, Repr, Inhabited

abbrev Heap := Cell → Content

def hset (h : Heap) (c : Cell) (v : Content) : Heap := fun x => if x = c then v else h x

/-- the writes of a list (newest first) applied to a heap -/
def applyWrites (h : Heap) : List (Cell × Content) → Heap
  | [] => h
  | (c, v) :: r => hset (applyWrites h r) c v

/-- `hx.Scribble` over the objects behind the cells `cs` -/
def scribbleCells (h : Heap) (cs : List Cell) : Heap :=
  fun x => if x ∈ cs then { h x with dirty := true } else h x

/-- the copied `eth2v1.AttesterDuty` -/
structure AttDuty where
  ci  : Nat
  len : Nat
  vi  : Nat
  deriving DecidableEq, Repr

inductive Def where
  | att (ci len vi : Nat)
  | prop (vi : Nat)
  | sync (vi : Nat) (idxs : List Nat)
  deriving DecidableEq, Repr

abbrev DefSet := List (PK × Def)

inductive UVal where
  /-- `core.AttestationData{Data: *bnResp, Duty: def.AttesterDuty}`; `root` = the copied `BeaconBlockRoot` -/
  | att (c : Cell) (root : Nat) (duty : AttDuty)
  /-- `core.VersionedAggregatedAttestation` -/
  | agg (c : Cell)
  /-- `core.VersionedProposal` -/
  | prop (c : Cell)
  /-- `core.SyncContribution` (old wire format: one per validator) -/
  | contrib (c : Cell)
  /-- `core.SyncContributions` (one per aggregated subcommittee) -/
  | contribs (cs : List Cell)
  deriving DecidableEq, Repr

def UVal.cells : UVal → List Cell
  | .att c _ _ => [c]
  | .agg c => [c]
  | .prop c => [c]
  | .contrib c => [c]
  | .contribs cs => cs

abbrev USet := List (PK × UVal)

def uerase (s : USet) (pk : PK) : USet := s.filter (fun p => p.1 != pk)

/-- `resp[pubkey] = v` -/
def uinsert (s : USet) (pk : PK) (v : UVal) : USet := (pk, v) :: uerase s pk

def ulookup (s : USet) (pk : PK) : Option UVal :=
  match s.find? (fun p => p.1 == pk) with
  | some p => some p.2
  | none => none

def setCells (s : USet) : List Cell := s.flatMap (fun p => p.2.cells)

/-- what a holder sees when it reads a value -/
inductive VObs where
  | att (x : Content) (root : Nat) (duty : AttDuty)
  | agg (x : Content)
  | prop (x : Content)
  | contrib (x : Content)
  | contribs (xs : List Content)
  deriving DecidableEq, Repr

def observe (h : Heap) : UVal → VObs
  | .att c r d => .att (h c) r d
  | .agg c => .agg (h c)
  | .prop c => .prop (h c)
  | .contrib c => .contrib (h c)
  | .contribs cs => .contribs (cs.map h)

def observeSet (h : Heap) (s : USet) : List (PK × VObs) := s.map (fun p => (p.1, observe h p.2))

/-! ### errors and results -/

inductive Err where
  /-- an error of the beacon node / aggsigdb / dutydb function, passed through (possibly wrapped) -/
  | bn (e : Nat)
  /-- a subscriber's error -/
  | sub (e : Nat)
  /-- "unsupported duty" (FetchOnly) / "unsupported duty type" (Fetch) -/
  | unsupported
  /-- `core.ErrDeprecatedDutyBuilderProposer` -/
  | deprecated
  /-- "invalid attester definition" -/
  | invalidAttDef
  /-- "invalid sync committee duty definition" -/
  | invalidSyncDef
  /-- "attestation data is nil" -/
  | attNil
  /-- "invalid beacon committee selection" -/
  | invalidSel
  /-- "aggregate attestation not found by root (retryable)" -/
  | aggNotFound
  /-- "invalid sync committee selection" -/
  | invalidSyncSel
  /-- "invalid sync committee message" -/
  | invalidSyncMsg
  /-- "sync committee contribution not found by root (retryable)" -/
  | contribNotFound
  /-- "new proposal: …" -/
  | badProposal
  /-- spec key missing or of the wrong type: 0 TARGET_AGGREGATORS_PER_COMMITTEE, 1 SYNC_COMMITTEE_SIZE,
      2 SYNC_COMMITTEE_SUBNET_COUNT, 3 "invalid sync subcommittee size", 4 TARGET_AGGREGATORS_PER_SYNC_SUBCOMMITTEE -/
  | spec (k : Nat)
  /-- `unsignedSet.Clone()` failed -/
  | cloneFail
  deriving DecidableEq, Repr

inductive Res (α : Type) where
  | ok (a : α)
  | err (e : Err)
  /-- the Go code panics (nil dereference, integer division by zero) -/
  | panic
  deriving DecidableEq, Repr

/-! ### oracles -/

structure SpecData where
  aggsPerComm : Option Nat    -- TARGET_AGGREGATORS_PER_COMMITTEE
  syncSize    : Option Nat    -- SYNC_COMMITTEE_SIZE
  subnets     : Option Nat    -- SYNC_COMMITTEE_SUBNET_COUNT
  aggsPerSub  : Option Nat    -- TARGET_AGGREGATORS_PER_SYNC_SUBCOMMITTEE
  deriving DecidableEq, Repr

inductive SpecAns where
  | err (e : Nat)
  | ok (d : SpecData)
  deriving DecidableEq, Repr

inductive AttAns where
  | err (e : Nat)
  | nil
  | ok (id root : Nat)
  deriving DecidableEq, Repr

inductive AggAns where
  | err (e : Nat)
  | nil
  /-- `droot`: the hash tree root of the aggregate's attestation data -/
  | ok (id droot : Nat) (bad : Bool)
  deriving DecidableEq, Repr

inductive PropAns where
  | err (e : Nat)
  | nil
  /-- `q = 0` well-formed; `q = 1` rejected by `core.NewVersionedProposal` (unknown version, block of the
      version missing and nothing dereferenced before); `q = 2` a version ≥ bellatrix whose block is nil:
      `verifyFeeRecipient` dereferences it if the proposal is not blinded -/
  | ok (id : Nat) (blinded : Bool) (q : Nat)
  deriving DecidableEq, Repr

inductive ConAns where
  | err (e : Nat)
  | nil
  | ok (id : Nat) (bad : Bool)
  deriving DecidableEq, Repr

/-- the types of `core.SignedData` the fetcher distinguishes -/
inductive SigKind where
  | sel | syncSel | syncMsg | randao | other
  deriving DecidableEq, Repr

inductive SigAns where
  | err (e : Nat)
  | nil
  /-- `sig`: the signature; `x`: for a selection the first 8 bytes (LE) of the SHA-256 of its proof, for a
      sync message its beacon block root -/
  | data (k : SigKind) (sig x : Nat)
  deriving DecidableEq, Repr

inductive AwaitAns where
  | err (e : Nat)
  | nil
  /-- `root`: the hash tree root of the attestation data the duty store returned -/
  | ok (root : Nat)
  deriving DecidableEq, Repr

/-- which duty the aggsigdb is asked for -/
inductive AskKind where
  | prepAgg | randao | prepSync | syncMsg
  deriving DecidableEq, Repr

structure Env where
  spec     : Nat → SpecAns
  attData  : Nat → (addr slot ci : Nat) → AttAns
  aggAtt   : Nat → (slot root ci : Nat) → AggAns
  proposal : Nat → (slot randao graffiti bbf : Nat) → PropAns
  contrib  : Nat → (slot sub root : Nat) → ConAns
  aggSig   : Nat → AskKind → (slot pk sub : Nat) → SigAns
  await    : Nat → (slot ci : Nat) → AwaitAns

/-- the answers do not depend on when a question is asked -/
def Env.Stateless (env : Env) : Prop :=
  (∀ n m, env.spec n = env.spec m) ∧ (∀ n m, env.attData n = env.attData m) ∧
  (∀ n m, env.aggAtt n = env.aggAtt m) ∧ (∀ n m, env.proposal n = env.proposal m) ∧
  (∀ n m, env.contrib n = env.contrib m) ∧ (∀ n m, env.aggSig n = env.aggSig m) ∧
  (∀ n m, env.await n = env.await m)

/-- the calls the fetcher makes, as logged by the scripted environment -/
inductive Call where
  | spec
  | attData (addr slot ci : Nat)
  | aggAtt (slot root ci : Nat)
  | proposal (slot randao graffiti bbf : Nat)
  | contrib (slot sub root : Nat)
  | aggSig (k : AskKind) (slot pk sub : Nat)
  | await (slot ci : Nat)
  /-- `f.feeRecipientFunc(pubkey)` -/
  | fee (pk : Nat)
  deriving DecidableEq, Repr

/-! ### configuration -/

structure Cfg where
  nsubs        : Nat
  /-- subscribers that scribble over what they are handed, inside the callback -/
  hostile      : List Nat
  electraSlot  : Nat
  only0        : Bool
  builder      : Bool
  /-- `GraffitiBuilder.graffiti` (ids; `0` is the default graffiti) -/
  graffiti     : List (PK × Nat)
  /-- `syncContributionV2Func` (`none`: not registered) -/
  v2           : Option (Nat → Bool)
  /-- fixes/C18-fetcher-early-cache-clone.diff -/
  cloneOnCache : Bool

def graffitiOf (cfg : Cfg) (pk : PK) : Nat :=
  match cfg.graffiti.find? (fun p => p.1 == pk) with
  | some p => p.2
  | none => 0

/-! ### the per-call state of a `fetch*Data` function -/

abbrev DKey := Nat × Nat

structure LSt where
  next   : Nat
  /-- cells of the response objects the beacon node handed out in this call (newest first) -/
  bn     : List Cell
  writes : List (Cell × Content)
  /-- calls made so far, NEWEST FIRST -/
  log    : List Call
  /-- `dataByCommIdx` / `aggAttByCommIdx` / `contribByKey`: key ↦ (cell of the response object, copied root) -/
  dc     : List (DKey × (Cell × Nat))
  deriving Repr

def LSt.start (next : Nat) : LSt := ⟨next, [], [], [], []⟩

def LSt.pos (st : LSt) : Nat := st.log.length

def LSt.call (st : LSt) (c : Call) : LSt := { st with log := c :: st.log }

/-- the beacon node creates a response object -/
def LSt.alloc (st : LSt) (x : Content) : LSt :=
  { st with next := st.next + 1, bn := st.next :: st.bn, writes := (st.next, x) :: st.writes }

def dlookup (k : DKey) : List (DKey × (Cell × Nat)) → Option (Cell × Nat)
  | [] => none
  | (k', v) :: r => if k' = k then some v else dlookup k r

inductive Step where
  | fail (st : LSt) (e : Res Unit)
  | skip (st : LSt)
  | put (st : LSt) (v : UVal)

def Step.st : Step → LSt
  | .fail st _ => st
  | .skip st => st
  | .put st _ => st

/-- `for pubkey, def := range defSet { … }` -/
def loopG (one : PK → Def → LSt → Step) : DefSet → LSt → USet → LSt × Res USet
  | [], st, resp => (st, .ok resp)
  | (pk, d) :: rest, st, resp =>
    match one pk d st with
    | .fail st' (.err e) => (st', .err e)
    | .fail st' _ => (st', .panic)
    | .skip st' => loopG one rest st' resp
    | .put st' v => loopG one rest st' (uinsert resp pk v)

/-! ### attester -/

def effCi (cfg : Cfg) (slot ci : Nat) : Nat := if cfg.electraSlot ≤ slot && cfg.only0 then 0 else ci

/-- body of the loop of `fetchAttesterDataWithClient` -/
def attOne (cfg : Cfg) (env : Env) (addr slot : Nat) (_pk : PK) (d : Def) (st : LSt) : Step :=
  match d with
  | .att ci len vi =>
    match dlookup (effCi cfg slot ci, 0) st.dc with
    | some (c, r) => .put st (.att c r ⟨ci, len, vi⟩)
    | none =>
      let st1 := st.call (.attData addr slot (effCi cfg slot ci))
      match env.attData st.pos addr slot (effCi cfg slot ci) with
      | .err e => .fail st1 (.err (.bn e))
      | .nil => .fail st1 (.err .attNil)
      | .ok id root =>
        let st2 := st1.alloc ⟨id, root, false, false⟩
        .put { st2 with dc := ((effCi cfg slot ci, 0), (st1.next, root)) :: st2.dc } (.att st1.next root ⟨ci, len, vi⟩)
  | _ => .fail st (.err .invalidAttDef)

/-! ### aggregator -/

/-- `eth2exp.IsAttAggregator`, asked as call number `pos` -/
def isAttAgg (env : Env) (pos len h : Nat) : Res Bool :=
  match env.spec pos with
  | .err e => .err (.bn e)
  | .ok sp =>
    match sp.aggsPerComm with
    | none => .err (.spec 0)
    | some 0 => .panic
    | some a => .ok (h % (max (len / a) 1) == 0)

/-- body of the loop of `fetchAggregatorData` -/
def aggOne (env : Env) (slot : Nat) (pk : PK) (d : Def) (st : LSt) : Step :=
  match d with
  | .att ci len _ =>
    let st1 := st.call (.aggSig .prepAgg slot pk 0)
    match env.aggSig st.pos .prepAgg slot pk 0 with
    | .err e => .fail st1 (.err (.bn e))
    | .data .sel _ h =>
      let st2 := st1.call .spec
      match isAttAgg env st1.pos len h with
      | .err e => .fail st2 (.err e)
      | .panic => .fail st2 .panic
      | .ok false => .skip st2
      | .ok true =>
        match dlookup (ci, 0) st2.dc with
        | some (c, _) => .put st2 (.agg c)
        | none =>
          let st3 := st2.call (.await slot ci)
          match env.await st2.pos slot ci with
          | .err e => .fail st3 (.err (.bn e))
          | .nil => .fail st3 .panic
          | .ok root =>
            let st4 := st3.call (.aggAtt slot root ci)
            match env.aggAtt st3.pos slot root ci with
            | .err e => .fail st4 (.err (.bn e))
            | .nil => .fail st4 (.err .aggNotFound)
            | .ok id droot bad =>
              let st5 := st4.alloc ⟨id, droot, bad, false⟩
              .put { st5 with dc := ((ci, 0), (st4.next, 0)) :: st5.dc } (.agg st4.next)
    | _ => .fail st1 (.err .invalidSel)
  | _ => .fail st (.err .invalidAttDef)

/-! ### proposer -/

/-- body of the loop of `fetchProposerData` (the definition itself is never looked at) -/
def propOne (cfg : Cfg) (env : Env) (slot : Nat) (pk : PK) (_d : Def) (st : LSt) : Step :=
  let st1 := st.call (.aggSig .randao slot pk 0)
  match env.aggSig st.pos .randao slot pk 0 with
  | .err e => .fail st1 (.err (.bn e))
  | .nil => .fail st1 .panic
  | .data _ sig _ =>
    let bbf := if cfg.builder then 1 else 0
    let st2 := st1.call (.proposal slot sig (graffitiOf cfg pk) bbf)
    match env.proposal st1.pos slot sig (graffitiOf cfg pk) bbf with
    | .err e => .fail st2 (.err (.bn e))
    | .nil => .fail st2 .panic
    | .ok id blinded q =>
      let st3 := if blinded then st2 else st2.call (.fee pk)
      if !blinded && q == 2 then .fail st3 .panic
      else if q != 0 then .fail st3 (.err .badProposal)
      else
        let st4 := st3.alloc ⟨id, 0, false, false⟩
        .put st4 (.prop st3.next)

/-! ### sync contribution -/

/-- `syncSubcommitteeSize`, asked as call number `pos` -/
def syncSize (env : Env) (pos : Nat) : Res Nat :=
  match env.spec pos with
  | .err e => .err (.bn e)
  | .ok sp =>
    match sp.syncSize with
    | none => .err (.spec 1)
    | some cs =>
      match sp.subnets with
      | none => .err (.spec 2)
      | some 0 => .err (.spec 2)
      | some sn => if cs / sn == 0 then .err (.spec 3) else .ok (cs / sn)

/-- `eth2exp.IsSyncCommAggregator`, asked as call number `pos` -/
def isSyncAgg (env : Env) (pos h : Nat) : Res Bool :=
  match env.spec pos with
  | .err e => .err (.bn e)
  | .ok sp =>
    match sp.syncSize with
    | none => .err (.spec 1)
    | some cs =>
      match sp.subnets with
      | none => .err (.spec 2)
      | some sn =>
        match sp.aggsPerSub with
        | none => .err (.spec 4)
        | some a =>
          if sn == 0 || a == 0 then .panic
          else .ok (h % (max (cs / sn / a) 1) == 0)

def insertSorted (x : Nat) : List Nat → List Nat
  | [] => [x]
  | y :: r => if x < y then x :: y :: r else if x = y then y :: r else y :: insertSorted x r

/-- `syncSubcommittees`: the sorted, unique subcommittee indices -/
def subsOf (idxs : List Nat) (size : Nat) : List Nat :=
  idxs.foldl (fun acc i => insertSorted (i / size) acc) []

inductive SubStep where
  | fail (st : LSt) (e : Res Unit)
  | notAgg (st : LSt)
  | got (st : LSt) (c : Cell)

/-- `fetchSubcommContribution` -/
def subOne (env : Env) (slot : Nat) (pk : PK) (sub : Nat) (st : LSt) : SubStep :=
  let st1 := st.call (.aggSig .prepSync slot pk sub)
  match env.aggSig st.pos .prepSync slot pk sub with
  | .err e => .fail st1 (.err (.bn e))
  | .data .syncSel _ h =>
    let st2 := st1.call .spec
    match isSyncAgg env st1.pos h with
    | .err e => .fail st2 (.err e)
    | .panic => .fail st2 .panic
    | .ok false => .notAgg st2
    | .ok true =>
      let st3 := st2.call (.aggSig .syncMsg slot pk 0)
      match env.aggSig st2.pos .syncMsg slot pk 0 with
      | .err e => .fail st3 (.err (.bn e))
      | .data .syncMsg _ root =>
        match dlookup (sub, root) st3.dc with
        | some (c, _) => .got st3 c
        | none =>
          let st4 := st3.call (.contrib slot sub root)
          match env.contrib st3.pos slot sub root with
          | .err e => .fail st4 (.err (.bn e))
          | .nil => .fail st4 (.err .contribNotFound)
          | .ok id bad =>
            let st5 := st4.alloc ⟨id, 0, bad, false⟩
            .got { st5 with dc := ((sub, root), (st4.next, 0)) :: st5.dc } st4.next
      | _ => .fail st3 (.err .invalidSyncMsg)
  | _ => .fail st1 (.err .invalidSyncSel)

def SubStep.st : SubStep → LSt
  | .fail st _ => st
  | .notAgg st => st
  | .got st _ => st

/-- `for _, subcommIdx := range subcommIdxs { … }` of `fetchContributionData` -/
def subLoop (env : Env) (slot : Nat) (v2 : Bool) (pk : PK) : List Nat → LSt → List Cell → LSt × Res (List Cell)
  | [], st, acc => (st, .ok acc)
  | sub :: rest, st, acc =>
    match subOne env slot pk sub st with
    | .fail st' (.err e) => (st', .err e)
    | .fail st' _ => (st', .panic)
    | .notAgg st' => subLoop env slot v2 pk rest st' acc
    | .got st' c => if v2 then subLoop env slot v2 pk rest st' (acc ++ [c]) else (st', .ok (acc ++ [c]))

/-- body of the outer loop of `fetchContributionData` -/
def syncOne (env : Env) (slot : Nat) (v2 : Bool) (size : Nat) (pk : PK) (d : Def) (st : LSt) : Step :=
  match d with
  | .sync _ idxs =>
    let r := subLoop env slot v2 pk (subsOf idxs size) st []
    match r.2 with
    | .err e => .fail r.1 (.err e)
    | .panic => .fail r.1 .panic
    | .ok [] => .skip r.1
    | .ok (c :: cs) => if v2 then .put r.1 (.contribs (c :: cs)) else .put r.1 (.contrib c)
  | _ => .fail st (.err .invalidSyncDef)

def v2Of (cfg : Cfg) (slot : Nat) : Bool :=
  match cfg.v2 with
  | none => false
  | some f => f slot

/-- `fetchContributionData` -/
def contribData (cfg : Cfg) (env : Env) (slot : Nat) (defs : DefSet) (st : LSt) : LSt × Res USet :=
  match syncSize env st.pos with
  | .err e => (st.call .spec, .err e)
  | .panic => (st.call .spec, .panic)
  | .ok size => loopG (syncOne env slot (v2Of cfg slot) size) defs (st.call .spec) []

/-! ### duties -/

inductive DutyType where
  | proposer | attester | builderProposer | aggregator | syncContribution
  /-- every other `core.DutyType` value (unknown, signature, exit, builder_registration, randao, prepare_aggregator,
      sync_message, prepare_sync_contribution, info_sync, numbers outside the enum) -/
  | other (code : Nat)
  deriving DecidableEq, Repr

/-- the `switch duty.Type` of `Fetch` without the early-fetch cache: the set a fresh fetch builds -/
def buildSet (cfg : Cfg) (env : Env) (ty : DutyType) (slot : Nat) (defs : DefSet) (st : LSt) : LSt × Res USet :=
  match ty with
  | .proposer => loopG (propOne cfg env slot) defs st []
  | .attester => loopG (attOne cfg env 0 slot) defs st []
  | .builderProposer => (st, .err .deprecated)
  | .aggregator => loopG (aggOne env slot) defs st []
  | .syncContribution => contribData cfg env slot defs st
  | .other _ => (st, .err .unsupported)

/-! ### clone and fan-out -/

/-- fresh cells `n, n+1, …` for a value -/
def relabelVal (n : Nat) : UVal → UVal
  | .att _ r d => .att n r d
  | .agg _ => .agg n
  | .prop _ => .prop n
  | .contrib _ => .contrib n
  | .contribs cs => .contribs (List.range' n cs.length)

/-- fresh cells `n, n+1, …` for every value of a set, in the order of `setCells` -/
def relabel (n : Nat) : USet → USet
  | [] => []
  | (pk, v) :: r => (pk, relabelVal n v) :: relabel (n + v.cells.length) r

/-- the contents of the cells `srcs` copied to the fresh cells `n, n+1, …` -/
def copyCells (h : Heap) (n : Nat) (srcs : List Cell) : Heap :=
  fun x => if n ≤ x then (match srcs[x - n]? with | some c => h c | none => h x) else h x

/-- `UnsignedDataSet.Clone()` when every value can be marshalled: every value is rebuilt from its SSZ encoding —
fresh memory for everything it reaches, contents copied -/
def cloneSet (h : Heap) (n : Nat) (s : USet) : USet × Heap × Nat :=
  (relabel n s, copyCells h n (setCells s), n + (setCells s).length)

/-- `Clone()` succeeds iff every value of the set can be SSZ-marshalled -/
def cloneOk (h : Heap) (s : USet) : Bool := (setCells s).all (fun c => !(h c).bad)

structure St where
  /-- `attDataCache`: slot ↦ early-fetched set -/
  cache : List (Nat × USet)
  heap  : Heap
  next  : Nat
  /-- cells of every response object the beacon node ever handed out -/
  bn    : List Cell
  /-- what every subscriber was ever handed: (subscriber, cells) -/
  held  : List (Nat × List Cell)

def St.init : St := ⟨[], fun _ => ⟨0, 0, false, false⟩, 0, [], []⟩

def heldCells (s : St) : List Cell := s.held.flatMap (fun p => p.2)

def heldBy (s : St) (i : Nat) : List Cell := (s.held.filter (fun p => p.1 == i)).flatMap (fun p => p.2)

def cacheCells (s : St) : List Cell := s.cache.flatMap (fun p => setCells p.2)

abbrev Delivery := Nat × List (PK × VObs)

/-- one round of the fan-out: `clone, _ := unsignedSet.Clone(); sub(ctx, duty, clone)` for subscriber `i`, which
reads what it is handed and, if it is hostile, scribbles over it before it returns -/
def deliver (cfg : Cfg) (set : USet) (i : Nat) (s : St) : St × Delivery :=
  let cl := cloneSet s.heap s.next set
  let cells := setCells cl.1
  let h := if i ∈ cfg.hostile then scribbleCells cl.2.1 cells else cl.2.1
  ({ s with heap := h, next := cl.2.2, held := (i, cells) :: s.held }, (i, observeSet cl.2.1 cl.1))

/-- `for _, sub := range f.subs { clone; sub(ctx, duty, clone) }`; `i` the next subscriber, `k` how many are left -/
def fanout (cfg : Cfg) (subErr : Nat → Option Nat) (set : USet) :
    Nat → Nat → St → List Delivery → St × Res Unit × List Delivery
  | _, 0, s, acc => (s, .ok (), acc)
  | i, k + 1, s, acc =>
    if !cloneOk s.heap set then (s, .err .cloneFail, acc)
    else
      match subErr i with
      | some e => ((deliver cfg set i s).1, .err (.sub e), acc ++ [(deliver cfg set i s).2])
      | none => fanout cfg subErr set (i + 1) k (deliver cfg set i s).1 (acc ++ [(deliver cfg set i s).2])

structure Out where
  res   : Res Unit
  /-- the calls made, NEWEST FIRST -/
  log   : List Call
  deliv : List Delivery
  deriving DecidableEq, Repr

def clookup (slot : Nat) : List (Nat × USet) → Option USet
  | [] => none
  | (k, v) :: r => if k = slot then some v else clookup slot r

def cerase (slot : Nat) (c : List (Nat × USet)) : List (Nat × USet) := c.filter (fun p => p.1 != slot)

/-- the state after the beacon node / store calls of one `fetch*Data` -/
def St.absorb (s : St) (st : LSt) : St :=
  { s with heap := applyWrites s.heap st.writes, next := st.next, bn := st.bn ++ s.bn }

/-- the set `Fetch` is going to hand out, before the fan-out: from the early-fetch cache (attester) or fetched now -/
def prepare (cfg : Cfg) (env : Env) (s : St) (ty : DutyType) (slot : Nat) (defs : DefSet) : St × List Call × Res USet :=
  match ty, clookup slot s.cache with
  | .attester, some set => ({ s with cache := cerase slot s.cache }, [], .ok set)
  | _, _ =>
    let r := buildSet cfg env ty slot defs (LSt.start s.next)
    (s.absorb r.1, r.1.log, r.2)

/-- "No aggregators found in this slot" / "No sync committee contributors found in this slot" -/
def emptyReturns (ty : DutyType) : Bool :=
  match ty with
  | .aggregator => true
  | .syncContribution => true
  | _ => false

/-- `Fetch` -/
def fetch (cfg : Cfg) (env : Env) (subErr : Nat → Option Nat) (s : St) (ty : DutyType) (slot : Nat) (defs : DefSet) :
    St × Out :=
  match prepare cfg env s ty slot defs with
  | (s1, log, .err e) => (s1, ⟨.err e, log, []⟩)
  | (s1, log, .panic) => (s1, ⟨.panic, log, []⟩)
  | (s1, log, .ok set) =>
    if emptyReturns ty && set.isEmpty then (s1, ⟨.ok (), log, []⟩)
    else
      let r := fanout cfg subErr set 0 cfg.nsubs s1 []
      (r.1, ⟨r.2.1, log, r.2.2⟩)

/-- every value of the set votes for `head` -/
def votesFor (head : Nat) (set : USet) : Bool :=
  set.all (fun p => match p.2 with | .att _ r _ => r == head | _ => false)

/-- `FetchOnly` -/
def fetchOnly (cfg : Cfg) (env : Env) (s : St) (ty : DutyType) (slot : Nat) (defs : DefSet) (addr head : Nat) :
    St × Out :=
  match ty with
  | .attester =>
    let s0 : St := { s with cache := s.cache.filter (fun p => !(p.1 < slot)) }
    let r := loopG (attOne cfg env addr slot) defs (LSt.start s0.next) []
    let s1 := s0.absorb r.1
    match r.2 with
    | .err e => (s1, ⟨.err e, r.1.log, []⟩)
    | .panic => (s1, ⟨.panic, r.1.log, []⟩)
    | .ok set =>
      if votesFor head set then
        if cfg.cloneOnCache then
          if !cloneOk s1.heap set then (s1, ⟨.err .cloneFail, r.1.log, []⟩)
          else
            let cl := cloneSet s1.heap s1.next set
            ({ s1 with heap := cl.2.1, next := cl.2.2, cache := (slot, cl.1) :: cerase slot s1.cache }, ⟨.ok (), r.1.log, []⟩)
        else ({ s1 with cache := (slot, set) :: cerase slot s1.cache }, ⟨.ok (), r.1.log, []⟩)
      else (s1, ⟨.ok (), r.1.log, []⟩)
  | _ => (s, ⟨.err .unsupported, [], []⟩)

/-! ### the harness: sequences of operations -/

inductive Op where
  | fetch (env : Env) (subErr : Nat → Option Nat) (ty : DutyType) (slot : Nat) (defs : DefSet)
  | fetchOnly (env : Env) (ty : DutyType) (slot : Nat) (defs : DefSet) (addr head : Nat)
  /-- `HandleChainReorg` -/
  | reorg
  /-- the beacon node scribbles over every response object it ever handed out -/
  | bnScribble
  /-- subscriber `i`, if hostile, scribbles over everything it was ever handed -/
  | subScribble (i : Nat)

def noOut : Out := ⟨.ok (), [], []⟩

def step (cfg : Cfg) (s : St) : Op → St × Out
  | .fetch env subErr ty slot defs => fetch cfg env subErr s ty slot defs
  | .fetchOnly env ty slot defs addr head => fetchOnly cfg env s ty slot defs addr head
  | .reorg => ({ s with cache := [] }, noOut)
  | .bnScribble => ({ s with heap := scribbleCells s.heap s.bn }, noOut)
  | .subScribble i =>
    if i ∈ cfg.hostile then ({ s with heap := scribbleCells s.heap (heldBy s i) }, noOut) else (s, noOut)

def run (cfg : Cfg) : St → List Op → St
  | s, [] => s
  | s, o :: os => run cfg (step cfg s o).1 os

def outs (cfg : Cfg) : St → List Op → List Out
  | _, [] => []
  | s, o :: os => (step cfg s o).2 :: outs cfg (step cfg s o).1 os

/-- `step`, except that the beacon node keeps its hands off its response objects when `quiet` -/
def stepQ (quiet : Bool) (cfg : Cfg) (s : St) (op : Op) : St × Out :=
  match quiet, op with
  | true, .bnScribble => (s, noOut)
  | _, op => step cfg s op

def outsQ (quiet : Bool) (cfg : Cfg) : St → List Op → List Out
  | _, [] => []
  | s, o :: os => (stepQ quiet cfg s o).2 :: outsQ quiet cfg (stepQ quiet cfg s o).1 os

end CharonV.Fetcher
