/-
Model of the validator cache in `app/eth2wrap/cache.go` (`ValidatorCache`: `NewValidatorCache`, `Trim`,
`cached`, `activeCached`, `GetByHead`, `GetBySlot`), of what `httpAdapter.ActiveValidators` /
`CompleteValidators` (httpwrap.go) hand to their callers, and of the filter
`scheduler.resolveActiveValidators` applies to the cached complete set — executable, core Lean only.

Correspondence with the Go code:

* `Entry`        one `key ↦ *eth2v1.Validator` pair of the beacon node's response map: the map key, `val.Index`,
                 `val.Validator.PublicKey` (interned id), `val.Status` (go-eth2-client's `ValidatorState` code 0..9),
                 `val.Validator.ActivationEpoch`; `bad = 1` a nil `*Validator`, `bad = 2` a nil inner `Validator`.
                 A response is a `List Entry` in the order the Go `range` visits the map (arbitrary: every
                 theorem holds for every order).
* `Ans`          what `eth2Cl.Validators` returns: an error, a response whose `Data` map is nil, or a response.
* `isActive`     `ValidatorState.IsActive()` — the model's own table (the driver sends the real verdict with
                 every status it scripts; a disagreement is a difference of the streams).
* `Cache`        the fields `pubkeys`, `active`, `complete` (`none` = nil map; an empty non-nil map is `some []`).
* `Cache.trim`   `Trim` (one write-locked step).
* `readComplete` / `readActive`  the bodies of `cached()` / `activeCached()` (one read-locked step each).
* `fetchStore`   everything `GetByHead` does under `c.Lock()` with the node's answer, and the common tail of
                 `GetBySlot`: error → nothing stored; a nil entry → "validator data is nil", nothing stored;
                 else `c.active = resp; c.complete = eth2Resp.Data` (BOTH replaced, `complete` by the response
                 map itself).
* `finish`       the rest of `GetByHead` after its two reads: both reads non-nil → the two values read are
                 returned (no lock held, no re-check); otherwise `fetchStore`. `GetByHead` does NOT look at the
                 cache again after taking the write lock.
* `getByHead`    a `GetByHead` call nobody interleaves with: `readComplete; readActive; finish`.
* `getBySlot`    `GetBySlot` (one write-locked step): query by slot; on error query "head" (`refreshedBySlot =
                 false`); on error return it; else the same loop and the same two assignments: a slot query
                 REPLACES what `GetByHead` serves afterwards — there is no separate "head" cache.
* `AStep`/`astep`  the atomic steps (lock scopes) of concurrent calls, for every interleaving: `r1 t`, `r2 t`,
                 `fin t ans` of a `GetByHead` call `t`, `trim`, `slot`.
* `St`/`step`    the sequential harness: ops `trim`, `head` (direct call; the caller keeps the two maps it got),
                 `peek` (a call through a client: nothing kept), `slot`, `mutate` (the hostile caller writes into
                 the maps it holds). `GetByHead`/`GetBySlot` return the cache's own map objects (no clone):
                 `liveA`/`liveC` say whether the maps the caller holds ARE the cache's current objects, in
                 which case a `mutate` changes what the cache serves. `last` and `taint` are ghost fields
                 (never read by the transition function's outputs): the content of the most recently stored
                 response (reset by `Trim`) and whether a caller wrote into the live objects since.
* `Cfg.cloneOnReturn`  the switch of the proposed repair `/verif/fixes/C15-valcache-clone.diff`;
                 `Cfg.current` is the code as it is in /repo.
* `resolveActive`  `scheduler.resolveActiveValidators` over the complete set: kept iff
                 `Status.IsActive() || ActivationEpoch == epoch`, as (map key, pubkey).
-/
namespace CharonV.ValCache

structure Cfg where
  /-- fixes/C15-valcache-clone.diff: GetByHead / GetBySlot return copies of the two maps (and of the validators) -/
  cloneOnReturn : Bool
  deriving DecidableEq, Repr

def Cfg.asIs : Cfg := ⟨false⟩
def Cfg.fixed : Cfg := ⟨true⟩
/-- the variant of `/repo` the correspondence driver is compared against. -/
def Cfg.current : Cfg := ⟨false⟩

/-- go-eth2-client `api/v1.validatorStateStrings`, index = `ValidatorState` code. -/
def statusNames : List String :=
  ["unknown", "pending_initialized", "pending_queued", "active_ongoing", "active_exiting", "active_slashed",
   "exited_unslashed", "exited_slashed", "withdrawal_possible", "withdrawal_done"]

/-- `ValidatorState.IsActive()`: active_ongoing, active_exiting, active_slashed. -/
def isActive (s : Nat) : Bool := s == 3 || s == 4 || s == 5

structure Entry where
  key    : Nat
  idx    : Nat
  pk     : Nat
  status : Nat
  act    : Nat
  bad    : Nat
  deriving DecidableEq, Repr

inductive Ans where
  | err
  | nilData
  | ok (es : List Entry)
  deriving DecidableEq, Repr

/-- `ActiveValidators`: validator index ↦ pubkey, as an association list with unique keys. -/
abbrev AMap := List (Nat × Nat)

def amErase (m : AMap) (i : Nat) : AMap := m.filter (fun p => p.1 != i)

/-- `resp[val.Index] = val.Validator.PublicKey` -/
def amInsert (m : AMap) (i pk : Nat) : AMap := (i, pk) :: amErase m i

/-- the `for _, val := range vals` loop of GetByHead / GetBySlot; `none` = "validator data is nil". -/
def buildActive : List Entry → AMap → Option AMap
  | [], m => some m
  | e :: es, m =>
    if e.bad != 0 then none
    else if isActive e.status then buildActive es (amInsert m e.idx e.pk)
    else buildActive es m

structure Cache where
  pubkeys  : List Nat
  active   : Option AMap
  complete : Option (List Entry)
  deriving DecidableEq, Repr

def Cache.init (pubkeys : List Nat) : Cache := ⟨pubkeys, none, none⟩

def Cache.trim (c : Cache) : Cache := { c with active := none, complete := none }

/-- `cached()`: the map and `map != nil`. -/
def readComplete (c : Cache) : Option (List Entry) := c.complete
/-- `activeCached()` -/
def readActive (c : Cache) : Option AMap := c.active

inductive Res where
  /-- `nilval = true`: "validator data is nil"; `false`: the beacon node's error. -/
  | err (nilval : Bool)
  | ok (a : AMap) (c : List Entry)
  deriving DecidableEq, Repr

def Res.isOk : Res → Bool
  | .ok _ _ => true
  | .err _ => false

def fetchStore (c : Cache) : Ans → Cache × Res
  | .err => (c, .err false)
  | .nilData => ({ c with active := some [], complete := none }, .ok [] [])
  | .ok es =>
    match buildActive es [] with
    | none => (c, .err true)
    | some m => ({ c with active := some m, complete := some es }, .ok m es)

/-- result, and whether the beacon node was asked. -/
def finish (c : Cache) (rc : Option (List Entry)) (ra : Option AMap) (ans : Ans) : Cache × Res × Bool :=
  match rc, ra with
  | some cc, some aa => (c, .ok aa cc, false)
  | _, _ => ((fetchStore c ans).1, (fetchStore c ans).2, true)

def getByHead (c : Cache) (ans : Ans) : Cache × Res × Bool :=
  finish c (readComplete c) (readActive c) ans

/-- does a sequential `GetByHead` ask the beacon node? (the driver consumes a scripted answer only then) -/
def willFetch (c : Cache) : Bool := !(c.complete.isSome && c.active.isSome)

/-- result, `refreshedBySlot`, number of beacon node calls. `aH` is only consulted when `aS` is an error. -/
def getBySlot (c : Cache) (aS aH : Ans) : Cache × Res × Bool × Nat :=
  match aS with
  | .err => ((fetchStore c aH).1, (fetchStore c aH).2, false, 2)
  | a => ((fetchStore c a).1, (fetchStore c a).2, true, 1)

/-! ### atomic steps of concurrent calls -/

/-- the registers of a running `GetByHead` call: `completeCached/completeOk`, `activeCached/activeOk`. -/
structure Regs where
  rc : Option (List Entry) := none
  ra : Option AMap := none
  deriving DecidableEq, Repr

structure ASt where
  c    : Cache
  regs : List (Nat × Regs)
  deriving DecidableEq, Repr

def getRegs (l : List (Nat × Regs)) (t : Nat) : Regs :=
  match l.find? (fun p => p.1 == t) with
  | some p => p.2
  | none => {}

def setRegs (l : List (Nat × Regs)) (t : Nat) (r : Regs) : List (Nat × Regs) :=
  (t, r) :: l.filter (fun p => p.1 != t)

inductive AStep where
  | trim
  | slot (aS aH : Ans)
  | r1 (t : Nat)
  | r2 (t : Nat)
  | fin (t : Nat) (ans : Ans)
  deriving DecidableEq, Repr

/-- one atomic step; the result of the call that returns in this step, if one does. -/
def astep (s : ASt) : AStep → ASt × Option Res
  | .trim => ({ s with c := s.c.trim }, none)
  | .slot aS aH => ({ s with c := (getBySlot s.c aS aH).1 }, some (getBySlot s.c aS aH).2.1)
  | .r1 t => ({ s with regs := setRegs s.regs t { getRegs s.regs t with rc := readComplete s.c } }, none)
  | .r2 t => ({ s with regs := setRegs s.regs t { getRegs s.regs t with ra := readActive s.c } }, none)
  | .fin t ans =>
    let r := getRegs s.regs t
    ({ c := (finish s.c r.rc r.ra ans).1, regs := setRegs s.regs t {} }, some (finish s.c r.rc r.ra ans).2.1)

def arun : ASt → List AStep → ASt × List Res
  | s, [] => (s, [])
  | s, x :: xs =>
    let r := astep s x
    let rest := arun r.1 xs
    (rest.1, (match r.2 with | some o => [o] | none => []) ++ rest.2)

/-- the responses the beacon node gave in the steps of a schedule (a nil `Data` map counts as the empty one). -/
def ansContent : Ans → List (List Entry)
  | .err => []
  | .nilData => [[]]
  | .ok es => [es]

def stepAnswers : AStep → List (List Entry)
  | .slot aS aH => ansContent aS ++ ansContent aH
  | .fin _ ans => ansContent ans
  | _ => []

def answersOf (xs : List AStep) : List (List Entry) := xs.flatMap stepAnswers

/-! ### the hostile caller -/

inductive Mut where
  | adel (i : Nat)            -- delete(active, i)
  | aadd (i pk : Nat)         -- active[i] = pk
  | cstat (key st : Nat)      -- complete[key].Status = st (through the shared *Validator)
  | cdel (key : Nat)          -- delete(complete, key)
  deriving DecidableEq, Repr

def Mut.onActive : Mut → Bool
  | .adel _ => true
  | .aadd _ _ => true
  | _ => false

def mutA (m : AMap) : Mut → AMap
  | .adel i => amErase m i
  | .aadd i pk => amInsert m i pk
  | _ => m

def mutC (es : List Entry) : Mut → List Entry
  | .cstat k st => es.map (fun e => if e.key == k then { e with status := st } else e)
  | .cdel k => es.filter (fun e => e.key != k)
  | _ => es

/-! ### sequential harness -/

structure St where
  c     : Cache
  liveA : Bool
  liveC : Bool
  last  : Option (List Entry)
  taint : Bool
  deriving DecidableEq, Repr

def St.init (pubkeys : List Nat) : St := ⟨Cache.init pubkeys, false, false, none, false⟩

inductive Op where
  | trim
  | head (ans : Ans)
  | peek (ans : Ans)
  | slot (aS aH : Ans)
  | mutate (m : Mut)
  deriving DecidableEq, Repr

inductive Out where
  | none
  /-- result, beacon node asked?, refreshedBySlot, number of beacon node calls -/
  | res (r : Res) (fetched refreshed : Bool) (calls : Nat)
  deriving DecidableEq, Repr

/-- bookkeeping after a call that returned `r` (`asked`: it went to the node; `keep`: the caller keeps the maps). -/
def after (cfg : Cfg) (s : St) (c' : Cache) (r : Res) (asked keep : Bool) : St :=
  match r with
  | .err _ => { s with c := c' }
  | .ok _ cc =>
    { c := c',
      liveA := if keep then !cfg.cloneOnReturn else (if asked then false else s.liveA),
      liveC := if keep then !cfg.cloneOnReturn else (if asked then false else s.liveC),
      last := if asked then some cc else s.last,
      taint := if asked then false else s.taint }

def step (cfg : Cfg) (s : St) : Op → St × Out
  | .trim => ({ c := s.c.trim, liveA := false, liveC := false, last := none, taint := false }, .none)
  | .head ans =>
    let r := getByHead s.c ans
    (after cfg s r.1 r.2.1 r.2.2 true, .res r.2.1 r.2.2 false (if r.2.2 then 1 else 0))
  | .peek ans =>
    let r := getByHead s.c ans
    (after cfg s r.1 r.2.1 r.2.2 false, .res r.2.1 r.2.2 false (if r.2.2 then 1 else 0))
  | .slot aS aH =>
    let r := getBySlot s.c aS aH
    (after cfg s r.1 r.2.1 true true, .res r.2.1 true r.2.2.1 r.2.2.2)
  | .mutate m =>
    if m.onActive then
      match s.liveA, s.c.active with
      | true, some a => ({ s with c := { s.c with active := some (mutA a m) }, taint := true }, .none)
      | _, _ => (s, .none)
    else
      match s.liveC, s.c.complete with
      | true, some es => ({ s with c := { s.c with complete := some (mutC es m) }, taint := true }, .none)
      | _, _ => (s, .none)

def run (cfg : Cfg) : St → List Op → St
  | s, [] => s
  | s, o :: os => run cfg (step cfg s o).1 os

/-- the outputs of a run -/
def outs (cfg : Cfg) : St → List Op → List Out
  | _, [] => []
  | s, o :: os => (step cfg s o).2 :: outs cfg (step cfg s o).1 os

/-- the responses named in an op list -/
def opAnswers : Op → List (List Entry)
  | .head a => ansContent a
  | .peek a => ansContent a
  | .slot aS aH => ansContent aS ++ ansContent aH
  | _ => []

/-- the beacon node honours the `id` filter of the query: it answers only validators of the cluster's list. -/
def Filtered (pubkeys : List Nat) (ops : List Op) : Prop :=
  ∀ o ∈ ops, ∀ es ∈ opAnswers o, ∀ e ∈ es, e.pk ∈ pubkeys

/-! ### what the callers do with the answer -/

/-- `httpAdapter.ActiveValidators` / `CompleteValidators`: "no active validator cache" until `SetValidatorCache`. -/
def adapterWired (wired : Bool) : Bool := wired

/-- `scheduler.resolveActiveValidators` over the complete set for `epoch`: (map key, pubkey) of the kept ones;
`none` = "validator data is nil". -/
def resolveActive (epoch : Nat) : List Entry → Option (List (Nat × Nat))
  | [] => some []
  | e :: es =>
    if e.bad != 0 then none
    else match resolveActive epoch es with
      | none => none
      | some r => if isActive e.status || e.act == epoch then some ((e.key, e.pk) :: r) else some r

end CharonV.ValCache
