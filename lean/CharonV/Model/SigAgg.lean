/-
Model of `core/sigagg/sigagg.go` (`Aggregator.Aggregate`, `aggregate`, `NewVerifier`) — executable,
core Lean only. Object abstraction, domains and the symbolic `verify` are shared with
`CharonV.Model.Admit` (`core/eth2signeddata.go`, `eth2util/signing`).

Cryptography is symbolic: `verify key domain epoch root sig` and the Lagrange combination
`combine` (`tbls.ThresholdAggregate` over the map share index → signature, presented as the list
sorted by share index; `none` = it returned an error) are parameters.
-/
import CharonV.Model.Admit

namespace CharonV.SigAgg

open CharonV.Admit (Obj VerifyFn Validator Key Sig ShareIdx Domain Epoch Root domainOf)

/-- What `aggregate` reads of one `core.ParSignedData`. -/
structure Par where
  obj       : Obj    -- content identity, type, own epoch / message root, own (partial) signature
  idx       : ShareIdx
  sigLenOk  : Bool   -- `tblsconv.SigFromCore(parSig.Signature())` succeeds (96 bytes)
  isAtt     : Bool   -- `parSig.SignedData.(core.VersionedAttestation)` succeeds
  hasValIdx : Bool   -- … and its `ValidatorIndex` is not nil
  setOk     : Bool   -- `SetSignature` succeeds on it
  deriving DecidableEq, Repr

abbrev CombineFn := List (ShareIdx × Sig) → Option Sig

inductive Err where
  | empty          -- "empty partial signed data set"
  | tooFew         -- "require threshold signatures"
  | sigBytes       -- "signature from core"
  | tooFewDistinct -- "number of partial signatures less than threshold"
  | combine        -- tbls.ThresholdAggregate failed
  | setSig         -- SetSignature failed
  | badKey         -- "pubkey from core"
  | notEth2        -- "invalid eth2 signed data"
  | objErr         -- Epoch() / MessageRoot() failed
  | zeroSig        -- "no signature found"
  | badSig         -- the aggregate does not verify under the group key
  | subErr         -- a subscriber (or the clone for it) returned an error
  deriving DecidableEq, Repr

/-- `blsSigs[parSig.ShareIdx] = sig` for every partial in order: one entry per share index, the last
one wins. (A Go map has no order: `combine` must not depend on the order of this list; the line
driver sorts it by share index before it looks the combination up.) -/
def lastWins : List (ShareIdx × Sig) → List (ShareIdx × Sig)
  | [] => []
  | e :: es => if es.any (·.1 = e.1) then lastWins es else e :: lastWins es

def sigMap (parts : List Par) : List (ShareIdx × Sig) :=
  lastWins (parts.map fun p => (p.idx, p.obj.sig))

/-- the object the aggregate signature is injected into: the first attestation that carries a
validator index, looking only at the leading run of attestations; otherwise the first partial. -/
def carrierScan : List Par → Option Par
  | [] => none
  | p :: ps => if !p.isAtt then none else if p.hasValIdx then some p else carrierScan ps

def carrier (parts : List Par) : Option Par :=
  match carrierScan parts with
  | some p => some p
  | none => parts.head?

/-- a published `core.SignedData`: the carrier's content with the aggregate signature. -/
structure Signed where
  content : Obj     -- the carrier (its `sig` field is the partial signature that gets replaced)
  sig     : Sig
  deriving DecidableEq, Repr

/-- the function returned by `NewVerifier`, applied to the carrier with the aggregate injected.
`gk`: the validator's group key (`none`: `PubkeyFromCore` fails on the map key). -/
def verifyAgg (verify : VerifyFn) (gk : Option Key) (o : Obj) (σ : Sig) : Option Err :=
  match gk with
  | none => some .badKey
  | some k =>
    match domainOf o.ty with
    | none => some .notEth2
    | some d =>
      match o.epoch, o.root with
      | some e, some r =>
        if σ = 0 then some .zeroSig else if verify k d e r σ then none else some .badSig
      | _, _ => some .objErr

/-- `(*Aggregator).aggregate` for one validator. -/
def aggregate (thr : Nat) (combine : CombineFn) (verify : VerifyFn) (gk : Option Key)
    (parts : List Par) : Except Err Signed :=
  if parts.length < thr then .error .tooFew
  else if parts.any (fun p => !p.sigLenOk) then .error .sigBytes
  else
    let m := sigMap parts
    if m.length < thr then .error .tooFewDistinct
    else
      match combine m with
      | none => .error .combine
      | some σ =>
        match carrier parts with
        | none => .error .tooFew   -- unreachable for thr ≥ 1 (`New` rejects thr ≤ 0); keeps the model total
        | some c =>
          if !c.setOk then .error .setSig
          else
            match verifyAgg verify gk c.obj σ with
            | some e => .error e
            | none => .ok { content := c.obj, sig := σ }

/-- one subscriber invocation: which subscriber, and the (cloned) output set. -/
structure Call where
  sub : Nat
  out : List (Validator × Signed)
  deriving DecidableEq, Repr

def firstErr : List (Except Err Signed) → Option Err
  | [] => none
  | .error e :: _ => some e
  | .ok _ :: rest => firstErr rest

def okOnes : List (Validator × Except Err Signed) → List (Validator × Signed)
  | [] => []
  | (v, .ok s) :: rest => (v, s) :: okOnes rest
  | (_, .error _) :: rest => okOnes rest

/-- `(*Aggregator).Aggregate`. `set`: the input map as a list (distinct validators), `gkOf`: group key
per validator, `ord`: Go's iteration order over the map, `nsub` subscribers, `failAt`: the
subscriber (0-based) whose invocation returns an error. All-or-nothing: the first validator (in
iteration order) whose aggregation fails makes the call return before any subscriber runs. -/
def aggregateAll (thr : Nat) (combine : CombineFn) (verify : VerifyFn) (gkOf : Validator → Option Key)
    (nsub : Nat) (ord : List (Validator × List Par) → List (Validator × List Par))
    (failAt : Option Nat) (set : List (Validator × List Par)) : Option Err × List Call :=
  if set.isEmpty then (some .empty, [])
  else
    let one := fun (e : Validator × List Par) => aggregate thr combine verify (gkOf e.1) e.2
    match firstErr ((ord set).map one) with
    | some e => (some e, [])
    | none =>
      match firstErr (set.map one) with
      | some e => (some e, [])
      | none =>
        let out := okOnes (set.map fun e => (e.1, one e))
        let all := (List.range nsub).map fun s => ({ sub := s, out := out } : Call)
        match failAt with
        | none => (none, all)
        | some k => if k < nsub then (some .subErr, all.take (k + 1)) else (none, all)

end CharonV.SigAgg
