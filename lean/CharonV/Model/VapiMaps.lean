/-
Model of what sits AROUND signature verification in the validator API — executable, core Lean only.

* `app/app.go` `wireCoreWorkflow`, the loop over `lock.Validators`: `allPubSharesByKey[corePubkey] = allPubShares`
  (`allPubShares[i+1] = val.PubShares[i]`, a Go map: a repeated validator key keeps the LAST entry) and
  `pubshares = append(pubshares, val.PublicShare(nodeIdx.PeerIdx))` (`v.PubShares[peerIdx]`: an index
  outside the slice is a run-time panic, not a default).
* `core/validatorapi/validatorapi.go` `NewComponent`: the four maps `sharesByKey`, `keysByShare`,
  `sharesByCoreKey`, `coreSharesByKey` filled in one loop over the Go map `allPubSharesByKey`
  (`pubshare := shares[shareIdx]` — a map read: the ZERO key when the index is absent) and the closures
  `getVerifyShareFunc`, `getPubShareFunc`, `getPubKeyFunc` (with its "mismatching validator client key
  share index" search over every share of every validator).
* `ProposerDuties`, `AttesterDuties`, `SyncCommitteeDuties`: the loop that writes `d.PubKey = pubshare`
  INTO the objects the provider (`eth2Cl.*DutiesCache` or `eth2Cl.*Duties`) handed over, early returns,
  what happens to a validator that is not in the lock (proposer: passed through unchanged; attester /
  sync: the whole call fails), which metadata is passed on (sync: none).
* `Validators` / `convertValidators`: request by public share → `getPubKeyFunc` → complete-validators cache →
  beacon node query for the rest (and for indices) → `maps.Copy` → re-keyed copies.

Keys are interned naturals; `0` is the all-zero 48-byte key (Go's zero value). "All other fields" of a duty /
validator are one opaque natural `rest`. The iteration order of the Go map in `NewComponent` is explicit: the
table is handed over as a list in iteration order (theorems quantify over every permutation).
-/
import CharonV.Model.Admit

namespace CharonV.VapiMaps

abbrev Key := Nat

/-- `cluster.DistValidator` as far as the tables read it: `PubKey`, `PubShares` (position 0 = share index 1). -/
structure LockVal where
  pubkey : Key
  shares : List Key
  deriving DecidableEq, Repr

abbrev Lock := List LockVal

/-- one entry of `allPubSharesByKey`: validator key ↦ `map[int]tbls.PublicKey` with the keys `1..len`. -/
abbrev Row := Key × List Key
abbrev Tbl := List Row

/-- `shares[i]` of the inner map built by app.go (`allPubShares[i+1] = PubShares[i]`): present iff `1 ≤ i ≤ len`. -/
def shareAt (sh : List Key) (i : Int) : Option Key :=
  if 1 ≤ i then sh[(i - 1).toNat]? else none

/-- a Go map filled by successive `m[k] = v`: an entry stays iff no later entry has the same key. -/
def lastWins : List Row → List Row
  | [] => []
  | r :: rs => if rs.any (fun x => x.1 = r.1) then lastWins rs else r :: lastWins rs

/-- app.go: `allPubSharesByKey`. -/
def appTable (L : Lock) : Tbl := lastWins (L.map fun v => (v.pubkey, v.shares))

/-- `allPubSharesByKey[pk]`. -/
def lookup (T : Tbl) (pk : Key) : Option (List Key) := (T.find? (fun r => r.1 = pk)).map (·.2)

inductive LErr where
  | unknown    -- "unknown public key" / the validator is not in the table
  | noIdx      -- the validator has no such share index ("invalid shareIdx" in parsigex)
  | mismatch   -- "mismatching validator client key share index, Mth key share submitted to Nth charon peer"
  deriving DecidableEq, Repr

/-- `allPubSharesByKey[pk][i]` as `parsigex.NewEth2Verifier` reads it (both lookups checked). -/
def allShare (T : Tbl) (pk : Key) (i : Int) : Except LErr Key :=
  match lookup T pk with
  | none => .error .unknown
  | some sh =>
    match shareAt sh i with
    | none => .error .noIdx
    | some k => .ok k

/-- the table as `CharonV.Admit` takes it (`Admit.Lock`). -/
def toAdmitLock (T : Tbl) : Admit.Lock := fun v => (lookup T v).map fun sh i => shareAt sh i

/-- `val.PublicShare(peerIdx)` = `v.PubShares[peerIdx]`; `none` = index out of range (panic). -/
def peerShare (v : LockVal) (p : Int) : Option Key :=
  if 0 ≤ p then v.shares[p.toNat]? else none

/-- app.go: the slice `pubshares` (this node's share per validator, in lock order); `none` = the loop panicked. -/
def appPubshares : Lock → Int → Option (List Key)
  | [], _ => some []
  | v :: vs, p =>
    match peerShare v p, appPubshares vs p with
    | some k, some ks => some (k :: ks)
    | _, _ => none

/-! ### `NewComponent` -/

/-- `Component` as far as the lookups go. `own`: (validator key, `shares[shareIdx]` or the zero key) in the
iteration order of the `for corePubkey, shares := range allPubSharesByKey` loop. -/
structure Comp where
  all : Tbl
  idx : Int
  own : List (Key × Key)
  deriving Repr

/-- `shares[shareIdx]` on a Go map: the zero value when absent. -/
def ownShare (sh : List Key) (idx : Int) : Key := (shareAt sh idx).getD 0

/-- `NewComponent(eth2Cl, allPubSharesByKey, shareIdx, …)`; `T` lists the map in iteration order. -/
def newComponent (T : Tbl) (idx : Int) : Comp :=
  { all := T, idx := idx, own := T.map fun r => (r.1, ownShare r.2 idx) }

/-- `getPubShareFunc` (`sharesByKey`, keyed by the validator key: the keys of a map are distinct). -/
def Comp.getPubShare (c : Comp) (pk : Key) : Option Key := (c.own.find? (fun e => e.1 = pk)).map (·.2)

/-- `getVerifyShareFunc` (`sharesByCoreKey`). -/
def Comp.getVerifyShare (c : Comp) (pk : Key) : Except LErr Key :=
  match c.getPubShare pk with
  | some s => .ok s
  | none => .error .unknown

/-- `keysByShare[share]`: filled by `keysByShare[eth2Share] = eth2Pubkey` inside the loop — the LAST assignment in
iteration order stays. -/
def Comp.keyByShare (c : Comp) (s : Key) : Option Key := (c.own.reverse.find? (fun e => e.2 = s)).map (·.1)

/-- `getPubKeyFunc`. -/
def Comp.getPubKey (c : Comp) (s : Key) : Except LErr Key :=
  match c.keyByShare s with
  | some k => .ok k
  | none => if c.all.any (fun r => r.2.contains s) then .error .mismatch else .error .unknown

/-! ### duties endpoints -/

structure Duty where
  pubkey : Key
  rest   : Nat
  deriving DecidableEq, Repr

inductive DutyKind where
  | proposer | attester | sync
  deriving DecidableEq, Repr

inductive DErr where
  | nilDuty    -- "nil proposer duty" / "attester duty cannot be nil" / "sync committee duty cannot be nil"
  | notFound   -- "pubshare not found"
  deriving DecidableEq, Repr

/-- the `for _, d := range duties` loop. The list holds the provider's objects (`none` = nil pointer); the result is
the error (if any) and the SAME objects after the writes `d.PubKey = pubshare`. -/
def swapLoop (c : Comp) (k : DutyKind) : List (Option Duty) → Option DErr × List (Option Duty)
  | [] => (none, [])
  | none :: ds => (some .nilDuty, none :: ds)
  | some d :: ds =>
    match c.getPubShare d.pubkey with
    | some s =>
      let r := swapLoop c k ds
      (r.1, some { d with pubkey := s } :: r.2)
    | none =>
      if k = .proposer then
        let r := swapLoop c k ds
        (r.1, some d :: r.2)
      else (some .notFound, some d :: ds)

structure DutiesOut where
  res    : Except DErr (List (Option Duty) × Option Nat)  -- response data (the handed slice itself) and metadata
  handed : List (Option Duty)                            -- the provider's objects after the call
  deriving Repr

/-- `ProposerDuties` / `AttesterDuties` / `SyncCommitteeDuties` after the provider answered `(ds, md)`. -/
def duties (c : Comp) (k : DutyKind) (ds : List (Option Duty)) (md : Option Nat) : DutiesOut :=
  let r := swapLoop c k ds
  match r.1 with
  | some e => { res := .error e, handed := r.2 }
  | none => { res := .ok (r.2, if k = .sync then none else md), handed := r.2 }

/-- what the response should be, object by object: everything but the key untouched, the key replaced by this node's
share when the validator is in the table. -/
def swapOne (c : Comp) (d : Duty) : Duty :=
  match c.getPubShare d.pubkey with
  | some s => { d with pubkey := s }
  | none => d

/-! ### `Validators` / `convertValidators` -/

structure Val where
  pubkey : Key
  rest   : Nat
  deriving DecidableEq, Repr

/-- `map[eth2p0.ValidatorIndex]*eth2v1.Validator` (distinct indices; `none` = nil entry / nil inner validator). -/
abbrev VMap := List (Nat × Option Val)

inductive VErr where
  | nilVal     -- "validator data cannot be nil"
  | notFound   -- "pubshare not found"
  | key (e : LErr)  -- from `getPubKeyFunc`
  deriving DecidableEq, Repr

/-- `convertValidators`; the list is the map in iteration order (it decides which error is reported when several
entries are bad). A new object per entry: nothing is written into the argument. -/
def convert (c : Comp) (ignoreNotFound : Bool) : VMap → Except VErr (List (Nat × Val))
  | [] => .ok []
  | (_, none) :: _ => .error .nilVal
  | (i, some v) :: m =>
    match c.getPubShare v.pubkey with
    | some s =>
      match convert c ignoreNotFound m with
      | .ok r => .ok ((i, { v with pubkey := s }) :: r)
      | .error e => .error e
    | none =>
      if ignoreNotFound then
        match convert c ignoreNotFound m with
        | .ok r => .ok ((i, v) :: r)
        | .error e => .error e
      else .error .notFound

/-- `for _, pubshare := range opts.PubKeys { getPubKeyFunc … }`: first error wins. -/
def resolveShares (c : Comp) : List Key → Except LErr (List Key)
  | [] => .ok []
  | s :: ss =>
    match c.getPubKey s with
    | .error e => .error e
    | .ok k =>
      match resolveShares c ss with
      | .ok ks => .ok (k :: ks)
      | .error e => .error e

/-- `maps.Copy(dst, src)`. -/
def mapsCopy (dst src : VMap) : VMap := dst.filter (fun e => !src.any (fun f => f.1 = e.1)) ++ src

/-- the cache loop: `ret[vIdx] = cachedValidators[vIdx]` for cached keys, the others are collected. -/
def splitCached (cache : List (Nat × Val)) : List Key → VMap × List Key
  | [] => ([], [])
  | k :: ks =>
    let r := splitCached cache ks
    match cache.find? (fun e => e.2.pubkey = k) with
    | some e => (mapsCopy [(e.1, some e.2)] r.1, r.2)
    | none => (r.1, k :: r.2)

structure VReq where
  pubkeys : List Key    -- `opts.PubKeys`: public SHARES, as the validator client knows them
  indices : List Nat
  deriving Repr

structure VOut where
  res     : Except VErr (List (Nat × Val))
  queries : List (List Key × List Nat)   -- `eth2Cl.Validators` calls made: (PubKeys, Indices)
  optPks  : List Key                     -- `opts.PubKeys` after the call (the caller's struct is assigned to)
  deriving Repr

/-- `Validators`. `bn pubkeys indices`: the beacon node's answer; `cache`: `CompleteValidators` (distinct keys). -/
def validators (c : Comp) (bn : List Key → List Nat → VMap) (cache : List (Nat × Val)) (q : VReq) : VOut :=
  if q.pubkeys.isEmpty && q.indices.isEmpty then
    { res := convert c true (bn [] []), queries := [([], [])], optPks := q.pubkeys }
  else
    match resolveShares c q.pubkeys with
    | .error e => { res := .error (.key e), queries := [], optPks := q.pubkeys }
    | .ok pks =>
      let sp := splitCached cache pks
      if !sp.2.isEmpty || !q.indices.isEmpty then
        { res := convert c q.indices.isEmpty (mapsCopy sp.1 (bn sp.2 q.indices)),
          queries := [(sp.2, q.indices)], optPks := sp.2 }
      else
        { res := convert c q.indices.isEmpty sp.1, queries := [], optPks := q.pubkeys }

end CharonV.VapiMaps
