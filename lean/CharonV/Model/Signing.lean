/-
Model of the signing-input computation — executable, core Lean only.

* `eth2util/signing/signing.go`: `GetDomain` (domain type from the beacon node's spec, the
  `DomainApplicationBuilder` special case → `GenesisDomain`), `GetDataRoot`
  (`hash_tree_root(SigningData{ObjectRoot, Domain})`).
* `app/eth2wrap/httpwrap.go` `(*httpAdapter).Domain`: the voluntary-exit domain type `0x04000000`
  is always computed for the network's Capella fork version (EIP-7044) via
  `eth2util.CapellaDomain` / `ComputeDomain` / `CapellaFork` (`eth2util/helper_capella.go`).
* go-eth2-client `http.(*Service).Domain`, `GenesisDomain`, `forkAtEpoch`, `forkAtGenesis`,
  `calculateDomain` (what the adapter embeds and every other domain type goes through): choice of
  the fork for an epoch from the fork schedule, previous / current version, genesis validators
  root (zero for domain type `0x00000001`), `compute_domain`.

SHA-256 and the SSZ chunk type are those of `CharonV.Model.SszSchema` (C12). As there, the 2-to-1
compression function `h` on 32-byte chunks is a parameter of the model (`sha2` = SHA-256 of the
concatenation is the instance the line driver runs and Go is compared with bit for bit): both SSZ
containers involved (`ForkData`, `SigningData`) have two 32-byte-chunk fields, so their
`hash_tree_root` is one application of `h`.
-/
import CharonV.Model.SszSchema

namespace CharonV.Signing

open CharonV.Ssz (Bytes Chunk mkChunk Sha256.hashList)

/-- SHA-256 of the concatenation of two chunks: the hasher's compression step. -/
def sha2 (a b : Chunk) : Chunk := mkChunk (Sha256.hashList (a.bytes ++ b.bytes))

/-- `signing.DomainName` constants. -/
inductive DomainName where
  | beaconProposer | beaconAttester | randao | exit | applicationBuilder | selectionProof
  | aggregateAndProof | syncCommittee | syncCommitteeSelectionProof | contributionAndProof
  | deposit | blobSidecar
  deriving DecidableEq, Repr

def DomainName.all : List DomainName :=
  [.beaconProposer, .beaconAttester, .randao, .exit, .applicationBuilder, .selectionProof,
   .aggregateAndProof, .syncCommittee, .syncCommitteeSelectionProof, .contributionAndProof,
   .deposit, .blobSidecar]

def DomainName.goString : DomainName → String
  | .beaconProposer => "DOMAIN_BEACON_PROPOSER" | .beaconAttester => "DOMAIN_BEACON_ATTESTER"
  | .randao => "DOMAIN_RANDAO" | .exit => "DOMAIN_VOLUNTARY_EXIT"
  | .applicationBuilder => "DOMAIN_APPLICATION_BUILDER" | .selectionProof => "DOMAIN_SELECTION_PROOF"
  | .aggregateAndProof => "DOMAIN_AGGREGATE_AND_PROOF" | .syncCommittee => "DOMAIN_SYNC_COMMITTEE"
  | .syncCommitteeSelectionProof => "DOMAIN_SYNC_COMMITTEE_SELECTION_PROOF"
  | .contributionAndProof => "DOMAIN_CONTRIBUTION_AND_PROOF" | .deposit => "DOMAIN_DEPOSIT"
  | .blobSidecar => "DOMAIN_BLOB_SIDECAR"

/-- `phase0.Fork`. -/
structure Fork where
  prev  : Bytes   -- PreviousVersion (4 bytes)
  cur   : Bytes   -- CurrentVersion (4 bytes)
  epoch : Nat
  deriving DecidableEq, Repr

/-- what the beacon node (and the client configuration) supplies. -/
structure Chain where
  schedule : List Fork                   -- /eth/v1/config/fork_schedule, in the order returned
  gvr      : Bytes                       -- genesis validators root (32 bytes)
  spec     : DomainName → Option Bytes   -- domain types of /eth/v1/config/spec (`none`: key absent)
  /-- `httpAdapter` only: `CapellaFork(forkVersion set by SetForkVersion)`; `some none`: the
  configured genesis fork version is no supported network; `none`: the client has no exit rule
  (a plain go-eth2-client service, the beacon mock). -/
  capella  : Option (Option Bytes)

section Hash
variable (h : Chunk → Chunk → Chunk)

/-- `hash_tree_root(ForkData{CurrentVersion, GenesisValidatorsRoot})`. -/
def forkDataRoot (version gvr : Bytes) : Chunk := h (mkChunk version) (mkChunk gvr)

/-- `compute_domain`: the 4-byte domain type followed by the first 28 bytes of the fork data root. -/
def computeDomain (domType version gvr : Bytes) : Chunk :=
  mkChunk ((domType ++ [0, 0, 0, 0]).take 4 ++ (forkDataRoot h version gvr).bytes.take 28)

/-- `hash_tree_root(SigningData{ObjectRoot, Domain})`. -/
def signingRoot (objectRoot domain : Chunk) : Chunk := h objectRoot domain

end Hash

/-- the loop of `forkAtEpoch`: `cur` is replaced by each entry in turn until one lies after `e`. -/
def scanForks (cur : Fork) : List Fork → Nat → Fork
  | [], _ => cur
  | f :: fs, e => if f.epoch > e then cur else scanForks f fs e

/-- `forkAtEpoch` (`none`: "no fork schedule returned"). -/
def forkAtEpoch (schedule : List Fork) (e : Nat) : Option Fork :=
  match schedule with
  | [] => none
  | f0 :: _ => some (scanForks f0 schedule e)

/-- the version `calculateDomain` takes from the chosen fork. -/
def Fork.versionAt (f : Fork) (e : Nat) : Bytes := if e < f.epoch then f.prev else f.cur

/-- fork version in force at epoch `e`. -/
def forkVersionAt (schedule : List Fork) (e : Nat) : Option Bytes :=
  (forkAtEpoch schedule e).map (·.versionAt e)

def zero32 : Bytes := List.replicate 32 0

/-- `calculateDomain`: the genesis validators root is left zero for domain type `0x00000001`
(application domains). -/
def gvrFor (domType gvr : Bytes) : Bytes := if domType = [0, 0, 0, 1] then zero32 else gvr

section Hash
variable (h : Chunk → Chunk → Chunk)

/-- go-eth2-client `Service.Domain`. -/
def serviceDomain (c : Chain) (domType : Bytes) (e : Nat) : Option Chunk :=
  (forkAtEpoch c.schedule e).map fun f => computeDomain h domType (f.versionAt e) (gvrFor domType c.gvr)

/-- go-eth2-client `Service.GenesisDomain`: the first schedule entry at epoch 0. -/
def genesisDomain (c : Chain) (domType : Bytes) : Option Chunk :=
  c.schedule.head?.map fun f => computeDomain h domType (f.versionAt 0) (gvrFor domType c.gvr)

/-- `eth2wrap.Client.Domain` as `GetDomain` sees it: the adapter's exit rule first. -/
def clientDomain (c : Chain) (domType : Bytes) (e : Nat) : Option Chunk :=
  match c.capella with
  | some cap =>
    if domType = [4, 0, 0, 0] then
      -- eth2util.CapellaDomain: type from spec["DOMAIN_VOLUNTARY_EXIT"], Capella version of the network
      match cap, c.spec .exit with
      | some v, some ty => some (computeDomain h ty v c.gvr)
      | _, _ => none
    else serviceDomain h c domType e
  | none => serviceDomain h c domType e

/-- `signing.GetDomain`. -/
def getDomain (c : Chain) (name : DomainName) (e : Nat) : Option Chunk :=
  match c.spec name with
  | none => none          -- "domain type not found"
  | some ty =>
    if name = .applicationBuilder then genesisDomain h c ty   -- genesis fork, whatever the epoch
    else clientDomain h c ty e

/-- `signing.GetDataRoot`: what is handed to `tbls.Verify` / signed by the validator client. -/
def getDataRoot (c : Chain) (name : DomainName) (e : Nat) (objectRoot : Bytes) : Option Chunk :=
  (getDomain h c name e).map fun d => signingRoot h (mkChunk objectRoot) d

end Hash

end CharonV.Signing
