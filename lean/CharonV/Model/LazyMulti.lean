/-
Model of the lazy beacon-node client `app/eth2wrap/lazy.go` (the wrapper every configured node of
`NewMultiHTTP` sits in), of the NON-generated methods of `app/eth2wrap/multi.go` (SetForkVersion, Address /
best-address selector, ClientForAddress, Headers, IsActive, IsSynced, SetValidatorCache, SetDutiesCache) and
of the cache family of `app/eth2wrap/httpwrap.go` as far as it decides a node's answer — executable, core
Lean only.

## The lazy client as a state machine (`Lazy`, `step`)

Go state                          | model
----------------------------------|-------------------------------------------------------------------
`l.client` (under `clientMu`)     | `client : Option Inner` (`Inner`: the client the provider returned and what was set on it)
`l.providerMu`                    | `lock : Option Nat` — the caller that holds it (it is inside `l.provider(ctx)`)
`l.valCache`                      | `val : Option Nat` (a cache function is an id)
`l.proposer/attester/syncCommDutiesCache` | `dut : Option Nat` (the three are always set together)
goroutines inside `getOrCreateClient` | `callers` — the lock holder is parked in the provider, the others spin in `for !l.providerMu.TryLock() { select { <-ctx.Done(): return ctx.Err(); <-ticker.C: } }`
—                                 | `created`, `provCalls`: ghost counters (provider successes / provider invocations)

Events (chosen by the environment, in any interleaving; a disabled event is a no-op):

* `call c k`      caller `c` enters `getOrCreateClient` through an endpoint of kind `k`: the client exists → it is
                  returned at once (no look at `ctx`); `TryLock` succeeds → second `getClient` check, then the
                  provider is called (the caller is now the lock holder); otherwise the caller spins.
* `acquire c`     a spinning caller's `TryLock` succeeds: `getClient` again — client there → unlock, return it;
                  else call the provider.
* `provOk c a s`  the provider returns a new client to lock holder `c` → `setClient` (hands `l.valCache` and — since
                  repair 83baa9b, switch `Fixes.dutiesCacheOnLateClient` — the duties caches to the new client if
                  set; never a fork version) → unlock → return.
* `provErr c`     the provider returns an error → unlock → `return nil, err` (nothing is remembered).
* `provCtx c`     the provider observes the holder's cancelled context and returns `ctx.Err()` (providers that
                  never look at the context simply never make this step).
* `cancel c`      caller `c`'s context is cancelled.
* `ctxRet c`      a cancelled spinning caller's `select` takes `<-ctx.Done()`.
* `setFork v`, `setVal v`, `setDut v`  the setters: `SetForkVersion` is dropped when no client exists; the cache
                  setters are stored in the lazy client and forwarded to the client if it exists.

After `getOrCreateClient` returned client `i` the endpoint is forwarded: `answer i k` (node version: the node's
own answer, scripted by the environment; `ActiveValidators`/`CompleteValidators`: `httpAdapter` answers from its
`valCache` or fails with "no active validator cache"; the three duties-cache endpoints likewise).

## The multi client (`Multi`)

`multi{clients, fallbacks, selector}`; setters and `IsActive`/`IsSynced` loop over `m.clients` ONLY;
`Address` = `selector.BestAddress()` (a key with the maximal count > 0, which one among equals is Go's map order)
else `m.clients[0].Address()`; `ClientForAddress`; `Headers`; a call (`Multi.call`) is `Provide.provide` over
the nodes' outcomes, each node's outcome being decided by its lazy client (`nodeOutcome`).
-/
import CharonV.Model.Provide

namespace CharonV.LazyMulti

/-- endpoint families: a node endpoint (`NodeVersion`, …: generated, selector passed), the validator cache
endpoints (`ActiveValidators`/`CompleteValidators`), the duties cache endpoints. -/
inductive Kind where
  | nv | av | pd
  deriving DecidableEq, Repr

/-- the client a provider returned (in production an `*httpAdapter`). -/
structure Inner where
  id     : Nat           -- how many clients this node's provider had returned before
  addr   : Nat           -- its `Address()` (≥ 1; 0 is the empty string)
  active : Bool
  synced : Bool
  fork   : Option Nat    -- last `SetForkVersion` through the lazy client (`none`: what the provider configured)
  val    : Option Nat    -- `valCache`
  dut    : Option Nat    -- duties caches
  deriving DecidableEq, Repr

inductive Ans where
  | node | cache (v : Nat) | nocache
  deriving DecidableEq, Repr

inductive CallRes where
  | got (k : Nat) (a : Ans)   -- client `k` was obtained, the endpoint forwarded, its answer
  | err                       -- the provider's error
  | ctxErr                    -- `ctx.Err()`
  deriving DecidableEq, Repr

structure Caller where
  id        : Nat
  kind      : Kind
  cancelled : Bool
  deriving DecidableEq, Repr

structure Lazy where
  addr      : Nat                 -- the address the provider is configured with
  client    : Option Inner
  lock      : Option Nat
  val       : Option Nat
  dut       : Option Nat
  callers   : List Caller
  created   : Nat
  provCalls : Nat
  deriving DecidableEq, Repr

def Lazy.init (addr : Nat) : Lazy :=
  { addr := addr, client := none, lock := none, val := none, dut := none, callers := [], created := 0, provCalls := 0 }

inductive LEv where
  | call (c : Nat) (k : Kind)
  | acquire (c : Nat)
  | provOk (c : Nat) (act syn : Bool)
  | provErr (c : Nat)
  | provCtx (c : Nat)
  | cancel (c : Nat)
  | ctxRet (c : Nat)
  | setFork (v : Nat)
  | setVal (v : Nat)
  | setDut (v : Nat)
  deriving DecidableEq, Repr

/-- the forwarded endpoint on an existing client. -/
def answer (i : Inner) : Kind → Ans
  | .nv => .node
  | .av => match i.val with | some v => .cache v | none => .nocache
  | .pd => match i.dut with | some v => .cache v | none => .nocache

def findCaller (l : Lazy) (c : Nat) : Option Caller := l.callers.find? (fun x => x.id == c)

def dropCaller (l : Lazy) (c : Nat) : Lazy := { l with callers := l.callers.filter (fun x => x.id != c) }

/-- Repairs of /repo as switches (`Fixes.current` = /repo now, what the correspondence stream compares against and
what every definition uses by default; `Fixes.asFound` = the code as this extension found it, only in the witness
theorems). `dutiesCacheOnLateClient`: `setClient` hands the three duties caches to the new client as well (repair
83baa9b; before it only `l.valCache` was handed over). -/
structure Fixes where
  dutiesCacheOnLateClient : Bool
  deriving DecidableEq, Repr

def Fixes.asFound : Fixes := ⟨false⟩
def Fixes.current : Fixes := ⟨true⟩

/-- `setClient`: the validator cache and (repaired) the duties caches are handed to the new client; never a fork
version. -/
def newClient (l : Lazy) (act syn : Bool) (fx : Fixes := Fixes.current) : Inner :=
  { id := l.created, addr := l.addr, active := act, synced := syn, fork := none, val := l.val,
    dut := if fx.dutiesCacheOnLateClient then l.dut else none }

def step (l : Lazy) (e : LEv) (fx : Fixes := Fixes.current) : Lazy × Option (Nat × CallRes) :=
  match e with
  | .call c k =>
    if (findCaller l c).isSome then (l, none)
    else match l.client with
      | some i => (l, some (c, .got i.id (answer i k)))
      | none =>
        match l.lock with
        | none => ({ l with lock := some c, provCalls := l.provCalls + 1,
                            callers := l.callers ++ [⟨c, k, false⟩] }, none)
        | some _ => ({ l with callers := l.callers ++ [⟨c, k, false⟩] }, none)
  | .acquire c =>
    match findCaller l c, l.lock with
    | some cl, none =>
      (match l.client with
       | some i => (dropCaller l c, some (c, .got i.id (answer i cl.kind)))
       | none => ({ l with lock := some c, provCalls := l.provCalls + 1 }, none))
    | _, _ => (l, none)
  | .provOk c act syn =>
    match findCaller l c with
    | some cl =>
      if l.lock = some c then
        let i := newClient l act syn fx
        ({ dropCaller l c with client := some i, lock := none, created := l.created + 1 },
         some (c, .got i.id (answer i cl.kind)))
      else (l, none)
    | none => (l, none)
  | .provErr c =>
    if l.lock = some c then ({ dropCaller l c with lock := none }, some (c, .err)) else (l, none)
  | .provCtx c =>
    match findCaller l c with
    | some cl =>
      if l.lock = some c ∧ cl.cancelled = true then ({ dropCaller l c with lock := none }, some (c, .ctxErr))
      else (l, none)
    | none => (l, none)
  | .cancel c =>
    ({ l with callers := l.callers.map (fun x => if x.id == c then { x with cancelled := true } else x) }, none)
  | .ctxRet c =>
    match findCaller l c with
    | some cl =>
      if l.lock ≠ some c ∧ cl.cancelled = true then (dropCaller l c, some (c, .ctxErr)) else (l, none)
    | none => (l, none)
  | .setFork v =>
    ({ l with client := l.client.map (fun i => { i with fork := some v }) }, none)
  | .setVal v =>
    ({ l with val := some v, client := l.client.map (fun i => { i with val := some v }) }, none)
  | .setDut v =>
    ({ l with dut := some v, client := l.client.map (fun i => { i with dut := some v }) }, none)

/-- run a list of events; the returns in order. -/
def run (l : Lazy) (evs : List LEv) (fx : Fixes := Fixes.current) : Lazy × List (Nat × CallRes) :=
  match evs with
  | [] => (l, [])
  | e :: es =>
    let (l1, r) := step l e fx
    let (l2, rs) := run l1 es fx
    (l2, r.toList ++ rs)

/-! ### getters of the lazy client (no client: the zero value) -/

def Lazy.isActive (l : Lazy) : Bool := match l.client with | some i => i.active | none => false
def Lazy.isSynced (l : Lazy) : Bool := match l.client with | some i => i.synced | none => false
def Lazy.address (l : Lazy) : Nat := match l.client with | some i => i.addr | none => 0
/-- `Name()`: 0 the empty string, 1 the client's name. -/
def Lazy.name (l : Lazy) : Nat := match l.client with | some _ => 1 | none => 0
/-- `Headers()`: `nil` without a client, else the client's (tagged by its address). -/
def Lazy.headers (l : Lazy) : Option Nat := l.client.map (fun i => i.addr)
/-- `ClientForAddress(addr)`: the lazy client itself without a client (`false`), else what the client returns
(the adapter returns itself: `true`). -/
def Lazy.cfaIsInner (l : Lazy) : Bool := l.client.isSome

/-! ### the multi client -/

structure Multi where
  prim : List Lazy
  fb   : List Lazy
  sel  : List (Nat × Nat)     -- `selector.counts`: address ↦ count
  deriving DecidableEq, Repr

def Multi.setFork (m : Multi) (v : Nat) : Multi := { m with prim := m.prim.map (fun l => (step l (.setFork v)).1) }
def Multi.setVal (m : Multi) (v : Nat) : Multi := { m with prim := m.prim.map (fun l => (step l (.setVal v)).1) }
def Multi.setDut (m : Multi) (v : Nat) : Multi := { m with prim := m.prim.map (fun l => (step l (.setDut v)).1) }
def Multi.isActive (m : Multi) : Bool := m.prim.any Lazy.isActive
def Multi.isSynced (m : Multi) : Bool := m.prim.any Lazy.isSynced
def Multi.headers (m : Multi) : Option Nat := match m.prim with | [] => none | l :: _ => l.headers

/-- `Increment(address)` (the one-minute reset of the counters is outside the model). -/
def incr : List (Nat × Nat) → Nat → List (Nat × Nat)
  | [], a => [(a, 1)]
  | (b, n) :: rest, a => if b = a then (b, n + 1) :: rest else (b, n) :: incr rest a

def maxCount (sel : List (Nat × Nat)) : Nat := sel.foldl (fun m p => max m p.2) 0

/-- the addresses `BestAddress` may return: those with the maximal count, if it is positive. -/
def bestCands (sel : List (Nat × Nat)) : List Nat :=
  (sel.filter (fun p => p.2 == maxCount sel && p.2 > 0)).map (·.1)

/-- `Address()`: is `a` an answer the code can give (for some map iteration order)? -/
def Multi.addressOk (m : Multi) (a : Nat) : Bool :=
  if (bestCands m.sel).isEmpty then
    match m.prim with
    | [] => false           -- `m.clients[0]` panics
    | l :: _ => a == l.address
  else (bestCands m.sel).contains a

inductive Cfa where
  | same | prim (i : Nat) | fb (j : Nat)
  deriving DecidableEq, Repr

/-- `ClientForAddress(addr)`: the first primary whose `Address()` equals it (scoped multi keeping the fallbacks),
else the first such fallback (scoped multi without fallbacks), else the multi itself. -/
def Multi.cfa (m : Multi) (a : Nat) : Cfa :=
  if a = 0 then .same
  else match m.prim.findIdx? (fun l => l.address == a) with
    | some i => .prim i
    | none => match m.fb.findIdx? (fun l => l.address == a) with
      | some j => .fb j
      | none => .same

def Multi.scoped (m : Multi) : Cfa → Multi
  | .same => m
  | .prim i => { m with prim := (m.prim[i]?).toList }
  | .fb j => { prim := (m.fb[j]?).toList, fb := [], sel := m.sel }

/-! ### a call through the multi client over lazy nodes -/

/-- what the environment decides per node for one call: does the provider (if it has to be called) return a
client, and does the node itself answer a node endpoint successfully. Failures have the call's class `ecls`. -/
structure Script where
  create : Bool
  answer : Bool
  deriving DecidableEq, Repr

/-- the lazy node `l` seen as a node of `Model/Provide.lean`: a provider failure is this node's error. -/
def nodeOutcome (l : Lazy) (k : Kind) (s : Script) (ecls : Provide.Outcome) (fx : Fixes := Fixes.current) :
    Provide.Outcome :=
  match l.client with
  | none =>
    if !s.create then ecls
    else match k with
      | .nv => if s.answer then .ok else ecls
      | .av => if l.val.isSome then .ok else .other
      | .pd => if fx.dutiesCacheOnLateClient && l.dut.isSome then .ok else .other   -- as found: never
  | some i =>
    match k with
    | .nv => if s.answer then .ok else ecls
    | .av => if i.val.isSome then .ok else .other
    | .pd => if i.dut.isSome then .ok else .other

/-- the lazy node after a call in which its worker ran (no other caller inside): created if possible. -/
def afterCall (l : Lazy) (s : Script) (fx : Fixes := Fixes.current) : Lazy :=
  match l.client with
  | some _ => l
  | none =>
    if l.lock.isSome then l
    else if s.create then (step (step l (.call 0 .nv)).1 (.provOk 0 true true) fx).1
    else (step (step l (.call 0 .nv)).1 (.provErr 0)).1

def zipScripts (ls : List Lazy) (ss : List Script) : List (Lazy × Script) :=
  ls.zip (ss ++ List.replicate (ls.length - ss.length) ⟨true, true⟩)

def scenOf (m : Multi) (k : Kind) (ecls : Provide.Outcome) (ps fs : List Script) (fx : Fixes := Fixes.current) :
    Provide.Scen :=
  { prim := (zipScripts m.prim ps).map (fun p => ⟨nodeOutcome p.1 k p.2 ecls fx, true⟩),
    fb := (zipScripts m.fb fs).map (fun p => ⟨nodeOutcome p.1 k p.2 ecls fx, true⟩),
    sf := false }

def addrOfRes (m : Multi) : Provide.Res → Option Nat
  | .okFrom false i => (m.prim[i]?).map (fun l => l.addr)
  | .okFrom true j => (m.fb[j]?).map (fun l => l.addr)
  | _ => none

/-- `multi.<Endpoint>(ctx, …)`: `provide` over the lazy nodes' outcomes with the completions in the order
`evs`; every consulted node's worker has run; a node endpoint's success increments the selector. -/
def Multi.call (m : Multi) (k : Kind) (ecls : Provide.Outcome) (ps fs : List Script) (evs : List Provide.Ev)
    (fx : Fixes := Fixes.current) : Multi × Provide.Res :=
  let sc := scenOf m k ecls ps fs fx
  let r := (Provide.provide sc evs).1
  let usedFb := Provide.usedFallback sc evs
  let prim' := (zipScripts m.prim ps).map (fun p => afterCall p.1 p.2 fx)
  let fb' := if usedFb then (zipScripts m.fb fs).map (fun p => afterCall p.1 p.2 fx) else m.fb
  let sel' := match k, addrOfRes m r with
    | .nv, some a => incr m.sel a
    | _, _ => m.sel
  ({ prim := prim', fb := fb', sel := sel' }, r)

end CharonV.LazyMulti
