/-
Model of the file / ordering / mapping logic of `eth2util/keystore` (keystore.go, load.go) — executable, core
Lean only. NOT modelled: the EIP-2335 cryptography. A keystore file is the symbolic value `Content.ks secret pw`
and `decrypt (ks s p) q = some s ↔ q = p` (the checked round-trip assumption decrypt(encrypt(s,pw),pw) = s, and: no
other password passes the EIP-2335 checksum).

Correspondence with the Go code:

* `Str`            a Go string as its list of code points (paths and names are ASCII in the correspondence stream).
* `toDec`          `fmt.Sprintf("%d", i)` for `i ≥ 0` (`toDecAux`: structural recursion on a fuel argument so that the
                   kernel can evaluate it; `Proofs.toDec_eq` is the usual defining equation).
* `skipIns`, `tailMatch`, `matchAt` / `findMatch`  the leftmost-first match of `regexp.MustCompile("keystore-(?:insecure-)?([0-9]+).json")`
                   (NOT anchored; the `.` is an unescaped "any character but \n"; `[0-9]+` is greedy and backtracks by
                   at most one digit: `keystore-12json` captures `1`), returning the capture group.
* `extractFileIndex`  `extractFileIndex` on the string it is given — in `LoadFilesUnordered` that is the FULL path
                   returned by `filepath.Glob`, directory included. `strconv.Atoi` of the digits: leading zeros are
                   dropped (`keystore-01.json` has index 1), a value `≥ 2^63` is the error "unexpected regex error".
* `globMatch`      `filepath.Match("keystore-*.json", name)` for a name without separator.
* `replaceFirst` / `pwFileOf`  `strings.Replace(keyFile, ".json", ".txt", 1)` — again on the full path: the FIRST
                   `.json` of the path is replaced, in `storePassword` and in `loadPassword` alike.
* `World`          the part of the file system below the working directory: a finite map path ↦ file content |
                   directory, as an association list; its order is the (irrelevant) listing order. `[]` is the
                   working directory itself.
* `Content`        `ks s p` an EIP-2335 keystore JSON of secret `s` under password `p`; `obj` any other JSON object
                   (`json.Unmarshal` into `Keystore` succeeds, no password decrypts it: `{}`, a cluster-lock.json);
                   `txt p` anything that does not unmarshal into `Keystore` — read as a password file it is the
                   password `p`. Secret `0` is the all-zero 32 bytes (the `zero` of `SequencedKeys`, and the key
                   `tbls.SecretToPublicKey` rejects).
* `writeFile`      `os.WriteFile` as the process owner sees it when it may overwrite (the stream runs as root: the
                   0o444 / 0o400 modes do not stop a second write): fails iff the path is a directory or its parent
                   is not one.
* `checkDir`, `storeOne` (the work function of `storeKeysInternal`), `storeAll` (every index, index order — the files
                   of different indices are different paths, their writes commute), `storeSome` (fail-fast: only a
                   subset of the work functions ran).
* `loadOne`        the work function of `LoadFilesUnordered`; `loadFilesUnordered w dir order`: `order` is the order
                   in which the results ARRIVE from `forkjoin` (each result is sent by its own goroutine over an
                   unbuffered channel: any permutation of the glob list, whatever order `filepath.Glob` lists the
                   names in — lexical: keystore-10.json before keystore-2.json); `Flatten` returns the first
                   non-cancellation error in arrival order.
* `recDecrypt`, `loadFilesRecursively`  `LoadFilesRecursively`: all `*.json` below `dir` that unmarshal, all `*.txt` as
                   passwords; own password file first, then every password (Go map order: `others`); FileIndex from an
                   atomic counter (1-based, completion order: oracle `order`). Before repair cefbe7e (`Fixes.asIs`): with
                   NO `.txt` file at all the loop body never ran, `err` stayed nil and the zero key was returned; now
                   "no password files found".
* `Fixes`          the two repairs of load.go as switches (`Fixes.current` = /repo now; `…With fx` variants of
                   `sequencedKeys` / `loadFilesRecursively`): `seenSlice` — `SequencedKeys` keeps a `seen` slice instead of
                   testing `resp[idx] != zero` (edaf179); `noPwError` (cefbe7e).
* `keys`, `sequencedKeys`, `KeyFile.hasIndex`  `KeyFiles.Keys`, `KeyFiles.SequencedKeys`, `KeyFile.HasIndex`.
* `keysharesToValidator`  `KeysharesToValidatorPubkey` (`pub` = `tbls.SecretToPublicKey`, `none` = its error; a
                   validator is its `PublicKeyHex()` as an id plus its public shares as ids). The function ranges
                   over slices only — both maps are only looked up — so there is no map-order parameter.
* `shareIdxForCluster`  `ShareIdxForCluster` given the peer ids of the lock's operators.
-/
namespace CharonV.Keystore

abbrev Str := List Char

/-! ### strings -/

def ksP : Str := ['k', 'e', 'y', 's', 't', 'o', 'r', 'e', '-']
def insP : Str := ['i', 'n', 's', 'e', 'c', 'u', 'r', 'e', '-']
def jsonW : Str := ['j', 's', 'o', 'n']
def dotJson : Str := ['.', 'j', 's', 'o', 'n']
def dotTxt : Str := ['.', 't', 'x', 't']

/-- `strings.CutPrefix`: the rest of `s` after the prefix `p`, `none` if `p` is not a prefix. -/
def stripPrefix : Str → Str → Option Str
  | [], s => some s
  | _ :: _, [] => none
  | p :: ps, c :: cs => if p = c then stripPrefix ps cs else none

def hasPrefix (p s : Str) : Bool := (stripPrefix p s).isSome

def hasSuffix (p s : Str) : Bool := hasPrefix p.reverse s.reverse

def digitChar (d : Nat) : Char := Char.ofNat (48 + d)

/-- `fmt.Sprintf("%d", n)` for a non-negative n (structural recursion on a fuel argument that always suffices, so
that the kernel can evaluate it). -/
def toDecAux : Nat → Nat → Str
  | 0, _ => []
  | f + 1, n => if n < 10 then [digitChar n] else toDecAux f (n / 10) ++ [digitChar (n % 10)]

def toDec (n : Nat) : Str := toDecAux (n + 1) n

def digitVal (c : Char) : Nat := c.toNat - 48

/-- the value of a string of ASCII digits (what `strconv.Atoi` computes when it does not overflow). -/
def parseDec (ds : Str) : Nat := ds.foldl (fun a c => a * 10 + digitVal c) 0

/-- after `keystore-(?:insecure-)?`, with `ds` the maximal run of digits (non-empty) and `rest` what follows it:
`([0-9]+).json` takes all of `ds` if one more character (not a newline) and `json` follow; otherwise it gives the
last digit back to the `.` if `json` follows the digits directly. -/
def tailMatch (ds rest : Str) : Option Str :=
  match rest with
  | c :: r =>
    if c ≠ '\n' ∧ hasPrefix jsonW r then some ds
    else if 2 ≤ ds.length ∧ hasPrefix jsonW rest then some ds.dropLast
    else none
  | [] => none

/-- `(?:insecure-)?`: taken whenever it is there (without it the next character would have to be a digit). -/
def skipIns (r : Str) : Str :=
  match stripPrefix insP r with
  | some r2 => r2
  | none => r

/-- the regular expression matched at the very start of `s`: the capture group. -/
def matchAt (s : Str) : Option Str :=
  match stripPrefix ksP s with
  | none => none
  | some r =>
    if (skipIns r).takeWhile Char.isDigit = [] then none
    else tailMatch ((skipIns r).takeWhile Char.isDigit) ((skipIns r).dropWhile Char.isDigit)

/-- leftmost match anywhere in `s` (`FindStringSubmatch`). -/
def findMatch : Str → Option Str
  | [] => none
  | c :: cs =>
    match matchAt (c :: cs) with
    | some d => some d
    | none => findMatch cs

inductive IdxRes where
  | idx (i : Int)
  | err
  deriving DecidableEq, Repr

/-- `extractFileIndex`. -/
def extractFileIndex (s : Str) : IdxRes :=
  match findMatch s with
  | none => .idx (-1)
  | some ds => if parseDec ds < 2 ^ 63 then .idx (parseDec ds) else .err

/-- `filepath.Match("keystore-*.json", name)`. -/
def globMatch (n : Str) : Bool :=
  match stripPrefix ksP n with
  | some r => hasSuffix dotJson r
  | none => false

/-- `strings.Replace(s, pat, rep, 1)` for a non-empty `pat`. -/
def replaceFirst (pat rep : Str) : Str → Str
  | [] => []
  | c :: cs =>
    match stripPrefix pat (c :: cs) with
    | some r => rep ++ r
    | none => c :: replaceFirst pat rep cs

/-- the password file of a keystore file (`storePassword`, `loadPassword`, `LoadFilesRecursively`). -/
def pwFileOf (p : Str) : Str := replaceFirst dotJson dotTxt p

/-- `path.Join(dir, name)` for a clean `dir`. -/
def join (dir name : Str) : Str := dir ++ '/' :: name

/-- the file name pattern of `StoreKeys` / `StoreKeysInsecure` at index `i`. -/
def storeName (insecure : Bool) (i : Nat) : Str :=
  ksP ++ ((if insecure then insP else []) ++ (toDec i ++ dotJson))

/-! ### the file system -/

inductive Content where
  | ks (secret pw : Nat)
  | obj
  | txt (pw : Nat)
  deriving DecidableEq, Repr

inductive Entry where
  | file (c : Content)
  | dir
  deriving DecidableEq, Repr

abbrev World := List (Str × Entry)

def lookup : World → Str → Option Entry
  | [], _ => none
  | (k, e) :: w, p => if k = p then some e else lookup w p

def erase (w : World) (p : Str) : World := w.filter (fun x => decide (x.1 ≠ p))

def write (w : World) (p : Str) (e : Entry) : World := (p, e) :: erase w p

def isDir (w : World) (p : Str) : Bool := p = [] || lookup w p = some .dir

/-- the directory part of a path (`[]` for a path without separator). -/
def parentOf (p : Str) : Str := ((p.reverse.dropWhile (· ≠ '/')).drop 1).reverse

/-- the last element of a path. -/
def baseOf (p : Str) : Str := (p.reverse.takeWhile (· ≠ '/')).reverse

def readFile (w : World) (p : Str) : Option Content :=
  match lookup w p with
  | some (.file c) => some c
  | _ => none

def writeFile (w : World) (p : Str) (c : Content) : Option World :=
  if lookup w p = some .dir then none
  else if isDir w (parentOf p) then some (write w p (.file c))
  else none

/-- `json.Unmarshal(b, &store)` succeeds. -/
def Content.unmarshals : Content → Bool
  | .ks _ _ => true
  | .obj => true
  | .txt _ => false

/-- the file's bytes as a password string: only a `txt p` is a password of anything. -/
def Content.asPassword : Content → Option Nat
  | .txt p => some p
  | _ => none

/-- `decrypt(store, password)`: the stored secret iff the password is the one it was encrypted with. -/
def decrypt (c : Content) (pw : Option Nat) : Option Nat :=
  match c, pw with
  | .ks s p, some q => if p = q then some s else none
  | _, _ => none

inductive DirErr where
  | notExist
  | notDir
  deriving DecidableEq, Repr

/-- `checkDir`. -/
def checkDir (w : World) (dir : Str) : Option DirErr :=
  if dir = [] then none
  else match lookup w dir with
    | none => some .notExist
    | some (.file _) => some .notDir
    | some .dir => none

/-! ### storing -/

inductive StoreErr where
  | dirNotExist
  | dirNotDir
  | encrypt          -- tbls.SecretToPublicKey(secret) fails: "encryption error: marshal pubkey"
  | writeKeystore    -- os.WriteFile(filename)
  | storePassword    -- os.WriteFile(passwordFile)
  deriving DecidableEq, Repr

/-- the work function of `storeKeysInternal` for index `i`: the world it leaves and its error. -/
def storeOne (w : World) (dir : Str) (insecure : Bool) (i secret pw : Nat) : World × Option StoreErr :=
  let filename := join dir (storeName insecure i)
  if secret = 0 then (w, some .encrypt)
  else match writeFile w filename (.ks secret pw) with
    | none => (w, some .writeKeystore)
    | some w1 =>
      match writeFile w1 (pwFileOf filename) (.txt pw) with
      | none => (w1, some .storePassword)
      | some w2 => (w2, none)

/-- the work functions of the indices `i, i+1, …` for which `ran` holds, in index order, with the errors they return. -/
def storeFrom (dir : Str) (insecure : Bool) (ran : Nat → Bool) :
    World → Nat → List (Nat × Nat) → World × List (Nat × StoreErr)
  | w, _, [] => (w, [])
  | w, i, (s, p) :: rest =>
    if ran i then
      let r := storeOne w dir insecure i s p
      let t := storeFrom dir insecure ran r.1 (i + 1) rest
      (t.1, match r.2 with | some e => (i, e) :: t.2 | none => t.2)
    else storeFrom dir insecure ran w (i + 1) rest

/-- `storeKeysInternal` when only the work functions in `ran` were executed (fail-fast skips the others). -/
def storeSome (w : World) (dir : Str) (insecure : Bool) (secrets pws : List Nat) (ran : Nat → Bool) :
    World × List (Nat × StoreErr) :=
  storeFrom dir insecure ran w 0 (secrets.zip pws)

/-- `StoreKeys` (`insecure = false`) / `StoreKeysInsecure` with the fresh random passwords `pws`, every work function
executed: the resulting world, and `none` on success / an error (here: that of the lowest failing index; the real
`Flatten` reports the first one to arrive — the correspondence driver checks the reported class against `storeSome`). -/
def storeKeys (w : World) (dir : Str) (insecure : Bool) (secrets pws : List Nat) : World × Option StoreErr :=
  match checkDir w dir with
  | some .notExist => (w, some .dirNotExist)
  | some .notDir => (w, some .dirNotDir)
  | none =>
    let r := storeSome w dir insecure secrets pws (fun _ => true)
    (r.1, (r.2.head?).map (·.2))

/-! ### loading -/

/-- the two repairs of load.go (commits cefbe7e, edaf179 in /repo); `Fixes.current` is the code as it is in /repo now,
`Fixes.asIs` the code before them. -/
structure Fixes where
  /-- edaf179: `SequencedKeys` marks used indices in a separate `seen` slice instead of comparing the slot with the zero key -/
  seenSlice : Bool
  /-- cefbe7e: the work function of `LoadFilesRecursively` fails with "no password files found" when `passwordsMap` is empty -/
  noPwError : Bool
  deriving DecidableEq, Repr

def Fixes.asIs : Fixes := ⟨false, false⟩
def Fixes.current : Fixes := ⟨true, true⟩

structure KeyFile where
  secret : Nat
  filename : Str
  fileIndex : Int
  deriving DecidableEq, Repr

/-- `KeyFile.HasIndex`. -/
def KeyFile.hasIndex (k : KeyFile) : Bool := k.fileIndex ≠ -1

inductive LoadErr where
  | noKeys
  | readFile
  | unmarshal
  | loadPassword
  | decrypt
  | extractIndex
  | walk
  | noPasswordFiles   -- "no password files found" (LoadFilesRecursively, repaired)
  deriving DecidableEq, Repr

/-- the names directly inside `dir`: `n` with `dir/n` in the world, `n` non-empty and without separator. -/
def childName (dir p : Str) : Option Str :=
  match stripPrefix (dir ++ ['/']) p with
  | some n => if n ≠ [] ∧ '/' ∉ n then some n else none
  | none => none

/-- `filepath.Glob(path.Join(dir, "keystore-*.json"))` as a set, in the world's listing order (directories match too). -/
def glob (w : World) (dir : Str) : List Str :=
  (w.filter (fun x => match childName dir x.1 with
    | some n => globMatch n
    | none => false)).map (·.1)

/-- the work function of `LoadFilesUnordered`. -/
def loadOne (w : World) (filename : Str) : Except LoadErr KeyFile :=
  match readFile w filename with
  | none => .error .readFile
  | some c =>
    if !c.unmarshals then .error .unmarshal
    else match readFile w (pwFileOf filename) with
      | none => .error .loadPassword
      | some pc =>
        match decrypt c pc.asPassword with
        | none => .error .decrypt
        | some s =>
          match extractFileIndex filename with
          | .err => .error .extractIndex
          | .idx i => .ok ⟨s, filename, i⟩

/-- `Flatten` over the results in arrival order: all outputs, or the first error. -/
def collect : List (Except LoadErr KeyFile) → Except LoadErr (List KeyFile)
  | [] => .ok []
  | .error e :: _ => .error e
  | .ok k :: rest =>
    match collect rest with
    | .ok ks => .ok (k :: ks)
    | .error e => .error e

/-- `LoadFilesUnordered(dir)`; `order` is the arrival order of the results, a permutation of `glob w dir`. -/
def loadFilesUnordered (w : World) (_dir : Str) (order : List Str) : Except LoadErr (List KeyFile) :=
  if order = [] then .error .noKeys else collect (order.map (loadOne w))

/-- `KeyFiles.Keys`. -/
def keys (k : List KeyFile) : List Nat := k.map (·.secret)

inductive SeqErr where
  | unknownIndex
  | outOfSequence
  | duplicate
  deriving DecidableEq, Repr

/-- the loop of `SequencedKeys` over the remaining files; `n = len(k)`, `resp` the slice being filled, `seen` the slice
of used indices (repaired code; the unrepaired code tests `resp[idx] != zero` instead). -/
def seqLoop (fx : Fixes) (n : Nat) : List KeyFile → List Nat → List Bool → Except SeqErr (List Nat)
  | [], resp, _ => .ok resp
  | ks :: rest, resp, seen =>
    if !ks.hasIndex then .error .unknownIndex
    else if ks.fileIndex < 0 ∨ ks.fileIndex ≥ n then .error .outOfSequence
    else if (if fx.seenSlice then seen.getD ks.fileIndex.toNat false else decide (resp.getD ks.fileIndex.toNat 0 ≠ 0)) then
      .error .duplicate
    else seqLoop fx n rest (resp.set ks.fileIndex.toNat ks.secret) (seen.set ks.fileIndex.toNat true)

/-- `KeyFiles.SequencedKeys` under a choice of repairs. -/
def sequencedKeysWith (fx : Fixes) (k : List KeyFile) : Except SeqErr (List Nat) :=
  seqLoop fx k.length k (List.replicate k.length 0) (List.replicate k.length false)

/-- `KeyFiles.SequencedKeys` as it is in /repo. -/
def sequencedKeys (k : List KeyFile) : Except SeqErr (List Nat) := sequencedKeysWith Fixes.current k

/-- the files `filepath.Walk(dir)` visits: `dir` itself if it is a file, everything below it otherwise. -/
def isUnder (dir p : Str) : Bool := p = dir || hasPrefix (dir ++ ['/']) p

def filesUnder (w : World) (dir : Str) : List (Str × Content) :=
  w.filterMap (fun x => match x.2 with
    | .file c => if isUnder dir x.1 then some (x.1, c) else none
    | .dir => none)

/-- step 2 of `LoadFilesRecursively`: the `*.json` files that unmarshal. -/
def validFiles (w : World) (dir : Str) : List (Str × Content) :=
  (filesUnder w dir).filter (fun x => hasSuffix dotJson (baseOf x.1) && x.2.unmarshals)

/-- step 3: the `*.txt` files (that are not `*.json`), as path ↦ password. -/
def passwordFiles (w : World) (dir : Str) : List (Str × Option Nat) :=
  ((filesUnder w dir).filter (fun x => !hasSuffix dotJson (baseOf x.1) && hasSuffix dotTxt (baseOf x.1))).map
    (fun x => (x.1, x.2.asPassword))

/-- "Try other passwords": `for _, otherPassword := range passwordsMap`, `failed` = `err != nil` so far. -/
def tryOthers (c : Content) : List (Option Nat) → Bool → Except Unit Nat
  | [], failed => if failed then .error () else .ok 0
  | p :: ps, _ =>
    match decrypt c p with
    | some s => .ok s
    | none => tryOthers c ps true

inductive RecErr where
  | decrypt        -- "keystore decryption"
  | noPasswords    -- "no password files found"
  deriving DecidableEq, Repr

/-- the branch `if !ok || err != nil { … }` of the work function: with the repair an empty `passwordsMap` is an error
before the loop; `failed` = `err != nil` so far. -/
def recRest (fx : Fixes) (c : Content) (others : List (Option Nat)) (failed : Bool) : Except RecErr Nat :=
  if fx.noPwError && others.isEmpty then .error .noPasswords
  else match tryOthers c others failed with
    | .ok s => .ok s
    | .error _ => .error .decrypt

/-- the decryption part of the work function of `LoadFilesRecursively`: `own` the content of the matching password
file if there is one, `others` all passwords in Go map order. -/
def recDecrypt (fx : Fixes) (c : Content) (own : Option (Option Nat)) (others : List (Option Nat)) : Except RecErr Nat :=
  match own with
  | some p =>
    match decrypt c p with
    | some s => .ok s
    | none => recRest fx c others true
  | none => recRest fx c others false

def lookupPw : List (Str × Option Nat) → Str → Option (Option Nat)
  | [], _ => none
  | (k, v) :: r, p => if k = p then some v else lookupPw r p

def recOne (fx : Fixes) (pws : List (Str × Option Nat)) (f : Str × Content) (index : Nat) : Except LoadErr KeyFile :=
  match recDecrypt fx f.2 (lookupPw pws (pwFileOf f.1)) (pws.map (·.2)) with
  | .error .decrypt => .error .decrypt
  | .error .noPasswords => .error .noPasswordFiles
  | .ok s => .ok ⟨s, f.1, index⟩

/-- `LoadFilesRecursively(dir)` under a choice of repairs; `order` = the valid files in arrival order, each with the
value the atomic counter had for it (a permutation of `validFiles w dir` with the indices `1 … n` in some order). -/
def loadFilesRecursivelyWith (fx : Fixes) (w : World) (dir : Str) (order : List ((Str × Content) × Nat)) :
    Except LoadErr (List KeyFile) :=
  if dir ≠ [] ∧ lookup w dir = none then .error .walk
  else collect (order.map (fun x => recOne fx (passwordFiles w dir) x.1 x.2))

/-- `LoadFilesRecursively(dir)` as it is in /repo. -/
def loadFilesRecursively (w : World) (dir : Str) (order : List ((Str × Content) × Nat)) :
    Except LoadErr (List KeyFile) :=
  loadFilesRecursivelyWith Fixes.current w dir order

/-! ### mapping shares to validators -/

structure Validator where
  pubkey : Nat
  pubshares : List Nat
  deriving DecidableEq, Repr

abbrev Lock := List Validator

inductive MapErr where
  | dupPubShare                 -- "public key share appears in more than one validator in the cluster lock"
  | badShare (shareIdx : Nat)   -- "private share to public share"
  | notFound (shareIdx : Nat)   -- "… not found in provided lock"
  | multiple (shareIdx : Nat)   -- "multiple provided private key shares resolve to the same validator"
  deriving DecidableEq, Repr

def mlookup : List (Nat × Nat) → Nat → Option Nat
  | [], _ => none
  | (k, v) :: r, p => if k = p then some v else mlookup r p

/-- the inner loop over one validator's public shares; `m` is `shareToValidator` (newest binding first). -/
def addShares (val : Nat) : List Nat → List (Nat × Nat) → Option (List (Nat × Nat))
  | [], m => some m
  | p :: ps, m =>
    match mlookup m p with
    | some existing => if existing ≠ val then none else addShares val ps ((p, val) :: m)
    | none => addShares val ps ((p, val) :: m)

/-- the first loop of `KeysharesToValidatorPubkey`. -/
def buildShareMap : Lock → List (Nat × Nat) → Option (List (Nat × Nat))
  | [], m => some m
  | v :: vs, m =>
    match addShares v.pubkey v.pubshares m with
    | none => none
    | some m' => buildShareMap vs m'

structure IndexedKeyShare where
  share : Nat
  index : Nat
  deriving DecidableEq, Repr

def rlookup : List (Nat × IndexedKeyShare) → Nat → Option IndexedKeyShare
  | [], _ => none
  | (k, v) :: r, p => if k = p then some v else rlookup r p

/-- the second loop; `ret` in insertion order (oldest first), `i` the 0-based position in `shares`. -/
def mapShares (pub : Nat → Option Nat) (m : List (Nat × Nat)) :
    List Nat → Nat → List (Nat × IndexedKeyShare) → Except MapErr (List (Nat × IndexedKeyShare))
  | [], _, ret => .ok ret
  | s :: ss, i, ret =>
    match pub s with
    | none => .error (.badShare i)
    | some p =>
      match mlookup m p with
      | none => .error (.notFound i)
      | some val =>
        match rlookup ret val with
        | some _ => .error (.multiple i)
        | none => mapShares pub m ss (i + 1) (ret ++ [(val, ⟨s, i + 1⟩)])

/-- `KeysharesToValidatorPubkey(lock, shares)`: validator ↦ (share, position in `shares` + 1), insertion order. -/
def keysharesToValidator (pub : Nat → Option Nat) (lock : Lock) (shares : List Nat) :
    Except MapErr (List (Nat × IndexedKeyShare)) :=
  match buildShareMap lock [] with
  | none => .error .dupPubShare
  | some m => mapShares pub m shares 0 []

/-- `ShareIdxForCluster`: `pids` the lock's peer ids, `key` the peer id of the identity key; `NodeIdx(pid)` is the
first position of `pid`, its `ShareIdx` that position + 1. `none` = "node index … not found". -/
def firstIdx (pids : List Nat) (pid : Nat) : Option Nat :=
  match pids.findIdx? (· = pid) with
  | some i => some i
  | none => none

def shareIdxLoop (all : List Nat) (key : Nat) : List Nat → Option Nat → Option Nat
  | [], acc => acc
  | pid :: rest, acc =>
    if pid ≠ key then shareIdxLoop all key rest acc
    else match firstIdx all pid with
      | some i => shareIdxLoop all key rest (some (i + 1))
      | none => none   -- "cluster node idx" error: cannot happen, pid ∈ all

def shareIdxForCluster (pids : List Nat) (key : Nat) : Option Nat := shareIdxLoop pids key pids none

end CharonV.Keystore
