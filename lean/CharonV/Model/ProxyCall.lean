/-
Model of `multi.Proxy` (`app/eth2wrap/multi.go`) — the one endpoint of the multi client that is not
generated and that handles a request body — and of the node kinds of the lazy / http client path
(`NewMultiHTTP`, `lazy.getOrCreateClient`, `eth2wrap.go`). Executable, core Lean only.

`Proxy` is a provide-style call (`provide(ctx, m.clients, m.fallbacks, work, nil, nil)`), so the
scenario / event model of `CharonV.Model.Provide` is reused unchanged. What is specific to it is the
request body. An `io.ReadCloser` is a *cursor*: Go values that hold the same reader share the
position. The model therefore has a heap of readers and requests hold reader ids:

    if req.Body != nil {                                    -- `prepare`
        b, err := io.ReadAll(req.Body)                      -- drains the caller's reader
        if err != nil { return nil, wrap(err) }             -- `.readErr`, no node consulted
        _ = req.Body.Close()
        bodyBytes, hasBody = b, true
        req.Body = io.NopCloser(bytes.NewReader(bodyBytes)) -- a new reader ("for safety")
        req.ContentLength = int64(len(bodyBytes)); req.GetBody = ...
    }
    provide(..., func(ctx, args) {                          -- `cloneFor`, once per consulted node
        cloned := req.Clone(ctx)                            -- copies the *reference* req.Body
        if hasBody { cloned.Body = io.NopCloser(bytes.NewReader(bodyBytes)); ... }   -- a new reader per node
        else       { cloned.Body = nil }
        return args.client.Proxy(ctx, cloned) }, nil, nil)
-/
import CharonV.Model.Provide

namespace CharonV.Provide

/-- an `io.ReadCloser` over a byte slice. -/
structure Reader where
  data   : List Nat
  /-- bytes delivered so far -/
  pos    : Nat
  /-- `Read` fails once this many bytes were delivered (a broken caller connection); `none`: never -/
  failAt : Option Nat
  /-- number of `Close` calls -/
  closes : Nat
  deriving DecidableEq, Repr

/-- all readers ever created; a reader value held by a request is an index. -/
abbrev Heap := List Reader

/-- `io.NopCloser(bytes.NewReader(b))` -/
def freshReader (b : List Nat) : Reader := { data := b, pos := 0, failAt := none, closes := 0 }

def alloc (h : Heap) (b : List Nat) : Heap × Nat := (h ++ [freshReader b], h.length)

/-- `io.ReadAll(r)`: the bytes from the cursor to the end (or to the failure offset) and whether
reading failed; the cursor moves. A dangling id reads as empty. -/
def readAll (h : Heap) (id : Nat) : Heap × List Nat × Bool :=
  match h[id]? with
  | none => (h, [], false)
  | some r =>
    match r.failAt with
    | some k =>
      let stop := max r.pos k
      (h.set id { r with pos := stop }, (r.data.drop r.pos).take (stop - r.pos), true)
    | none =>
      (h.set id { r with pos := max r.pos r.data.length }, r.data.drop r.pos, false)

def closeReader (h : Heap) (id : Nat) : Heap :=
  match h[id]? with
  | none => h
  | some r => h.set id { r with closes := r.closes + 1 }

/-- the parts of an `*http.Request` that `multi.Proxy` touches. -/
structure Req where
  post    : Bool                 -- method: POST / GET (never inspected)
  body    : Option Nat           -- `Body`: a reader id, or nil
  clen    : Nat                  -- `ContentLength`
  getBody : Option (List Nat)    -- `GetBody`: the bytes a fresh reader would be created over, or nil
  deriving DecidableEq, Repr

/-- a consulted node: (fallback?, index). -/
abbrev Key := Bool × Nat

/-- first part of `Proxy`: buffer the caller's body. `none`: reading failed. Otherwise the heap, the
caller's request as modified, and `bodyBytes` (`none` iff `hasBody = false`). -/
def prepare (h : Heap) (req : Req) : Heap × Option (Req × Option (List Nat)) :=
  match req.body with
  | none => (h, some (req, none))
  | some rid =>
    match readAll h rid with
    | (h1, _, true) => (h1, none)
    | (h1, b, false) =>
      let h2 := closeReader h1 rid
      let (h3, r0) := alloc h2 b
      (h3, some ({ req with body := some r0, clen := b.length, getBody := some b }, some b))

/-- the request a node's work function hands to `client.Proxy`. -/
def cloneFor (h : Heap) (req : Req) (bb : Option (List Nat)) : Heap × Req :=
  match bb with
  | some b =>
    let (h', id) := alloc h b
    (h', { req with body := some id, clen := b.length, getBody := some b })
  | none => (h, { req with body := none })

/-- the work function is started once per consulted node. -/
def handOut (h : Heap) (req : Req) (bb : Option (List Nat)) : List Key → Heap × List (Key × Req)
  | [] => (h, [])
  | k :: ks =>
    let (h1, r) := cloneFor h req bb
    let (h2, rest) := handOut h1 req bb ks
    (h2, (k, r) :: rest)

/-- the nodes whose work function is started: every primary, and every fallback iff the call moves
on to the fallbacks (one forkjoin worker per node, so nobody waits for a free worker). -/
def consulted (sc : Scen) (evs : List Ev) : List Key :=
  (List.range sc.prim.length).map (fun i => (false, i)) ++
  (if usedFallback sc evs then (List.range sc.fb.length).map (fun i => (true, i)) else [])

inductive PRes where
  /-- `errors.Wrap(err, "read request body")` -/
  | readErr
  | ret (r : Res)
  deriving DecidableEq, Repr

structure PRun where
  res      : PRes
  consumed : Nat
  usedFb   : Bool
  /-- the request handed to each consulted node -/
  handed   : List (Key × Req)
  heap     : Heap
  /-- the caller's request after the call -/
  req      : Req
  deriving DecidableEq, Repr

/-- `multi.Proxy(ctx, req)` for the scenario `sc` and the events `evs`. `isSuccessFunc` is nil:
every error-free response counts as a success. -/
def proxy (sc : Scen) (evs : List Ev) (h : Heap) (req : Req) : PRun :=
  match prepare h req with
  | (h1, none) =>
    { res := .readErr, consumed := 0, usedFb := false, handed := [], heap := h1, req := req }
  | (h1, some (req1, bb)) =>
    let sc0 : Scen := { sc with sf := false }
    let r := provide sc0 evs
    let (h2, handed) := handOut h1 req1 bb (consulted sc0 evs)
    { res := .ret r.1, consumed := r.2, usedFb := usedFallback sc0 evs, handed := handed,
      heap := h2, req := req1 }

/-- the nodes in `ord` read their request body to the end, in this order (a transport sending the
request); `none`: the request has no body. -/
def nodesRead (h : Heap) : List (Key × Req) → Heap × List (Key × Option (List Nat))
  | [] => (h, [])
  | (k, rq) :: rest =>
    match rq.body with
    | none =>
      let (h', out) := nodesRead h rest
      (h', (k, none) :: out)
    | some id =>
      let (h1, b, _) := readAll h id
      let (h', out) := nodesRead h1 rest
      (h', (k, some b) :: out)

/-! ### The lazy / http path: node kinds and the event order they induce

A node of `NewMultiHTTP` is a lazy client: its first use creates the http service (`eth2http.New`
pings the node with the worker's context), later uses go to the service. Every step takes the
worker's context, so the worker honours cancellation (`hon = true`). `httpEvents` lists the
completions of a call in the order wall-clock time puts them for the scenario shapes the harness
generates (caller's cancel delay < slow node's delay < node timeout): unreachable nodes fail at once
("client is not active": an unavailability error), healthy ones answer, then the caller cancels (if
it does), slow nodes answer, hung nodes run into the node timeout (unavailability). The fallbacks'
quick completions come before the cancellation only if no primary keeps the call in the first stage
until then. -/

inductive Kind where
  | healthy | hung | dead | slow
  deriving DecidableEq, Repr

def Kind.node : Kind → Node
  | .healthy => ⟨.ok, true⟩
  | .slow => ⟨.ok, true⟩
  | .hung => ⟨.timeout, true⟩
  | .dead => ⟨.timeout, true⟩

def httpScen (p f : List Kind) : Scen := { prim := p.map Kind.node, fb := f.map Kind.node, sf := false }

/-- completions of the nodes of kind `k` in group `fb`, by index. -/
def relsOf (fb : Bool) (ks : List Kind) (k : Kind) : List Ev :=
  ((List.range ks.length).filter (fun i => ks[i]? == some k)).map (fun i => Ev.rel fb i)

def httpEvents (p f : List Kind) (cancel : Bool) : List Ev :=
  let quick (fb : Bool) (ks : List Kind) := relsOf fb ks .dead ++ relsOf fb ks .healthy
  let held := p.any (fun k => k == .hung || k == .slow)
  quick false p ++ (if held then [] else quick true f) ++ (if cancel then [Ev.cancel] else []) ++
  relsOf false p .slow ++ relsOf false p .hung ++ quick true f ++ relsOf true f .slow ++ relsOf true f .hung

end CharonV.Provide
